// Package http3 is a build stub used only by the /verif harnesses: quic-go v0.27.2
// refuses to compile with the installed Go toolchain, and none of the monitored
// properties involves HTTP/3.  The real code path (spec.http3=true) is never taken.
package http3

import (
	"errors"
	"net/http"
)

// Server mirrors the two members of quic-go's http3.Server that easegress uses.
type Server struct {
	*http.Server
}

// ListenAndServe always fails: HTTP/3 is not available in the verification build.
func (s *Server) ListenAndServe() error { return errors.New("http3 stub: not supported") }

// Close is a no-op.
func (s *Server) Close() error { return nil }
