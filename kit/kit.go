// Package kit is the shared monitor library of the /verif harnesses: seeded PRNG
// streams, case log (flushed before a case runs so that a fatal runtime error can be
// attributed), coverage-signature counting, violation records and the per-part
// summary the ./check driver folds into /verif/evidence/<ID>.json.
//
// A harness part is one Go test function.  Usage:
//
//	r := kit.Start(t, "C12")
//	defer r.Finish()
//	for i := 0; i < r.N(400, 16000); i++ {
//		if !r.Mine(i) { continue }          // sharding + replay filter
//		rng := r.CaseRand(i)                 // PRNG is a pure function of (seed, part, i)
//		r.Case(i, desc)                      // logged before the case executes
//		... run real code, compare with oracle ...
//		r.Cover("sig")                       // distinct non-trivial coverage signature
//		r.Violation("sig", detail)           // oracle refuted the property on this case
//	}
//	r.Require("cache_hits", 1)              // observation that must be present, else inconclusive
package kit

import (
	"crypto/sha1"
	"encoding/binary"
	"encoding/hex"
	"encoding/json"
	"fmt"
	"math/rand"
	"os"
	"path/filepath"
	"runtime/debug"
	"sort"
	"strconv"
	"strings"
	"sync"
	"testing"
	"time"
)

// Violation is one refutation of the property.
type Violation struct {
	Sig    string      `json:"sig"`
	Case   int         `json:"case"`
	Detail interface{} `json:"detail"`
}

// Summary is what a part writes at Finish.
type Summary struct {
	Property     string           `json:"property"`
	Part         string           `json:"part"`
	Shard        int              `json:"shard"`
	Shards       int              `json:"shards"`
	Seed         int64            `json:"seed"`
	Tier         string           `json:"tier"`
	Evaluations  int              `json:"evaluations"`
	Cover        map[string]int   `json:"cover"`
	Counters     map[string]int64 `json:"counters"`
	Samples      []interface{}    `json:"samples"`
	Violations   []Violation      `json:"violations"`
	Inconclusive []string         `json:"inconclusive"`
	Notes        []string         `json:"notes"`
	Rule         string           `json:"rule"`
	Assumptions  []string         `json:"assumptions"`
	Exhaustive   bool             `json:"exhaustive"`
	WallS        float64          `json:"wall_s"`
	Done         bool             `json:"done"`
}

// Run is the state of one harness part.
type Run struct {
	t        testing.TB
	mu       sync.Mutex
	sum      Summary
	start    time.Time
	outDir   string
	last     *os.File
	only     int // replay: only this case index (-1 = all)
	maxViol  int
	curCase  int
	requires map[string]int64
	finished bool
}

func envInt(k string, d int64) int64 {
	if v := os.Getenv(k); v != "" {
		if n, err := strconv.ParseInt(v, 10, 64); err == nil {
			return n
		}
	}
	return d
}

// Start begins a part.  The part name is the test function name.
func Start(t testing.TB, property string) *Run {
	r := &Run{t: t, start: time.Now(), only: -1, maxViol: 400, requires: map[string]int64{}}
	r.sum.Property = property
	r.sum.Part = strings.ReplaceAll(t.Name(), "/", "_")
	r.sum.Seed = envInt("VERIF_SEED", 1)
	r.sum.Tier = os.Getenv("VERIF_TIER")
	if r.sum.Tier != "thorough" {
		r.sum.Tier = "quick"
	}
	r.sum.Shard = int(envInt("VERIF_SHARD", 0))
	r.sum.Shards = int(envInt("VERIF_SHARDS", 1))
	if r.sum.Shards < 1 {
		r.sum.Shards = 1
	}
	r.sum.Cover = map[string]int{}
	r.sum.Counters = map[string]int64{}
	r.outDir = os.Getenv("VERIF_OUT")
	if r.outDir == "" {
		r.outDir = os.TempDir()
	}
	if v := os.Getenv("VERIF_ONLY"); v != "" {
		// format "<part>:<case>"
		if i := strings.LastIndex(v, ":"); i >= 0 && v[:i] == r.sum.Part {
			if n, err := strconv.Atoi(v[i+1:]); err == nil {
				r.only = n
			}
		} else {
			r.only = -2 // another part is being replayed: nothing is mine
		}
	}
	os.MkdirAll(r.outDir, 0o755)
	f, err := os.OpenFile(filepath.Join(r.outDir, r.fileBase()+".lastcase"), os.O_CREATE|os.O_WRONLY|os.O_TRUNC, 0o644)
	if err == nil {
		r.last = f
	}
	return r
}

func (r *Run) fileBase() string {
	return fmt.Sprintf("%s.%d", r.sum.Part, r.sum.Shard)
}

// Seed returns the run seed.
func (r *Run) Seed() int64 { return r.sum.Seed }

// Thorough tells whether the thorough tier is selected.
func (r *Run) Thorough() bool { return r.sum.Tier == "thorough" }

// N picks the case count for the tier.
func (r *Run) N(quick, thorough int) int {
	if r.Thorough() {
		return thorough
	}
	return quick
}

// TmpDir returns a scratch directory private to this part (under VERIF_TMP).
func (r *Run) TmpDir() string {
	base := os.Getenv("VERIF_TMP")
	if base == "" {
		base = os.TempDir()
	}
	d := filepath.Join(base, r.fileBase())
	os.MkdirAll(d, 0o755)
	return d
}

// Mine tells whether case i belongs to this shard (and to the replay filter).
func (r *Run) Mine(i int) bool {
	if r.only != -1 {
		return i == r.only
	}
	return i%r.sum.Shards == r.sum.Shard
}

// Replaying tells whether a single case is being replayed.
func (r *Run) Replaying() bool { return r.only != -1 }

// CaseRand returns a PRNG that is a pure function of (seed, part, i).
func (r *Run) CaseRand(i int) *rand.Rand {
	return r.Rand(fmt.Sprintf("case/%d", i))
}

// Rand returns a PRNG for a named stream, a pure function of (seed, part, stream).
func (r *Run) Rand(stream string) *rand.Rand {
	h := sha1.Sum([]byte(fmt.Sprintf("%d|%s|%s", r.sum.Seed, r.sum.Part, stream)))
	return rand.New(rand.NewSource(int64(binary.LittleEndian.Uint64(h[:8]))))
}

// Case marks the start of case i.  The description is written out (unbuffered) before
// the case runs, so a process-fatal error is attributable by the driver.
func (r *Run) Case(i int, desc interface{}) {
	r.mu.Lock()
	r.sum.Evaluations++
	r.curCase = i
	r.mu.Unlock()
	if r.last != nil {
		b, _ := json.Marshal(map[string]interface{}{"case": i, "desc": desc})
		if len(b) > 60000 {
			b = b[:60000]
		}
		b = append(b, '\n')
		r.last.Truncate(0)
		r.last.WriteAt(b, 0)
	}
}

// Eval counts additional evaluations inside a case (e.g. requests of a sequence).
func (r *Run) Eval(n int) {
	r.mu.Lock()
	r.sum.Evaluations += n
	r.mu.Unlock()
}

// Cover records a distinct non-trivial coverage signature.
func (r *Run) Cover(sig string) {
	r.mu.Lock()
	r.sum.Cover[sig]++
	r.mu.Unlock()
}

// CoverHash records a signature by hash (for long signatures such as histories).
func (r *Run) CoverHash(class string, v interface{}) {
	b, _ := json.Marshal(v)
	h := sha1.Sum(b)
	r.Cover(class + ":" + hex.EncodeToString(h[:6]))
}

// Count adds to a named counter.
func (r *Run) Count(key string, n int64) {
	r.mu.Lock()
	r.sum.Counters[key] += n
	r.mu.Unlock()
}

// Counter reads a counter.
func (r *Run) Counter(key string) int64 {
	r.mu.Lock()
	defer r.mu.Unlock()
	return r.sum.Counters[key]
}

// Max keeps the maximum of a named gauge.
func (r *Run) Max(key string, n int64) {
	r.mu.Lock()
	if n > r.sum.Counters[key] {
		r.sum.Counters[key] = n
	}
	r.mu.Unlock()
}

// Sample keeps up to 4 literal cases for the evidence file.
func (r *Run) Sample(v interface{}) {
	r.mu.Lock()
	if len(r.sum.Samples) < 4 {
		r.sum.Samples = append(r.sum.Samples, v)
	}
	r.mu.Unlock()
}

// Violation records a refutation.  sig identifies the *kind* of failing input/site so
// that known findings can be matched without hiding different violations.
func (r *Run) Violation(sig string, detail interface{}) {
	r.mu.Lock()
	defer r.mu.Unlock()
	r.sum.Counters["violations_total"]++
	n := 0
	for _, v := range r.sum.Violations {
		if v.Sig == sig {
			n++
		}
	}
	if n >= 3 || len(r.sum.Violations) >= r.maxViol {
		r.sum.Counters["violations_suppressed_duplicates"]++
		return
	}
	r.sum.Violations = append(r.sum.Violations, Violation{Sig: sig, Case: r.curCase, Detail: detail})
}

// ViolationCount returns the number of violations recorded so far.
func (r *Run) ViolationCount() int {
	r.mu.Lock()
	defer r.mu.Unlock()
	return int(r.sum.Counters["violations_total"])
}

// Inconclusive records that something could not be decided (checker timeout, watchdog).
func (r *Run) Inconclusive(why string) {
	r.mu.Lock()
	r.sum.Counters["inconclusive_total"]++
	if len(r.sum.Inconclusive) < 20 {
		r.sum.Inconclusive = append(r.sum.Inconclusive, why)
	}
	r.mu.Unlock()
}

// Note attaches free text to the evidence.
func (r *Run) Note(format string, a ...interface{}) {
	r.mu.Lock()
	if len(r.sum.Notes) < 40 {
		r.sum.Notes = append(r.sum.Notes, fmt.Sprintf(format, a...))
	}
	r.mu.Unlock()
}

// Rule sets the description of the generator and of what makes a case non-trivial.
func (r *Run) Rule(s string) { r.sum.Rule = s }

// Assume adds an assumption to the evidence.
func (r *Run) Assume(s string) { r.sum.Assumptions = append(r.sum.Assumptions, s) }

// Exhaustive marks that a finite space was enumerated completely.
func (r *Run) Exhaustive(b bool) { r.sum.Exhaustive = b }

// Require declares an observation that must have been made at least min times (summed
// over all shards of this part, checked by the driver); otherwise the run is inconclusive.
func (r *Run) Require(counter string, min int64) {
	r.mu.Lock()
	r.requires[counter] = min
	r.mu.Unlock()
}

// Guard runs f and converts a panic into a violation with a signature built from the
// message class and the first frames inside easegress.
func (r *Run) Guard(sigPrefix string, detail interface{}, f func()) (panicked bool) {
	defer func() {
		if e := recover(); e != nil {
			panicked = true
			site := PanicSite(string(debug.Stack()))
			r.Violation(fmt.Sprintf("%s:panic:%s:%s", sigPrefix, site, MsgClass(fmt.Sprint(e))), map[string]interface{}{
				"panic": fmt.Sprint(e), "site": site, "input": detail,
			})
		}
	}()
	f()
	return false
}

// Recover runs f and returns the panic (if any) with its easegress site.
func Recover(f func()) (msg string, site string, panicked bool) {
	defer func() {
		if e := recover(); e != nil {
			panicked = true
			msg = fmt.Sprint(e)
			site = PanicSite(string(debug.Stack()))
		}
	}()
	f()
	return
}

// PanicSite extracts the first easegress (non-harness) function on a stack dump that
// follows the panic frames.
func PanicSite(stack string) string {
	lines := strings.Split(stack, "\n")
	seenPanic := false
	for i := 0; i < len(lines); i++ {
		l := lines[i]
		if strings.HasPrefix(l, "panic(") || strings.HasPrefix(l, "runtime.panic") || strings.HasPrefix(l, "runtime.goPanic") || strings.HasPrefix(l, "runtime.sigpanic") {
			seenPanic = true
			continue
		}
		if !seenPanic {
			continue
		}
		if strings.HasPrefix(l, "github.com/megaease/easegress/") && i+1 < len(lines) {
			file := strings.TrimSpace(lines[i+1])
			if strings.Contains(file, "zz_verif") {
				continue
			}
			fn := l
			if j := strings.LastIndex(fn, "("); j > 0 {
				fn = fn[:j]
			}
			fn = strings.TrimPrefix(fn, "github.com/megaease/easegress/")
			return fn
		}
	}
	return "unknown"
}

// MsgClass reduces a panic message to a class (digits and quoted text removed).
func MsgClass(msg string) string {
	var b strings.Builder
	inq := false
	for _, c := range msg {
		switch {
		case c == '"':
			inq = !inq
		case inq:
		case c >= '0' && c <= '9':
			if b.Len() == 0 || b.String()[b.Len()-1] != 'N' {
				b.WriteByte('N')
			}
		case c == '\n':
			b.WriteByte(' ')
		default:
			b.WriteRune(c)
		}
		if b.Len() > 90 {
			break
		}
	}
	return strings.TrimSpace(b.String())
}

// Finish writes the summary.  Must be deferred right after Start.
func (r *Run) Finish() {
	r.mu.Lock()
	defer r.mu.Unlock()
	if r.finished {
		return
	}
	r.finished = true
	// A panic escaping the harness itself is reported, not swallowed.
	if e := recover(); e != nil {
		site := PanicSite(string(debug.Stack()))
		r.sum.Violations = append(r.sum.Violations, Violation{
			Sig:    "harness-escaped-panic:" + site + ":" + MsgClass(fmt.Sprint(e)),
			Case:   r.curCase,
			Detail: map[string]interface{}{"panic": fmt.Sprint(e), "stack": string(debug.Stack())},
		})
		r.sum.Counters["violations_total"]++
	}
	for k, min := range r.requires {
		r.sum.Counters["require:"+k] = min
	}
	r.sum.WallS = time.Since(r.start).Seconds()
	r.sum.Done = true
	b, _ := json.MarshalIndent(&r.sum, "", " ")
	p := filepath.Join(r.outDir, r.fileBase()+".summary.json")
	if err := os.WriteFile(p, b, 0o644); err != nil {
		r.t.Errorf("kit: cannot write summary: %v", err)
	}
	if r.last != nil {
		r.last.Close()
	}
	if len(r.sum.Violations) > 0 {
		sigs := map[string]bool{}
		for _, v := range r.sum.Violations {
			sigs[v.Sig] = true
		}
		keys := make([]string, 0, len(sigs))
		for k := range sigs {
			keys = append(keys, k)
		}
		sort.Strings(keys)
		r.t.Logf("kit: %d violation(s): %s", r.sum.Counters["violations_total"], strings.Join(keys, " | "))
	}
}
