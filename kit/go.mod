module verif.local/kit

go 1.17

require github.com/anishathalye/porcupine v1.3.0
