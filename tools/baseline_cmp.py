#!/usr/bin/env python3
"""tools/baseline_cmp.py <gotest -json output>: compares with /root/.vp/BASELINE.json stable_pass list."""
import json, sys
base = json.load(open('/root/.vp/BASELINE.json'))
want = set(base['stable_pass'])
res = {}
for l in open(sys.argv[1], errors='replace'):
    l = l.strip()
    if not l.startswith('{'):
        continue
    try:
        e = json.loads(l)
    except ValueError:
        continue
    if e.get('Test') and e.get('Action') in ('pass', 'fail', 'skip'):
        res['%s::%s' % (e['Package'], e['Test'])] = e['Action']
missing = sorted(t for t in want if res.get(t) != 'pass')
print('baseline stable_pass: %d; now passing: %d; not passing: %d' % (len(want), len(want) - len(missing), len(missing)))
for t in missing:
    print('  NOT PASSING:', t, res.get(t))
extra_fail = sorted(t for t, a in res.items() if a == 'fail' and t not in want)
for t in extra_fail[:20]:
    print('  (fails, not in baseline list):', t)
sys.exit(1 if missing else 0)
