#!/bin/bash
# tools/sweep.sh <tier> <seed> [ids...] : runs the checks one after another, prints one line per check
TIER=${1:-quick}; SEED=${2:-1}; shift 2
IDS=${@:-$(ls props | grep -E '^C[0-9]+\.json$' | sed 's/.json//')}
for id in $IDS; do
  out=$(VERIF_SEED=$SEED ./check $id $TIER 2>&1); rc=$?
  echo "$out" | grep -E "^VIOLATION|^  signature|^KNOWN-FINDING|^INCONCLUSIVE|^BUILD" | cut -c1-220
  echo "$out" | tail -1 | cut -c1-200
  echo "SWEEP id=$id tier=$TIER seed=$SEED rc=$rc"
done
