#!/usr/bin/env python3
"""Regenerates the generated parts of DESIGN.md (between <!-- GEN:x --> and <!-- /GEN:x --> markers):
findings (from known_findings.json + known_findings.d/*.json) and seeded changes (seeded/*/meta.json + seeded/RESULTS.json)."""
import glob, json, os, re
V = '/verif'
ents = []
for p in [V + '/known_findings.json'] + sorted(glob.glob(V + '/known_findings.d/*.json')):
    if os.path.exists(p):
        ents += json.load(open(p)).get('findings', [])
ents.sort(key=lambda e: (e['property'], e.get('status') != 'fixed'))
def clip(s, n=400):
    s = ' '.join(str(s).split())
    return s if len(s) <= n else s[:n - 1] + '…'
f = []
nf = sum(1 for e in ents if e.get('status') == 'fixed'); nk = len(ents) - nf
f.append('%d genuine defects recorded: %d repaired by `fix:` commits in /repo, %d kept as known findings.\n' % (len(ents), nf, nk))
f.append('| property | status | commit | what fails (minimal case) | signature (regex) |')
f.append('|---|---|---|---|---|')
for e in ents:
    f.append('| %s | %s | %s | %s | `%s` |' % (e['property'], e.get('status', 'known'), e.get('commit', '-'), clip(e.get('what', '')).replace('|', '\\|'), clip(e['sig'], 160).replace('|', '\\|')))
find_md = '\n'.join(f)
res = json.load(open(V + '/seeded/RESULTS.json')) if os.path.exists(V + '/seeded/RESULTS.json') else {}
s = ['| seeded change | breaks | what it needs to manifest | caught by (quick tier) | signatures |', '|---|---|---|---|---|']
for d in sorted(glob.glob(V + '/seeded/C*')):
    n = os.path.basename(d)
    m = json.load(open(d + '/meta.json'))
    r = res.get(n, {})
    caught = ('./check %s: yes' % r.get('property')) if r.get('caught') else ('NOT caught' if r else 'not swept yet')
    if m.get('strengthened'):
        caught += ' (after strengthening: %s)' % m['strengthened']
    s.append('| %s: %s | %s | %s | %s | %s |' % (n, clip(m.get('summary', ''), 260).replace('|', '\\|'), re.sub(r'[a-z]$', '', n), clip(m.get('needs_to_manifest', ''), 220).replace('|', '\\|'), caught, clip('; '.join(r.get('signatures', [])[:2]), 200).replace('|', '\\|')))
seed_md = '\n'.join(s)

# parts table: every monitor (test function) of every check with the head of its rule text
pt = ['| check | monitor (test function) | file | what it drives and judges (head of the rule text recorded in the evidence) |', '|---|---|---|---|']
for pf in sorted(glob.glob(V + '/props/C*.json')):
    pd = json.load(open(pf))
    pd['id'] = os.path.basename(pf)[:-5]
    seen = set()
    for part in pd.get('parts', []):
        for fn in part.get('files', []):
            path = V + '/harness/' + fn
            if path in seen or not os.path.exists(path):
                continue
            seen.add(path)
            src = open(path).read()
            for m in re.finditer(r'^func (TestVerif_\w+)\(', src, re.M):
                if pd['id'] not in m.group(1):
                    continue
                body = src[m.end():]
                nxt = re.search(r'^func ', body, re.M)
                body = body[:nxt.start()] if nxt else body
                rm = re.search(r'\.Rule\(\s*"((?:[^"\\]|\\.)*)"', body)
                rule = rm.group(1).replace('\\"', '"') if rm else '(rule text is assembled by a helper; see the rule field of evidence/%s.json)' % pd['id']
                pt.append('| %s | %s | harness/%s | %s |' % (pd['id'], m.group(1), fn, clip(rule, 330).replace('|', '\\|')))
parts_md = '\n'.join(pt)
p = V + '/DESIGN.md'
t = open(p).read()
for tag, body in (('findings', find_md), ('seeded', seed_md), ('parts', parts_md)):
    a, b = '<!-- GEN:%s -->' % tag, '<!-- /GEN:%s -->' % tag
    if a in t:
        t = t[:t.index(a) + len(a)] + '\n' + body + '\n' + t[t.index(b):]
open(p, 'w').write(t)
print('DESIGN.md regenerated: %d findings, %d seeds' % (len(ents), len(s) - 2))
