#!/bin/bash
# tools/seedcheck.sh <seed-name e.g. C12a> <property ID> [tier]
# Applies /verif/seeded/<name>/patch.diff (or /tmp/seed_<name>/_seed/patch.diff) to a fresh scratch
# worktree of /repo and runs ./check <ID> against it.  /repo itself is never modified.
set -u
NAME=$1; ID=$2; TIER=${3:-quick}
SRC=/verif/seeded/$NAME
[ -f $SRC/patch.diff ] || SRC=/tmp/seed_$NAME/_seed
WT=/tmp/sc_$NAME
git -C /repo worktree remove --force $WT >/dev/null 2>&1
git -C /repo worktree add --detach $WT HEAD -q || exit 9
if ! git -C $WT apply $SRC/patch.diff; then echo "PATCH DOES NOT APPLY"; git -C /repo worktree remove --force $WT; exit 9; fi
cd /verif && VERIF_REPO=$WT ./check $ID $TIER 2>&1 | grep -E "^VIOLATION|signature:|^KNOWN|^INCONCL|^property=|BUILD" | cut -c1-260
RC=${PIPESTATUS[0]}
git -C /repo worktree remove --force $WT
rm -rf /verif/.build/alt-$(printf %s "$WT" | sha1sum | cut -c1-8)
echo "seedcheck $NAME vs $ID: rc=$RC"
exit $RC
