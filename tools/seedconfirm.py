#!/usr/bin/env python3
"""tools/seedconfirm.py <name e.g. C12a> [<check ID> ...]
Independently confirms a seeded change produced by a sub-agent in /tmp/seed_<name>/_seed/ :
  1. demo passes on a pristine scratch worktree of /repo HEAD
  2. patch applies, `go build ./pkg/...` succeeds, the existing tests of the touched packages pass
  3. demo fails with the patch
and, when check IDs are given, runs ./check <ID> quick against the patched worktree.
On success copies patch.diff, the demo and an extended meta.json to /verif/seeded/<name>/.
/repo itself is never modified.
"""
import hashlib
import glob
import json
import os
import re
import shutil
import subprocess
import sys

name = sys.argv[1]
checks = sys.argv[2:]
src = "/tmp/seed_%s/_seed" % name
if not os.path.isdir(src):
    src = "/verif/seeded/%s" % name
wt = "/tmp/scf_%s" % name
env = dict(os.environ, GOFLAGS="-mod=mod", GOPROXY="off", GOSUMDB="off", GOTOOLCHAIN="local")


def sh(cmd, cwd=None, timeout=1800):
    p = subprocess.run(cmd, shell=True, cwd=cwd, env=env, stdout=subprocess.PIPE, stderr=subprocess.STDOUT, text=True, timeout=timeout)
    return p.returncode, p.stdout


meta = json.load(open(os.path.join(src, "meta.json")))
demos = [f for f in glob.glob(os.path.join(src, "*_test.go"))]
if not demos:
    print("no *_test.go demo in", src)
    sys.exit(2)
touched = meta.get("files_touched") or []
patch = open(os.path.join(src, "patch.diff")).read()
if not touched:
    touched = re.findall(r"^\+\+\+ b/(\S+)", patch, re.M)
pkgs = sorted(set(os.path.dirname(f) for f in touched if f.endswith(".go")))
# where does the demo go?
demo_dir = None
m = re.search(r"cp\s+\S+\s+/tmp/seed_\w+/(pkg/[^\s;&]+)", meta.get("demo_cmd", ""))
if m:
    demo_dir = m.group(1).rstrip("/")
    if demo_dir.endswith(".go"):
        demo_dir = os.path.dirname(demo_dir)
if not demo_dir:
    head = open(demos[0]).read(3000)
    m = re.search(r"(pkg/[A-Za-z0-9_/]+)", head)
    demo_dir = m.group(1).rstrip("/") if m else pkgs[0]
while demo_dir and not os.path.isdir(os.path.join("/repo", demo_dir)):
    demo_dir = os.path.dirname(demo_dir)


def dir_of(demo):
    """package directory a demo file belongs to: a pkg/... path named in its header whose Go
    package name matches the file's package clause; else the common demo_dir"""
    txt = open(demo).read()
    m = re.search(r"^package (\w+)", txt, re.M)
    pk = m.group(1) if m else ""
    for c in re.findall(r"(pkg/[A-Za-z0-9_/]+)", txt[:4000]):
        c = c.rstrip("/")
        while c and not os.path.isdir(os.path.join("/repo", c)):
            c = os.path.dirname(c)
        if c and (os.path.basename(c) == pk or os.path.basename(c) + "_test" == pk):
            return c
    return demo_dir


demo_dirs = {d: dir_of(d) for d in demos}
tests = []
for d in demos:
    tests += re.findall(r"^func (Test\w+)\(", open(d).read(), re.M)
run_re = "^(%s)$" % "|".join(tests)

sh("git -C /repo worktree remove --force %s" % wt)
rc, out = sh("git -C /repo worktree add --detach %s HEAD" % wt)
if rc:
    print(out)
    sys.exit(2)
result = {}
try:
    sh("/verif/tools/seedkit/mkmod.sh %s" % wt)
    mf = "-modfile=%s/_seed/go.mod -ldflags=-checklinkname=0" % wt

    def demo():
        for d in demos:
            shutil.copy(d, os.path.join(wt, demo_dirs[d], "zz_" + os.path.basename(d)))
        pk = " ".join("./%s/" % x for x in sorted(set(demo_dirs.values())))
        rc, out = sh("go test %s -vet=off -count=1 -run '%s' %s" % (mf, run_re, pk), cwd=wt)
        for d in demos:
            os.remove(os.path.join(wt, demo_dirs[d], "zz_" + os.path.basename(d)))
        return rc, out

    rc, out = demo()
    result["demo_without_patch"] = "pass" if rc == 0 else "FAIL"
    print("demo without patch: rc=%d" % rc)
    if rc:
        print(out[-2500:])
    rc, out = sh("git apply %s/patch.diff" % src, cwd=wt)
    if rc:
        print("patch does not apply:", out)
        sys.exit(2)
    rc, out = sh("go build %s ./pkg/... 2>&1 | grep -v '^#' | head -20" % mf, cwd=wt)
    rc2, out2 = sh("go vet %s %s 2>&1 | tail -5" % (mf, " ".join("./%s/" % p for p in pkgs)), cwd=wt)
    rc, out = sh("go build %s %s" % (mf, " ".join("./%s/" % p for p in pkgs)), cwd=wt)
    result["build_with_patch"] = "ok" if rc == 0 else "FAIL"
    print("build with patch: rc=%d" % rc)
    rc, out = sh("go test %s -vet=off -count=1 %s" % (mf, " ".join("./%s/" % p for p in pkgs)), cwd=wt)
    result["existing_tests_with_patch"] = "ok" if rc == 0 else "FAIL"
    print("existing tests of %s with patch: rc=%d" % (pkgs, rc))
    if rc:
        print(out[-2500:])
    rc, out = demo()
    result["demo_with_patch"] = "fail" if rc != 0 else "PASSES(!)"
    print("demo with patch: rc=%d (expected non-zero)" % rc)
    caught = {}
    for cid in checks:
        p = subprocess.run("cd /verif && VERIF_REPO=%s ./check %s quick" % (wt, cid), shell=True, env=env, stdout=subprocess.PIPE, stderr=subprocess.STDOUT, text=True)
        sigs = re.findall(r"^\s+signature: (.*)$", p.stdout, re.M)
        caught[cid] = {"rc": p.returncode, "signatures": sigs[:6]}
        print("check %s against the patched tree: rc=%d %s" % (cid, p.returncode, sigs[:3]))
    result["checks"] = caught
finally:
    sh("git -C /repo worktree remove --force %s" % wt)
    shutil.rmtree("/verif/.build/alt-" + hashlib.sha1(wt.encode()).hexdigest()[:8], ignore_errors=True)
ok = (result.get("demo_without_patch") == "pass" and result.get("build_with_patch") == "ok"
      and result.get("existing_tests_with_patch") == "ok" and result.get("demo_with_patch") == "fail")
print("CONFIRMED" if ok else "NOT CONFIRMED", json.dumps(result))
if ok:
    dst = "/verif/seeded/%s" % name
    os.makedirs(dst, exist_ok=True)
    if os.path.abspath(src) != os.path.abspath(dst):
        shutil.copy(os.path.join(src, "patch.diff"), dst)
        for d in demos:
            shutil.copy(d, dst)
    old = {}
    if os.path.exists(os.path.join(dst, "meta.json")) and os.path.abspath(src) == os.path.abspath(dst):
        old = json.load(open(os.path.join(dst, "meta.json")))
    meta.update({"breaks_property": re.sub(r"[a-z]$", "", name), "demo_dir": demo_dir, "demo_dirs": {os.path.basename(k): v for k, v in demo_dirs.items()}, "demo_tests": tests,
                 "confirmed_by_coordinator": result,
                 "how_confirmed": "tools/seedconfirm.py %s: scratch worktree of /repo HEAD; demo passes pristine; patch applied; go build + existing tests of touched packages pass; demo fails; ./check run with VERIF_REPO=<patched worktree>" % name})
    if old.get("caught_by"):
        meta["caught_by"] = old["caught_by"]
    json.dump(meta, open(os.path.join(dst, "meta.json"), "w"), indent=1)
sys.exit(0 if ok else 1)
