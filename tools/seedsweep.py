#!/usr/bin/env python3
"""tools/seedsweep.py [names...]: for every seeded change under /verif/seeded/ apply it to a scratch worktree
of /repo HEAD and run the quick check of the property it breaks; writes seeded/RESULTS.json (which check
caught which change, with signatures)."""
import json, os, re, subprocess, sys, glob, hashlib, shutil
out_p = '/verif/seeded/RESULTS.json'
if sys.argv[1:2] == ['--merge']:
    # tools/seedsweep.py --merge part1.json part2.json ... : folds partial result files (parallel sweeps) into RESULTS.json
    res = json.load(open(out_p)) if os.path.exists(out_p) else {}
    for f in sys.argv[2:]:
        res.update(json.load(open(f)))
    json.dump(res, open(out_p, 'w'), indent=1, sort_keys=True)
    print('merged', len(res), 'entries;', sum(1 for v in res.values() if not v.get('caught')), 'not caught')
    sys.exit(0)
names = sys.argv[1:] or sorted(os.path.basename(d) for d in glob.glob('/verif/seeded/C*'))
out_p = os.environ.get('SEEDSWEEP_OUT', out_p)  # parallel sweeps write partial files, merged with --merge
res = json.load(open(out_p)) if os.path.exists(out_p) else {}
for n in names:
    pid = re.sub(r'[a-z]$', '', n)
    wt = '/tmp/sw_%s' % n
    subprocess.run('git -C /repo worktree remove --force %s' % wt, shell=True, capture_output=True)
    subprocess.run('git -C /repo worktree add --detach %s HEAD' % wt, shell=True, capture_output=True)
    a = subprocess.run('git -C %s apply /verif/seeded/%s/patch.diff' % (wt, n), shell=True, capture_output=True, text=True)
    if a.returncode:
        res[n] = {'property': pid, 'applies': False, 'note': a.stderr[-300:]}
        print(n, 'PATCH DOES NOT APPLY')
    else:
        p = subprocess.run('cd /verif && VERIF_REPO=%s ./check %s quick' % (wt, pid), shell=True, capture_output=True, text=True)
        sigs = re.findall(r'^\s+signature: (.*)$', p.stdout, re.M)
        res[n] = {'property': pid, 'applies': True, 'check_rc': p.returncode, 'caught': p.returncode == 1, 'signatures': sigs[:8],
                  'repo_head': subprocess.run('git -C /repo rev-parse --short HEAD', shell=True, capture_output=True, text=True).stdout.strip()}
        print(n, 'caught' if p.returncode == 1 else 'MISSED rc=%d' % p.returncode, sigs[:2])
    subprocess.run('git -C /repo worktree remove --force %s' % wt, shell=True, capture_output=True)
    shutil.rmtree('/verif/.build/alt-' + hashlib.sha1(wt.encode()).hexdigest()[:8], ignore_errors=True)
    json.dump(res, open(out_p, 'w'), indent=1, sort_keys=True)
