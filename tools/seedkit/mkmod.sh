#!/bin/sh
# usage: mkmod.sh <worktree>   -> writes <worktree>/_seed/go.mod (+go.sum) that lets packages depending on quic-go build
set -e
W=$1
mkdir -p $W/_seed
cp $W/go.mod $W/_seed/go.mod
cp $W/go.sum $W/_seed/go.sum
echo 'replace github.com/lucas-clemente/quic-go => /verif/stubs/quic-go' >> $W/_seed/go.mod
echo "use: cd $W && GOFLAGS=-mod=mod GOPROXY=off GOSUMDB=off GOTOOLCHAIN=local go test -modfile=$W/_seed/go.mod -ldflags=-checklinkname=0 -vet=off -count=1 ./pkg/object/httpserver/"
