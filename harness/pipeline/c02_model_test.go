//go:build verif

// C02 monitor, shared part: generated pipeline descriptions, the scripted recording
// filter kinds the harness registers, the reference well-formedness predicate and the
// reference flow interpreter (both written from the property sentence; they share no
// code with pkg/object/pipeline), and the runner that executes the real Pipeline /
// GlobalFilter and compares.
//
// External test package: GlobalFilter imports pipeline, so an in-package harness could
// not drive GlobalFilter.  Everything the monitor needs is reachable through exported
// API (filters.Register, supervisor.NewSpec, Pipeline.Init/Handle/HandleWithBeforeAfter,
// Spec.Validate, GlobalFilter.Init/Handle, Context.Tags).
package pipeline_test

import (
	"fmt"
	"io"
	"sort"
	"strings"

	"github.com/megaease/easegress/pkg/context"
	"github.com/megaease/easegress/pkg/filters"
	"github.com/megaease/easegress/pkg/logger"
	"github.com/megaease/easegress/pkg/object/globalfilter"
	"github.com/megaease/easegress/pkg/object/pipeline"
	"github.com/megaease/easegress/pkg/protocols"
	"github.com/megaease/easegress/pkg/supervisor"
	"github.com/megaease/easegress/pkg/tracing"
	"gopkg.in/yaml.v3"
)

const (
	endName  = "END"
	kindA    = "VerifScriptA" // declares r1 r2 r3
	kindB    = "VerifScriptB" // declares r2 r4
	runKey   = "verif.c02.run"
	defaultN = "DEFAULT" // the documented name of the namespace used when none is configured
)

var kindResults = map[string][]string{
	kindA: {"r1", "r2", "r3"},
	kindB: {"r2", "r4"},
}

// ---------------------------------------------------------------- generated descriptions

type gJump struct {
	Result string `json:"r"`
	Target string `json:"to"`
}

type gNode struct {
	Filter string  `json:"f"` // name of a filter definition, or END
	Alias  string  `json:"alias,omitempty"`
	NS     string  `json:"ns,omitempty"`
	Jump   []gJump `json:"jump,omitempty"` // distinct results
}

type gDef struct {
	Name string `json:"name"`
	Kind string `json:"kind"`
}

type gPipe struct {
	Defs []gDef  `json:"filters"`
	Flow []gNode `json:"flow"`
}

func (n *gNode) isEnd() bool { return n.Filter == endName }

// name is what a jumpIf entry uses to address the node: the alias, else the filter name.
func (n *gNode) name() string {
	if n.Alias != "" {
		return n.Alias
	}
	return n.Filter
}

func (p *gPipe) kindOf(filter string) string {
	for _, d := range p.Defs {
		if d.Name == filter {
			return d.Kind
		}
	}
	return ""
}

func (p *gPipe) clone() *gPipe {
	q := &gPipe{Defs: append([]gDef(nil), p.Defs...), Flow: make([]gNode, len(p.Flow))}
	for i, n := range p.Flow {
		n.Jump = append([]gJump(nil), n.Jump...)
		q.Flow[i] = n
	}
	return q
}

// body renders the pipeline spec body (flow + filters) with the given indentation.
func (p *gPipe) body(ind string) string {
	var b strings.Builder
	if len(p.Flow) > 0 {
		b.WriteString(ind + "flow:\n")
		for _, n := range p.Flow {
			fmt.Fprintf(&b, "%s- filter: %q\n", ind, n.Filter)
			if n.Alias != "" {
				fmt.Fprintf(&b, "%s  alias: %q\n", ind, n.Alias)
			}
			if n.NS != "" {
				fmt.Fprintf(&b, "%s  namespace: %q\n", ind, n.NS)
			}
			if len(n.Jump) > 0 {
				fmt.Fprintf(&b, "%s  jumpIf:\n", ind)
				for _, j := range n.Jump {
					fmt.Fprintf(&b, "%s    %q: %q\n", ind, j.Result, j.Target)
				}
			}
		}
	}
	b.WriteString(ind + "filters:\n")
	for _, d := range p.Defs {
		fmt.Fprintf(&b, "%s- name: %q\n%s  kind: %q\n", ind, d.Name, ind, d.Kind)
	}
	return b.String()
}

func (p *gPipe) pipelineYAML(name string) string {
	return fmt.Sprintf("name: %s\nkind: Pipeline\n", name) + p.body("")
}

func globalFilterYAML(before, after *gPipe) string {
	s := "name: verif-gf\nkind: GlobalFilter\n"
	if before != nil {
		s += "beforePipeline:\n" + before.body("  ")
	}
	if after != nil {
		s += "afterPipeline:\n" + after.body("  ")
	}
	return s
}

// ---------------------------------------------------------------- reference: well-formedness
//
// From the property: "a spec whose jump target is not a unique later node, whose result
// is not declared by the filter kind, or whose filter names are duplicated or reserved is
// rejected at validation".  Returned: the violated clauses (empty = well-formed).
// Aliases on END nodes are not generated for pipelines that reach this predicate (see
// the END-alias exploration), so "node" below means filter node.

func refIllFormed(p *gPipe) []string {
	bad := map[string]bool{}
	seen := map[string]bool{}
	for _, d := range p.Defs {
		if d.Name == endName {
			bad["reserved-filter-name"] = true
		}
		if seen[d.Name] {
			bad["duplicate-filter-name"] = true
		}
		seen[d.Name] = true
	}
	for i := range p.Flow {
		n := &p.Flow[i]
		if n.isEnd() {
			continue
		}
		declared := kindResults[p.kindOf(n.Filter)]
		for _, j := range n.Jump {
			ok := false
			for _, r := range declared {
				ok = ok || r == j.Result
			}
			if !ok {
				bad["undeclared-result"] = true
			}
			if j.Target == endName {
				continue
			}
			later, earlier := 0, 0
			for k := range p.Flow {
				m := &p.Flow[k]
				if m.isEnd() || m.name() != j.Target {
					continue
				}
				if k > i {
					later++
				} else {
					earlier++
				}
			}
			switch {
			case later == 1:
			case later > 1:
				bad["duplicate-target"] = true
			case earlier > 0 && n.name() == j.Target:
				bad["self-target"] = true
			case earlier > 0:
				bad["backward-target"] = true
			default:
				bad["unknown-target"] = true
			}
		}
	}
	out := make([]string, 0, len(bad))
	for k := range bad {
		out = append(out, k)
	}
	sort.Strings(out)
	return out
}

// ---------------------------------------------------------------- reference: interpreter

type visit struct {
	Pipe   string `json:"pipe"`
	Filter string `json:"filter"`
	Kind   string `json:"kind"`
	NS     string `json:"ns"`
}

type tagEntry struct {
	Alias  string `json:"alias"`
	Result string `json:"result"`
}

// phase is one of the up to three flows of an execution.
type phase struct {
	Name string // pipeline name the filters of this flow were created for
	Pipe *gPipe
}

type refRun struct {
	Script []string   // result returned by the k-th filter invocation
	Trace  []visit    // expected invocations
	Tags   []tagEntry // expected stats tag content
	Result string     // expected pipeline result
	Steps  []string   // per invocation: what happened after it (coverage / diagnosis)
	How    string     // how the execution finished
	Where  string     // phase in which it finished
	// ShadowAt: index of the first invocation whose jump passes over an END node that
	// carries the alias the jump names (-1: none).  Only the END-alias part generates
	// such flows.
	ShadowAt int
	flags    map[string]bool
}

// chooser supplies the result of the k-th invocation out of the options of its kind.
type chooser func(k int, options []string) string

// refExecute interprets the phases in order under the rule of the property:
// run in flow order; "" goes on to the next node; a non-empty result mapped to a node
// jumps forward to exactly that node, skipping everything in between; unmapped or
// mapped to END ends; an END node ends; an end anywhere ends all phases; the result is
// the result of the last filter run.
func refExecute(phases []phase, choose chooser) *refRun {
	rr := &refRun{How: "exhausted", ShadowAt: -1, flags: map[string]bool{}}
	seenFilter := map[string]int{}
	lastNS := ""
	for pi, ph := range phases {
		flow := ph.Pipe.Flow
		ended := false
		i := 0
		for i < len(flow) {
			n := &flow[i]
			if n.isEnd() {
				ended, rr.How = true, "end-node"
				break
			}
			ns := n.NS
			if ns == "" {
				ns = defaultN
			}
			kind := ph.Pipe.kindOf(n.Filter)
			options := append([]string{""}, kindResults[kind]...)
			res := choose(len(rr.Script), options)
			rr.Script = append(rr.Script, res)
			rr.Trace = append(rr.Trace, visit{Pipe: ph.Name, Filter: n.Filter, Kind: kind, NS: ns})
			rr.Tags = append(rr.Tags, tagEntry{Alias: n.name(), Result: res})
			rr.Result = res
			seenFilter[ph.Name+"/"+n.Filter]++
			if seenFilter[ph.Name+"/"+n.Filter] > 1 {
				rr.flags["reuse"] = true
			}
			if lastNS != "" && lastNS != ns {
				rr.flags["ns-switch"] = true
			}
			lastNS = ns
			if res == "" {
				rr.Steps = append(rr.Steps, "f")
				i++
				continue
			}
			target, mapped := "", false
			for _, j := range n.Jump {
				if j.Result == res {
					target, mapped = j.Target, true
				}
			}
			if !mapped {
				ended, rr.How = true, "unmapped"
				rr.Steps = append(rr.Steps, "u")
				break
			}
			if target == endName {
				ended, rr.How = true, "mapped-END"
				rr.Steps = append(rr.Steps, "e")
				break
			}
			// the unique later node with that name (the spec is well-formed)
			to := -1
			for k := i + 1; k < len(flow); k++ {
				if !flow[k].isEnd() && flow[k].name() == target {
					to = k
					break
				}
			}
			if to < 0 {
				panic("harness bug: reference interpreter run on an ill-formed flow")
			}
			step := "j"
			for k := i + 1; k < to; k++ {
				if flow[k].isEnd() {
					step = "X" // jump over an END node
					rr.flags["jump-over-END"] = true
					if flow[k].Alias == target && rr.ShadowAt < 0 {
						rr.ShadowAt = len(rr.Script) - 1
					}
				} else if step == "j" {
					step = "J" // jump over a filter node
					rr.flags["jump-over-filter"] = true
				}
			}
			rr.Steps = append(rr.Steps, step)
			i = to
		}
		rr.Where = ph.Name
		if ended {
			if pi < len(phases)-1 {
				rr.flags["end-stops-later-phase"] = true
			}
			break
		}
	}
	return rr
}

// forEachVector enumerates every assignment of results to filter invocations of the
// phases (depth-first over the reference's own choice points) up to limit vectors;
// returns whether the enumeration was complete.
func forEachVector(phases []phase, limit int, fn func(rr *refRun)) bool {
	var choice, width []int
	for n := 0; ; n++ {
		if n >= limit {
			return false
		}
		width = width[:0]
		rr := refExecute(phases, func(k int, options []string) string {
			for len(choice) <= k {
				choice = append(choice, 0)
			}
			width = append(width, len(options))
			return options[choice[k]]
		})
		fn(rr)
		// odometer over the choice points this run actually had
		choice = choice[:len(width)]
		k := len(choice) - 1
		for k >= 0 {
			choice[k]++
			if choice[k] < width[k] {
				break
			}
			choice = choice[:k]
			k--
		}
		if k < 0 {
			return true
		}
	}
}

// ---------------------------------------------------------------- scripted recording filters

type scriptSpec struct {
	filters.BaseSpec `yaml:",inline"`
}

type scriptFilter struct {
	kind *filters.Kind
	spec *scriptSpec
}

type runState struct {
	script  []string
	pos     int
	overrun int
	trace   []visit
}

// nsReq is a request object whose only job is to say which namespace it was put in.
type nsReq struct{ ns string }

func (q *nsReq) Header() protocols.Header                 { return nil }
func (q *nsReq) IsStream() bool                           { return false }
func (q *nsReq) SetPayload(payload interface{})           {}
func (q *nsReq) GetPayload() io.Reader                    { return strings.NewReader("") }
func (q *nsReq) RawPayload() []byte                       { return nil }
func (q *nsReq) PayloadSize() int64                       { return 0 }
func (q *nsReq) ToBuilderRequest(name string) interface{} { return nil }
func (q *nsReq) Close()                                   {}

func (f *scriptFilter) Name() string                { return f.spec.Name() }
func (f *scriptFilter) Kind() *filters.Kind         { return f.kind }
func (f *scriptFilter) Spec() filters.Spec          { return f.spec }
func (f *scriptFilter) Init()                       {}
func (f *scriptFilter) Inherit(prev filters.Filter) {}
func (f *scriptFilter) Status() interface{}         { return nil }
func (f *scriptFilter) Close()                      {}
func (f *scriptFilter) Handle(ctx *context.Context) string {
	st, _ := ctx.GetData(runKey).(*runState)
	if st == nil {
		return ""
	}
	ns := "<no request in active namespace>"
	if q, ok := ctx.GetInputRequest().(*nsReq); ok && q != nil {
		ns = q.ns
	}
	st.trace = append(st.trace, visit{Pipe: f.spec.Pipeline(), Filter: f.spec.Name(), Kind: f.kind.Name, NS: ns})
	if st.pos < len(st.script) {
		r := st.script[st.pos]
		st.pos++
		return r
	}
	st.overrun++
	return ""
}

func registerKind(name string) {
	k := &filters.Kind{
		Name:        name,
		Description: "verif C02 scripted recording filter",
		Results:     append([]string(nil), kindResults[name]...),
		DefaultSpec: func() filters.Spec { return &scriptSpec{} },
	}
	k.CreateInstance = func(spec filters.Spec) filters.Filter {
		return &scriptFilter{kind: k, spec: spec.(*scriptSpec)}
	}
	filters.Register(k)
}

func init() {
	logger.InitNop()
	registerKind(kindA)
	registerKind(kindB)
}

// ---------------------------------------------------------------- real code drivers

var allNamespaces = []string{defaultN, "nsA", "nsB"}

// validateBoth asks the two real validation entry points: the admin path
// (supervisor.NewSpec) and Spec.Validate on the unmarshalled spec.
func validateBoth(p *gPipe, name string) (super *supervisor.Spec, errNewSpec, errValidate error) {
	super, errNewSpec = supervisor.NewSpec(p.pipelineYAML(name))
	spec := &pipeline.Spec{}
	if err := yaml.Unmarshal([]byte(p.body("")), spec); err != nil {
		errValidate = fmt.Errorf("yaml: %v", err)
	} else {
		errValidate = spec.Validate()
	}
	return
}

func newPipeline(super *supervisor.Spec) *pipeline.Pipeline {
	p := &pipeline.Pipeline{}
	p.Init(super, nil)
	return p
}

type realOut struct {
	Trace     []visit    `json:"trace"`
	Tags      []tagEntry `json:"tags"`
	TagRaw    string     `json:"tagRaw"`
	TagErr    string     `json:"tagErr,omitempty"`
	Result    string     `json:"result"`
	HasResult bool       `json:"hasResult"`
	Overrun   int        `json:"overrun"`
	Unused    int        `json:"unusedScript"`
}

// execReal runs one scripted execution; call is given a fresh context.
func execReal(script []string, call func(ctx *context.Context) (string, bool)) *realOut {
	ctx := context.New(tracing.NoopSpan)
	for _, ns := range allNamespaces {
		ctx.SetRequest(ns, &nsReq{ns: ns})
	}
	st := &runState{script: script}
	ctx.SetData(runKey, st)
	out := &realOut{}
	out.Result, out.HasResult = call(ctx)
	out.Trace = st.trace
	out.Overrun = st.overrun
	out.Unused = len(st.script) - st.pos
	out.TagRaw = ctx.Tags()
	out.Tags, out.TagErr = parseStatsTag(out.TagRaw)
	ctx.Finish()
	return out
}

// parseStatsTag parses "pipeline: a(r1,12µs)->b(3µs)" / "pipeline: <empty>".
func parseStatsTag(tag string) ([]tagEntry, string) {
	const prefix = "pipeline: "
	if strings.Contains(tag, " | ") {
		return nil, "more than one tag"
	}
	if !strings.HasPrefix(tag, prefix) {
		return nil, "no 'pipeline: ' prefix"
	}
	rest := tag[len(prefix):]
	if rest == "<empty>" {
		return nil, ""
	}
	var out []tagEntry
	for _, item := range strings.Split(rest, "->") {
		open := strings.Index(item, "(")
		if open <= 0 || !strings.HasSuffix(item, ")") {
			return out, "malformed item " + item
		}
		e := tagEntry{Alias: item[:open]}
		inner := item[open+1 : len(item)-1]
		if c := strings.Index(inner, ","); c >= 0 {
			e.Result = inner[:c]
		}
		out = append(out, e)
	}
	return out, ""
}

// compare returns "" or the class of the first difference between the real execution
// and the reference, phrased by what the property says at that point.
func compare(rr *refRun, got *realOut) string {
	for k := 0; k < len(rr.Trace) && k < len(got.Trace); k++ {
		w, g := rr.Trace[k], got.Trace[k]
		prev := "start"
		if k > 0 {
			prev = stepName(rr.Steps[k-1])
			if rr.Trace[k-1].Pipe != w.Pipe {
				prev = "phase-change"
			}
		}
		if w.Pipe != g.Pipe || w.Filter != g.Filter || w.Kind != g.Kind {
			return "wrong-node-run:after-" + prev
		}
		if w.NS != g.NS {
			return "wrong-namespace:after-" + prev
		}
	}
	if len(got.Trace) > len(rr.Trace) {
		return "ran-after-end:" + rr.How
	}
	if len(got.Trace) < len(rr.Trace) {
		k := len(got.Trace)
		prev := "start"
		if k > 0 {
			prev = stepName(rr.Steps[k-1])
			if rr.Trace[k-1].Pipe != rr.Trace[k].Pipe {
				prev = "phase-change"
			}
		}
		return "node-not-run:after-" + prev
	}
	if got.Overrun != 0 || got.Unused != 0 {
		return "script-accounting"
	}
	if got.HasResult && got.Result != rr.Result {
		return "pipeline-result:" + rr.How
	}
	if got.TagErr != "" {
		return "stats-tag-unparsable"
	}
	if len(got.Tags) != len(rr.Tags) {
		return "stats-tag-length"
	}
	for k := range rr.Tags {
		if got.Tags[k] != rr.Tags[k] {
			return "stats-tag-entry"
		}
	}
	return ""
}

func stepName(s string) string {
	switch s {
	case "f":
		return "fallthrough"
	case "j":
		return "jump-adjacent"
	case "J":
		return "jump-over-filter"
	case "X":
		return "jump-over-END"
	}
	return s
}

// shapeClass abstracts a flow for coverage signatures: number of nodes, of END nodes and
// of nodes re-using an earlier filter, then markers a (some alias), n (some namespace),
// j (some jump to a node), e (some jump to END).  coarse drops the markers.
func shapeClass(p *gPipe, coarse bool) string {
	if p == nil {
		return "-"
	}
	used := map[string]bool{}
	ends, reuse := 0, 0
	alias, ns, toNode, toEnd := false, false, false, false
	for i := range p.Flow {
		n := &p.Flow[i]
		if n.isEnd() {
			ends++
			continue
		}
		if used[n.Filter] {
			reuse++
		}
		used[n.Filter] = true
		alias = alias || n.Alias != ""
		ns = ns || n.NS != ""
		for _, j := range n.Jump {
			toEnd = toEnd || j.Target == endName
			toNode = toNode || j.Target != endName
		}
	}
	s := fmt.Sprintf("n%dE%dR%d", len(p.Flow), ends, reuse)
	if coarse {
		return s
	}
	for _, m := range []struct {
		on bool
		c  string
	}{{alias, "a"}, {ns, "n"}, {toNode, "j"}, {toEnd, "e"}} {
		if m.on {
			s += m.c
		}
	}
	return s
}

// coverSig = mode : flow shape classes | result vector class | outcome.  The vector
// class is the number of invocations plus which step kinds occur (f fall through,
// j jump to the adjacent node, J jump over filter nodes, X jump over an END node).
func coverSig(mode string, phases []phase, rr *refRun) string {
	shapes := make([]string, len(phases))
	for i, ph := range phases {
		shapes[i] = ph.Name[:1] + "=" + shapeClass(ph.Pipe, len(phases) > 1)
	}
	kinds := ""
	for _, k := range []string{"f", "j", "J", "X"} {
		for _, st := range rr.Steps {
			if st == k {
				kinds += k
				break
			}
		}
	}
	return fmt.Sprintf("%s:%s|v%d%s|%s@%s", mode, strings.Join(shapes, ","), len(rr.Trace), kinds, rr.How, rr.Where)
}

// newGlobalFilter creates a real GlobalFilter from its spec (validated by supervisor.NewSpec, then Init).
func newGlobalFilter(before, after *gPipe) (*globalfilter.GlobalFilter, error) {
	super, err := supervisor.NewSpec(globalFilterYAML(before, after))
	if err != nil {
		return nil, err
	}
	gf := &globalfilter.GlobalFilter{}
	gf.Init(super)
	return gf, nil
}
