//go:build verif

package pipeline_test

import (
	"fmt"
	"math/rand"
	"os"
	"strings"
	"testing"

	"github.com/megaease/easegress/pkg/context"
	"github.com/megaease/easegress/pkg/object/pipeline"
	"github.com/megaease/easegress/pkg/supervisor"
	"verif.local/kit"
)

// ---------------------------------------------------------------- generators

var enumDefs = []gDef{{"fA", kindA}, {"fB", kindB}}

// jumpable results used by the systematic enumeration ("jumpIf maps over 2 results")
var enumKeys = map[string][2]string{"fA": {"r1", "r2"}, "fB": {"r2", "r4"}}

func enumRadix(n, i int) int {
	t := 2 + (n - 1 - i) // absent, END, each later position
	return 1 + 8*t*t
}

func enumSize(n int) int {
	s := 1
	for i := 0; i < n; i++ {
		s *= enumRadix(n, i)
	}
	return s
}

// enumDecode maps idx to a flow of n nodes: node = END | (filter fA/fB) x (alias or not)
// x (namespace or not) x (target of 1st result) x (target of 2nd result), targets being
// absent, END or a later position.  redundant = a target position holds an END node
// (the same flow is enumerated with the target END).
func enumDecode(n, idx int) (p *gPipe, redundant bool) {
	p = &gPipe{Defs: enumDefs, Flow: make([]gNode, n)}
	type tg struct{ a, b int }
	tgs := make([]tg, n)
	for i := 0; i < n; i++ {
		rad := enumRadix(n, i)
		v := idx % rad
		idx /= rad
		if v == 0 {
			p.Flow[i] = gNode{Filter: endName}
			continue
		}
		v--
		t := 2 + (n - 1 - i)
		nd := gNode{Filter: enumDefs[v%2].Name}
		if (v/2)%2 == 1 {
			nd.Alias = fmt.Sprintf("x%d", i)
		}
		if (v/4)%2 == 1 {
			nd.NS = "nsA"
		}
		v /= 8
		tgs[i] = tg{v % t, (v / t) % t}
		p.Flow[i] = nd
	}
	for i := 0; i < n; i++ {
		nd := &p.Flow[i]
		if nd.isEnd() {
			continue
		}
		for k, sel := range []int{tgs[i].a, tgs[i].b} {
			if sel == 0 {
				continue
			}
			target := endName
			if sel >= 2 {
				to := &p.Flow[i+1+sel-2]
				if to.isEnd() {
					return p, true
				}
				target = to.name()
			}
			nd.Jump = append(nd.Jump, gJump{Result: enumKeys[nd.Filter][k], Target: target})
		}
	}
	return p, false
}

var randDefs = []gDef{{"fA", kindA}, {"fB", kindB}, {"fC", kindA}}

// genRandomPipe builds a flow of 1..maxN nodes over three filters with reuse, aliases
// from a small colliding pool (including an alias equal to another filter's name), END
// nodes and three namespaces.  strict: every jump target is END or a unique later name
// (well-formed by construction); loose: targets/results may be anything.
func genRandomPipe(rng *rand.Rand, maxN int, loose bool) *gPipe {
	n := 1 + rng.Intn(maxN)
	p := &gPipe{Defs: randDefs, Flow: make([]gNode, n)}
	pool := []string{"x", "y", "z", "fB"}
	for i := range p.Flow {
		if rng.Intn(100) < 12 {
			p.Flow[i] = gNode{Filter: endName}
			continue
		}
		nd := gNode{Filter: randDefs[rng.Intn(len(randDefs))].Name}
		switch a := rng.Intn(100); {
		case a < 30:
			nd.Alias = pool[rng.Intn(len(pool))]
		case a < 50:
			nd.Alias = fmt.Sprintf("n%d", i)
		}
		nd.NS = []string{"", "", "nsA", "nsB"}[rng.Intn(4)]
		p.Flow[i] = nd
	}
	for i := range p.Flow {
		nd := &p.Flow[i]
		if nd.isEnd() {
			continue
		}
		// names that occur exactly once among the later filter nodes
		cnt := map[string]int{}
		var laterNames []string
		for k := i + 1; k < n; k++ {
			if !p.Flow[k].isEnd() {
				cnt[p.Flow[k].name()]++
			}
		}
		for k := i + 1; k < n; k++ {
			if !p.Flow[k].isEnd() && cnt[p.Flow[k].name()] == 1 {
				laterNames = append(laterNames, p.Flow[k].name())
			}
		}
		for _, res := range kindResults[p.kindOf(nd.Filter)] {
			if rng.Intn(100) >= 45 {
				continue
			}
			j := gJump{Result: res, Target: endName}
			if len(laterNames) > 0 && rng.Intn(100) < 80 {
				j.Target = laterNames[rng.Intn(len(laterNames))]
			}
			if loose && rng.Intn(100) < 30 {
				switch rng.Intn(3) {
				case 0: // any node's name: earlier, self, later, duplicated
					m := &p.Flow[rng.Intn(n)]
					if !m.isEnd() {
						j.Target = m.name()
					}
				case 1:
					j.Target = "nowhere"
				case 2:
					if !hasJump(nd, "r9") {
						j.Result = "r9"
					}
				}
			}
			nd.Jump = append(nd.Jump, j)
		}
	}
	return p
}

func hasJump(nd *gNode, res string) bool {
	for _, j := range nd.Jump {
		if j.Result == res {
			return true
		}
	}
	return false
}

// setJump adds (or, when every declared result is taken, redirects) a jump of nd.
func setJump(p *gPipe, nd *gNode, target string) {
	for _, res := range kindResults[p.kindOf(nd.Filter)] {
		if !hasJump(nd, res) {
			nd.Jump = append(nd.Jump, gJump{Result: res, Target: target})
			return
		}
	}
	nd.Jump[0].Target = target
}

var clauses = []string{"reserved-filter-name", "duplicate-filter-name", "undeclared-result", "unknown-target", "backward-target", "self-target", "duplicate-target"}

// mutateIllFormed applies one ill-forming edit aimed at the given clause; the verdict
// on the result is always taken from refIllFormed, never from the intention.
func mutateIllFormed(rng *rand.Rand, p *gPipe, clause string) *gPipe {
	q := p.clone()
	var filt []int
	for i := range q.Flow {
		if !q.Flow[i].isEnd() {
			filt = append(filt, i)
		}
	}
	if len(filt) == 0 && clause != "reserved-filter-name" && clause != "duplicate-filter-name" {
		return nil
	}
	switch clause {
	case "reserved-filter-name":
		q.Defs = append(append([]gDef(nil), q.Defs...), gDef{endName, kindA})
	case "duplicate-filter-name":
		d := q.Defs[rng.Intn(len(q.Defs))]
		other := kindA
		if rng.Intn(2) == 0 {
			other = d.Kind
		}
		q.Defs = append(append([]gDef(nil), q.Defs...), gDef{d.Name, other})
	case "undeclared-result":
		nd := &q.Flow[filt[rng.Intn(len(filt))]]
		res := "r9"
		if rng.Intn(2) == 0 { // a result some other kind declares
			if q.kindOf(nd.Filter) == kindA {
				res = "r4"
			} else {
				res = "r1"
			}
		}
		nd.Jump = append(nd.Jump, gJump{Result: res, Target: endName})
	case "unknown-target":
		setJump(q, &q.Flow[filt[rng.Intn(len(filt))]], "nowhere")
	case "backward-target":
		i := filt[rng.Intn(len(filt))]
		var earlier []int
		for _, k := range filt {
			if k < i {
				earlier = append(earlier, k)
			}
		}
		if len(earlier) == 0 {
			return nil
		}
		setJump(q, &q.Flow[i], q.Flow[earlier[rng.Intn(len(earlier))]].name())
	case "self-target":
		nd := &q.Flow[filt[rng.Intn(len(filt))]]
		setJump(q, nd, nd.name())
	case "duplicate-target":
		if len(filt) < 3 {
			return nil
		}
		i := filt[rng.Intn(len(filt)-2)]
		var later []int
		for _, k := range filt {
			if k > i {
				later = append(later, k)
			}
		}
		if len(later) < 2 {
			return nil
		}
		a, b := later[rng.Intn(len(later))], later[rng.Intn(len(later))]
		if a == b {
			return nil
		}
		if rng.Intn(2) == 0 { // same filter reused without alias
			q.Flow[a].Alias, q.Flow[b].Alias = "", ""
			q.Flow[b].Filter = q.Flow[a].Filter
			q.Flow[b].Jump = nil
		} else {
			q.Flow[a].Alias, q.Flow[b].Alias = "dup", "dup"
		}
		setJump(q, &q.Flow[i], q.Flow[a].name())
	}
	return q
}

// ---------------------------------------------------------------- oracles in lock-step

type monitor struct {
	r *kit.Run
}

// checkValidation compares both real validation entry points with the reference
// well-formedness; returns the accepted super spec when the pipe is well-formed and
// accepted (so that it can be executed).
func (m *monitor) checkValidation(p *gPipe, name string) *supervisor.Spec {
	r := m.r
	ill := refIllFormed(p)
	var super *supervisor.Spec
	var e1, e2 error
	if r.Guard("validate", p, func() { super, e1, e2 = validateBoth(p, name) }) {
		return nil
	}
	r.Eval(1)
	for entry, err := range map[string]error{"supervisor.NewSpec": e1, "Spec.Validate": e2} {
		switch {
		case len(ill) == 0 && err != nil:
			r.Violation("validate:rejected-well-formed:"+entry+":"+kit.MsgClass(errHead(err)), map[string]interface{}{
				"pipeline": p, "yaml": p.pipelineYAML(name), "error": err.Error()})
		case len(ill) > 0 && err == nil:
			r.Violation("validate:accepted-ill-formed:"+strings.Join(ill, "+")+":"+entry, map[string]interface{}{
				"pipeline": p, "yaml": p.pipelineYAML(name), "violated_clauses": ill})
		}
	}
	if len(ill) == 0 {
		r.Count("valid_accepted", 1)
		r.Cover("validate:ok|" + shapeClass(p, false))
	} else {
		for _, c := range ill {
			r.Count("rejected:"+c, 1)
		}
		r.Cover("validate:" + strings.Join(ill, "+") + "|" + shapeClass(p, false))
	}
	if len(ill) == 0 && e1 == nil && e2 == nil {
		return super
	}
	return nil
}

// errHead reduces a validation error to the reason it names (no generated names), so
// that the signature of a wrongly rejected spec is stable.
func errHead(err error) string {
	s := err.Error()
	for _, c := range []struct{ needle, class string }{
		{"target filter", "target-not-found"},
		{"duplicated filter name/alias", "duplicated-name-or-alias"},
		{"duplicated filter name", "duplicated-filter-name"},
		{"is not in", "result-not-declared"},
		{"built-in", "reserved-name"},
		{"not found", "filter-or-kind-not-found"},
		{"jsonschemaErrs", "jsonschema"},
	} {
		if strings.Contains(s, c.needle) {
			return c.class
		}
	}
	if len(s) > 60 {
		s = s[:60]
	}
	return s
}

// runVectors executes the real code for every result vector (or up to limit, then
// extra random vectors) and compares with the reference.
func (m *monitor) runVectors(mode string, phases []phase, limit, extraRandom int, rng *rand.Rand,
	call func(ctx *context.Context) (string, bool), detail interface{}) {
	r := m.r
	one := func(rr *refRun) {
		var got *realOut
		if r.Guard("exec:"+mode, map[string]interface{}{"case": detail, "script": rr.Script}, func() { got = execReal(rr.Script, call) }) {
			return
		}
		r.Eval(1)
		r.Cover(coverSig(mode, phases, rr))
		r.Count("how:"+rr.How, 1)
		r.Count("mode:"+mode, 1)
		for f := range rr.flags {
			r.Count("flag:"+f, 1)
		}
		if len(rr.Trace) >= 3 {
			r.Count("visits>=3", 1)
		}
		if diff := compare(rr, got); diff != "" {
			r.Violation("exec:"+mode+":"+diff, map[string]interface{}{
				"case": detail, "script": rr.Script, "reference": map[string]interface{}{
					"trace": rr.Trace, "tags": rr.Tags, "result": rr.Result, "finished": rr.How + "@" + rr.Where},
				"real": got,
			})
		}
	}
	complete := forEachVector(phases, limit, one)
	if complete {
		r.Count("flows_all_vectors", 1)
		return
	}
	r.Count("flows_vector_limit_hit", 1)
	for k := 0; k < extraRandom; k++ {
		one(refExecute(phases, func(_ int, options []string) string {
			if rng.Intn(100) < 45 {
				return ""
			}
			return options[rng.Intn(len(options))]
		}))
	}
}

func requireCommon(r *kit.Run, keys ...string) {
	for _, k := range keys {
		r.Require(k, 1)
	}
}

// ---------------------------------------------------------------- part 1: complete small scope

// TestVerif_C02_EnumSmall enumerates completely: every flow of up to 2 (thorough: 3)
// nodes of the systematic alphabet x every result vector, through Pipeline.Handle, plus
// the validation oracle on each flow (flows whose positional target lands on a
// duplicated name are the naturally ill-formed members of the space).
func TestVerif_C02_EnumSmall(t *testing.T) {
	r := kit.Start(t, "C02")
	defer r.Finish()
	m := &monitor{r}
	maxN := r.N(2, 3)
	r.Rule(fmt.Sprintf("COMPLETE enumeration of flows with 1..%d nodes: node = END | filter fA(kind r1,r2,r3)/fB(kind r2,r4) x alias/no alias x namespace/default x target of first and of second jumpable result in {absent, END, each later position}; every such flow is validated by supervisor.NewSpec and Spec.Validate (compared with the reference well-formedness) and, when well-formed, created with Pipeline.Init and executed for EVERY assignment of results ('' and each declared result) to filter invocations, compared with the reference interpreter on visit trace (filter instance, namespace seen by the filter), pipeline result and stats tag; distinct = (flow shape class, step classes of the result vector, how/where it ended)", maxN))
	r.Exhaustive(true)
	base := 0
	for n := 1; n <= maxN; n++ {
		size := enumSize(n)
		for idx := 0; idx < size; idx++ {
			i := base + idx
			if !r.Mine(i) {
				continue
			}
			p, redundant := enumDecode(n, idx)
			if redundant {
				r.Count("enum_redundant_skipped", 1)
				continue
			}
			r.Case(i, p)
			super := m.checkValidation(p, "main")
			if super == nil {
				continue
			}
			var pl *pipeline.Pipeline
			if r.Guard("init", p, func() { pl = newPipeline(super) }) {
				continue
			}
			phases := []phase{{"main", p}}
			m.runVectors("Handle", phases, 1<<20, 0, nil, func(ctx *context.Context) (string, bool) { return pl.Handle(ctx), true }, p)
			if i%97 == 0 {
				r.Sample(map[string]interface{}{"flow": p, "yaml": p.pipelineYAML("main")})
			}
			pl.Close()
		}
		base += size
	}
	requireCommon(r, "how:end-node", "how:unmapped", "how:mapped-END", "how:exhausted",
		"flag:jump-over-filter", "flag:ns-switch", "flag:reuse", "valid_accepted", "rejected:duplicate-target")
	if maxN >= 3 {
		r.Require("flag:jump-over-END", 1)
	}
}

// ---------------------------------------------------------------- part 2: sampled larger flows

// TestVerif_C02_Flows: (a) seeded samples of the systematic space with 3 and 4 nodes,
// (b) random flows of up to 7 nodes over 3 filters / 3 namespaces with colliding
// aliases, (c) ill-forming edits of (b) for the reject direction of the validation
// oracle.
func TestVerif_C02_Flows(t *testing.T) {
	r := kit.Start(t, "C02")
	defer r.Finish()
	m := &monitor{r}
	r.Rule("case i mod 3: 0 = uniformly drawn member of the systematic space with 3 or 4 nodes; 1 = random flow of 1..7 nodes over filters fA,fB,fC (two kinds), reuse, aliases from a colliding pool (incl. an alias equal to another filter's name), END nodes, namespaces {default,nsA,nsB}, strict (well-formed by construction) or loose (targets/results arbitrary); 2 = a strict random flow plus one ill-forming edit aimed at one of the seven reject clauses (verdict always from the reference predicate). Every flow goes through both validation entry points; accepted well-formed flows are executed through Pipeline.Handle for all result vectors (depth-first, cap 600, then 150 random vectors). distinct = (flow shape class, step classes, how/where ended) and (validation verdict, clause set, shape)")
	total := r.N(10000, 250000)
	for i := 0; i < total; i++ {
		if !r.Mine(i) {
			continue
		}
		rng := r.CaseRand(i)
		var p *gPipe
		kind := ""
		switch i % 3 {
		case 0:
			n := 3 + rng.Intn(2)
			for tries := 0; ; tries++ {
				q, red := enumDecode(n, rng.Intn(enumSize(n)))
				if !red || tries > 50 {
					p = q
					break
				}
			}
			kind = fmt.Sprintf("enum%d", n)
		case 1:
			loose := rng.Intn(100) < 35
			p = genRandomPipe(rng, 7, loose)
			kind = "random-strict"
			if loose {
				kind = "random-loose"
			}
		case 2:
			clause := clauses[(i/3)%len(clauses)]
			for tries := 0; tries < 30 && p == nil; tries++ {
				p = mutateIllFormed(rng, genRandomPipe(rng, 6, false), clause)
			}
			if p == nil {
				r.Count("mutation_not_applicable", 1)
				continue
			}
			kind = "ill-formed-edit:" + clause
		}
		r.Case(i, map[string]interface{}{"gen": kind, "pipeline": p})
		r.Count("gen:"+strings.SplitN(kind, ":", 2)[0], 1)
		super := m.checkValidation(p, "main")
		if super == nil {
			continue
		}
		var pl *pipeline.Pipeline
		if r.Guard("init", p, func() { pl = newPipeline(super) }) {
			continue
		}
		m.runVectors("Handle", []phase{{"main", p}}, 600, 150, rng, func(ctx *context.Context) (string, bool) { return pl.Handle(ctx), true }, p)
		if i < 6 {
			r.Sample(map[string]interface{}{"gen": kind, "flow": p})
		}
		pl.Close()
	}
	requireCommon(r, "how:end-node", "how:unmapped", "how:mapped-END", "how:exhausted",
		"flag:jump-over-filter", "flag:jump-over-END", "flag:ns-switch", "flag:reuse", "visits>=3", "valid_accepted")
	for _, c := range clauses {
		r.Require("rejected:"+c, 1)
	}
}

// ---------------------------------------------------------------- part 3: before / main / after

// tinyFlows is the systematic alphabet for the before/after product.
func tinyFlows() []*gPipe {
	mk := func(nodes ...gNode) *gPipe { return &gPipe{Defs: enumDefs, Flow: nodes} }
	return []*gPipe{
		nil,
		mk(gNode{Filter: endName}),
		mk(gNode{Filter: "fA"}),
		mk(gNode{Filter: "fA", NS: "nsA", Jump: []gJump{{"r1", endName}}}),
		mk(gNode{Filter: "fB", Jump: []gJump{{"r2", "x1"}}}, gNode{Filter: endName}, gNode{Filter: "fA", Alias: "x1", NS: "nsB"}),
		mk(gNode{Filter: "fA"}, gNode{Filter: endName}, gNode{Filter: "fB"}),
	}
}

// TestVerif_C02_BeforeAfter runs before/main/after triples (a) directly through
// Pipeline.HandleWithBeforeAfter with pipelines the harness created (result observable,
// nil before/after included) and (b) through a real GlobalFilter created from its spec
// with GlobalFilter.Init and driven with GlobalFilter.Handle.
func TestVerif_C02_BeforeAfter(t *testing.T) {
	r := kit.Start(t, "C02")
	defer r.Finish()
	m := &monitor{r}
	r.Rule("first 180 cases: complete product before x main x after over 6 hand-picked tiny flows (absent, [END], [f], [f jumpIf->END in nsA], [f jump over END to aliased node], [f,END,f]) with main never absent; then seeded random triples (each side absent 25%, member of the systematic space with 1-2 nodes, or strict random flow up to 4 nodes; 15%: one side made ill-formed to check that GlobalFilter validation rejects). Each triple x every result vector (cap 800 + 150 random) is executed by HandleWithBeforeAfter and by GlobalFilter.Handle and compared with the reference (same interpreter, an end in any phase ends all). distinct = (mode, shape classes of the three flows, step classes, how/where ended)")
	tiny := tinyFlows()
	nTiny := len(tiny) * (len(tiny) - 1) * len(tiny)
	total := nTiny + r.N(2500, 60000)
	for i := 0; i < total; i++ {
		if !r.Mine(i) {
			continue
		}
		rng := r.CaseRand(i)
		var before, main, after *gPipe
		breakSide := ""
		if i < nTiny {
			before = tiny[i%len(tiny)]
			main = tiny[1+(i/len(tiny))%(len(tiny)-1)]
			after = tiny[i/len(tiny)/(len(tiny)-1)]
		} else {
			pick := func(optional bool) *gPipe {
				for {
					switch c := rng.Intn(100); {
					case optional && c < 25:
						return nil
					case c < 60:
						n := 1 + rng.Intn(2)
						q, red := enumDecode(n, rng.Intn(enumSize(n)))
						if !red && len(refIllFormed(q)) == 0 {
							return q
						}
					default:
						return genRandomPipe(rng, 4, false)
					}
				}
			}
			before, main, after = pick(true), pick(false), pick(true)
			if rng.Intn(100) < 15 {
				side := &before
				breakSide = "before"
				if rng.Intn(2) == 0 {
					side, breakSide = &after, "after"
				}
				var q *gPipe
				if *side != nil {
					q = mutateIllFormed(rng, *side, clauses[rng.Intn(len(clauses))])
				}
				if q == nil || len(refIllFormed(q)) == 0 {
					breakSide = ""
				} else {
					*side = q
				}
			}
		}
		desc := map[string]interface{}{"before": before, "main": main, "after": after}
		r.Case(i, desc)

		// --- GlobalFilter validation oracle
		var gfErr error
		gfPanicked := r.Guard("gf-validate", desc, func() { _, gfErr = supervisor.NewSpec(globalFilterYAML(before, after)) })
		if gfPanicked {
			continue
		}
		r.Eval(1)
		if breakSide != "" {
			ill := refIllFormed(map[string]*gPipe{"before": before, "after": after}[breakSide])
			if gfErr == nil {
				r.Violation("validate:globalfilter-accepted-ill-formed:"+strings.Join(ill, "+")+":"+breakSide, map[string]interface{}{
					"case": desc, "yaml": globalFilterYAML(before, after), "violated_clauses": ill})
			}
			r.Count("gf_rejected_illformed", 1)
			r.Cover("gf-validate:" + breakSide + "|" + strings.Join(ill, "+"))
			continue
		}
		if gfErr != nil {
			r.Violation("validate:globalfilter-rejected-well-formed:"+kit.MsgClass(errHead(gfErr)), map[string]interface{}{
				"case": desc, "yaml": globalFilterYAML(before, after), "error": gfErr.Error()})
			continue
		}

		// --- build the real objects
		var phases []phase
		pls := map[string]*pipeline.Pipeline{}
		ok := true
		for _, side := range []struct {
			name string
			p    *gPipe
		}{{"before", before}, {"main", main}, {"after", after}} {
			if side.p == nil {
				continue
			}
			super := m.checkValidation(side.p, side.name)
			if super == nil {
				ok = false
				break
			}
			if r.Guard("init", side.p, func() { pls[side.name] = newPipeline(super) }) {
				ok = false
				break
			}
			phases = append(phases, phase{side.name, side.p})
		}
		if !ok {
			continue
		}
		mainPl := pls["main"]
		m.runVectors("HandleWithBeforeAfter", phases, 800, 150, rng, func(ctx *context.Context) (string, bool) {
			return mainPl.HandleWithBeforeAfter(ctx, pls["before"], pls["after"]), true
		}, desc)
		if before == nil && after == nil {
			m.runVectors("HandleWithBeforeAfter(nil,nil)=Handle", phases, 800, 150, rng, func(ctx *context.Context) (string, bool) {
				return mainPl.Handle(ctx), true
			}, desc)
		}

		gf, err := newGlobalFilter(before, after)
		if err != nil {
			r.Violation("validate:globalfilter-rejected-well-formed-on-second-try:"+kit.MsgClass(errHead(err)), desc)
			continue
		}
		m.runVectors("GlobalFilter.Handle", phases, 800, 150, rng, func(ctx *context.Context) (string, bool) {
			gf.Handle(ctx, mainPl)
			return "", false
		}, desc)
		if before != nil {
			r.Count("gf_with_before", 1)
		}
		if after != nil {
			r.Count("gf_with_after", 1)
		}
		gf.Close()
		for _, pl := range pls {
			pl.Close()
		}
		if i%61 == 0 {
			r.Sample(desc)
		}
	}
	requireCommon(r, "mode:HandleWithBeforeAfter", "mode:GlobalFilter.Handle", "flag:end-stops-later-phase",
		"gf_with_before", "gf_with_after", "gf_rejected_illformed", "how:end-node", "how:unmapped", "how:mapped-END", "how:exhausted")
}

// ---------------------------------------------------------------- part 4: aliases on END nodes

// TestVerif_C02_EndAlias: END nodes that carry an alias.  Validation ignores END nodes
// when it collects jump targets, so a target name is "unique" for it even when an END
// node in between carries the same alias.  Wherever no jump target coincides with the
// alias of an END node the two possible readings of such an alias agree and the
// comparison is deciding; the coinciding ("shadowing") shape is classified on its own:
// spec accepted, jumpIf names a unique later filter node, yet the run stops at the END
// node in between instead of skipping it.
func TestVerif_C02_EndAlias(t *testing.T) {
	r := kit.Start(t, "C02")
	defer r.Finish()
	m := &monitor{r}
	deciding := os.Getenv("VERIF_C02_ENDALIAS") != "explore"
	r.Rule("case 0: the minimal shadow flow [fA jumpIf r1->x, END alias x, fB alias x]; then strict random flows (1..6 nodes) into which END nodes are inserted and given aliases drawn from the names of the other nodes, the targets in use, or fresh names. Validation verdict is only compared when no jump target equals an END alias. Accepted flows are executed for all result vectors against the reference that treats END aliases as not addressable (the validator's reading); runs whose reference path jumps over an END node carrying the target's name are classified 'end-alias-shadows-jump-target' when the real run stops there")
	if !deciding {
		r.Assume("VERIF_C02_ENDALIAS=explore: the shadowing shape is only counted, not decided")
	}
	total := r.N(3000, 60000)
	for i := 0; i < total; i++ {
		if !r.Mine(i) {
			continue
		}
		rng := r.CaseRand(i)
		var p *gPipe
		if i == 0 {
			p = &gPipe{Defs: enumDefs, Flow: []gNode{
				{Filter: "fA", Jump: []gJump{{"r1", "x"}}},
				{Filter: endName, Alias: "x"},
				{Filter: "fB", Alias: "x"},
			}}
		} else {
			p = genRandomPipe(rng, 6, false)
			// insert 1-2 END nodes and alias every END node with probability 0.8
			for k := 1 + rng.Intn(2); k > 0; k-- {
				at := rng.Intn(len(p.Flow) + 1)
				p.Flow = append(p.Flow[:at], append([]gNode{{Filter: endName}}, p.Flow[at:]...)...)
			}
			var names []string
			for k := range p.Flow {
				if !p.Flow[k].isEnd() {
					names = append(names, p.Flow[k].name())
					for _, j := range p.Flow[k].Jump {
						if j.Target != endName {
							names = append(names, j.Target, j.Target)
						}
					}
				}
			}
			names = append(names, "fresh")
			for k := range p.Flow {
				if p.Flow[k].isEnd() && rng.Intn(100) < 80 {
					p.Flow[k].Alias = names[rng.Intn(len(names))]
				}
			}
		}
		r.Case(i, p)
		endAlias := map[string]bool{}
		for k := range p.Flow {
			if p.Flow[k].isEnd() && p.Flow[k].Alias != "" {
				endAlias[p.Flow[k].Alias] = true
			}
		}
		targetHitsEndAlias := false
		for k := range p.Flow {
			for _, j := range p.Flow[k].Jump {
				targetHitsEndAlias = targetHitsEndAlias || endAlias[j.Target]
			}
		}
		var super *supervisor.Spec
		if !targetHitsEndAlias {
			super = m.checkValidation(p, "main")
			r.Count("endalias_validation_decided", 1)
		} else {
			var e1, e2 error
			if r.Guard("validate", p, func() { super, e1, e2 = validateBoth(p, "main") }) {
				continue
			}
			r.Eval(1)
			if (e1 == nil) != (e2 == nil) {
				r.Violation("validate:entry-points-disagree", map[string]interface{}{"pipeline": p, "NewSpec": fmt.Sprint(e1), "Validate": fmt.Sprint(e2)})
			}
			if e1 != nil || e2 != nil {
				r.Count("endalias_target_named_like_END_alias_rejected", 1)
				super = nil
			} else {
				r.Count("endalias_target_named_like_END_alias_accepted", 1)
			}
			if len(refIllFormed(p)) != 0 {
				super = nil // reference interpreter needs a resolvable target
			}
		}
		if super == nil {
			continue
		}
		var pl *pipeline.Pipeline
		if r.Guard("init", p, func() { pl = newPipeline(super) }) {
			continue
		}
		phases := []phase{{"main", p}}
		forEachVector(phases, 600, func(rr *refRun) {
			var got *realOut
			if r.Guard("exec:Handle+END-alias", map[string]interface{}{"case": p, "script": rr.Script}, func() {
				got = execReal(rr.Script, func(ctx *context.Context) (string, bool) { return pl.Handle(ctx), true })
			}) {
				return
			}
			r.Eval(1)
			shadowAt := rr.ShadowAt
			diff := compare(rr, got)
			r.Cover(coverSig(fmt.Sprintf("Handle+END-alias(shadow=%v)", shadowAt >= 0), phases, rr))
			if shadowAt < 0 {
				r.Count("endalias_runs_without_shadow", 1)
				if diff != "" {
					r.Violation("exec:Handle+END-alias:"+diff, map[string]interface{}{"case": p, "script": rr.Script, "reference": rr.Trace, "real": got})
				}
				return
			}
			r.Count("endalias_shadow_runs", 1)
			stoppedAtEnd := shadowAt >= 0 && compare(truncated(rr, shadowAt), &realOut{
				Trace: got.Trace, Tags: got.Tags, TagErr: got.TagErr, Result: got.Result, HasResult: true}) == ""
			switch {
			case diff == "":
				r.Count("endalias_shadow_jump_performed", 1)
			case stoppedAtEnd:
				r.Count("endalias_shadow_stopped_at_END", 1)
				detail := map[string]interface{}{
					"pipeline": p, "yaml": p.pipelineYAML("main"), "script": rr.Script,
					"expected_visits": rr.Trace, "real_visits": got.Trace, "real_tag": got.TagRaw,
					"explanation": "validation accepts the spec and resolves the jump target to the later filter node (END nodes are not counted as targets); at run time the END node in between carries the same alias, matches the pending jump and ends the pipeline, so the node named by jumpIf never runs",
				}
				if deciding {
					r.Violation("end-alias-shadows-jump-target:Handle", detail)
				} else {
					r.Note("candidate finding (not decided): END alias shadows jump target: %s", p.pipelineYAML("main"))
				}
			default:
				r.Violation("exec:Handle+END-alias-shadow:"+diff, map[string]interface{}{"case": p, "script": rr.Script, "reference": rr.Trace, "real": got})
			}
		})
		pl.Close()
		if i < 3 {
			r.Sample(p)
		}
	}
	requireCommon(r, "endalias_runs_without_shadow", "endalias_shadow_runs", "endalias_validation_decided")
}

// truncated is the reference run cut after invocation k with the pipeline ending there.
func truncated(rr *refRun, k int) *refRun {
	return &refRun{Script: rr.Script[:k+1], Trace: rr.Trace[:k+1], Tags: rr.Tags[:k+1],
		Result: rr.Script[k], Steps: rr.Steps[:k+1], How: "end-node", Where: rr.Where, ShadowAt: -1}
}
