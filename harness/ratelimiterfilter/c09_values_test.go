//go:build verif

package ratelimiter

// C09, part 3b: the RateLimiter filter must honour the policy values AS WRITTEN.
//
// The Rules/Reload parts use one-hour periods only, so they never see what the filter makes
// of short refresh periods, of an explicit zero / tiny timeoutDuration, or of the different
// spellings of one duration ("0s", "0ms", "0", "50ms", "0.05s", "50000us", ...).  Here the
// policy is written with such values, the real filter is built from the YAML through
// filters.NewSpec, and every request goes through the real Handle.
//
// The clock of pkg/util/ratelimiter (package variable nowFunc, the seam named in the
// property's anchors) is reached with go:linkname, so arrival instants and periods are
// virtual and exact.  Observation per request: result / status code (429 or none) and the
// imposed wait the filter itself reports in the tag "rateLimiter: waiting duration: <d>".
// Oracle: the same book of releases per aligned period as in the library part, with limit,
// period and timeout parsed BY THE HARNESS from the strings in the YAML:
//
//   conservation : releases (t+wait) per aligned period <= limitForPeriod
//   wait bound   : 0 <= wait <= timeoutDuration   (timeout 0 => nobody is made to wait:
//                  a request beyond the limit is answered 429)
//   immediacy    : current period has a spare permit  =>  admitted without wait
//   rejection    : 429 only when every period p .. p+floor(timeout/period) is full
//   unmatched    : a URL that matches no rule is never limited
//   held         : a request told to wait d leaves Handle no earlier than d after it entered
//                  (real time, LOWER bound only)
//
// No wall-clock upper bound decides anything.  A request that was told to wait sleeps in
// real time inside Handle; the harness does not sit that out: it starts the next arrival as
// soon as the previous one has read the clock (the limiter reads it under its lock, so the
// order of the arrivals at the limiter is the order in which they were started) and joins
// all calls at the end of the case.

import (
	"fmt"
	"math/rand"
	"net/http"
	"runtime"
	"strings"
	"sync/atomic"
	"testing"
	"time"
	_ "unsafe" // go:linkname

	"verif.local/kit"
)

//go:linkname c09LibNowFunc github.com/megaease/easegress/pkg/util/ratelimiter.nowFunc
var c09LibNowFunc func() time.Time

var c09VBase = time.Date(2022, 3, 1, 12, 0, 0, 0, time.UTC)

type c09VClock struct{ ns, reads atomic.Int64 }

func (c *c09VClock) Now() time.Time {
	t := c09VBase.Add(time.Duration(c.ns.Load()))
	c.reads.Add(1) // after the value was taken: whoever sees the increment may move the clock
	return t
}

// ---------------------------------------------------------------- policy as written

type c09VPol struct {
	Limit      int           `json:"limit"`
	PeriodStr  string        `json:"limitRefreshPeriod_as_written"`
	TimeoutStr string        `json:"timeoutDuration_as_written"`
	Period     time.Duration `json:"period_ns_parsed_by_harness"`
	Timeout    time.Duration `json:"timeout_ns_parsed_by_harness"`
	TClass     string        `json:"timeout_class"`
	PClass     string        `json:"period_class"`
}

func (p c09VPol) YAML() string {
	return fmt.Sprintf("kind: RateLimiter\nname: c09values\npolicies:\n- name: p0\n  timeoutDuration: '%s'\n  limitRefreshPeriod: '%s'\n  limitForPeriod: %d\ndefaultPolicyRef: p0\nurls:\n- url:\n    prefix: '/a'\n",
		p.TimeoutStr, p.PeriodStr, p.Limit)
}

var (
	c09VPeriods = []time.Duration{time.Millisecond, 2 * time.Millisecond, 5 * time.Millisecond, 10 * time.Millisecond, 20 * time.Millisecond,
		25 * time.Millisecond, 50 * time.Millisecond, 100 * time.Millisecond, 250 * time.Millisecond, time.Second}
	c09VZeros    = []string{"0s", "0ms", "0us", "0ns", "0m", "0h0m0s", "0"}
	c09VTClasses = []string{"zero", "zero", "zero", "tiny", "ltP", "eq1P", "eq2P", "eq3P", "between1-2", "fixed"}
)

// c09VMaxTimeout bounds the real time one request can be told to sleep inside Handle.
const c09VMaxTimeout = 200 * time.Millisecond

// c09Spell writes a duration in one of its equivalent spellings.
func c09Spell(rng *rand.Rand, d time.Duration) (string, string) {
	if d == 0 {
		return c09VZeros[rng.Intn(len(c09VZeros))], "zero"
	}
	type v struct{ s, unit string }
	vs := []v{{d.String(), "canonical"}, {fmt.Sprintf("%dns", int64(d)), "ns"}}
	if d%time.Microsecond == 0 {
		vs = append(vs, v{fmt.Sprintf("%dus", int64(d/time.Microsecond)), "us"})
	}
	if d%time.Millisecond == 0 {
		vs = append(vs, v{fmt.Sprintf("%dms", int64(d/time.Millisecond)), "ms"}, v{fmt.Sprintf("%gs", d.Seconds()), "s"})
	}
	x := vs[rng.Intn(len(vs))]
	return x.s, x.unit
}

func c09VGenPol(rng *rand.Rand, i int) (c09VPol, string, string) {
	pol := c09VPol{Limit: 1 + rng.Intn(4)}
	P := c09VPeriods[rng.Intn(len(c09VPeriods))]
	class := c09VTClasses[rng.Intn(len(c09VTClasses))]
	if i < 4*len(c09VPeriods) { // systematic prefix: explicit zero and tiny timeouts with every period
		P = c09VPeriods[i%len(c09VPeriods)]
		class = []string{"zero", "tiny", "zero", "ltP"}[i/len(c09VPeriods)]
	}
	var T time.Duration
	switch class {
	case "zero":
		T = 0
	case "tiny":
		T = []time.Duration{1, time.Microsecond, time.Millisecond}[rng.Intn(3)]
	case "ltP":
		T = time.Duration(1+rng.Int63n(int64(P/time.Microsecond)-1)) * time.Microsecond
	case "eq1P":
		T = P
	case "eq2P":
		T = 2 * P
	case "eq3P":
		T = 3 * P
	case "between1-2":
		T = P + time.Duration(1+rng.Int63n(int64(P/time.Microsecond)-1))*time.Microsecond
	case "fixed":
		T = []time.Duration{50 * time.Millisecond, 100 * time.Millisecond}[rng.Intn(2)]
	}
	if T > c09VMaxTimeout {
		T = time.Duration(1+rng.Int63n(int64(c09VMaxTimeout/time.Millisecond))) * time.Millisecond
	}
	var pu, tu string
	pol.PeriodStr, pu = c09Spell(rng, P)
	pol.TimeoutStr, tu = c09Spell(rng, T)
	// the reference takes the values from the strings as written, nothing else
	var err error
	if pol.Period, err = time.ParseDuration(pol.PeriodStr); err != nil || pol.Period != P {
		panic(fmt.Sprintf("c09: generator spelled %s as %q", P, pol.PeriodStr))
	}
	if pol.Timeout, err = time.ParseDuration(pol.TimeoutStr); err != nil || pol.Timeout != T {
		panic(fmt.Sprintf("c09: generator spelled %s as %q", T, pol.TimeoutStr))
	}
	switch h := T / P; {
	case T == 0:
		pol.TClass = "zero"
	case T < P:
		pol.TClass = "lt1P"
	case T%P == 0 && h <= 3:
		pol.TClass = fmt.Sprintf("eq%dP", h)
	case h <= 3:
		pol.TClass = fmt.Sprintf("%d-%dP", h, h+1)
	default:
		pol.TClass = "gt3P"
	}
	switch {
	case P <= 10*time.Millisecond:
		pol.PClass = "P<=10ms"
	case P <= 100*time.Millisecond:
		pol.PClass = "P<=100ms"
	default:
		pol.PClass = "P>100ms"
	}
	return pol, pu, tu
}

// ---------------------------------------------------------------- the book (as in the library part)

type c09VBook struct {
	start   int64
	pol     c09VPol
	horizon int64
	rel     map[int64]int
}

func (b *c09VBook) period(t int64) int64 { return (t - b.start) / int64(b.pol.Period) }

func (b *c09VBook) freeInHorizon(t int64) int {
	p := b.period(t)
	n := 0
	for j := p; j <= p+b.horizon; j++ {
		if f := b.pol.Limit - b.rel[j]; f > 0 {
			n += f
		}
	}
	return n
}

func (b *c09VBook) arrive(t int64, ok bool, wait time.Duration) (bad []string, class string) {
	p := b.period(t)
	spare := b.rel[p] < b.pol.Limit
	if !ok {
		if spare {
			bad = append(bad, "rejected-while-current-period-has-spare-permit")
		} else if b.freeInHorizon(t) > 0 {
			bad = append(bad, "rejected-while-permit-free-within-timeout-horizon")
		}
		return bad, "rejected"
	}
	if wait < 0 {
		bad = append(bad, "negative-wait")
	}
	if wait > b.pol.Timeout {
		bad = append(bad, "wait-exceeds-timeout")
	}
	if spare && wait != 0 {
		bad = append(bad, "spare-permit-in-current-period-but-made-to-wait")
	}
	rp := b.period(t + int64(wait))
	b.rel[rp]++
	if b.rel[rp] > b.pol.Limit {
		bad = append(bad, "more-than-limit-releases-in-one-period")
	}
	if wait == 0 {
		return bad, "immediate"
	}
	return bad, fmt.Sprintf("waited+%d", rp-p)
}

var c09VGapKinds = []string{"zero", "zero", "zero", "zero", "zero", "tiny", "small", "small", "toBoundary", "boundary-1ns", "boundary+1ns", "onePeriod", "kPeriods", "huge"}

func c09VGap(rng *rand.Rand, kind string, now, start, P int64) int64 {
	next := start + ((now-start)/P+1)*P
	switch kind {
	case "zero":
		return 0
	case "tiny":
		return 1 + rng.Int63n(1000)
	case "small":
		return 1 + rng.Int63n(P-1)
	case "toBoundary":
		return next - now
	case "boundary-1ns":
		if next-1 > now {
			return next - 1 - now
		}
		return 0
	case "boundary+1ns":
		return next + 1 - now
	case "onePeriod":
		return P
	case "kPeriods":
		return int64(2+rng.Intn(4)) * P
	case "huge":
		return int64(1000+rng.Intn(100000))*P + rng.Int63n(P)
	}
	panic(kind)
}

const c09VWaitTag = "rateLimiter: waiting duration: "

// c09VWait reads the imposed wait the filter reports for an admitted request (0 = none).
func c09VWait(tags string) (time.Duration, error) {
	at := strings.Index(tags, c09VWaitTag)
	if at < 0 {
		return 0, nil
	}
	s := tags[at+len(c09VWaitTag):]
	if end := strings.Index(s, " | "); end >= 0 {
		s = s[:end]
	}
	return time.ParseDuration(s)
}

type c09VEv struct {
	T       int64  `json:"t_ns_since_creation"`
	Gap     string `json:"gap"`
	Path    string `json:"path"`
	Result  string `json:"result"`
	Status  int    `json:"status"`
	WaitNS  int64  `json:"imposed_wait_ns_from_tag"`
	HeldNS  int64  `json:"real_ns_inside_Handle"`
	Verdict string `json:"verdict,omitempty"`
}

type c09VCall struct {
	t       int64
	gap     string
	path    string
	done    chan struct{}
	out     c09Out
	held    time.Duration
	panicAt string
}

func TestVerif_C09_FilterPolicyValues(t *testing.T) {
	r := kit.Start(t, "C09")
	defer r.Finish()
	clk := &c09VClock{}
	old := c09LibNowFunc
	c09LibNowFunc = clk.Now
	defer func() { c09LibNowFunc = old }()
	r.Rule("one rule (prefix /a) whose policy is written with limit 1-4, limitRefreshPeriod {1,2,5,10,20,25,50,100,250 ms, 1 s} and timeoutDuration {explicit zero, 1ns/1us/1ms, <P, =P, =2P, =3P, between, 50ms/100ms} (capped at 200 ms), each duration in a random equivalent spelling (0s 0ms 0us 0ns 0m 0h0m0s 0 / canonical, ns, us, ms, fractional s); systematic prefix = every period x {zero, tiny, zero, <P}; built from YAML through filters.NewSpec; 24 arrivals per case through the real Handle on a virtual clock (library nowFunc) with gaps {0, tiny, <P, to the boundary, boundary-1ns, boundary+1ns, P, kP, thousands of periods}, burst-heavy, 1 in 8 to a URL matching no rule; outcome = (429/rateLimited | admitted, wait from the filter's own 'waiting duration' tag) judged against a book of releases per aligned period computed from the values as written; distinct = (timeout class, period class, limit, outcome incl. periods waited, gap kind, spelling units)")
	r.Assume("durations mean what time.ParseDuration says; periods are aligned to the virtual instant at which the filter was initialised; timeout horizon read in whole periods; the wait the filter imposes is the one it reports in its tag (and the request is really held at least that long: lower bound on real time)")
	const arrivals = 24
	n := r.N(500, 10000)
	for i := 0; i < n; i++ {
		if !r.Mine(i) {
			continue
		}
		if c09Stuck.Load() {
			break
		}
		rng := r.CaseRand(i)
		pol, pu, tu := c09VGenPol(rng, i)
		start := rng.Int63n(int64(time.Hour))
		r.Case(i, map[string]interface{}{"policy": pol, "start_ns": start})
		clk.ns.Store(start)
		f, err := c09BuildYAML(pol.YAML(), nil)
		if err != nil {
			r.Count("values_spec_rejected", 1)
			r.Count("values_spec_rejected_timeout_"+pol.TimeoutStr, 1)
			r.Note("spec rejected (%v): %s", err, pol.YAML())
			continue
		}
		r.Count("values_timeout_spelled_"+tu, 1)
		r.Count("values_period_spelled_"+pu, 1)
		if pol.Timeout == 0 {
			r.Count("values_zero_written_as_"+pol.TimeoutStr, 1)
		}
		book := &c09VBook{start: start, pol: pol, horizon: int64(pol.Timeout / pol.Period), rel: map[int64]int{}}
		burst := rng.Intn(3) != 0
		calls := make([]*c09VCall, 0, arrivals)
		now := start
		for k := 0; k < arrivals; k++ {
			kind := c09VGapKinds[rng.Intn(len(c09VGapKinds))]
			if burst && rng.Intn(3) != 0 {
				kind = "zero"
			}
			if k == 0 && rng.Intn(2) == 0 {
				kind = "zero"
			}
			now += c09VGap(rng, kind, now, start, int64(pol.Period))
			clk.ns.Store(now)
			c := &c09VCall{t: now, gap: kind, path: "/a/x", done: make(chan struct{})}
			if rng.Intn(8) == 0 {
				c.path = "/zz"
			}
			calls = append(calls, c)
			before := clk.reads.Load()
			go func() {
				defer close(c.done)
				begin := time.Now()
				_, site, p := kit.Recover(func() { c.out = c09Handle(f, "GET", c.path) })
				c.held = time.Since(begin)
				if p {
					c.panicAt = site
				}
			}()
			// next arrival only after this one has taken its instant from the clock (or returned)
			for spins := 0; clk.reads.Load() == before; spins++ {
				select {
				case <-c.done:
				default:
					if spins < 200 {
						runtime.Gosched()
					} else {
						time.Sleep(50 * time.Microsecond)
					}
					continue
				}
				break
			}
		}
		var hist []c09VEv
		detail := func(k int) interface{} {
			return map[string]interface{}{"yaml": pol.YAML(), "policy": pol, "start_ns": start, "history": hist, "failing_index": k}
		}
		for k, c := range calls {
			<-c.done
			if c.panicAt != "" {
				r.Violation("filter:values:panic:"+c.panicAt, detail(k))
				break
			}
			if c.out.Stuck {
				r.Inconclusive(fmt.Sprintf("filter:values: Handle still blocked after %s (timeout as written %s)", c09Watchdog, pol.TimeoutStr))
				break
			}
			r.Eval(1)
			wait, werr := c09VWait(c.out.Tags)
			ev := c09VEv{T: c.t - start, Gap: c.gap, Path: c.path, Result: c.out.Result, Status: c.out.Status, WaitNS: int64(wait), HeldNS: int64(c.held)}
			hist = append(hist, ev)
			if werr != nil {
				r.Inconclusive("filter:values: cannot read the imposed wait from the tags: " + c.out.Tags)
				break
			}
			if c.path == "/zz" {
				r.Count("values_no_rule", 1)
				if c.out.Result != "" || c.out.Status != 0 || wait != 0 {
					r.Violation("filter:values:request-matching-no-rule-was-limited", detail(k))
				}
				continue
			}
			if c.out.Result != "" && c.out.Result != resultRateLimited {
				r.Violation("filter:values:unexpected-result", detail(k))
				continue
			}
			ok := c.out.Result == ""
			full := book.rel[book.period(c.t)] >= pol.Limit
			var bad []string
			if !ok && c.out.Status != http.StatusTooManyRequests {
				bad = append(bad, "limited-without-429")
			}
			if ok && c.out.Status != 0 {
				bad = append(bad, "passed-request-got-a-response")
			}
			if ok && wait > 0 && c.held < wait {
				bad = append(bad, "told-to-wait-but-left-Handle-earlier")
			}
			b2, class := book.arrive(c.t, ok, wait)
			bad = append(bad, b2...)
			oc := class
			if ok && wait > 0 {
				oc = "waited"
			}
			r.Count("values_outcome_"+oc, 1)
			if full {
				r.Count("values_overlimit_"+pol.TClass+"_"+pol.PClass, 1)
				if pol.Timeout == 0 && pol.Period <= 100*time.Millisecond {
					r.Count("values_overlimit_zero_timeout_short_period", 1)
				}
				if pol.Timeout > 0 && pol.Timeout < pol.Period {
					r.Count("values_overlimit_timeout_below_period", 1)
				}
				if pol.Timeout >= pol.Period && pol.Period <= 100*time.Millisecond {
					r.Count("values_overlimit_timeout_reaches_next_period", 1)
				}
			}
			if (c.t-start)%int64(pol.Period) == 0 && c.t != start {
				r.Count("values_arrivals_exactly_on_boundary", 1)
			}
			r.Cover(fmt.Sprintf("%s/%s/L%d/%s/gap:%s/%s,%s", pol.TClass, pol.PClass, pol.Limit, class, c.gap, pu, tu))
			for _, b := range bad {
				hist[len(hist)-1].Verdict = b
				r.Violation("filter:values:"+b+":timeout="+pol.TClass, detail(k))
			}
		}
		for _, c := range calls { // never leave a call of this case running into the next one
			<-c.done
		}
		if i < 2 {
			h := hist
			if len(h) > 8 {
				h = h[:8]
			}
			r.Sample(map[string]interface{}{"yaml": pol.YAML(), "history": h})
		}
	}
	for _, k := range []string{
		"values_outcome_immediate", "values_outcome_waited", "values_outcome_rejected", "values_no_rule",
		"values_overlimit_zero_timeout_short_period", "values_overlimit_timeout_below_period", "values_overlimit_timeout_reaches_next_period",
		"values_overlimit_zero_P<=10ms", "values_overlimit_zero_P<=100ms", "values_overlimit_zero_P>100ms",
		"values_zero_written_as_0s", "values_zero_written_as_0ms",
		"values_timeout_spelled_ms", "values_timeout_spelled_s", "values_timeout_spelled_us", "values_timeout_spelled_canonical",
		"values_period_spelled_ms", "values_period_spelled_s", "values_period_spelled_canonical",
		"values_arrivals_exactly_on_boundary",
	} {
		r.Require(k, 1)
	}
}
