//go:build verif

package ratelimiter

// C09, part 3: the RateLimiter filter (pkg/filters/ratelimiter).
//
//   Rules  : first matching URL rule is the one that limits; URLs matching no rule are
//            never limited; a limited request gets 429 and result "rateLimited".
//   Reload : Inherit with an unchanged rule keeps the limiter's accumulated state, a rule
//            whose policy changed (or a new rule) starts with a full budget.
//   Waits  : an admitted request that has to wait is really held back: with limit L the
//            n-th request to leave Handle cannot leave before period floor((n-1)/L)
//            has begun (a lower bound on real time, which load cannot falsify).
//
// Rules/Reload use a refresh period of one hour and timeouts below it, so all requests
// of a case fall into the limiter's first period and nothing depends on real time.

import (
	stdcontext "context"
	"fmt"
	"math/rand"
	"net/http"
	"regexp"
	"sort"
	"strings"
	"sync"
	"sync/atomic"
	"testing"
	"time"

	"github.com/megaease/easegress/pkg/context"
	"github.com/megaease/easegress/pkg/filters"
	"github.com/megaease/easegress/pkg/logger"
	"github.com/megaease/easegress/pkg/protocols/httpprot"
	"github.com/megaease/easegress/pkg/util/yamltool"

	"verif.local/kit"
)

func init() { logger.InitNop() }

// ---------------------------------------------------------------- spec model

type c09Policy struct {
	Name    string `json:"name"`
	Limit   int    `json:"limit"`
	Timeout string `json:"timeout"`
	Period  string `json:"period"`
}

type c09Rule struct {
	Methods   []string `json:"methods"`
	Kind      string   `json:"kind"` // exact | prefix | regex
	Pattern   string   `json:"pattern"`
	PolicyRef string   `json:"policyRef"` // "" = default
}

type c09Spec struct {
	Policies []c09Policy `json:"policies"`
	Default  string      `json:"defaultPolicyRef"`
	Rules    []c09Rule   `json:"urls"`
}

func (s *c09Spec) YAML() string {
	var b strings.Builder
	b.WriteString("kind: RateLimiter\nname: c09\npolicies:\n")
	for _, p := range s.Policies {
		fmt.Fprintf(&b, "- name: %s\n  timeoutDuration: %s\n  limitRefreshPeriod: %s\n  limitForPeriod: %d\n", p.Name, p.Timeout, p.Period, p.Limit)
	}
	if s.Default != "" {
		fmt.Fprintf(&b, "defaultPolicyRef: %s\n", s.Default)
	}
	b.WriteString("urls:\n")
	for _, u := range s.Rules {
		b.WriteString("- url:\n")
		fmt.Fprintf(&b, "    %s: '%s'\n", u.Kind, u.Pattern)
		if len(u.Methods) > 0 {
			fmt.Fprintf(&b, "  methods: [%s]\n", strings.Join(u.Methods, ", "))
		}
		if u.PolicyRef != "" {
			fmt.Fprintf(&b, "  policyRef: %s\n", u.PolicyRef)
		}
	}
	return b.String()
}

func (s *c09Spec) policyOf(u c09Rule) c09Policy {
	name := u.PolicyRef
	if name == "" {
		name = s.Default
	}
	for _, p := range s.Policies {
		if p.Name == name {
			return p
		}
	}
	panic("c09: generator produced a dangling policy reference")
}

// ruleKey identifies "the same rule" across generations: matcher + the reference as
// written + the content of the policy it resolves to.
func (s *c09Spec) ruleKey(u c09Rule) string {
	return fmt.Sprintf("%v|%s|%s|ref=%s|%+v", u.Methods, u.Kind, u.Pattern, u.PolicyRef, s.policyOf(u))
}

// reference matcher, from the documentation of URL rules
func (u c09Rule) matches(method, path string) bool {
	if len(u.Methods) > 0 {
		found := false
		for _, m := range u.Methods {
			if m == method {
				found = true
			}
		}
		if !found {
			return false
		}
	}
	switch u.Kind {
	case "exact":
		return path == u.Pattern
	case "prefix":
		return strings.HasPrefix(path, u.Pattern)
	case "regex":
		return c09Regexp(u.Pattern).MatchString(path)
	}
	return false
}

var c09ReCache sync.Map

func c09Regexp(p string) *regexp.Regexp {
	if v, ok := c09ReCache.Load(p); ok {
		return v.(*regexp.Regexp)
	}
	re := regexp.MustCompile(p)
	c09ReCache.Store(p, re)
	return re
}

var (
	c09Paths    = []string{"/a", "/a/1", "/a/22", "/a/x", "/ab", "/b", "/b/1", "/c", "/"}
	c09Methods  = []string{"GET", "POST", "PUT"}
	c09Patterns = []c09Rule{
		{Kind: "exact", Pattern: "/a"}, {Kind: "exact", Pattern: "/a/1"}, {Kind: "exact", Pattern: "/b"},
		{Kind: "prefix", Pattern: "/a"}, {Kind: "prefix", Pattern: "/a/"}, {Kind: "prefix", Pattern: "/b"}, {Kind: "prefix", Pattern: "/"},
		{Kind: "regex", Pattern: "^/a/[0-9]+$"}, {Kind: "regex", Pattern: "^/(a|b)$"}, {Kind: "regex", Pattern: "^/b/.*"},
	}
	c09Timeouts = []string{"0s", "1ms", "10ms", "100ms"}
)

func c09GenSpec(rng *rand.Rand) *c09Spec {
	s := &c09Spec{}
	np := 1 + rng.Intn(3)
	for i := 0; i < np; i++ {
		s.Policies = append(s.Policies, c09Policy{Name: fmt.Sprintf("p%d", i), Limit: 1 + rng.Intn(4), Timeout: c09Timeouts[rng.Intn(len(c09Timeouts))], Period: "1h"})
	}
	s.Default = s.Policies[rng.Intn(np)].Name
	nr := 1 + rng.Intn(4)
	seen := map[string]bool{}
	for len(s.Rules) < nr {
		u := c09Patterns[rng.Intn(len(c09Patterns))]
		switch rng.Intn(4) {
		case 0:
			u.Methods = []string{c09Methods[rng.Intn(3)]}
		case 1:
			u.Methods = []string{"GET", "POST"}
		}
		if rng.Intn(2) == 0 {
			u.PolicyRef = s.Policies[rng.Intn(np)].Name
		}
		k := fmt.Sprintf("%v|%s|%s", u.Methods, u.Kind, u.Pattern)
		if seen[k] { // identical matchers twice in one spec: which one "is" the old rule is open
			continue
		}
		seen[k] = true
		s.Rules = append(s.Rules, u)
	}
	return s
}

// ---------------------------------------------------------------- driving the real filter

func c09Build(s *c09Spec, prev *RateLimiter) (*RateLimiter, error) {
	return c09BuildYAML(s.YAML(), prev)
}

func c09BuildYAML(y string, prev *RateLimiter) (*RateLimiter, error) {
	raw := map[string]interface{}{}
	yamltool.Unmarshal([]byte(y), &raw)
	spec, err := filters.NewSpec(nil, "", raw)
	if err != nil {
		return nil, err
	}
	f := kind.CreateInstance(spec).(*RateLimiter)
	if prev == nil {
		f.Init()
	} else {
		f.Inherit(prev)
	}
	return f, nil
}

type c09Out struct {
	Result string `json:"result"`
	Status int    `json:"status"` // 0 = filter produced no response
	Tags   string `json:"tags"`
	Stuck  bool   `json:"stuck,omitempty"` // outer watchdog had to cancel the request (=> inconclusive)
}

// every timeoutDuration generated here is <= 600 ms; a Handle that is still blocked after
// c09Watchdog is cancelled through the request context and the case is given up as
// inconclusive (never a verdict: wall-clock upper bounds do not decide anything).
const c09Watchdog = 45 * time.Second

var c09Stuck atomic.Bool

func c09Handle(f *RateLimiter, method, path string) c09Out {
	cctx, cancel := stdcontext.WithCancel(stdcontext.Background())
	defer cancel()
	std, err := http.NewRequestWithContext(cctx, method, "http://c09.test"+path, nil)
	if err != nil {
		panic(err)
	}
	req, _ := httpprot.NewRequest(std)
	ctx := context.New(nil)
	ctx.SetInputRequest(req)
	var fired atomic.Bool
	wd := time.AfterFunc(c09Watchdog, func() { fired.Store(true); c09Stuck.Store(true); cancel() })
	res := f.Handle(ctx)
	wd.Stop()
	out := c09Out{Result: res, Tags: ctx.Tags(), Stuck: fired.Load()}
	if resp := ctx.GetOutputResponse(); resp != nil {
		if hr, ok := resp.(*httpprot.Response); ok {
			out.Status = hr.StatusCode()
		} else {
			out.Status = -1
		}
	}
	return out
}

// reference: one counter per rule (single one-hour period, timeout < period => no queueing)
type c09Ref struct {
	spec    *c09Spec
	count   []int
	carried []bool // rule state inherited from the previous generation (nil in generation 0)
}

func (m *c09Ref) serve(method, path string) (rule int, limited bool) {
	for i, u := range m.spec.Rules {
		if !u.matches(method, path) {
			continue
		}
		if m.count[i] >= m.spec.policyOf(u).Limit {
			return i, true
		}
		m.count[i]++
		return i, false
	}
	return -1, false
}

func c09Judge(got c09Out, limited bool) string {
	switch {
	case limited && got.Result != resultRateLimited:
		return "should-be-limited-but-passed"
	case limited && got.Status != http.StatusTooManyRequests:
		return "limited-without-429"
	case !limited && got.Result == resultRateLimited:
		return "limited-although-budget-left"
	case !limited && got.Result != "":
		return "unexpected-result"
	case !limited && got.Status != 0:
		return "passed-request-got-a-response"
	}
	return ""
}

type c09Req struct {
	Method string `json:"method"`
	Path   string `json:"path"`
	Rule   int    `json:"reference_rule"`
	Want   string `json:"reference"`
	Got    c09Out `json:"real"`
}

func c09Drive(r *kit.Run, rng *rand.Rand, f *RateLimiter, ref *c09Ref, n int, phase string, log *[]c09Req, detail func() interface{}) {
	for k := 0; k < n; k++ {
		method := c09Methods[rng.Intn(3)]
		path := c09Paths[rng.Intn(len(c09Paths))]
		if rng.Intn(3) == 0 && len(*log) > 0 { // hammer a URL seen before so that budgets run out
			method, path = (*log)[len(*log)-1].Method, (*log)[len(*log)-1].Path
		}
		rule, limited := ref.serve(method, path)
		var got c09Out
		if r.Guard("C09:filter:"+phase, detail(), func() { got = c09Handle(f, method, path) }) {
			return
		}
		if got.Stuck {
			r.Inconclusive(fmt.Sprintf("filter:%s: Handle still blocked after %s although every generated timeoutDuration is <= 100ms (%s %s)", phase, c09Watchdog, method, path))
			return
		}
		r.Eval(1)
		want := "pass"
		if limited {
			want = "limited"
		}
		if rule < 0 {
			want = "no-rule"
		}
		*log = append(*log, c09Req{method, path, rule, want, got})
		first := "first"
		if rule > 0 {
			// did an earlier rule fail to match while a later one did, or is there a later rule that also matches?
			first = "later"
		}
		shadow := false
		for j := rule + 1; rule >= 0 && j < len(ref.spec.Rules); j++ {
			if ref.spec.Rules[j].matches(method, path) {
				shadow = true
			}
		}
		r.Cover(fmt.Sprintf("%s/%s/%s/shadows=%v/%s", phase, want, first, shadow, func() string {
			if rule < 0 {
				return "-"
			}
			return ref.spec.Rules[rule].Kind
		}()))
		r.Count(phase+"_"+want, 1)
		if shadow {
			r.Count(phase+"_request_matching_several_rules", 1)
		}
		if bad := c09Judge(got, limited); bad != "" {
			if bad == "should-be-limited-but-passed" && rule >= 0 && ref.carried != nil && ref.carried[rule] {
				bad = "state-dropped-on-reload"
			}
			r.Violation("filter:"+phase+":"+bad+":"+want, detail())
		}
	}
}

// ---------------------------------------------------------------- Rules

func TestVerif_C09_FilterRules(t *testing.T) {
	r := kit.Start(t, "C09")
	defer r.Finish()
	r.Rule("specs: 1-3 policies (limit 1-4, period 1h, timeout 0s/1ms/10ms/100ms) x 1-4 URL rules (exact/prefix/regex over a 10-pattern alphabet, method lists, explicit or default policyRef, overlapping matchers on purpose); 40 requests (3 methods x 9 paths, with repeats) through the real Handle in lock-step with one-counter-per-rule reference; distinct = (outcome, winning rule first/later, whether later rules also match, matcher kind)")
	r.Assume("each URL rule uses exactly one of exact/prefix/regex; no two rules of one spec have identical matchers; all requests of a case fall into the first one-hour period")
	n := r.N(1500, 30000)
	for i := 0; i < n; i++ {
		if !r.Mine(i) {
			continue
		}
		if c09Stuck.Load() {
			break // already inconclusive; do not sit out the watchdog a thousand times
		}
		rng := r.CaseRand(i)
		s := c09GenSpec(rng)
		r.Case(i, s)
		f, err := c09Build(s, nil)
		if err != nil {
			r.Count("spec_rejected", 1)
			r.Note("generated spec rejected: %v", err)
			continue
		}
		ref := &c09Ref{spec: s, count: make([]int, len(s.Rules))}
		var log []c09Req
		c09Drive(r, rng, f, ref, 40, "rules", &log, func() interface{} {
			return map[string]interface{}{"spec": s, "yaml": s.YAML(), "requests": log}
		})
		if i < 2 {
			r.Sample(map[string]interface{}{"yaml": s.YAML(), "requests": log[:6]})
		}
	}
	for _, k := range []string{"rules_pass", "rules_limited", "rules_no-rule", "rules_request_matching_several_rules"} {
		r.Require(k, 1)
	}
}

// ---------------------------------------------------------------- Reload

func c09Mutate(rng *rand.Rand, s *c09Spec) (*c09Spec, string) {
	n := &c09Spec{Default: s.Default}
	n.Policies = append(n.Policies, s.Policies...)
	for _, u := range s.Rules {
		n.Rules = append(n.Rules, u)
	}
	kind := []string{"unchanged", "unchanged", "policy-limit", "policy-timeout", "reorder", "add-rule", "remove-rule", "policy-limit+reorder", "switch-default"}[rng.Intn(9)]
	bump := func() {
		p := &n.Policies[rng.Intn(len(n.Policies))]
		p.Limit = p.Limit%4 + 1 + rng.Intn(2) // always different from before
		if p.Limit > 5 {
			p.Limit = 5
		}
	}
	switch kind {
	case "policy-limit":
		bump()
	case "policy-timeout":
		p := &n.Policies[rng.Intn(len(n.Policies))]
		for {
			t := c09Timeouts[rng.Intn(len(c09Timeouts))]
			if t != p.Timeout {
				p.Timeout = t
				break
			}
		}
	case "reorder":
		rng.Shuffle(len(n.Rules), func(a, b int) { n.Rules[a], n.Rules[b] = n.Rules[b], n.Rules[a] })
	case "policy-limit+reorder":
		bump()
		rng.Shuffle(len(n.Rules), func(a, b int) { n.Rules[a], n.Rules[b] = n.Rules[b], n.Rules[a] })
	case "add-rule":
		for try := 0; try < 20; try++ {
			u := c09Patterns[rng.Intn(len(c09Patterns))]
			u.Methods = []string{c09Methods[rng.Intn(3)]}
			dup := false
			for _, o := range n.Rules {
				if fmt.Sprintf("%v|%s|%s", o.Methods, o.Kind, o.Pattern) == fmt.Sprintf("%v|%s|%s", u.Methods, u.Kind, u.Pattern) {
					dup = true
				}
			}
			if dup {
				continue
			}
			at := rng.Intn(len(n.Rules) + 1)
			n.Rules = append(n.Rules[:at], append([]c09Rule{u}, n.Rules[at:]...)...)
			break
		}
	case "remove-rule":
		if len(n.Rules) > 1 {
			at := rng.Intn(len(n.Rules))
			n.Rules = append(n.Rules[:at], n.Rules[at+1:]...)
		}
	case "switch-default":
		// only to a policy whose limit or timeout differs: whether a rule whose default
		// policy is replaced by an identical one under another name is "unchanged" is open
		kind = "unchanged"
		var curDef c09Policy
		for _, p := range n.Policies {
			if p.Name == n.Default {
				curDef = p
			}
		}
		for _, p := range n.Policies {
			if p.Name != n.Default && (p.Limit != curDef.Limit || p.Timeout != curDef.Timeout) {
				n.Default = p.Name
				kind = "switch-default"
				break
			}
		}
	}
	return n, kind
}

func TestVerif_C09_FilterReload(t *testing.T) {
	r := kit.Start(t, "C09")
	defer r.Finish()
	r.Rule("generation 0 from the Rules generator, 25 requests (budgets run out), then 3 reloads through Inherit, each {unchanged, policy limit changed, policy timeout changed, rules reordered, rule added, rule removed, default policy switched}, 25 requests after each; reference carries a rule's counter over exactly when the new spec contains the same rule (same matcher, same policyRef as written, same content of the referenced policy) and starts at 0 otherwise; a systematic prefix runs the design's scenario literally (exhaust, Inherit unchanged => still 429; Inherit with changed limit => admitted); distinct = (reload kind, outcome, carried/fresh state of the winning rule)")
	r.Assume("a rule that refers to the default policy counts as changed when defaultPolicyRef names another policy, as unchanged when the default policy's content is the same; previous generations are not used after Inherit")
	n := r.N(1200, 20000)
	for i := 0; i < n; i++ {
		if !r.Mine(i) {
			continue
		}
		if c09Stuck.Load() {
			break
		}
		rng := r.CaseRand(i)
		s := c09GenSpec(rng)
		literal := i < 40
		if literal {
			s = &c09Spec{Policies: []c09Policy{{Name: "p0", Limit: 1 + i%4, Timeout: c09Timeouts[i%4], Period: "1h"}}, Default: "p0",
				Rules: []c09Rule{{Kind: "prefix", Pattern: "/a"}}}
		}
		r.Case(i, s)
		f, err := c09Build(s, nil)
		if err != nil {
			r.Count("spec_rejected", 1)
			continue
		}
		ref := &c09Ref{spec: s, count: make([]int, len(s.Rules))}
		var gens []interface{}
		var log []c09Req
		var prevGen *RateLimiter
		cur := s
		detail := func() interface{} {
			return map[string]interface{}{"generations": gens, "current_yaml": cur.YAML(), "requests_of_current_generation": log}
		}
		gens = append(gens, map[string]interface{}{"gen": 0, "yaml": s.YAML()})
		if literal {
			for k := 0; k < s.Policies[0].Limit; k++ {
				ref.serve("GET", "/a")
				if got := c09Handle(f, "GET", "/a"); got.Stuck {
					r.Inconclusive("filter:reload:literal: Handle blocked beyond the watchdog while filling the budget")
				} else if got.Result != "" {
					r.Violation("filter:reload:literal:limited-although-budget-left", detail())
				}
			}
		} else {
			c09Drive(r, rng, f, ref, 25, "gen0", &log, detail)
		}
		for g := 1; g <= 3; g++ {
			var next *c09Spec
			var kindOf string
			if literal {
				next, kindOf = cur, "unchanged"
				if g == 2 {
					cp := *cur
					cp.Policies = []c09Policy{cur.Policies[0]}
					cp.Policies[0].Limit = cur.Policies[0].Limit + 1
					next, kindOf = &cp, "policy-limit"
				}
			} else {
				next, kindOf = c09Mutate(rng, cur)
			}
			nf, err := c09Build(next, f)
			if err != nil {
				r.Count("spec_rejected", 1)
				r.Note("mutated spec rejected: %v", err)
				break
			}
			// reference state transfer
			oldCount := map[string]int{}
			for j, u := range cur.Rules {
				oldCount[cur.ruleKey(u)] = ref.count[j]
			}
			carried := make([]bool, len(next.Rules))
			nref := &c09Ref{spec: next, count: make([]int, len(next.Rules)), carried: carried}
			for j, u := range next.Rules {
				if c, ok := oldCount[next.ruleKey(u)]; ok {
					nref.count[j] = c
					carried[j] = true
					if c > 0 {
						r.Count("rules_carried_with_state", 1)
					}
					if c >= next.policyOf(u).Limit {
						r.Count("rules_carried_exhausted", 1)
					}
				} else {
					r.Count("rules_fresh_after_reload", 1)
				}
			}
			prevGen = f
			f, ref, cur = nf, nref, next
			log = nil
			gens = append(gens, map[string]interface{}{"gen": g, "reload": kindOf, "yaml": next.YAML(), "carried": carried, "reference_counters": append([]int(nil), nref.count...)})
			r.Count("reload_"+kindOf, 1)
			phase := "reload:" + kindOf
			if literal {
				_, limited := ref.serve("GET", "/a")
				got := c09Handle(f, "GET", "/a")
				if got.Stuck {
					r.Inconclusive("filter:reload:literal: Handle blocked beyond the watchdog after reload " + kindOf)
					break
				}
				r.Eval(1)
				log = append(log, c09Req{"GET", "/a", 0, map[bool]string{true: "limited", false: "pass"}[limited], got})
				if (g == 1 && !limited) || (g == 2 && limited) {
					panic("c09: literal scenario reference disagrees with the scenario as designed")
				}
				r.Cover(fmt.Sprintf("literal/g%d/%s/L%d/limited=%v", g, kindOf, next.Policies[0].Limit, limited))
				r.Count("literal_"+kindOf+map[bool]string{true: "_still_limited", false: "_admitted"}[limited], 1)
				if bad := c09Judge(got, limited); bad != "" {
					if kindOf == "unchanged" && limited && got.Result == "" {
						bad = "state-dropped-on-reload"
					}
					r.Violation("filter:reload:literal:"+kindOf+":"+bad, detail())
				}
				continue
			}
			c09Drive(r, rng, f, ref, 25, phase, &log, detail)
		}
		// non-deciding probe (relevant to C11, not to C09), after everything of this case
		// has been judged: is the previous generation still usable after Inherit?
		if literal && prevGen != nil && i%10 == 0 {
			if _, site, p := kit.Recover(func() { c09Handle(prevGen, "GET", "/a") }); p {
				r.Count("note_previous_generation_Handle_panics_after_Inherit", 1)
				r.Note("C11-relevant (not judged here): Handle on the previous generation after Inherit panicked at %s", site)
			}
		}
	}
	for _, k := range []string{"reload_unchanged", "reload_policy-limit", "reload_reorder", "reload_add-rule", "reload_remove-rule", "rules_carried_exhausted", "rules_fresh_after_reload",
		"literal_unchanged_still_limited", "literal_policy-limit_admitted", "reload:unchanged_limited", "reload:policy-limit_pass", "reload:reorder_limited"} {
		r.Require(k, 1)
	}
}

// ---------------------------------------------------------------- Waits (real time, lower bounds only)

func TestVerif_C09_FilterWaits(t *testing.T) {
	r := kit.Start(t, "C09")
	defer r.Finish()
	r.Rule("one rule, limit 1-3, refresh period 60-150 ms, timeout 2-4 periods; a burst of (horizon+1)*limit+2 concurrent Handle calls; oracle: sort the instants at which admitted calls left Handle; the n-th (1-based) must not be earlier than t0 + floor((n-1)/limit)*period, t0 taken before the filter was created (releases of periods 0..j-1 are at most j*limit); rejected calls must carry 429/rateLimited; distinct = (limit, periods of timeout, #admitted, #waited)")
	r.Assume("only lower bounds on real time are judged; how many calls are admitted depends on how long the burst takes under load and is not judged")
	n := r.N(12, 120)
	for i := 0; i < n; i++ {
		if !r.Mine(i) {
			continue
		}
		rng := r.CaseRand(i)
		limit := 1 + rng.Intn(3)
		period := time.Duration(60+rng.Intn(91)) * time.Millisecond
		k := 2 + rng.Intn(3)
		s := &c09Spec{Policies: []c09Policy{{Name: "p0", Limit: limit, Timeout: (time.Duration(k) * period).String(), Period: period.String()}}, Default: "p0",
			Rules: []c09Rule{{Kind: "prefix", Pattern: "/"}}}
		r.Case(i, s)
		t0 := time.Now()
		f, err := c09Build(s, nil)
		if err != nil {
			r.Inconclusive("waits: spec rejected: " + err.Error())
			continue
		}
		N := (k+1)*limit + 2
		type res struct {
			out  c09Out
			left time.Duration
		}
		results := make([]res, N)
		var wg sync.WaitGroup
		for g := 0; g < N; g++ {
			wg.Add(1)
			go func(g int) {
				defer wg.Done()
				out := c09Handle(f, "GET", "/x")
				results[g] = res{out, time.Since(t0)}
			}(g)
		}
		wg.Wait()
		r.Eval(N)
		var left []time.Duration
		waited, rejected := 0, 0
		stuck := false
		for _, x := range results {
			stuck = stuck || x.out.Stuck
		}
		if stuck {
			r.Inconclusive(fmt.Sprintf("filter:waits: a Handle call was still blocked after %s (timeout %s)", c09Watchdog, s.Policies[0].Timeout))
			break
		}
		for _, x := range results {
			if x.out.Result == resultRateLimited {
				rejected++
				if x.out.Status != http.StatusTooManyRequests {
					r.Violation("filter:waits:limited-without-429", map[string]interface{}{"yaml": s.YAML(), "result": x.out})
				}
				continue
			}
			left = append(left, x.left)
			if strings.Contains(x.out.Tags, "waiting duration") {
				waited++
			}
		}
		sort.Slice(left, func(a, b int) bool { return left[a] < left[b] })
		for idx, at := range left {
			min := time.Duration(idx/limit) * period
			if at < min {
				r.Violation("filter:waits:request-left-Handle-before-its-period-began", map[string]interface{}{
					"yaml": s.YAML(), "sorted_leave_instants_ns_since_t0": left, "index": idx, "earliest_allowed_ns": min,
				})
				break
			}
		}
		r.Count("waits_admitted", int64(len(left)))
		r.Count("waits_waited", int64(waited))
		r.Count("waits_rejected", int64(rejected))
		r.Cover(fmt.Sprintf("L%d/k%d/adm%d/waited%d", limit, k, len(left), waited))
	}
	r.Require("waits_waited", 1)
	r.Require("waits_admitted", 1)
}
