//go:build verif

package proxy

// C10, last clause: "a CircuitBreaker wrapped around the call records exactly one outcome per
// client request however many retries it contained".
//
// Observation without touching the breaker's internals: a COUNT_BASED breaker with window
// 50 (never evicts in these sequences), minimumNumberOfCalls M and failureRateThreshold T in
// {1,100} opens right after the first client request j with j >= M recorded outcomes and
// (T=1) at least one recorded failure resp. (T=100) only failures.  Every later request is
// short-circuited (waitDurationInOpenState 1h): result shortCircuited, 503, transport not
// reached.  If the breaker recorded attempts instead of requests, or the outcome of an
// attempt other than the last, the first short-circuited request moves.

import (
	"fmt"
	"testing"

	"verif.local/kit"
)

type c10BrkCase struct {
	Pool     c10PoolCfg    `json:"pool"`
	Requests [][]c10Step   `json:"requests"`
}

func TestVerif_C10_Breaker(t *testing.T) {
	r := kit.Start(t, "C10")
	defer r.Finish()
	r.Rule("pool with Retry (maxAttempts 2..4, wait 5..10 ms) inside a COUNT_BASED CircuitBreaker (window 50, minimumNumberOfCalls 2..6, failureRateThreshold 1 or 100); 6..12 client requests each with its own attempt script (fail..fail, fail..ok, ok); reference counts ONE outcome (that of the last attempt) per client request and predicts the first short-circuited request; distinct = (M, T, maxAttempts, index of first short-circuited request, attempts before it)")
	r.Assume("failureRateThreshold 1 and 100 make the integer failure rate unambiguous; slow-call threshold and wait-in-open are 1h so neither plays a role")

	old := fnSendRequest
	fnSendRequest = c10Transport
	defer func() { fnSendRequest = old }()

	total := r.N(150, 5000)
	for i := 0; i < total; i++ {
		if !r.Mine(i) {
			continue
		}
		rng := r.CaseRand(i)
		c := &c10BrkCase{}
		max := 2 + i%3
		c.Pool.Retry = &c10RetryCfg{MaxAttempts: max, Wait: []string{"5ms", "8ms", "10ms"}[rng.Intn(3)], BackOff: []string{"", "exponential"}[rng.Intn(2)], RF: []float64{0, 0.5}[rng.Intn(2)]}
		c.Pool.Breaker = &c10BreakerCfg{MinCalls: 2 + (i/3)%5, Threshold: []int{1, 100}[(i/15)%2], Window: 50}
		c.Pool.FailureCodes = []int{500, 503}
		fail := func() c10Step {
			if rng.Intn(2) == 0 {
				return c10Step{Kind: "neterr"}
			}
			return c10Step{Kind: "failcode", Code: 503}
		}
		nreq := 6 + rng.Intn(7)
		pOK := []int{20, 50, 80}[rng.Intn(3)]
		if c.Pool.Breaker.Threshold == 100 {
			pOK = []int{0, 10, 30}[rng.Intn(3)]
		}
		for q := 0; q < nreq; q++ {
			var s []c10Step
			switch {
			case rng.Intn(100) < pOK && rng.Intn(2) == 0:
				s = []c10Step{{Kind: "ok", Code: 200}}
			case rng.Intn(100) < pOK:
				k := 1 + rng.Intn(max-1) // fails, then success within maxAttempts
				for j := 0; j < k; j++ {
					s = append(s, fail())
				}
				s = append(s, c10Step{Kind: "ok", Code: 200})
			default:
				for j := 0; j < max+1; j++ {
					s = append(s, fail())
				}
			}
			c.Requests = append(c.Requests, s)
		}
		r.Case(i, c)
		p, err := c10NewProxy(&c.Pool)
		if err != nil {
			r.Count("policy_or_spec_rejected", 1)
			r.Note("rejected by validation: %v", err)
			continue
		}
		// reference: one recorded outcome per client request
		recorded, failures, open := 0, 0, false
		firstShort, attemptsBefore := -1, 0
		okCase := true
		for q, script := range c.Requests {
			res := c10Do(p, script, false, -1, c10PanicSite)
			r.Eval(1)
			if res.Watchdog {
				r.Inconclusive("harness watchdog (120 s) fired in breaker sequence")
				okCase = false
				break
			}
			if res.Panic != "" {
				r.Violation("C10:breaker:panic:"+res.PanicAt+":"+kit.MsgClass(res.Panic), map[string]interface{}{"case": c, "request": q})
				okCase = false
				break
			}
			det := func() map[string]interface{} {
				return map[string]interface{}{"case": c, "request_index": q, "observed": res, "reference": map[string]interface{}{"recorded": recorded, "failures": failures, "open": open}}
			}
			short := res.Result == resultShortCircuited
			if open {
				if !short || len(res.Attempts) != 0 || res.Status != 503 {
					r.Violation("C10:breaker:request-not-short-circuited-although-reference-open(one-outcome-per-request)", det())
					okCase = false
					break
				}
				r.Count("short_circuited_requests", 1)
				continue
			}
			if short {
				r.Violation("C10:breaker:short-circuited-before-reference-opens(more-than-one-outcome-per-request?)", det())
				okCase = false
				break
			}
			m := len(res.Attempts)
			if m == 0 {
				r.Violation("C10:breaker:no-attempt-made", det())
				okCase = false
				break
			}
			attemptsBefore += m
			if m > 1 {
				r.Count("requests_with_retries_inside_breaker", 1)
			}
			last := res.Attempts[m-1]
			wr, ws, wb := c10ExpectFinal(last)
			if res.Result != wr || res.Status != ws || res.Body != wb {
				r.Violation(fmt.Sprintf("C10:breaker:final-outcome-not-last-attempts:last=%s:got=%s/%d", last.Kind, res.Result, res.Status), det())
				okCase = false
				break
			}
			recorded++
			if last.Kind != "ok" {
				failures++
			}
			if recorded >= c.Pool.Breaker.MinCalls {
				if (c.Pool.Breaker.Threshold == 1 && failures >= 1) || (c.Pool.Breaker.Threshold == 100 && failures == recorded) {
					open = true
					firstShort = q + 1
				}
			}
		}
		if okCase {
			r.Cover(fmt.Sprintf("breaker/M%d/T%d/max%d/firstShort%d/attempts%d", c.Pool.Breaker.MinCalls, c.Pool.Breaker.Threshold, max, firstShort, attemptsBefore))
			if firstShort >= 0 && firstShort < len(c.Requests) {
				r.Count("breaker_opened_at_predicted_request", 1)
			}
			if firstShort < 0 {
				r.Count("breaker_stayed_closed_as_predicted", 1)
			}
		}
		p.Close()
	}
	r.Require("breaker_opened_at_predicted_request", 1)
	r.Require("requests_with_retries_inside_breaker", 1)
	r.Require("short_circuited_requests", 1)
}
