//go:build verif

package proxy

// C10, last clause: "a CircuitBreaker wrapped around the call records exactly one outcome per
// client request however many retries it contained" — for every body mode of the client
// request (the property quantifies over stream / buffered bodies): a buffered request may be
// retried, a streamed one gets its single attempt, and either way ONE outcome (that of the
// last attempt made) reaches the breaker, and an open breaker short-circuits either kind.
//
// Observation without touching the breaker's internals: a COUNT_BASED breaker with window
// 50 (never evicts in these sequences), minimumNumberOfCalls M and failureRateThreshold T in
// {1,100} opens right after the first client request j with j >= M recorded outcomes and
// (T=1) at least one recorded failure resp. (T=100) only failures.  Every later request is
// short-circuited (waitDurationInOpenState 1h): result shortCircuited, 503, transport not
// reached.  If the breaker recorded attempts instead of requests, the outcome of an attempt
// other than the last, or no outcome at all for some kind of request, the first
// short-circuited request moves.
//
// The histories mix streamed and buffered client requests (body mix: mixed / stream-only /
// buffered-only), pools with and without a Retry policy inside the breaker, and pools with a
// time limit whose backend may hang (failure = timeout/408).
//
// The property quantifies the whole sentence over "cancellation at any point": in two thirds
// of the histories some client requests are cancelled by their client — inside attempt k
// (synchronously, or while that attempt hangs) or from another goroutine while Retry waits
// for the back-off after attempt k.  Such a request ends with an error (every attempt it can
// still make fails as well), and it is ONE client request: one outcome, a failure.
// (TestVerif_C10_BreakerHalfOpen in c10_halfopen_test.go carries the same rule through the
// breaker's OPEN -> HALF_OPEN -> CLOSED transitions.)

import (
	"fmt"
	"math/rand"
	"testing"

	"verif.local/kit"
)

type c10BrkCase struct {
	BodyMix  string      `json:"bodyMix"`
	Pool     c10PoolCfg  `json:"pool"`
	Requests [][]c10Step `json:"requests"`
	Streams  []bool      `json:"streamBody"` // body mode of request q
	// client cancellation of request q: "" none, "in-attempt" / "hanging-attempt" (the script
	// holds a cancel / hangcancel step), "in-backoff" (another goroutine cancels right after
	// attempt AsyncAfter[q] has returned)
	Cancels    []string `json:"clientCancel"`
	AsyncAfter []int    `json:"asyncCancelAfterAttempt"`
}

// c10CancelledScript makes the script of a client request that is cancelled by its client.
// att = attempts this request may get (1: streamed body or no Retry policy), max = the
// policy's maxAttempts.  Every attempt before and after the cancellation fails, so whatever
// attempt turns out to be the last one made, the request ends with an error.
func c10CancelledScript(rng *rand.Rand, att, max int, timeLimit bool, fail func() c10Step) (script []c10Step, mode string, asyncAfter int) {
	modes := []string{"in-attempt"}
	if !timeLimit {
		modes = append(modes, "hanging-attempt")
	}
	if att >= 2 {
		modes = append(modes, "in-backoff", "in-backoff")
	}
	mode, asyncAfter = modes[rng.Intn(len(modes))], -1
	fails := func(n int) {
		for j := 0; j < n; j++ {
			script = append(script, fail())
		}
	}
	switch mode {
	case "in-attempt":
		fails(rng.Intn(att))
		script = append(script, c10Step{Kind: "cancel"})
		fails(max + 2)
	case "hanging-attempt":
		fails(rng.Intn(att))
		script = append(script, c10Step{Kind: "hangcancel"})
		fails(max + 2)
	case "in-backoff":
		asyncAfter = rng.Intn(att - 1) // a back-off follows that attempt
		fails(max + 2)
	}
	return
}

// c10CancelClass names the kinds of client cancellation among the requests counted so far.
func c10CancelClass(inAttempt, inBackoff int) string {
	switch {
	case inAttempt > 0 && inBackoff > 0:
		return "in-attempt+in-backoff"
	case inAttempt > 0:
		return "in-attempt"
	case inBackoff > 0:
		return "in-backoff"
	}
	return ""
}

func c10BodyMode(stream bool) string {
	if stream {
		return "stream"
	}
	return "buffered"
}

// c10History names the body modes of the requests the reference has counted so far.
func c10History(nStream, nBuffered int) string {
	switch {
	case nStream == 0 && nBuffered == 0:
		return "none"
	case nStream == 0:
		return "buffered-only"
	case nBuffered == 0:
		return "stream-only"
	}
	return "mixed"
}

func TestVerif_C10_Breaker(t *testing.T) {
	r := kit.Start(t, "C10")
	defer r.Finish()
	r.Rule("pool with a COUNT_BASED CircuitBreaker (window 50, minimumNumberOfCalls 2..6, failureRateThreshold 1 or 100) around a Retry policy (maxAttempts 2..4, wait 5..10 ms; omitted in 1 of 6 cases), in a third of the cases with a pool time limit of 10..30 ms and a backend that may hang; 6..12 client requests each with its own attempt script (fail..fail, fail..ok, ok; failure = failure code, network error or hang->timeout) and its own body mode: body mix mixed (each request streamed with probability 1/2), stream-only or buffered-only; in two thirds of the histories 30% or 50% of the client requests are cancelled by their client: inside attempt k (cancel step, or a hanging attempt cancelled from another goroutine) or from another goroutine during the back-off after attempt k, all other attempts of such a request fail; reference counts ONE outcome (that of the last attempt made; a streamed body gets exactly one attempt) per client request whatever its body mode and predicts the first short-circuited request; a client-cancelled request that ended with an error is one failure; distinct = (body mix, retry present, time limit present, M, T, maxAttempts, index of first short-circuited request, attempts before it, body mode of the request that opened the breaker, kinds of client cancellation counted)")
	r.Assume("failureRateThreshold 1 and 100 make the integer failure rate unambiguous; slow-call threshold and wait-in-open are 1h so neither plays a role; a streamed body is a request whose payload was fetched with limit -1 (HTTPServer clientMaxBodySize -1); a client request that ends with an error after its client has cancelled it is a failed request (the outcome the client would see is 499 / the last attempt's failure)")

	old := fnSendRequest
	fnSendRequest = c10Transport
	defer func() { fnSendRequest = old }()

	total := r.N(150, 5000)
	for i := 0; i < total; i++ {
		if !r.Mine(i) {
			continue
		}
		rng := r.CaseRand(i)
		c := &c10BrkCase{}
		max := 2 + i%3
		c.Pool.Retry = &c10RetryCfg{MaxAttempts: max, Wait: []string{"5ms", "8ms", "10ms"}[rng.Intn(3)], BackOff: []string{"", "exponential"}[rng.Intn(2)], RF: []float64{0, 0.5}[rng.Intn(2)]}
		c.Pool.Breaker = &c10BreakerCfg{MinCalls: 2 + (i/3)%5, Threshold: []int{1, 100}[(i/15)%2], Window: 50}
		c.Pool.FailureCodes = []int{500, 503}
		c.BodyMix = []string{"mixed", "stream-only", "mixed", "buffered-only"}[(i/30)%4]
		if rng.Intn(3) == 0 {
			c.Pool.Timeout = []string{"10ms", "20ms", "30ms"}[rng.Intn(3)]
		}
		effMax := max // attempts a buffered request may get
		if rng.Intn(6) == 0 {
			c.Pool.Retry = nil // breaker only
			effMax = 1
		}
		fail := func() c10Step {
			if c.Pool.Timeout != "" && rng.Intn(3) == 0 {
				return c10Step{Kind: "hang"}
			}
			if rng.Intn(2) == 0 {
				return c10Step{Kind: "neterr"}
			}
			return c10Step{Kind: "failcode", Code: 503}
		}
		nreq := 6 + rng.Intn(7)
		pOK := []int{20, 50, 80}[rng.Intn(3)]
		if c.Pool.Breaker.Threshold == 100 {
			pOK = []int{0, 10, 30}[rng.Intn(3)]
		}
		for q := 0; q < nreq; q++ {
			var s []c10Step
			switch {
			case rng.Intn(100) < pOK && rng.Intn(2) == 0:
				s = []c10Step{{Kind: "ok", Code: 200}}
			case rng.Intn(100) < pOK:
				k := 1 + rng.Intn(max-1) // fails, then success within maxAttempts
				for j := 0; j < k; j++ {
					s = append(s, fail())
				}
				s = append(s, c10Step{Kind: "ok", Code: 200})
			default:
				for j := 0; j < max+1; j++ {
					s = append(s, fail())
				}
			}
			c.Requests = append(c.Requests, s)
			stream := rng.Intn(2) == 0
			switch c.BodyMix {
			case "stream-only":
				stream = true
			case "buffered-only":
				stream = false
			}
			c.Streams = append(c.Streams, stream)
		}
		// client cancellation (drawn after everything else: the histories without it are the
		// same as before this dimension existed)
		pCancel := []int{0, 30, 50}[rng.Intn(3)]
		for q := range c.Requests {
			c.Cancels = append(c.Cancels, "")
			c.AsyncAfter = append(c.AsyncAfter, -1)
			if rng.Intn(100) >= pCancel {
				continue
			}
			att := effMax
			if c.Streams[q] {
				att = 1
			}
			c.Requests[q], c.Cancels[q], c.AsyncAfter[q] = c10CancelledScript(rng, att, max, c.Pool.Timeout != "", fail)
		}
		r.Case(i, c)
		p, err := c10NewProxy(&c.Pool)
		if err != nil {
			r.Count("policy_or_spec_rejected", 1)
			r.Note("rejected by validation: %v", err)
			continue
		}
		// reference: one recorded outcome per client request, whatever its body mode
		recorded, failures, open := 0, 0, false
		// the same book without the outcomes of streamed requests: only used to tell whether
		// this history's opening DEPENDS on streamed outcomes (coverage, never a verdict)
		recordedBuf, failuresBuf := 0, 0
		// and the book without the outcomes of client-cancelled requests (coverage only)
		recordedNC, failuresNC := 0, 0
		nCancelAtt, nCancelBackoff := 0, 0
		nStream, nBuffered := 0, 0
		firstShort, attemptsBefore, openedBy := -1, 0, "none"
		okCase := true
		opens := func(rec, fl int) bool {
			if rec < c.Pool.Breaker.MinCalls {
				return false
			}
			return (c.Pool.Breaker.Threshold == 1 && fl >= 1) || (c.Pool.Breaker.Threshold == 100 && fl == rec)
		}
		for q, script := range c.Requests {
			stream := c.Streams[q]
			mode := c10BodyMode(stream)
			res := c10Do(p, script, stream, c.AsyncAfter[q], c10PanicSite)
			r.Eval(1)
			if res.Watchdog {
				r.Inconclusive("harness watchdog (120 s) fired in breaker sequence")
				okCase = false
				break
			}
			if res.Panic != "" {
				r.Violation("C10:breaker:panic:"+res.PanicAt+":"+kit.MsgClass(res.Panic), map[string]interface{}{"case": c, "request": q})
				okCase = false
				break
			}
			// which kind of request, after which kinds of counted requests
			where := ":request=" + mode + ":counted-before=" + c10History(nStream, nBuffered)
			if cc := c10CancelClass(nCancelAtt, nCancelBackoff); cc != "" {
				where += ":client-cancelled-counted-before=" + cc
			}
			det := func() map[string]interface{} {
				return map[string]interface{}{"case": c, "request_index": q, "request_body": mode, "request_client_cancel": c.Cancels[q], "observed": res, "reference": map[string]interface{}{"recorded": recorded, "failures": failures, "open": open, "recorded_streamed": nStream, "recorded_buffered": nBuffered}}
			}
			short := res.Result == resultShortCircuited
			if open {
				if !short || len(res.Attempts) != 0 || res.Status != 503 {
					r.Violation("C10:breaker:request-not-short-circuited-although-reference-open(one-outcome-per-request)"+where, det())
					okCase = false
					break
				}
				r.Count("short_circuited_requests", 1)
				r.Count("short_circuited_requests_"+mode+"_body", 1)
				continue
			}
			if short {
				r.Violation("C10:breaker:short-circuited-before-reference-opens(more-than-one-outcome-per-request?)"+where, det())
				okCase = false
				break
			}
			m := len(res.Attempts)
			if m == 0 {
				r.Violation("C10:breaker:no-attempt-made"+where, det())
				okCase = false
				break
			}
			if stream && m != 1 {
				r.Violation(fmt.Sprintf("C10:breaker:stream-body-attempted-%d-times", m), det())
				okCase = false
				break
			}
			if !stream && m > effMax {
				r.Violation("C10:breaker:more-attempts-than-maxAttempts", det())
				okCase = false
				break
			}
			attemptsBefore += m
			if m > 1 {
				r.Count("requests_with_retries_inside_breaker", 1)
			}
			last := res.Attempts[m-1]
			if !c10FinalOK(&c.Pool, last, &res) {
				sig := fmt.Sprintf("C10:breaker:final-outcome-not-last-attempts:last=%s:got=%s/%d", last.Kind, res.Result, res.Status)
				if stale, _ := c10ExpiredStarts(&c.Pool, res.Attempts); len(stale) > 0 && stale[len(stale)-1] == m-1 {
					// the pool's time limit had expired before that attempt started although it
					// was not a fresh per-attempt limit (see A7 in c10_retry_test.go)
					sig += ":last-attempt-started-with-expired-time-limit"
				}
				r.Violation(sig, det())
				okCase = false
				break
			}
			if last.Kind == "hang" && res.Result == resultTimeout {
				r.Count("timeout_408_inside_breaker_"+mode+"_body", 1)
			}
			// (an attempt whose fresh time limit expired before the transport was reached —
			// machine slowness, accepted by c10FinalOK as timeout — is a failure)
			lastFailed := last.Kind != "ok" || last.ExpiredAtStart
			recorded++
			if lastFailed {
				failures++
			}
			// a request cancelled by its client: did the cancellation take place (a cancel
			// from another goroutine may come too late: then it was an ordinary failing request)
			cancelled := ""
			switch c.Cancels[q] {
			case "in-attempt", "hanging-attempt":
				if last.Kind == "cancel" || last.Kind == "hangcancel" {
					cancelled = c.Cancels[q]
					nCancelAtt++
				}
			case "in-backoff":
				if res.Cancelled && (m < effMax || res.Result == resultClientError) {
					cancelled = c.Cancels[q]
					nCancelBackoff++
				}
			}
			if cancelled != "" {
				r.Count("client_cancelled_requests_counted_by_reference_"+cancelled, 1)
				r.Count("client_cancelled_requests_counted_by_reference_"+mode+"_body", 1)
				if m > 1 {
					r.Count("client_cancelled_requests_after_retries_inside_breaker", 1)
				}
			} else {
				recordedNC++
				if lastFailed {
					failuresNC++
				}
			}
			if stream {
				nStream++
				r.Count("stream_requests_counted_by_reference", 1)
				if lastFailed && c.Pool.Retry != nil {
					// a buffered body would have been retried here (maxAttempts >= 2)
					r.Count("stream_request_not_retried_inside_breaker", 1)
				}
			} else {
				nBuffered++
				recordedBuf++
				if lastFailed {
					failuresBuf++
				}
			}
			if opens(recorded, failures) {
				open = true
				firstShort = q + 1
				openedBy = mode
			}
		}
		if okCase {
			r.Cover(fmt.Sprintf("breaker/%s/retry=%v/limit=%v/M%d/T%d/max%d/firstShort%d/attempts%d/openedBy=%s/cancelled=%s", c.BodyMix, c.Pool.Retry != nil, c.Pool.Timeout != "", c.Pool.Breaker.MinCalls, c.Pool.Breaker.Threshold, max, firstShort, attemptsBefore, openedBy, c10CancelClass(nCancelAtt, nCancelBackoff)))
			r.Count("history_"+c.BodyMix, 1)
			if c.Pool.Retry == nil {
				r.Count("history_breaker_without_retry", 1)
			}
			if firstShort >= 0 && firstShort < len(c.Requests) {
				// the prediction was put to the test: a later request was short-circuited
				r.Count("breaker_opened_at_predicted_request", 1)
				r.Count("breaker_opened_by_"+openedBy+"_body_request", 1)
				if nStream > 0 && !opens(recordedBuf, failuresBuf) {
					// without the outcomes of the streamed requests the breaker would not
					// have opened at that request: their outcomes decided
					r.Count("opening_depends_on_streamed_outcomes", 1)
				}
				if nStream > 0 && nBuffered > 0 {
					r.Count("opening_after_mixed_history", 1)
				}
				if nCancelAtt+nCancelBackoff > 0 && !opens(recordedNC, failuresNC) {
					// without the outcomes of the client-cancelled requests the breaker would
					// not have opened at that request
					r.Count("opening_depends_on_client_cancelled_outcomes", 1)
					if nCancelAtt > 0 {
						r.Count("opening_depends_on_outcomes_cancelled_in_attempt", 1)
					}
					if nCancelBackoff > 0 {
						r.Count("opening_depends_on_outcomes_cancelled_in_backoff", 1)
					}
				}
			}
			if firstShort < 0 {
				r.Count("breaker_stayed_closed_as_predicted", 1)
				if nStream > 0 {
					r.Count("breaker_stayed_closed_with_streamed_requests", 1)
				}
			}
		}
		p.Close()
	}
	for _, k := range []string{
		"breaker_opened_at_predicted_request", "requests_with_retries_inside_breaker", "short_circuited_requests",
		// both body modes must have been exercised on both sides of the opening
		"stream_requests_counted_by_reference", "stream_request_not_retried_inside_breaker",
		"short_circuited_requests_stream_body", "short_circuited_requests_buffered_body",
		"breaker_opened_by_stream_body_request", "breaker_opened_by_buffered_body_request",
		"opening_depends_on_streamed_outcomes", "opening_after_mixed_history",
		"history_mixed", "history_stream-only", "history_buffered-only", "history_breaker_without_retry",
		"timeout_408_inside_breaker_stream_body", "timeout_408_inside_breaker_buffered_body",
		// client cancellation at every point, for both body modes, and deciding the opening
		"client_cancelled_requests_counted_by_reference_in-attempt", "client_cancelled_requests_counted_by_reference_hanging-attempt",
		"client_cancelled_requests_counted_by_reference_in-backoff", "client_cancelled_requests_after_retries_inside_breaker",
		"client_cancelled_requests_counted_by_reference_stream_body", "client_cancelled_requests_counted_by_reference_buffered_body",
		"opening_depends_on_client_cancelled_outcomes",
	} {
		r.Require(k, 1)
	}
}
