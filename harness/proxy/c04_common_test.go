//go:build verif

package proxy

// Shared helpers of the C04 monitors (load balancers / server pool).  Everything is
// prefixed c04 because other properties' harness files live in the same directory.

import (
	"fmt"
	"io"
	"math/rand"
	"net/http"
	"strings"
	"sync"
	"sync/atomic"

	"github.com/megaease/easegress/pkg/context"
	"github.com/megaease/easegress/pkg/filters"
	"github.com/megaease/easegress/pkg/logger"
	"github.com/megaease/easegress/pkg/protocols/httpprot"
	"github.com/megaease/easegress/pkg/tracing"
)

func init() { logger.InitNop() }

const c04IDHeader = "X-Verif-C04-Id"

// c04Srv is the harness' own description of one pool member.
type c04Srv struct {
	URL    string `json:"url"`
	Weight int    `json:"weight"`
}

// c04Key is a selection key: a client address (presented in one of three ways) and
// a header value.
type c04Key struct {
	IP     string `json:"ip"`
	Header string `json:"header"` // value of the hash header ("" = header absent)
}

var c04PublicIPs = []string{"8.8.8.8", "8.8.4.4", "1.1.1.1", "203.0.113.7", "198.51.100.23", "93.184.216.34", "2001:db8::1", "151.101.1.69"}
var c04HeaderVals = []string{"", "alice", "bob", "carol", "a", "b", "tenant-7", "tenant-8"}

// c04NewRequest builds a fresh server-side request for key k.  present selects how the
// client address is presented (RemoteAddr / X-Forwarded-For / X-Real-Ip); port varies
// between requests of the same client.
func c04NewRequest(k c04Key, headerName string, present int, port int, id string) *httpprot.Request {
	stdr, err := http.NewRequest(http.MethodGet, "http://gateway.example/api/x?q=1", nil)
	if err != nil {
		panic(err)
	}
	ip := k.IP
	hostport := func(h string) string {
		if strings.Contains(h, ":") {
			return fmt.Sprintf("[%s]:%d", h, port)
		}
		return fmt.Sprintf("%s:%d", h, port)
	}
	switch present % 3 {
	case 0:
		stdr.RemoteAddr = hostport(ip)
	case 1:
		stdr.RemoteAddr = hostport("10.1.2.3")
		stdr.Header.Set("X-Forwarded-For", ip)
	default:
		stdr.RemoteAddr = hostport("10.1.2.4")
		stdr.Header.Set("X-Real-Ip", ip)
	}
	if k.Header != "" && headerName != "" {
		stdr.Header.Set(headerName, k.Header)
	}
	if id != "" {
		stdr.Header.Set(c04IDHeader, id)
	}
	req, err := httpprot.NewRequest(stdr)
	if err != nil {
		panic(err)
	}
	if err := req.FetchPayload(0); err != nil {
		panic(err)
	}
	return req
}

func c04Ctx(req *httpprot.Request) *context.Context {
	ctx := context.New(tracing.NoopSpan)
	ctx.SetRequest(context.DefaultNamespace, req)
	return ctx
}

// ---- recording transport -------------------------------------------------------------

type c04Slot struct {
	mu      sync.Mutex
	targets []string
}

var (
	c04Slots   sync.Map // id -> *c04Slot
	c04NextID  uint64
	c04Unknown int64
)

func c04Transport(r *http.Request, _ *http.Client) (*http.Response, error) {
	id := r.Header.Get(c04IDHeader)
	if v, ok := c04Slots.Load(id); ok {
		s := v.(*c04Slot)
		s.mu.Lock()
		s.targets = append(s.targets, r.URL.Scheme+"://"+r.URL.Host)
		s.mu.Unlock()
	} else {
		atomic.AddInt64(&c04Unknown, 1)
	}
	return &http.Response{
		StatusCode:    200,
		Status:        "200 OK",
		Proto:         "HTTP/1.1",
		ProtoMajor:    1,
		ProtoMinor:    1,
		Header:        http.Header{"Content-Type": []string{"text/plain"}},
		Body:          io.NopCloser(strings.NewReader("ok")),
		ContentLength: 2,
		Request:       r,
	}, nil
}

// c04Outcome is what one pool-level request observed.
type c04Outcome struct {
	Target   string `json:"target"` // "" when the transport was not reached
	Calls    int    `json:"calls"`
	Status   int    `json:"status"`
	Result   string `json:"result"`
	Panic    string `json:"panic,omitempty"`
	PanicAt  string `json:"panic_at,omitempty"`
	Lo, Hi   int    // generation window (concurrent phase)
	KeyIndex int
}

// c04Handle sends one request through the real ServerPool.handle.
func c04Handle(sp *ServerPool, k c04Key, headerName string, rng *rand.Rand) (out c04Outcome) {
	id := fmt.Sprintf("r%d", atomic.AddUint64(&c04NextID, 1))
	slot := &c04Slot{}
	c04Slots.Store(id, slot)
	defer c04Slots.Delete(id)
	req := c04NewRequest(k, headerName, rng.Intn(3), 1024+rng.Intn(60000), id)
	ctx := c04Ctx(req)
	func() {
		defer func() {
			if e := recover(); e != nil {
				out.Panic = fmt.Sprint(e)
				out.PanicAt = c04PanicSite()
			}
		}()
		out.Result = sp.handle(ctx, false)
	}()
	slot.mu.Lock()
	out.Calls = len(slot.targets)
	if out.Calls > 0 {
		out.Target = slot.targets[len(slot.targets)-1]
	}
	slot.mu.Unlock()
	if out.Panic == "" {
		if resp, ok := ctx.GetOutputResponse().(*httpprot.Response); ok && resp != nil {
			out.Status = resp.StatusCode()
		}
	}
	return out
}

// ---- proxy construction through the real validation gate ----------------------------------

type c04PoolCfg struct {
	Policy      string   `json:"policy"`
	HeaderKey   string   `json:"headerHashKey"`
	Static      []c04Srv `json:"static"`
	WithWeights bool     `json:"withWeights"` // write weight fields into the YAML
	ServiceName string   `json:"serviceName"`
	ServerTags  []string `json:"serverTags"`
	// only set by the retry monitor (c04_retry_test.go): name of the injected retry policy
	// and the pool's failureCodes.
	RetryPolicy  string `json:"retryPolicy,omitempty"`
	FailureCodes []int  `json:"failureCodes,omitempty"`
	// only set by the registry-fault monitor (c04_registry_test.go): name of the registry
	// driver; with it the pool runs its own watchServers instead of being fed by the harness.
	ServiceRegistry string `json:"serviceRegistry,omitempty"`
}

func (c *c04PoolCfg) raw() map[string]interface{} {
	pool := map[string]interface{}{}
	if c.ServiceRegistry != "" {
		pool["serviceRegistry"] = c.ServiceRegistry
	}
	if c.ServiceName != "" {
		pool["serviceName"] = c.ServiceName
	}
	if len(c.ServerTags) > 0 {
		tags := []interface{}{}
		for _, t := range c.ServerTags {
			tags = append(tags, t)
		}
		pool["serverTags"] = tags
	}
	svrs := []interface{}{}
	for _, s := range c.Static {
		m := map[string]interface{}{"url": s.URL}
		if c.WithWeights {
			m["weight"] = s.Weight
		}
		svrs = append(svrs, m)
	}
	if len(svrs) > 0 {
		pool["servers"] = svrs
	}
	if c.RetryPolicy != "" {
		pool["retryPolicy"] = c.RetryPolicy
	}
	if len(c.FailureCodes) > 0 {
		fc := []interface{}{}
		for _, x := range c.FailureCodes {
			fc = append(fc, x)
		}
		pool["failureCodes"] = fc
	}
	lb := map[string]interface{}{}
	if c.Policy != "" {
		lb["policy"] = c.Policy
	}
	if c.HeaderKey != "" {
		lb["headerHashKey"] = c.HeaderKey
	}
	if len(lb) > 0 {
		pool["loadBalance"] = lb
	}
	return map[string]interface{}{
		"name":  "c04proxy",
		"kind":  "Proxy",
		"pools": []interface{}{pool},
	}
}

// c04Validate runs the real admin-side validation (schema + Spec.Validate +
// ServerPoolSpec.Validate).
func c04Validate(c *c04PoolCfg) (filters.Spec, error) {
	return filters.NewSpec(nil, "", c.raw())
}

func c04NewProxy(c *c04PoolCfg) (*Proxy, error) {
	spec, err := c04Validate(c)
	if err != nil {
		return nil, err
	}
	p := kind.CreateInstance(spec).(*Proxy)
	p.Init()
	return p, nil
}

// c04Floor/ceil fairness of a count vector.
func c04Fair(counts []int, k int) bool {
	n := len(counts)
	if n == 0 {
		return k == 0
	}
	lo := k / n
	hi := lo
	if k%n != 0 {
		hi++
	}
	sum := 0
	for _, c := range counts {
		if c != lo && c != hi {
			return false
		}
		sum += c
	}
	return sum == k
}
