//go:build verif

package proxy

// C10, clause "makes no further attempt once the client's request is cancelled", for the
// schedule class that the other parts can only tolerate: a cancellation that is COMPLETE
// (cancel() has returned) before the retrying goroutine gets to look at its expired back-off
// timer.  In a parallel run one late attempt per asynchronous cancel must be tolerated (the
// cancel may slip in between the retry loop's last look at the context and the transport
// call); here the schedule is controlled instead, and the verdict comes from repetition.
//
// Control: the whole part runs with GOMAXPROCS(1), so "cancel() returned before the attempt
// started" is a total order, and goroutines only change at blocking points.  Attempt 1 fails
// at once; on its return the transport starts a canceller goroutine, which gets the P when the
// retrying goroutine blocks in its back-off wait.  Two schedules:
//
//	timer-fired-first  the canceller starts a helper that spins WITHOUT yielding until both
//	                   the back-off and the canceller's own, slightly longer sleep are over,
//	                   and goes to sleep.  When the helper exits the runtime fires both
//	                   expired timers in deadline order: the back-off timer makes the retrying
//	                   goroutine runnable (its wait is over, select has picked the timer), the
//	                   sleep timer makes the canceller runnable.  When the canceller is run
//	                   first (always without, in about half of the trials with the race
//	                   detector's randomised run queue) cancel() completes and its return
//	                   instant is recorded before the retrying goroutine resumes with
//	                   "back-off over"; otherwise the trial is not established.
//	spinning-canceller the canceller itself spins without yielding until the back-off deadline
//	                   has passed by a margin and then calls cancel(): the deadline has passed
//	                   and the context is cancelled before the retrying goroutine runs (the
//	                   runtime cannot fire the timer while the only P is kept busy, so the wait
//	                   is normally ended by the cancellation itself: a control schedule).
//
// Per trial: schedule established  <=>  cancel() returned >= waitDuration after attempt 1 had
// returned AND no attempt started between attempt 1's return and cancel()'s return (else the
// retrying goroutine was scheduled in between, e.g. by asynchronous preemption: trial not
// counted); in schedule timer-fired-first also: the canceller got the P within 2 ms after the
// helper gave it up (else the process was descheduled and the runtime's 10 ms quantum may have
// preempted the retrying goroutine between its look at the context and the transport call).
// late  <=>  the transport saw an attempt that STARTED after cancel() had returned.
// Verdict by repetition only: late trials >= max(8, 5 % of the established trials).

import (
	"fmt"
	"runtime"
	"sync/atomic"
	"testing"
	"time"

	"verif.local/kit"
)

type c10SchedCase struct {
	Schedule    string `json:"schedule"`
	MaxAttempts int    `json:"maxAttempts"`
	Wait        string `json:"waitDuration"`
	BackOff     string `json:"backOffPolicy"`
	ExtraUS     int    `json:"cancellerSleepsLongerThanBackoffByMicros,omitempty"`
	MarginUS    int    `json:"spinMarginMicros"`
}

// c10SchedSlack: the canceller runs a few microseconds after the helper has exited when the
// schedule is under control; a preemption by the runtime's quantum takes >= 10 ms.
const c10SchedSlack = 2 * time.Millisecond

var c10SchedNames = []string{"timer-fired-first", "spinning-canceller"}

// three trials in four use the first schedule: under the race detector the Go scheduler
// randomises its run-queue order, so the canceller runs before the retrying goroutine in only
// about half of them (the others are recognised as "not established" and not counted)
var c10SchedOrder = []string{"timer-fired-first", "timer-fired-first", "spinning-canceller", "timer-fired-first"}

func TestVerif_C10_CancelSchedule(t *testing.T) {
	r := kit.Start(t, "C10")
	defer r.Finish()
	r.Rule("controlled schedule under GOMAXPROCS(1), decided by repetition: Retry (maxAttempts 2..4, waitDuration 1 or 2 ms, randomizationFactor 0, both back-off policies) through the real Proxy.Handle; attempt 1 fails at once (network error); the client's cancel() completes after the back-off has expired but before the retrying goroutine can run again — schedule 'timer-fired-first' (3 of 4 trials; a non-yielding helper keeps the only P until the back-off timer and the canceller's 20..500 us longer sleep have both expired; the runtime then fires both, the canceller runs first) and the control schedule 'spinning-canceller' (the canceller spins without yielding past the back-off deadline, then cancels); a trial counts only if the schedule was established (cancel() returned >= waitDuration after attempt 1 returned, no attempt started in between; for 'timer-fired-first' also: the canceller got the P within 2 ms after the helper gave it up — a clock used to discard trials in which the process was descheduled, never for a verdict); late = an attempt started after cancel() had returned; violation iff late trials >= max(8, 5% of established trials) of a schedule; distinct = (schedule, maxAttempts, wait, back-off, late)")
	r.Assume("with one P a goroutine that neither blocks nor runs for more than the 10 ms preemption quantum keeps the P; timers are fired by the scheduler of that P, which then picks the canceller or the retrying goroutine first (run-queue order is randomised under the race detector); whenever the retrying goroutine runs before cancel() has returned the trial is recognised as not established and is not counted")

	// The verdict is a count over ALL trials, and the trials need a process of their own kind
	// (one P): they are not sharded, the whole series runs in shard 0 (and in a replay).
	if !r.Mine(0) && !r.Replaying() {
		return
	}

	old := fnSendRequest
	fnSendRequest = c10Transport
	defer func() { fnSendRequest = old }()

	prev := runtime.GOMAXPROCS(1)
	defer runtime.GOMAXPROCS(prev)

	proxies := map[string]*Proxy{}
	defer func() {
		for _, p := range proxies {
			p.Close()
		}
	}()

	established := map[string]int{}
	late := map[string]int{}
	trials := map[string]int{}
	var lateSamples = map[string][]interface{}{}

	total := r.N(4*120, 4*1250)
	for i := 0; i < total; i++ {
		rng := r.CaseRand(i)
		c := &c10SchedCase{Schedule: c10SchedOrder[i%4]}
		x := i / 4
		c.MaxAttempts = 2 + x%3
		c.Wait = []string{"1ms", "2ms"}[(x/3)%2]
		c.BackOff = []string{"random", "exponential"}[(x/6)%2]
		c.ExtraUS = []int{20, 50, 100, 200, 500}[rng.Intn(5)]
		c.MarginUS = []int{100, 200, 400}[rng.Intn(3)]
		if c.Schedule == "spinning-canceller" {
			c.ExtraUS = 0
		}
		r.Case(i, c)
		pool := &c10PoolCfg{Retry: &c10RetryCfg{MaxAttempts: c.MaxAttempts, Wait: c.Wait, BackOff: c.BackOff}, FailureCodes: []int{503}}
		key := fmt.Sprintf("%d/%s/%s", c.MaxAttempts, c.Wait, c.BackOff)
		p := proxies[key]
		if p == nil {
			var err error
			if p, err = c10NewProxy(pool); err != nil {
				r.Count("policy_or_spec_rejected", 1)
				r.Note("rejected by validation: %v", err)
				continue
			}
			proxies[key] = p
		}
		wait := pool.Retry.wait()
		extra := time.Duration(c.ExtraUS) * time.Microsecond
		margin := time.Duration(c.MarginUS) * time.Microsecond
		// timer-fired-first: when the helper gave up the P and when the canceller got it, in ns
		// since the canceller's start (0 = did not happen); the canceller's is read after wg.Wait
		var helperExit, cancellerWoke int64
		hook := func(st *c10State, idx int) {
			if idx != 0 {
				return
			}
			st.wg.Add(1)
			switch c.Schedule {
			case "timer-fired-first":
				go func() { // canceller: gets the P when the retrying goroutine blocks in its back-off
					defer st.wg.Done()
					tc := time.Now()
					go func() { // helper: keeps the P until both timers have expired
						for time.Since(tc) < wait+extra+margin {
						}
						atomic.StoreInt64(&helperExit, int64(time.Since(tc)))
					}()
					time.Sleep(wait + extra)
					atomic.StoreInt64(&cancellerWoke, int64(time.Since(tc)))
					st.askCancel()
					st.cancel()
					st.noteCancelled()
				}()
			default:
				go func() {
					defer st.wg.Done()
					tc := time.Now()
					for time.Since(tc) < wait+margin {
					}
					st.askCancel()
					st.cancel()
					st.noteCancelled()
				}()
			}
		}
		script := []c10Step{{Kind: "neterr"}}
		res := c10DoHook(p, script, false, -1, c10PanicSite, hook)
		if res.Watchdog {
			r.Inconclusive("harness watchdog (120 s) fired in a cancel-schedule trial")
			continue
		}
		if res.Panic != "" {
			r.Violation("C10:cancel-schedule:panic:"+res.PanicAt+":"+kit.MsgClass(res.Panic), map[string]interface{}{"case": c, "observed": res})
			continue
		}
		m := len(res.Attempts)
		r.Eval(m)
		trials[c.Schedule]++
		if m == 0 || !res.Cancelled {
			r.Count("trial_without_attempt_or_cancel", 1)
			continue
		}
		end1 := res.Attempts[0].End
		est := res.CancelledAt >= end1+wait
		if !est {
			r.Count("not_established:cancel_returned_before_backoff_deadline:"+c.Schedule, 1)
		}
		if est && c.Schedule == "timer-fired-first" {
			// The canceller must have got the P right after the helper gave it up (a few
			// microseconds).  If it got it while the helper was still spinning, or long after
			// (the process was descheduled: the retrying goroutine may have been resumed
			// first and then preempted by the runtime's 10 ms quantum inside the few
			// instructions between its look at the context and the transport call, which is
			// the tolerated window of the parallel parts), the schedule was not under control.
			// A clock is used here to DISCARD trials only, never for a verdict.
			he, cw := atomic.LoadInt64(&helperExit), atomic.LoadInt64(&cancellerWoke)
			if he == 0 || cw < he || time.Duration(cw-he) > c10SchedSlack {
				est = false
				r.Count("not_established:canceller_did_not_run_right_after_the_timers_fired:"+c.Schedule, 1)
			}
		}
		nLate := 0
		for _, a := range res.Attempts[1:] {
			if a.Start <= res.CancelledAt {
				if est {
					r.Count("not_established:retrying_goroutine_ran_before_cancel_returned:"+c.Schedule, 1)
				}
				est = false
			} else {
				nLate++
			}
		}
		if !est {
			continue
		}
		established[c.Schedule]++
		r.Count("schedule_established:"+c.Schedule, 1)
		if nLate > 0 {
			late[c.Schedule]++
			r.Count("late_attempt_after_completed_cancel:"+c.Schedule, 1)
			if len(lateSamples[c.Schedule]) < 3 {
				lateSamples[c.Schedule] = append(lateSamples[c.Schedule], map[string]interface{}{"case": c, "observed": res})
			}
		} else {
			r.Count("no_attempt_after_completed_cancel:"+c.Schedule, 1)
		}
		r.Cover(fmt.Sprintf("cancel-schedule/%s/max%d/%s/%s/late%v", c.Schedule, c.MaxAttempts, c.Wait, c.BackOff, nLate > 0))
	}
	for _, s := range c10SchedNames {
		need := established[s] / 20
		if need < 8 {
			need = 8
		}
		r.Note("schedule %s: trials %d, established %d, late %d (violation from %d)", s, trials[s], established[s], late[s], need)
		if late[s] >= need {
			r.Violation("C10:attempt-after-cancel:cancel-completed-before-backoff-timer-could-be-observed(reproducible):schedule="+s,
				map[string]interface{}{"late_trials": late[s], "established_trials": established[s], "trials": trials[s], "threshold": need, "samples": lateSamples[s]})
		}
	}
	r.Require("schedule_established:timer-fired-first", 60)
	r.Require("schedule_established:spinning-canceller", 30)
}
