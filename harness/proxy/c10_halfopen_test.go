//go:build verif

package proxy

// C10, last clause, carried through the breaker's state transitions: "a CircuitBreaker wrapped
// around the call records exactly one outcome per client request however many retries it
// contained" — also for the limited number of requests that the breaker permits in HALF_OPEN
// state (controllers.md: "After a configured duration, state transits from OPEN to HALF_OPEN,
// in which a limited number of requests are permitted to pass through while other requests
// are still short-circuited, and state transit to CLOSED or OPEN based on the results of the
// permitted requests"; maxWaitDurationInHalfOpenState 0, the default: "wait infinitely in
// HALF_OPEN state until all permitted requests have been completed").
//
// History of one case (one pool, strictly sequential client requests):
//
//	1. M = minimumNumberOfCalls plain failing client requests (streamed or buffered, with
//	   their retries) open the breaker (rule judged by TestVerif_C10_Breaker);
//	2. the harness sleeps waitDurationInOpenState (20..40 ms) + 1 ms after the last of them
//	   has returned — a LOWER bound on real time, which is all the breaker asks for;
//	3. P = permittedNumberOfCallsInHalfOpenState probes (P <= M): success, failures then a
//	   success inside the retries, failing, or cancelled by the client (inside an attempt /
//	   during the back-off), streamed or buffered.  Every one of them was permitted, so none
//	   may be short-circuited, and each completed probe is ONE result;
//	4. reference: with P results the breaker decides: failureRateThreshold 100 => CLOSED
//	   unless all P probes failed, failureRateThreshold 1 => CLOSED only if all P succeeded.
//	   When the reference says CLOSED, 2..3 further successful requests must pass (200).  When
//	   it says OPEN nothing more is judged (whether a request sent now is short-circuited
//	   depends on whether waitDurationInOpenState has passed again: a wall-clock upper bound).
//
// A breaker that records attempts instead of requests, the outcome of an attempt other than
// the last, or no result for some kind of permitted request (body mode, client cancellation)
// either re-opens or never collects P results: the requests of step 4 are short-circuited.

import (
	"fmt"
	"sort"
	"strings"
	"testing"
	"time"

	"verif.local/kit"
)

type c10HalfReq struct {
	Script     []c10Step `json:"script"`
	Stream     bool      `json:"streamBody"`
	Cancel     string    `json:"clientCancel,omitempty"`
	AsyncAfter int       `json:"asyncCancelAfterAttempt"`
	Shape      string    `json:"shape"` // ok | retried-ok | fail | cancelled
	Att        int       `json:"attemptsAllowed"`
}

type c10HalfCase struct {
	Pool    c10PoolCfg   `json:"pool"`
	Want    string       `json:"referenceAfterProbes"` // closed | open
	Opening []c10HalfReq `json:"openingRequests"`
	Probes  []c10HalfReq `json:"halfOpenProbes"`
	After   []c10HalfReq `json:"requestsAfterProbes"`
}

func TestVerif_C10_BreakerHalfOpen(t *testing.T) {
	r := kit.Start(t, "C10")
	defer r.Finish()
	r.Rule("pool with a COUNT_BASED CircuitBreaker (window 50, minimumNumberOfCalls M 2..4, failureRateThreshold 1 or 100, waitDurationInOpenState 20..40 ms, permittedNumberOfCallsInHalfOpenState P 1..3 with P <= M, maxWaitDurationInHalfOpenState default 0) around a Retry policy (maxAttempts 2..3, wait 5 ms; omitted in 1 of 6 cases), in a quarter of the cases with a pool time limit of 10..20 ms and a backend that may hang; M plain failing requests open the breaker, the harness sleeps waitDurationInOpenState + 1 ms (lower bound), then P probes: ok / failures then success inside the retries / failing / cancelled by the client inside an attempt, in a hanging attempt or during the back-off, each streamed or buffered; none of the P permitted probes may be short-circuited; reference: P completed probes = P results, failureRateThreshold 100 closes unless all failed, 1 closes only if all succeeded; when the reference says CLOSED the next 2..3 successful requests must pass, when it says OPEN nothing more is judged; two thirds of the cases are generated towards CLOSED; distinct = (retry present, time limit present, M, T, P, shapes and body modes of the probes in order, reference verdict)")
	r.Assume("failureRateThreshold 1 and 100 make the integer failure rate unambiguous; slow-call threshold 1h; P <= M so that the half-open decision is taken after exactly P results; the sleep gives a lower bound on the time spent in OPEN, nothing depends on an upper bound; a client request that ends with an error after its client has cancelled it is a failed request")

	old := fnSendRequest
	fnSendRequest = c10Transport
	defer func() { fnSendRequest = old }()

	total := r.N(72, 2400)
	for i := 0; i < total; i++ {
		if !r.Mine(i) {
			continue
		}
		rng := r.CaseRand(i)
		c := &c10HalfCase{}
		max := 2 + i%2
		c.Pool.Retry = &c10RetryCfg{MaxAttempts: max, Wait: "5ms", BackOff: []string{"", "exponential"}[rng.Intn(2)], RF: []float64{0, 0.5}[rng.Intn(2)]}
		m := 2 + (i/2)%3
		pmt := 1 + (i/6)%3
		if pmt > m {
			pmt = m
		}
		thr := []int{100, 1}[(i/18)%2]
		waitOpen := []int{20, 30, 40}[rng.Intn(3)]
		c.Pool.Breaker = &c10BreakerCfg{MinCalls: m, Threshold: thr, Window: 50, WaitOpen: fmt.Sprintf("%dms", waitOpen), Permitted: pmt}
		c.Pool.FailureCodes = []int{500, 503}
		if rng.Intn(4) == 0 {
			c.Pool.Timeout = []string{"10ms", "20ms"}[rng.Intn(2)]
		}
		effMax := max
		if rng.Intn(6) == 0 {
			c.Pool.Retry = nil
			effMax = 1
		}
		fail := func() c10Step {
			if c.Pool.Timeout != "" && rng.Intn(3) == 0 {
				return c10Step{Kind: "hang"}
			}
			if rng.Intn(2) == 0 {
				return c10Step{Kind: "neterr"}
			}
			return c10Step{Kind: "failcode", Code: 503}
		}
		fails := func(n int) (s []c10Step) {
			for j := 0; j < n; j++ {
				s = append(s, fail())
			}
			return
		}
		mk := func(shape string) c10HalfReq {
			q := c10HalfReq{Stream: rng.Intn(2) == 0, AsyncAfter: -1, Shape: shape}
			att := effMax
			if q.Stream {
				att = 1
			}
			if shape == "retried-ok" && att < 2 {
				q.Stream, att = false, effMax
				if att < 2 {
					q.Shape, shape = "ok", "ok"
				}
			}
			q.Att = att
			switch shape {
			case "ok":
				q.Script = []c10Step{{Kind: "ok", Code: 200}}
			case "retried-ok":
				q.Script = append(fails(1+rng.Intn(att-1)), c10Step{Kind: "ok", Code: 200})
			case "fail":
				q.Script = fails(max + 1)
			case "cancelled":
				q.Script, q.Cancel, q.AsyncAfter = c10CancelledScript(rng, att, max, c.Pool.Timeout != "", fail)
			}
			return q
		}
		for q := 0; q < m; q++ {
			c.Opening = append(c.Opening, mk("fail"))
		}
		// probes, generated towards a verdict
		c.Want = []string{"closed", "closed", "open"}[rng.Intn(3)]
		okShapes, badShapes := []string{"ok", "retried-ok"}, []string{"fail", "cancelled", "cancelled"}
		pick := func(s []string) string { return s[rng.Intn(len(s))] }
		shapes := make([]string, pmt)
		for k := range shapes {
			switch {
			case thr == 1 && c.Want == "closed":
				shapes[k] = pick(okShapes)
			case thr == 100 && c.Want == "open":
				shapes[k] = pick(badShapes)
			case rng.Intn(3) == 0:
				shapes[k] = pick(okShapes)
			default:
				shapes[k] = pick(badShapes)
			}
		}
		// make sure the wanted verdict needs one probe of the other kind
		if thr == 100 && c.Want == "closed" {
			shapes[rng.Intn(pmt)] = pick(okShapes)
		}
		if thr == 1 && c.Want == "open" {
			shapes[rng.Intn(pmt)] = pick(badShapes)
		}
		for _, s := range shapes {
			c.Probes = append(c.Probes, mk(s))
		}
		for q, n := 0, 2+rng.Intn(2); q < n; q++ {
			c.After = append(c.After, mk("ok"))
		}
		r.Case(i, c)
		p, err := c10NewProxy(&c.Pool)
		if err != nil {
			r.Count("policy_or_spec_rejected", 1)
			r.Note("rejected by validation: %v", err)
			continue
		}
		func() {
			defer p.Close()
			do := func(q *c10HalfReq) (c10Result, bool) {
				res := c10Do(p, q.Script, q.Stream, q.AsyncAfter, c10PanicSite)
				r.Eval(1)
				if res.Watchdog {
					r.Inconclusive("harness watchdog (120 s) fired in half-open sequence")
					return res, false
				}
				if res.Panic != "" {
					r.Violation("C10:breaker:half-open:panic:"+res.PanicAt+":"+kit.MsgClass(res.Panic), map[string]interface{}{"case": c})
					return res, false
				}
				return res, true
			}
			// 1. open the breaker
			for q := range c.Opening {
				res, ok := do(&c.Opening[q])
				if !ok {
					return
				}
				if res.Result == resultShortCircuited {
					r.Violation("C10:breaker:half-open:short-circuited-before-minimumNumberOfCalls-requests", map[string]interface{}{"case": c, "opening_request": q, "observed": res})
					return
				}
			}
			// 2. at least waitDurationInOpenState in OPEN (the transition happened before the
			// last opening request returned)
			time.Sleep(time.Duration(waitOpen)*time.Millisecond + time.Millisecond)
			// 3. the permitted probes
			failed := 0
			kinds := map[string]bool{}
			var order []string
			for q := range c.Probes {
				pr := &c.Probes[q]
				res, ok := do(pr)
				if !ok {
					return
				}
				label := pr.Shape
				if pr.Cancel != "" {
					label = "client-cancelled-" + pr.Cancel
				}
				det := map[string]interface{}{"case": c, "probe": q, "probe_kind": label, "probe_body": c10BodyMode(pr.Stream), "observed": res}
				if res.Result == resultShortCircuited {
					r.Violation(fmt.Sprintf("C10:breaker:half-open:permitted-probe-short-circuited:probe=%d-of-%d:earlier-probes=%s", q+1, pmt, c10KindSet(kinds)), det)
					return
				}
				n := len(res.Attempts)
				if n == 0 {
					r.Violation("C10:breaker:half-open:no-attempt-made-for-permitted-probe", det)
					return
				}
				last := res.Attempts[n-1]
				if !c10FinalOK(&c.Pool, last, &res) {
					r.Violation(fmt.Sprintf("C10:breaker:half-open:final-outcome-not-last-attempts:last=%s:got=%s/%d", last.Kind, res.Result, res.Status), det)
					return
				}
				if last.Kind != "ok" || last.ExpiredAtStart {
					failed++
				}
				if (pr.Shape == "ok" || pr.Shape == "retried-ok") && (last.Kind != "ok" || last.ExpiredAtStart) {
					// the machine was too slow for a fresh time limit, or fewer attempts than
					// allowed were made: the probe failed, the reference follows what happened
					r.Count("half_open_probe_scripted_to_succeed_failed", 1)
				}
				// (a cancel from another goroutine may come too late: then it was a plain failing probe)
				if pr.Cancel != "" && (last.Kind == "cancel" || last.Kind == "hangcancel" || (res.Cancelled && (n < pr.Att || res.Result == resultClientError))) {
					kinds["client-cancelled"] = true
					r.Count("half_open_probes_client_cancelled_"+pr.Cancel, 1)
				} else if n > 1 {
					kinds["retried"] = true
					r.Count("half_open_probes_with_retries", 1)
				} else {
					kinds["plain"] = true
				}
				if pr.Stream {
					r.Count("half_open_probes_stream_body", 1)
				} else {
					r.Count("half_open_probes_buffered_body", 1)
				}
				order = append(order, label+"/"+c10BodyMode(pr.Stream))
			}
			// 4. the decision after P results
			closed := (thr == 100 && failed < pmt) || (thr == 1 && failed == 0)
			if !closed {
				r.Count("half_open_reference_reopens(nothing_more_judged)", 1)
				r.Cover(fmt.Sprintf("halfopen/retry=%v/limit=%v/M%d/T%d/P%d/%s/open", c.Pool.Retry != nil, c.Pool.Timeout != "", m, thr, pmt, strings.Join(order, ",")))
				return
			}
			for q := range c.After {
				res, ok := do(&c.After[q])
				if !ok {
					return
				}
				det := map[string]interface{}{"case": c, "request_after_probes": q, "observed": res, "reference": map[string]interface{}{"probes_completed": pmt, "probes_failed": failed, "state": "closed"}}
				if res.Result == resultShortCircuited {
					r.Violation(fmt.Sprintf("C10:breaker:half-open:request-short-circuited-although-all-permitted-probes-completed-and-reference-closed(one-outcome-per-request):T=%d:probes=%s", thr, c10KindSet(kinds)), det)
					return
				}
				n := len(res.Attempts)
				if n == 0 || !c10FinalOK(&c.Pool, res.Attempts[n-1], &res) {
					r.Violation("C10:breaker:half-open:request-after-recovery-not-answered-by-its-last-attempt", det)
					return
				}
				if la := res.Attempts[n-1]; la.Kind != "ok" || la.ExpiredAtStart {
					// the machine was too slow for a fresh time limit: this request failed, the
					// closed breaker may open again on it — nothing more to judge in this history
					r.Count("request_after_recovery_failed(machine_slow)", 1)
					return
				}
			}
			r.Count("half_open_closed_after_probes_as_predicted", 1)
			for k := range kinds {
				r.Count("half_open_closed_with_"+k+"_probe", 1)
			}
			if failed > 0 {
				r.Count("half_open_closed_although_a_probe_failed(T=100)", 1)
			}
			r.Cover(fmt.Sprintf("halfopen/retry=%v/limit=%v/M%d/T%d/P%d/%s/closed", c.Pool.Retry != nil, c.Pool.Timeout != "", m, thr, pmt, strings.Join(order, ",")))
		}()
	}
	for _, k := range []string{
		"half_open_closed_after_probes_as_predicted", "half_open_reference_reopens(nothing_more_judged)",
		"half_open_closed_with_client-cancelled_probe", "half_open_closed_with_retried_probe", "half_open_closed_with_plain_probe",
		"half_open_closed_although_a_probe_failed(T=100)",
		"half_open_probes_client_cancelled_in-attempt", "half_open_probes_client_cancelled_in-backoff",
		"half_open_probes_stream_body", "half_open_probes_buffered_body",
	} {
		r.Require(k, 1)
	}
}

// c10KindSet renders the kinds of probes made so far ("none" if there were none).
func c10KindSet(kinds map[string]bool) string {
	if len(kinds) == 0 {
		return "none"
	}
	var s []string
	for k := range kinds {
		s = append(s, k)
	}
	sort.Strings(s)
	return strings.Join(s, "+")
}
