//go:build verif

package proxy

// C04, exploration of the one input shape whose meaning the property leaves open: a
// discovery-backed pool WITHOUT serverTags.  The documentation says "only servers have tags
// in this array are included in this pool"; the property says "the tagged instances ...
// falling back to the static list when none qualifies".  Either no instance qualifies (=> the
// static list is used) or every instance does.  The monitor accepts both readings — the
// target must be a static member or a discovered instance of the current generation, a
// request may fail for lack of a server only if the static list is empty, nothing may
// panic — and reports which reading the code follows (counters, not verdicts).

import (
	"fmt"
	"testing"

	"verif.local/kit"
)

func TestVerif_C04_UntaggedPool(t *testing.T) {
	r := kit.Start(t, "C04")
	defer r.Finish()
	r.Rule("pools as in TestVerif_C04_Pool but with serverTags omitted; every generation applied through useService at quiescence, 2n+3 requests each; judged under the union of both readings of 'qualifies'; distinct = (policy, static size, which list served)")
	r.Assume("non-deciding between the two readings of a pool without serverTags")

	old := fnSendRequest
	fnSendRequest = c04Transport
	defer func() { fnSendRequest = old }()

	total := r.N(42, 420)
	for i := 0; i < total; i++ {
		if !r.Mine(i) {
			continue
		}
		rng := r.CaseRand(i)
		pc := c04GenPoolCase(rng, i)
		pc.Cfg.ServerTags = nil
		pc.prepare()
		r.Case(i, pc)
		p, err := c04NewProxy(&pc.Cfg)
		if err != nil {
			r.Count("pool_spec_rejected", 1)
			continue
		}
		r.Count("untagged_pools_built", 1)
		sp := p.mainPool
		pol := c04PolicyName(pc.Cfg.Policy)
		keys := []c04Key{{IP: "8.8.8.8", Header: "alice"}, {IP: "1.1.1.1", Header: "bob"}, {IP: "8.8.4.4"}}
		for g := 1; g < len(pc.m); g++ {
			if r.Guard("C04:pool-untagged:"+pol+":useService", pc, func() { sp.useService(pc.m[g]) }) {
				break
			}
			all := []c04Srv{}
			for k := range pc.Gens[g-1] {
				all = append(all, c04Srv{URL: pc.Gens[g-1][k].url()})
			}
			for k := 0; k < 2*len(all)+3; k++ {
				o := c04Handle(sp, keys[k%len(keys)], pc.Cfg.HeaderKey, rng)
				r.Eval(1)
				det := map[string]interface{}{"pool": pc.Cfg, "generation": pc.Gens[g-1], "outcome": o}
				switch {
				case o.Panic != "":
					r.Violation(fmt.Sprintf("C04:pool-untagged:%s:panic:%s:%s", pol, o.PanicAt, kit.MsgClass(o.Panic)), det)
				case o.Calls == 0:
					if len(pc.Cfg.Static) > 0 {
						r.Violation("pool-untagged:failed-although-static-list-non-empty:"+pol, det)
					} else {
						r.Count("untagged_pool_no_server_503", 1)
						r.Cover(fmt.Sprintf("untagged/%s/static0/503", pol))
					}
				default:
					if _, ok := c04Find(pc.Cfg.Static, o.Target); ok {
						r.Count("untagged_pool_served_by_static_list", 1)
						r.Cover(fmt.Sprintf("untagged/%s/static%d/static", pol, len(pc.Cfg.Static)))
					} else if _, ok := c04Find(all, o.Target); ok {
						r.Count("untagged_pool_served_by_discovered_instance", 1)
						r.Cover(fmt.Sprintf("untagged/%s/static%d/discovered", pol, len(pc.Cfg.Static)))
					} else {
						r.Violation("pool-untagged:target-neither-static-nor-discovered:"+pol, det)
					}
				}
			}
		}
		p.Close()
	}
	r.Note("pools without serverTags: %d requests served by the static list, %d by discovered instances, %d failed 503 with an empty static list (this shard)",
		r.Counter("untagged_pool_served_by_static_list"), r.Counter("untagged_pool_served_by_discovered_instance"), r.Counter("untagged_pool_no_server_503"))
	r.Require("untagged_pools_built", 1)
}
