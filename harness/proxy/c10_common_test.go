//go:build verif

package proxy

// Shared rig of the C10 monitors: a real Proxy/ServerPool built through the real validation
// gate, real resilience policies (resilience.NewPolicy) injected the way the pipeline does
// it, and a scripted transport (package variable fnSendRequest) that records one entry per
// attempt and plays the scripted outcome.

import (
	"bytes"
	stdcontext "context"
	"errors"
	"fmt"
	"io"
	"net/http"
	"strings"
	"sync"
	"sync/atomic"
	"time"

	"github.com/megaease/easegress/pkg/context"
	"github.com/megaease/easegress/pkg/filters"
	"github.com/megaease/easegress/pkg/logger"
	"github.com/megaease/easegress/pkg/protocols/httpprot"
	"github.com/megaease/easegress/pkg/resilience"
	"github.com/megaease/easegress/pkg/tracing"
)

func init() { logger.InitNop() }

const c10IDHeader = "X-Verif-C10-Id"

// c10Step is the scripted outcome of one attempt.
//
//	ok        2xx response
//	failcode  response whose status is one of the pool's failureCodes
//	neterr    transport error (connection refused)
//	hang      block until the attempt's context is done, then return its error
//	cancel    the client cancels its request while this attempt is in flight: the transport
//	          calls the client's cancel function and returns the context error
//	hangcancel the attempt hangs; another goroutine cancels the client context
type c10Step struct {
	Kind string `json:"kind"`
	Code int    `json:"code,omitempty"`
}

func (s c10Step) failure() bool { return s.Kind != "ok" }

// c10Attempt is one record of the attempt log.
type c10Attempt struct {
	Index   int           `json:"index"`
	Start   time.Duration `json:"start_ns"`
	End     time.Duration `json:"end_ns"`
	Kind    string        `json:"kind"`
	Code    int           `json:"code,omitempty"`
	BodyLen int           `json:"body_len"`
	Target  string        `json:"-"`
	// the context the pool handed to the transport, looked at when the attempt STARTS
	// (no timing involved: it is a state of the context, not a measured duration)
	ExpiredAtStart bool          `json:"time_limit_expired_at_start,omitempty"` // ctx.Err() == DeadlineExceeded before anything was sent
	HasDeadline    bool          `json:"has_deadline,omitempty"`
	Deadline       time.Duration `json:"deadline_ns,omitempty"` // the context's deadline, relative to t0
}

type c10State struct {
	mu          sync.Mutex
	t0          time.Time
	script      []c10Step
	attempts    []c10Attempt
	cancel      stdcontext.CancelFunc
	asyncAfter  int // cancel from another goroutine right after attempt #asyncAfter returned (-1: never)
	cancelAsked bool          // set BEFORE cancel() is called
	cancelled   bool          // set after cancel() has returned
	cancelledAt time.Duration // when cancel() had returned
	wg          sync.WaitGroup // cancelling goroutines
	// onReturn, if set, runs on the attempt's goroutine right before attempt idx returns to
	// the pool (after its End stamp was taken): used to arrange controlled schedules
	onReturn func(st *c10State, idx int)
}

var (
	c10States  sync.Map
	c10NextID  uint64
	c10Unknown int64
)

var errC10Refused = errors.New("dial tcp 10.10.0.1:80: connect: connection refused (scripted)")

func (st *c10State) askCancel() {
	st.mu.Lock()
	st.cancelAsked = true
	st.mu.Unlock()
}

func (st *c10State) noteCancelled() {
	st.mu.Lock()
	if !st.cancelled {
		st.cancelled = true
		st.cancelledAt = time.Since(st.t0)
	}
	st.mu.Unlock()
}

func c10Transport(r *http.Request, _ *http.Client) (*http.Response, error) {
	v, ok := c10States.Load(r.Header.Get(c10IDHeader))
	if !ok {
		atomic.AddInt64(&c10Unknown, 1)
		return nil, errors.New("c10: request without harness id")
	}
	st := v.(*c10State)
	st.mu.Lock()
	idx := len(st.attempts)
	step := st.script[len(st.script)-1]
	if idx < len(st.script) {
		step = st.script[idx]
	}
	att := c10Attempt{Index: idx, Start: time.Since(st.t0), Kind: step.Kind, Code: step.Code}
	if dl, ok := r.Context().Deadline(); ok {
		att.HasDeadline, att.Deadline = true, dl.Sub(st.t0)
	}
	// Like http.Client.Do, the scripted transport sends nothing when the time limit of the
	// context it is given has expired already: the call fails at once with the context's
	// error, whatever the backend would have answered.
	att.ExpiredAtStart = r.Context().Err() == stdcontext.DeadlineExceeded
	if att.ExpiredAtStart {
		att.End = att.Start
	}
	st.attempts = append(st.attempts, att)
	st.mu.Unlock()
	if att.ExpiredAtStart {
		return nil, stdcontext.DeadlineExceeded
	}

	n := 0
	if r.Body != nil {
		b, _ := io.ReadAll(r.Body)
		n = len(b)
	}
	var resp *http.Response
	var err error
	switch step.Kind {
	case "ok", "failcode":
		body := fmt.Sprintf("attempt-%d", idx)
		resp = &http.Response{
			StatusCode: step.Code, Status: fmt.Sprintf("%d scripted", step.Code),
			Proto: "HTTP/1.1", ProtoMajor: 1, ProtoMinor: 1,
			Header:        http.Header{"Content-Type": []string{"text/plain"}, "X-Attempt": []string{fmt.Sprint(idx)}},
			Body:          io.NopCloser(strings.NewReader(body)),
			ContentLength: int64(len(body)),
			Request:       r,
		}
	case "neterr":
		err = errC10Refused
	case "hang":
		<-r.Context().Done()
		err = r.Context().Err()
	case "cancel":
		st.askCancel()
		st.cancel()
		st.noteCancelled()
		err = r.Context().Err()
		if err == nil {
			err = stdcontext.Canceled
		}
	case "hangcancel":
		st.askCancel()
		st.wg.Add(1)
		go func() {
			defer st.wg.Done()
			st.cancel()
			st.noteCancelled()
		}()
		<-r.Context().Done()
		// the cancel must be complete (and time-stamped) before this attempt returns
		for {
			st.mu.Lock()
			c := st.cancelled
			st.mu.Unlock()
			if c || r.Context().Err() == stdcontext.DeadlineExceeded {
				break
			}
			time.Sleep(20 * time.Microsecond)
		}
		err = r.Context().Err()
	default:
		panic("c10: unknown step " + step.Kind)
	}
	st.mu.Lock()
	st.attempts[idx].End = time.Since(st.t0)
	st.attempts[idx].BodyLen = n
	async := st.asyncAfter == idx
	st.mu.Unlock()
	if st.onReturn != nil {
		st.onReturn(st, idx)
	}
	if async {
		st.askCancel()
		st.wg.Add(1)
		go func() {
			defer st.wg.Done()
			st.cancel()
			st.noteCancelled()
		}()
	}
	return resp, err
}

// ---- policies and pool ----------------------------------------------------------------------

type c10RetryCfg struct {
	MaxAttempts int     `json:"maxAttempts"` // 0 = omitted (documented default 3)
	Wait        string  `json:"waitDuration"`
	BackOff     string  `json:"backOffPolicy"` // "" = omitted (documented default random)
	RF          float64 `json:"randomizationFactor"`
}

func (c *c10RetryCfg) effMax() int {
	if c.MaxAttempts == 0 {
		return 3
	}
	return c.MaxAttempts
}

func (c *c10RetryCfg) wait() time.Duration {
	d, err := time.ParseDuration(c.Wait)
	if err != nil {
		panic(err)
	}
	return d
}

// lowerBound is the documented minimum of the i-th back-off (between attempt i and i+1,
// counted from 0): "the actual wait duration used is a random number in [base*(1-rf),
// base*(1+rf)]"; "EXPONENTIAL: the base wait duration becomes 1.5 times larger after each
// failed attempt".
func (c *c10RetryCfg) lowerBound(i int) time.Duration {
	base := float64(c.wait())
	if c.BackOff == "exponential" {
		for k := 0; k < i; k++ {
			base *= 1.5
		}
	}
	return time.Duration(base * (1 - c.RF))
}

func (c *c10RetryCfg) policy() (resilience.Policy, error) {
	raw := map[string]interface{}{"kind": "Retry", "name": "c10retry", "waitDuration": c.Wait}
	if c.MaxAttempts != 0 {
		raw["maxAttempts"] = c.MaxAttempts
	}
	if c.BackOff != "" {
		raw["backOffPolicy"] = c.BackOff
	}
	if c.RF != 0 {
		raw["randomizationFactor"] = c.RF
	}
	return resilience.NewPolicy(raw)
}

type c10BreakerCfg struct {
	MinCalls  int    `json:"minimumNumberOfCalls"`
	Threshold int    `json:"failureRateThreshold"`
	Window    int    `json:"slidingWindowSize"`
	WaitOpen  string `json:"waitDurationInOpenState,omitempty"`               // "" = 1h (never leaves OPEN in a run)
	Permitted int    `json:"permittedNumberOfCallsInHalfOpenState,omitempty"` // 0 = 1
}

func (c *c10BreakerCfg) policy() (resilience.Policy, error) {
	waitOpen, permitted := "1h", 1
	if c.WaitOpen != "" {
		waitOpen = c.WaitOpen
	}
	if c.Permitted != 0 {
		permitted = c.Permitted
	}
	// maxWaitDurationInHalfOpenState stays at its documented default 0: "wait infinitely in
	// HALF_OPEN state until all permitted requests have been completed"
	return resilience.NewPolicy(map[string]interface{}{
		"kind": "CircuitBreaker", "name": "c10cb", "slidingWindowType": "COUNT_BASED",
		"slidingWindowSize": c.Window, "minimumNumberOfCalls": c.MinCalls, "failureRateThreshold": c.Threshold,
		"waitDurationInOpenState": waitOpen, "slowCallDurationThreshold": "1h", "permittedNumberOfCallsInHalfOpenState": permitted,
	})
}

type c10PoolCfg struct {
	Retry        *c10RetryCfg   `json:"retry,omitempty"`
	Breaker      *c10BreakerCfg `json:"breaker,omitempty"`
	Timeout      string         `json:"timeout,omitempty"`
	FailureCodes []int          `json:"failureCodes"`
}

func c10NewProxy(c *c10PoolCfg) (*Proxy, error) {
	pool := map[string]interface{}{
		"servers": []interface{}{map[string]interface{}{"url": "http://10.10.0.1:80"}},
	}
	fc := []interface{}{}
	for _, x := range c.FailureCodes {
		fc = append(fc, x)
	}
	pool["failureCodes"] = fc
	if c.Timeout != "" {
		pool["timeout"] = c.Timeout
	}
	policies := map[string]resilience.Policy{}
	if c.Retry != nil {
		p, err := c.Retry.policy()
		if err != nil {
			return nil, fmt.Errorf("retry policy: %v", err)
		}
		policies[p.Name()] = p
		pool["retryPolicy"] = p.Name()
	}
	if c.Breaker != nil {
		p, err := c.Breaker.policy()
		if err != nil {
			return nil, fmt.Errorf("breaker policy: %v", err)
		}
		policies[p.Name()] = p
		pool["circuitBreakerPolicy"] = p.Name()
	}
	spec, err := filters.NewSpec(nil, "", map[string]interface{}{"name": "c10proxy", "kind": "Proxy", "pools": []interface{}{pool}})
	if err != nil {
		return nil, err
	}
	p := kind.CreateInstance(spec).(*Proxy)
	p.Init()
	p.InjectResiliencePolicy(policies)
	return p, nil
}

// ---- one client request ------------------------------------------------------------------------

type c10Result struct {
	Attempts    []c10Attempt  `json:"attempts"`
	Result      string        `json:"result"`
	Status      int           `json:"status"`
	Body        string        `json:"body"`
	Panic       string        `json:"panic,omitempty"`
	PanicAt     string        `json:"panic_at,omitempty"`
	CancelAsked bool          `json:"cancel_asked"`
	Cancelled   bool          `json:"cancelled"`
	CancelledAt time.Duration `json:"cancelled_at_ns"`
	Returned    time.Duration `json:"returned_ns"`
	Watchdog    bool          `json:"watchdog"`
}

// c10Watchdog is the harness' own outer bound for one client request (a full retry sequence
// is < 1 s of back-off); generous because the machine is shared.  Firing => inconclusive.
const c10Watchdog = 120 * time.Second

var c10Payload = []byte("payload-of-the-client-request")

// c10Do sends one client request through Proxy.Handle with the given script.
func c10Do(p *Proxy, script []c10Step, stream bool, asyncAfter int, panicSite func() string) c10Result {
	return c10DoHook(p, script, stream, asyncAfter, panicSite, nil)
}

// c10DoHook is c10Do with a hook that runs right before an attempt returns to the pool.
func c10DoHook(p *Proxy, script []c10Step, stream bool, asyncAfter int, panicSite func() string, onReturn func(st *c10State, idx int)) c10Result {
	id := fmt.Sprintf("q%d", atomic.AddUint64(&c10NextID, 1))
	cctx, cancel := stdcontext.WithCancel(stdcontext.Background())
	defer cancel()
	st := &c10State{t0: time.Now(), script: script, cancel: cancel, asyncAfter: asyncAfter, onReturn: onReturn}
	c10States.Store(id, st)
	defer c10States.Delete(id)

	stdr, err := http.NewRequestWithContext(cctx, http.MethodPost, "http://gateway.example/api/orders?x=1", bytes.NewReader(c10Payload))
	if err != nil {
		panic(err)
	}
	stdr.RemoteAddr = "8.8.8.8:4711"
	stdr.Header.Set(c10IDHeader, id)
	req, _ := httpprot.NewRequest(stdr)
	limit := int64(0)
	if stream {
		limit = -1
	}
	if err := req.FetchPayload(limit); err != nil {
		panic(err)
	}
	ctx := context.New(tracing.NoopSpan)
	ctx.SetRequest(context.DefaultNamespace, req)

	var res c10Result
	done := make(chan struct{})
	go func() {
		defer close(done)
		defer func() {
			if e := recover(); e != nil {
				res.Panic = fmt.Sprint(e)
				res.PanicAt = panicSite()
			}
		}()
		res.Result = p.Handle(ctx)
	}()
	select {
	case <-done:
	case <-time.After(c10Watchdog):
		// harness watchdog: release whatever hangs, then report inconclusive
		cancel()
		select {
		case <-done:
		case <-time.After(30 * time.Second):
		}
		st.mu.Lock()
		out := c10Result{Attempts: append([]c10Attempt{}, st.attempts...), Watchdog: true}
		st.mu.Unlock()
		return out
	}
	res.Returned = time.Since(st.t0)
	st.wg.Wait() // a cancelling goroutine finishes its bookkeeping
	st.mu.Lock()
	res.Attempts = append([]c10Attempt{}, st.attempts...)
	res.CancelAsked, res.Cancelled, res.CancelledAt = st.cancelAsked, st.cancelled, st.cancelledAt
	st.mu.Unlock()
	if res.Panic == "" {
		if resp, ok := ctx.GetOutputResponse().(*httpprot.Response); ok && resp != nil {
			res.Status = resp.StatusCode()
			if !resp.IsStream() {
				res.Body = string(resp.RawPayload())
			}
		}
	}
	return res
}

// c10ExpectFinal: what the client must see, given the LAST attempt that was made.
func c10ExpectFinal(last c10Attempt) (result string, status int, body string) {
	switch last.Kind {
	case "ok":
		return "", last.Code, fmt.Sprintf("attempt-%d", last.Index)
	case "failcode":
		return resultFailureCode, last.Code, fmt.Sprintf("attempt-%d", last.Index)
	case "neterr":
		return resultServerError, http.StatusServiceUnavailable, ""
	case "hang":
		return resultTimeout, http.StatusRequestTimeout, ""
	case "cancel", "hangcancel":
		return resultClientError, 499, ""
	}
	return "?", 0, ""
}

// c10LimitFresh: was the time limit of attempt i (re)started for this attempt, i.e. does the
// context's deadline lie at least `timeout` after the moment the previous attempt had returned
// (attempt 0: after the client request was created)?  The pool arms the limit after that
// moment, so for a per-attempt limit this holds whatever the machine load (the comparison is
// a LOWER bound on the deadline); it fails when the limit is a budget that started earlier.
func c10LimitFresh(pool *c10PoolCfg, attempts []c10Attempt, i int) bool {
	if pool.Timeout == "" || !attempts[i].HasDeadline {
		return false
	}
	limit, err := time.ParseDuration(pool.Timeout)
	if err != nil {
		panic(err)
	}
	var prevEnd time.Duration
	if i > 0 {
		prevEnd = attempts[i-1].End
	}
	return attempts[i].Deadline >= prevEnd+limit
}

// c10ExpiredStarts lists the attempts that were handed a context whose time limit had expired
// before the attempt started although that limit was NOT a fresh per-attempt one (A7); an
// expired but fresh limit means the machine was too slow to reach the transport within the
// limit: counted in `slow`, never a verdict.
func c10ExpiredStarts(pool *c10PoolCfg, attempts []c10Attempt) (stale []int, slow int) {
	for i, a := range attempts {
		if !a.ExpiredAtStart {
			continue
		}
		if c10LimitFresh(pool, attempts, i) {
			slow++
		} else {
			stale = append(stale, i)
		}
	}
	return
}

// c10FinalOK: does the client see the outcome of the last attempt that was made (A5/A6)?
func c10FinalOK(pool *c10PoolCfg, last c10Attempt, res *c10Result) bool {
	wr, ws, wb := c10ExpectFinal(last)
	if res.Result == wr && res.Status == ws && res.Body == wb {
		return true
	}
	if last.ExpiredAtStart && last.Index < len(res.Attempts) && c10LimitFresh(pool, res.Attempts, last.Index) &&
		res.Result == resultTimeout && res.Status == 408 && res.Body == "" {
		// the machine was so slow that a fresh per-attempt limit expired before the transport
		// was reached: that attempt timed out — wall-clock upper bounds are not judged
		return true
	}
	if last.Kind == "neterr" && res.CancelAsked && res.Result == resultClientError && res.Status == 499 && res.Body == "" {
		// a transport error that surfaces after the client has gone is the client's
		return true
	}
	if last.Kind == "hang" && res.CancelAsked && res.Result == resultClientError && res.Status == 499 && res.Body == "" {
		// a hanging attempt that ends because the client has gone (an attempt that the retry
		// loop had already decided to start when the cancel completed) is the client's
		return true
	}
	if (last.Kind == "cancel" || last.Kind == "hangcancel") && pool.Timeout != "" && res.Result == resultTimeout && res.Status == 408 && res.Body == "" {
		// under load the pool's time limit may have expired in the attempt during which the
		// client cancels, before the cancel was complete — wall-clock upper bounds are not judged
		return true
	}
	if last.Kind == "neterr" && pool.Timeout != "" && res.Result == resultTimeout && res.Status == 408 && res.Body == "" {
		// under load the pool's time limit may have expired before the (instant) transport
		// error surfaced: then the attempt timed out — wall-clock upper bounds are not judged
		return true
	}
	return false
}
