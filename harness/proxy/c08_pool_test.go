//go:build verif

package proxy

// C08 part 2: a Proxy whose main ServerPool has an injected CircuitBreaker policy and whose
// transport (fnSendRequest) is a stub.  Oracle: a count-based reference automaton decides
// which requests are short-circuited; those must come back as 503 / result "shortCircuited"
// with the transport-call counter unchanged, all others must reach the transport exactly once.
// The breaker runs on the real clock here, so nothing depends on an upper bound of real time
// (wait = 1h for "still OPEN"; wait = 1ms plus a 5ms sleep for "HALF_OPEN reached").

import (
	"errors"
	"fmt"
	"io"
	"math/rand"
	"net/http"
	"strings"
	"sync"
	"sync/atomic"
	"testing"
	"time"

	"github.com/megaease/easegress/pkg/context"
	"github.com/megaease/easegress/pkg/filters"
	"github.com/megaease/easegress/pkg/logger"
	"github.com/megaease/easegress/pkg/protocols/httpprot"
	"github.com/megaease/easegress/pkg/resilience"
	"github.com/megaease/easegress/pkg/tracing"
	"verif.local/kit"
)

func init() { logger.InitNop() }

type c08pPolicy struct {
	FailTh    int  `json:"failureRateThreshold"`
	N         int  `json:"slidingWindowSize"`
	MinCalls  int  `json:"minimumNumberOfCalls"`
	Permitted int  `json:"permittedNumberOfCallsInHalfOpenState"`
	ShortWait bool `json:"waitIs1ms"`
}

func c08pGenPolicy(rng *rand.Rand, i int) *c08pPolicy {
	p := &c08pPolicy{FailTh: []int{1, 50, 99, 100}[i%4], N: 1 + rng.Intn(10), Permitted: []int{1, 2, 5}[rng.Intn(3)]}
	switch (i / 4) % 4 {
	case 0:
		p.MinCalls = 0
	case 1:
		p.MinCalls = 1
	case 2:
		p.MinCalls = p.N
	default:
		p.MinCalls = p.N + 1
	}
	eff := p.MinCalls
	if eff < 1 {
		eff = 1
	}
	if eff < p.Permitted { // keep the half-open decision point fixed by the property
		p.Permitted = 1
	}
	p.ShortWait = rng.Intn(3) == 0
	return p
}

func (p *c08pPolicy) resilience() *resilience.CircuitBreakerPolicy {
	wait := "1h"
	if p.ShortWait {
		wait = "1ms"
	}
	return &resilience.CircuitBreakerPolicy{
		SlidingWindowType: "COUNT_BASED", FailureRateThreshold: uint8(p.FailTh), SlowCallRateThreshold: 100,
		SlidingWindowSize: uint32(p.N), MinimumNumberOfCalls: uint32(p.MinCalls), PermittedNumberOfCallsInHalfOpen: uint32(p.Permitted),
		SlowCallDurationThreshold: "1h", WaitDurationInOpen: wait,
	}
}

func c08pNewProxy(pol *resilience.CircuitBreakerPolicy) (*Proxy, error) {
	raw := map[string]interface{}{
		"name": "c08proxy", "kind": "Proxy",
		"pools": []interface{}{map[string]interface{}{
			"servers":              []interface{}{map[string]interface{}{"url": "http://127.0.0.1:9"}},
			"circuitBreakerPolicy": "c08cb",
			"failureCodes":         []interface{}{500},
		}},
	}
	spec, err := filters.NewSpec(nil, "", raw)
	if err != nil {
		return nil, err
	}
	p := kind.CreateInstance(spec).(*Proxy)
	p.Init()
	p.InjectResiliencePolicy(map[string]resilience.Policy{"c08cb": pol})
	return p, nil
}

// transport stub
type c08pTransport struct {
	calls   int64
	outcome int32         // 0: 200, 1: 500 (a failure code), 2: transport error
	block   chan struct{} // when non-nil the stub waits here after counting the call
}

var c08pErrTransport = errors.New("c08 transport error")

func (tr *c08pTransport) send(r *http.Request, client *http.Client) (*http.Response, error) {
	atomic.AddInt64(&tr.calls, 1)
	if tr.block != nil {
		<-tr.block
	}
	switch atomic.LoadInt32(&tr.outcome) {
	case 1:
		return &http.Response{StatusCode: 500, Header: http.Header{}, Body: io.NopCloser(strings.NewReader("boom"))}, nil
	case 2:
		return nil, c08pErrTransport
	}
	return &http.Response{StatusCode: 200, Header: http.Header{}, Body: io.NopCloser(strings.NewReader("ok"))}, nil
}

func c08pRequest(p *Proxy) (result string, status int) {
	stdr, _ := http.NewRequest(http.MethodGet, "http://c08.example/x", nil)
	req, _ := httpprot.NewRequest(stdr)
	ctx := context.New(tracing.NoopSpan)
	ctx.SetRequest(context.DefaultNamespace, req)
	result = p.Handle(ctx)
	status = -1
	if resp, ok := ctx.GetOutputResponse().(*httpprot.Response); ok && resp != nil {
		status = resp.StatusCode()
	}
	return
}

// count-based reference automaton, one result per admitted request
type c08pModel struct {
	p        *c08pPolicy
	st       int // 0 closed 1 open 2 half
	win      []bool
	admitted int
	trials   []bool
}

var c08pStName = []string{"CLOSED", "OPEN", "HALF_OPEN"}

func (m *c08pModel) trips(rs []bool) bool {
	f := 0
	for _, x := range rs {
		if x {
			f++
		}
	}
	return f*100 >= m.p.FailTh*len(rs)
}

func (m *c08pModel) admit(waited bool) bool {
	switch m.st {
	case 0:
		return true
	case 1:
		if !waited {
			return false
		}
		m.st, m.admitted, m.trials = 2, 1, nil
		return true
	}
	if m.admitted < m.p.Permitted {
		m.admitted++
		return true
	}
	return false
}

func (m *c08pModel) result(failed bool) {
	switch m.st {
	case 0:
		m.win = append(m.win, failed)
		if len(m.win) > m.p.N {
			m.win = m.win[len(m.win)-m.p.N:]
		}
		if len(m.win) >= m.p.MinCalls && m.trips(m.win) {
			m.st, m.win = 1, nil
		}
	case 2:
		m.trials = append(m.trials, failed)
		if len(m.trials) >= m.p.Permitted {
			if m.trips(m.trials) {
				m.st = 1
			} else {
				m.st = 0
			}
			m.win, m.trials, m.admitted = nil, nil, 0
		}
	}
}

func TestVerif_C08_ProxyShortCircuit(t *testing.T) {
	r := kit.Start(t, "C08")
	defer r.Finish()
	r.Rule("Proxy with one pool (failureCodes [500]) and an injected count-based CircuitBreaker policy (thresholds {1,50,99,100} x minimumNumberOfCalls {0,1,N,N+1} systematic, window 1-10, permitted {1,2,5}); 40 sequential requests per policy whose stubbed transport answers 200 / 500 / transport error; wait 1h: short-circuiting judged, wait 1ms + 5ms sleep: half-open trials judged; distinct = (threshold, reference state, transport outcome, admitted?, next state)")
	r.Assume("count-based windows only (real clock); a request counts as failed for the breaker when the pool's handler returns an error (failure code or transport error)")
	saved := fnSendRequest
	defer func() { fnSendRequest = saved }()
	n := r.N(400, 8000)
	for i := 0; i < n; i++ {
		if !r.Mine(i) {
			continue
		}
		rng := r.CaseRand(i)
		pol := c08pGenPolicy(rng, i)
		r.Case(i, pol)
		tr := &c08pTransport{}
		fnSendRequest = tr.send
		px, err := c08pNewProxy(pol.resilience())
		if err != nil {
			r.Count("spec_rejected", 1)
			r.Note("proxy spec rejected: %v", err)
			continue
		}
		m := &c08pModel{p: pol}
		var trace []string
		pFail := []int{15, 50, 85}[rng.Intn(3)]
		for k := 0; k < 40; k++ {
			outcome := int32(0)
			if rng.Intn(100) < pFail {
				outcome = int32(1 + rng.Intn(2))
			}
			atomic.StoreInt32(&tr.outcome, outcome)
			waited := false
			if m.st == 1 && pol.ShortWait {
				time.Sleep(5 * time.Millisecond)
				waited = true
			}
			before := m.st
			wantAdmit := m.admit(waited)
			c0 := atomic.LoadInt64(&tr.calls)
			var result string
			var status int
			if r.Guard("proxy", map[string]interface{}{"policy": pol, "requests": trace}, func() { result, status = c08pRequest(px) }) {
				break
			}
			sent := atomic.LoadInt64(&tr.calls) - c0
			r.Eval(1)
			trace = append(trace, fmt.Sprintf("req#%d transport=%s -> result=%q status=%d transportCalls=%d (reference %s, admit=%v)", k, []string{"200", "500", "error"}[outcome], result, status, sent, c08pStName[before], wantAdmit))
			bad := ""
			if !wantAdmit {
				switch {
				case sent != 0:
					bad = "server-contacted-on-short-circuit"
				case result != resultShortCircuited:
					bad = "result-not-shortCircuited"
				case status != http.StatusServiceUnavailable:
					bad = "status-not-503"
				}
				if bad != "" {
					bad = "expected-short-circuit-in-" + c08pStName[before] + ":" + bad
				}
			} else {
				wantRes, wantStatus := "", 200
				switch outcome {
				case 1:
					wantRes, wantStatus = resultFailureCode, 500
				case 2:
					wantRes, wantStatus = resultServerError, http.StatusServiceUnavailable
				}
				switch {
				case result == resultShortCircuited:
					bad = "unexpected-short-circuit-in-" + c08pStName[before]
				case sent != 1:
					bad = "transport-call-count"
				case result != wantRes || status != wantStatus:
					bad = "admitted-call-result"
				}
			}
			if bad != "" {
				r.Violation("proxy:"+bad, map[string]interface{}{"policy": pol, "requests": trace})
				break
			}
			if wantAdmit {
				m.result(outcome != 0)
				r.Count("admitted_"+[]string{"200", "500", "error"}[outcome], 1)
			} else {
				r.Count("short_circuited_503", 1)
			}
			if before != m.st {
				r.Count("transition_"+c08pStName[before]+"_to_"+c08pStName[m.st], 1)
			}
			r.Cover(fmt.Sprintf("proxy/f%d/short=%v/%s/%d/%v->%s", pol.FailTh, pol.ShortWait, c08pStName[before], outcome, wantAdmit, c08pStName[m.st]))
		}
		px.Close()
		if i < 2 {
			r.Sample(map[string]interface{}{"policy": pol, "requests": trace})
		}
	}
	for _, k := range []string{"admitted_200", "admitted_500", "admitted_error", "short_circuited_503",
		"transition_CLOSED_to_OPEN", "transition_OPEN_to_HALF_OPEN", "transition_HALF_OPEN_to_CLOSED", "transition_HALF_OPEN_to_OPEN"} {
		r.Require(k, 1)
	}
}

// TestVerif_C08_ProxyHalfOpenConcurrent: the breaker is opened, the 1ms wait is slept out, then
// G requests arrive concurrently while the stubbed transport blocks: exactly `permitted` of them
// may reach the transport, all others must be 503/shortCircuited, and none of those touches
// the transport.
func TestVerif_C08_ProxyHalfOpenConcurrent(t *testing.T) {
	r := kit.Start(t, "C08")
	defer r.Finish()
	r.Rule("policy window=min=1 failure threshold 100 wait 1ms, permitted in {1,2,5}; one failing request opens the breaker; after a 5ms sleep G in {permitted+1..permitted+6} goroutines send one request each while the transport stub blocks; wait until every request is either inside the transport or answered; exactly `permitted` are inside the transport, the rest are 503/shortCircuited; then the trials are released successfully and the next request must pass; distinct = (permitted, G)")
	saved := fnSendRequest
	defer func() { fnSendRequest = saved }()
	n := r.N(150, 3000)
	for i := 0; i < n; i++ {
		if !r.Mine(i) {
			continue
		}
		rng := r.CaseRand(i)
		permitted := []int{1, 2, 5}[i%3]
		G := permitted + 1 + rng.Intn(6)
		desc := map[string]interface{}{"permitted": permitted, "goroutines": G}
		r.Case(i, desc)
		tr := &c08pTransport{}
		fnSendRequest = tr.send
		px, err := c08pNewProxy(&resilience.CircuitBreakerPolicy{
			SlidingWindowType: "COUNT_BASED", FailureRateThreshold: 100, SlowCallRateThreshold: 100, SlidingWindowSize: 1,
			MinimumNumberOfCalls: 1, PermittedNumberOfCallsInHalfOpen: uint32(permitted), SlowCallDurationThreshold: "1h", WaitDurationInOpen: "1ms",
		})
		if err != nil {
			r.Note("proxy spec rejected: %v", err)
			continue
		}
		atomic.StoreInt32(&tr.outcome, 2)
		if res, st := c08pRequest(px); res != resultServerError || st != 503 {
			r.Violation("proxy-conc:opening-request-result", map[string]interface{}{"case": desc, "result": res, "status": st})
			px.Close()
			continue
		}
		time.Sleep(5 * time.Millisecond) // the 1ms wait has certainly elapsed
		atomic.StoreInt32(&tr.outcome, 0)
		tr.block = make(chan struct{})
		c0 := atomic.LoadInt64(&tr.calls)
		var answered int64
		results := make([]string, G)
		statuses := make([]int, G)
		var wg sync.WaitGroup
		for k := 0; k < G; k++ {
			wg.Add(1)
			go func(k int) {
				defer wg.Done()
				defer func() {
					if e := recover(); e != nil {
						results[k] = "panic: " + fmt.Sprint(e)
						atomic.AddInt64(&answered, 1)
					}
				}()
				results[k], statuses[k] = c08pRequest(px)
				atomic.AddInt64(&answered, 1)
			}(k)
		}
		deadline := time.Now().Add(60 * time.Second)
		for atomic.LoadInt64(&answered)+atomic.LoadInt64(&tr.calls)-c0 < int64(G) && time.Now().Before(deadline) {
			time.Sleep(50 * time.Microsecond)
		}
		inTransport := atomic.LoadInt64(&tr.calls) - c0
		done := atomic.LoadInt64(&answered)
		settled := inTransport+done >= int64(G)
		close(tr.block)
		wg.Wait()
		tr.block = nil
		r.Eval(G)
		if !settled {
			r.Inconclusive(fmt.Sprintf("case %d: requests did not settle within 60s", i))
			px.Close()
			continue
		}
		r.Count("halfopen_bursts", 1)
		total := atomic.LoadInt64(&tr.calls) - c0
		short, passed := 0, 0
		bad := ""
		for k := 0; k < G; k++ {
			switch {
			case results[k] == resultShortCircuited && statuses[k] == http.StatusServiceUnavailable:
				short++
			case results[k] == "" && statuses[k] == 200:
				passed++
			case strings.HasPrefix(results[k], "panic: "):
				bad = "panic"
			default:
				bad = "unexpected-result"
			}
		}
		desc["results"], desc["statuses"], desc["in_transport_at_settle"], desc["transport_calls_total"] = results, statuses, inTransport, total
		switch {
		case bad != "":
		case inTransport > int64(permitted) || total > int64(permitted):
			bad = "more-trials-reached-the-server-than-permitted"
		case inTransport < int64(permitted):
			bad = "fewer-trials-admitted-than-permitted"
		case passed != permitted || short != G-permitted:
			bad = "result-count-mismatch"
		case total != int64(passed):
			bad = "short-circuited-request-contacted-server"
		}
		if bad != "" {
			r.Violation("proxy-conc:"+bad, desc)
		} else {
			r.Count("halfopen_short_circuited_503", int64(short))
			// all trials succeeded -> CLOSED: the next request passes
			if res, st := c08pRequest(px); res != "" || st != 200 {
				r.Violation("proxy-conc:request-after-successful-trials-not-admitted", map[string]interface{}{"case": desc, "result": res, "status": st})
			}
		}
		r.Cover(fmt.Sprintf("proxyconc/p%d/G%d", permitted, G))
		px.Close()
	}
	r.Require("halfopen_bursts", 1)
	r.Require("halfopen_short_circuited_503", 1)
}
