//go:build verif

package proxy

// C10: retry / time-limit bounds, checked on the attempt log of a scripted transport.
//
// Oracle (from the property sentence and the documented Retry policy; no code shared with
// pkg/resilience):
//   A1  number of attempts <= maxAttempts (documented default 3); a stream request body
//       (payload limit -1) gets exactly one attempt;
//   A2  no attempt follows a successful attempt;
//   A3  gap(i) = start(i+1) - end(i) >= waitDuration * (1.5^i if exponential) * (1 - rf)
//       (documented interval [base*(1-rf), base*(1+rf)], base x1.5 after each failed
//       attempt) — a LOWER bound on real time only;
//   A4  once the client context has been cancelled (the cancel happened before the attempt
//       in flight returned) no later attempt starts; for a cancel issued by another
//       goroutine during the back-off at most the one attempt that may already have been
//       decided can start;
//   A5  result / status / body seen by the client are those of the last attempt made;
//   A6  hanging backend + pool timeout => result "timeout", 408, for buffered and for
//       streamed request bodies (harness watchdog 120 s => inconclusive);
//   A7  pool timeout combined with Retry: the time limit is that of ONE backend call.  An
//       attempt that starts after earlier attempts (hanging into the limit) and back-off
//       waits have used up more than `timeout` since the request began must still be handed
//       a live context, and when its backend answers at once the client sees that answer
//       (200 / the failure code), not "timeout".  Judged without any clock: the state of the
//       context at the start of the attempt (the scripted transport, like http.Client.Do,
//       fails at once on an expired context) and the final outcome; a context that is
//       expired at the start although its deadline is a fresh per-attempt one (>= end of the
//       previous attempt + timeout) is machine slowness and only counted.

import (
	"fmt"
	"math/rand"
	"runtime/debug"
	"strings"
	"testing"
	"time"

	"verif.local/kit"
)

func c10PanicSite() string {
	lines := strings.Split(string(debug.Stack()), "\n")
	site, armed := "unknown", false
	for i := 0; i+1 < len(lines); i++ {
		l := lines[i]
		if strings.HasPrefix(l, "panic(") || strings.HasPrefix(l, "runtime.panic") || strings.HasPrefix(l, "runtime.goPanic") || strings.HasPrefix(l, "runtime.sigpanic") {
			armed = true
			continue
		}
		if armed && strings.HasPrefix(l, "github.com/megaease/easegress/") && !strings.Contains(lines[i+1], "zz_verif") {
			fn := l
			if j := strings.LastIndex(fn, "("); j > 0 {
				fn = fn[:j]
			}
			site = strings.TrimPrefix(fn, "github.com/megaease/easegress/")
			armed = false
		}
	}
	return site
}

type c10Case struct {
	Class      string     `json:"class"`
	Pool       c10PoolCfg `json:"pool"`
	Script     []c10Step  `json:"script"`
	Stream     bool       `json:"stream"`
	AsyncAfter int        `json:"asyncCancelAfterAttempt"` // -1 none
	SyncCancel int        `json:"cancelDuringAttempt"`     // -1 none (index of the cancel/hangcancel step)
}

var c10Classes = []string{"all-fail", "success-at-k", "success-first", "hang-timeout", "cancel-in-attempt", "cancel-in-backoff", "stream", "cancel-hanging-attempt", "hang-then-recover", "cancel-elapsed-backoff", "random", "retry-past-time-limit"}

var c10Waits = []string{"5ms", "8ms", "10ms", "15ms", "20ms", "30ms", "40ms"}

func c10GenCase(rng *rand.Rand, i int) *c10Case {
	c := &c10Case{AsyncAfter: -1, SyncCancel: -1}
	c.Class = c10Classes[i%len(c10Classes)]
	x := i / len(c10Classes)
	rc := &c10RetryCfg{}
	rc.MaxAttempts = []int{0, 1, 2, 3, 4, 5}[x%6]
	rc.BackOff = []string{"", "random", "exponential"}[(x/6)%3]
	rc.RF = []float64{0, 0.25, 0.5, 1, 0.1}[(x/18)%5]
	rc.Wait = c10Waits[rng.Intn(len(c10Waits))]
	if rc.BackOff == "exponential" && rc.MaxAttempts >= 4 { // keep a full sequence short
		rc.Wait = c10Waits[rng.Intn(4)]
	}
	c.Pool.Retry = rc
	c.Pool.FailureCodes = [][]int{{500, 503}, {502}, {500, 502, 503, 504}}[rng.Intn(3)]
	max := rc.effMax()
	okCode := func() int { return []int{200, 201, 204, 200}[rng.Intn(4)] }
	fail := func() c10Step {
		if rng.Intn(2) == 0 {
			return c10Step{Kind: "neterr"}
		}
		return c10Step{Kind: "failcode", Code: c.Pool.FailureCodes[rng.Intn(len(c.Pool.FailureCodes))]}
	}
	fails := func(n int) []c10Step {
		s := []c10Step{}
		for k := 0; k < n; k++ {
			s = append(s, fail())
		}
		return s
	}
	switch c.Class {
	case "all-fail":
		c.Script = fails(max + 3)
	case "success-at-k":
		k := rng.Intn(max + 1) // success index 0..max (index == max: never reached)
		c.Script = append(fails(k), c10Step{Kind: "ok", Code: okCode()})
		c.Script = append(c.Script, fails(3)...) // must never be executed
	case "success-first":
		c.Script = append([]c10Step{{Kind: "ok", Code: okCode()}}, fails(2)...)
	case "hang-timeout":
		c.Pool.Timeout = []string{"5ms", "10ms", "20ms", "30ms"}[rng.Intn(4)]
		c.Script = []c10Step{{Kind: "hang"}}
		// the time limit holds for both body modes: a streamed body gets its single attempt
		c.Stream = rng.Intn(2) == 0
	case "hang-then-recover":
		c.Pool.Timeout = []string{"5ms", "10ms", "20ms"}[rng.Intn(3)]
		k := 1 + rng.Intn(max)
		for j := 0; j < k; j++ {
			if rng.Intn(3) == 0 {
				c.Script = append(c.Script, fail())
			} else {
				c.Script = append(c.Script, c10Step{Kind: "hang"})
			}
		}
		c.Script = append(c.Script, c10Step{Kind: "ok", Code: okCode()})
	case "cancel-in-attempt":
		k := rng.Intn(max)
		c.Script = append(fails(k), c10Step{Kind: "cancel"})
		c.Script = append(c.Script, fails(max+2)...)
		c.SyncCancel = k
	case "cancel-hanging-attempt":
		k := rng.Intn(max)
		c.Script = append(fails(k), c10Step{Kind: "hangcancel"})
		c.Script = append(c.Script, fails(max+2)...)
		c.SyncCancel = k
	case "cancel-in-backoff":
		if rc.MaxAttempts != 0 && rc.MaxAttempts < 3 {
			rc.MaxAttempts = 4
		}
		max = rc.effMax()
		c.Script = fails(max + 3)
		c.AsyncAfter = rng.Intn(max - 2) // at least 2 further attempts would be allowed
	case "stream":
		c.Stream = true
		if rng.Intn(4) == 0 {
			c.Script = []c10Step{{Kind: "ok", Code: okCode()}}
		} else {
			c.Script = fails(max + 2)
		}
	case "cancel-elapsed-backoff":
		// the back-off is (practically) over at the moment the retry loop looks at the
		// cancelled context
		rc.Wait = []string{"1ns", "10ns", "100ns", "1us"}[rng.Intn(4)]
		if rc.MaxAttempts != 0 && rc.MaxAttempts < 3 {
			rc.MaxAttempts = 5
		}
		max = rc.effMax()
		k := rng.Intn(max - 1)
		c.Script = append(fails(k), c10Step{Kind: "cancel"})
		c.Script = append(c.Script, fails(max+2)...)
		c.SyncCancel = k
	case "retry-past-time-limit":
		// Earlier attempts and/or back-off waits use up more than the pool's time limit;
		// then an attempt answers at once (success, or a failure code on the last allowed
		// attempt).  Shapes: an early attempt hangs into the limit; only instant failures
		// whose back-off waits add up to more than the limit; both mixed.
		if max < 2 {
			rc.MaxAttempts = 2 + rng.Intn(3)
			max = rc.effMax()
		}
		shape := []string{"hang", "backoff", "mixed"}[rng.Intn(3)]
		finalFail := rng.Intn(3) == 0
		n := 1 + rng.Intn(max-1) // attempts before the one that answers at once
		if finalFail {
			n = max - 1 // a failure code is final only on the last allowed attempt
		}
		limit := []int{10, 20, 30, 40}[rng.Intn(4)]
		if shape == "backoff" {
			// the guaranteed part of the n waits (lower bounds) must exceed the limit
			limit = []int{10, 15, 20}[rng.Intn(3)]
			picked := ""
			if rc.RF < 1 {
				for _, w := range []int{10, 15, 20, 30, 40, 60, 80} {
					wc := &c10RetryCfg{Wait: fmt.Sprintf("%dms", w), BackOff: rc.BackOff, RF: rc.RF}
					var sum time.Duration
					for k := 0; k < n; k++ {
						sum += wc.lowerBound(k)
					}
					if sum >= time.Duration(limit)*time.Millisecond*5/4 {
						picked = wc.Wait
						break
					}
				}
			}
			if picked == "" {
				shape = "hang" // randomizationFactor 1: no wait is guaranteed
			} else {
				rc.Wait = picked
			}
		}
		c.Pool.Timeout = fmt.Sprintf("%dms", limit)
		for j := 0; j < n; j++ {
			switch {
			case shape == "backoff":
				c.Script = append(c.Script, fail())
			case shape == "hang" && j == 0, shape == "mixed" && j == n-1:
				c.Script = append(c.Script, c10Step{Kind: "hang"})
			case rng.Intn(2) == 0:
				c.Script = append(c.Script, c10Step{Kind: "hang"})
			default:
				c.Script = append(c.Script, fail())
			}
		}
		if finalFail {
			c.Script = append(c.Script, c10Step{Kind: "failcode", Code: c.Pool.FailureCodes[rng.Intn(len(c.Pool.FailureCodes))]}, c10Step{Kind: "ok", Code: okCode()})
		} else {
			c.Script = append(c.Script, c10Step{Kind: "ok", Code: okCode()})
			c.Script = append(c.Script, fails(2)...) // must never be executed
		}
	case "random":
		n := 1 + rng.Intn(max+2)
		for j := 0; j < n; j++ {
			if rng.Intn(4) == 0 {
				c.Script = append(c.Script, c10Step{Kind: "ok", Code: okCode()})
			} else {
				c.Script = append(c.Script, fail())
			}
		}
	}
	return c
}

// c10Check applies A1..A6 to one result; returns the signatures of the refuted clauses.
func c10Check(c *c10Case, res *c10Result) []string {
	var bad []string
	rc := c.Pool.Retry
	m := len(res.Attempts)
	if res.Panic != "" {
		return []string{"panic:" + res.PanicAt + ":" + kit.MsgClass(res.Panic)}
	}
	if m == 0 {
		return []string{"no-attempt-made"}
	}
	// A1
	if c.Stream {
		if m != 1 {
			bad = append(bad, fmt.Sprintf("stream-body-attempted-%d-times", m))
		}
	} else if m > rc.effMax() {
		bad = append(bad, "more-attempts-than-maxAttempts")
	}
	// A2
	for i := 0; i+1 < m; i++ {
		if res.Attempts[i].Kind == "ok" && !res.Attempts[i].ExpiredAtStart { // an expired context: nothing was sent, no success
			bad = append(bad, "attempt-after-success")
			break
		}
	}
	// A3
	for i := 0; i+1 < m; i++ {
		gap := res.Attempts[i+1].Start - res.Attempts[i].End
		if gap < rc.lowerBound(i)-time.Microsecond {
			bad = append(bad, "backoff-shorter-than-lower-bound:"+rc.BackOff)
			break
		}
	}
	// A4
	if c.SyncCancel >= 0 && m > c.SyncCancel+1 {
		bad = append(bad, "attempt-after-cancel")
	}
	if c.AsyncAfter >= 0 && res.Cancelled {
		late := 0
		for _, a := range res.Attempts {
			if a.Index > c.AsyncAfter && a.Start > res.CancelledAt {
				late++
			}
		}
		if late > 1 {
			bad = append(bad, "attempts-after-cancel-in-backoff")
		}
	}
	// A7
	stale, _ := c10ExpiredStarts(&c.Pool, res.Attempts)
	lastStale := false
	if len(stale) > 0 {
		k := stale[0]
		after := "nothing"
		if k > 0 {
			after = res.Attempts[k-1].Kind // what used up the time: a hanging attempt, or failures + back-off
			if after != "hang" {
				after = "backoff"
			}
		}
		bad = append(bad, "attempt-started-with-expired-time-limit(limit-not-per-attempt):after="+after)
		lastStale = stale[len(stale)-1] == m-1
	}
	// A5 / A6
	last := res.Attempts[m-1]
	okFinal := c10FinalOK(&c.Pool, last, res)
	if !okFinal {
		sig := fmt.Sprintf("final-outcome-not-last-attempts:last=%s:got=%s/%d", last.Kind, res.Result, res.Status)
		if lastStale {
			sig += ":last-attempt-started-with-expired-time-limit"
		}
		bad = append(bad, sig)
	}
	return bad
}

func TestVerif_C10_Retry(t *testing.T) {
	r := kit.Start(t, "C10")
	defer r.Finish()
	r.Rule("systematic product of 12 script classes (all attempts fail; success at attempt k incl. k beyond maxAttempts; success first; hanging backend + pool timeout with a buffered or a streamed request body; hang/fail then recover; client cancel inside attempt k; cancel of a hanging attempt; cancel from another goroutine during the back-off; stream body; cancel with a back-off of 1ns..1us; random; retry past the pool time limit: time limit 10..40 ms, earlier attempts hang into the limit and/or instant failures whose guaranteed back-off waits add up to more than the limit, then an attempt that answers at once with success or - on the last allowed attempt - a failure code) x maxAttempts {omitted,1..5} x backOffPolicy {omitted,random,exponential} x randomizationFactor {0,0.1,0.25,0.5,1}, seeded waitDuration 5..40 ms, failure codes and failure kinds (failure code / network error); every sequence runs through the real Proxy.Handle -> ServerPool.handle -> RetryPolicy.Wrap with a scripted, time-stamping transport that, like http.Client.Do, fails at once when the context it is given has expired, and records that state and the context deadline per attempt; distinct = (class, maxAttempts, back-off, rf, attempts made, kind of last attempt)")
	r.Assume("success = 2xx response; failure = status listed in failureCodes, transport error, or context error; only lower bounds on real time are judged; policies are created with resilience.NewPolicy (documented defaults apply)")

	old := fnSendRequest
	fnSendRequest = c10Transport
	defer func() { fnSendRequest = old }()

	total := r.N(len(c10Classes)*90, len(c10Classes)*4500)
	for i := 0; i < total; i++ {
		if !r.Mine(i) {
			continue
		}
		rng := r.CaseRand(i)
		c := c10GenCase(rng, i)
		r.Case(i, c)
		p, err := c10NewProxy(&c.Pool)
		if err != nil {
			r.Count("policy_or_spec_rejected", 1)
			r.Note("rejected by validation: %v", err)
			continue
		}
		run := func() c10Result { return c10Do(p, c.Script, c.Stream, c.AsyncAfter, c10PanicSite) }
		res := run()
		if i < 3 {
			r.Sample(map[string]interface{}{"case": c, "observed": res})
		}
		if res.Watchdog {
			r.Inconclusive(fmt.Sprintf("harness watchdog (120 s) fired in class %s", c.Class))
			p.Close()
			continue
		}
		bad := c10Check(c, &res)
		m := len(res.Attempts)
		rc := c.Pool.Retry
		r.Eval(m)
		r.Count("attempts_total", int64(m))
		if m > 1 {
			r.Count("backoff_gaps_checked", int64(m-1))
		}
		if !c.Stream && m == rc.effMax() && m > 1 {
			r.Count("reached_maxAttempts", 1)
		}
		// diagnostics, not verdicts: fewer attempts than the script and policy would allow
		exp := rc.effMax()
		for k, s := range c.Script {
			if (s.Kind == "ok" || s.Kind == "cancel" || s.Kind == "hangcancel") && k+1 < exp {
				exp = k + 1
			}
		}
		if c.Stream {
			exp = 1
		}
		if m < exp && c.AsyncAfter < 0 {
			r.Count("fewer_attempts_than_allowed", 1)
		}
		for _, b := range bad {
			sig := b
			if b == "attempt-after-cancel" {
				// Is it the cancelled context being ignored (every time), or the rare
				// schedule in which the back-off timer has also expired when the loop
				// looks?  Decide by repetition, never by a clock.
				if c.Class == "cancel-elapsed-backoff" {
					sig = "attempt-after-cancel:backoff-already-elapsed(wait<=1us)"
				} else {
					again := 0
					for k := 0; k < 4; k++ {
						r2 := run()
						if !r2.Watchdog && len(r2.Attempts) > c.SyncCancel+1 {
							again++
						}
					}
					if again >= 2 {
						sig = "attempt-after-cancel:reproducible"
					} else {
						sig = "attempt-after-cancel:sporadic(backoff-timer-expired-too)"
					}
				}
			}
			if b == "attempts-after-cancel-in-backoff" {
				again := 0
				for k := 0; k < 4; k++ {
					r2 := run()
					if !r2.Watchdog && len(c10Check(c, &r2)) > 0 {
						again++
					}
				}
				if again >= 2 {
					sig += ":reproducible"
				} else {
					sig += ":sporadic"
				}
			}
			r.Violation("C10:"+sig, map[string]interface{}{"case": c, "observed": res})
		}
		last := "none"
		if m > 0 {
			last = res.Attempts[m-1].Kind
		}
		if len(bad) == 0 {
			label := c.Class
			if c.Stream && c.Class != "stream" {
				label += "+stream-body"
			}
			r.Cover(fmt.Sprintf("%s/max%d/%s/rf%v/m%d/%s", label, rc.MaxAttempts, rc.BackOff, rc.RF, m, last))
			r.Count("class_"+c.Class, 1)
			if c.SyncCancel >= 0 && m == c.SyncCancel+1 && m < rc.effMax() {
				r.Count("cancel_stopped_retries", 1)
			}
			if c.AsyncAfter >= 0 && res.Cancelled && m < rc.effMax() {
				r.Count("cancel_in_backoff_stopped_retries", 1)
			}
			if last == "hang" && res.Result == resultTimeout {
				r.Count("timeout_408_seen", 1)
				if c.Stream {
					r.Count("timeout_408_seen_stream_body", 1)
				} else {
					r.Count("timeout_408_seen_buffered_body", 1)
				}
			}
			if c.Stream && m == 1 && last != "ok" {
				r.Count("stream_single_attempt_on_failure", 1)
			}
			if c.Class == "success-at-k" && last == "ok" && m > 1 {
				r.Count("stopped_at_first_success_after_retries", 1)
			}
			if _, slow := c10ExpiredStarts(&c.Pool, res.Attempts); slow > 0 {
				r.Count("fresh_time_limit_expired_before_transport(machine_slow)", int64(slow))
			}
			if c.Pool.Timeout != "" && m > 1 {
				// A7 was put to the test: attempts that started (lower bound, stub clock) more
				// than the time limit after the FIRST attempt had started, with a live context
				limit, _ := time.ParseDuration(c.Pool.Timeout)
				lateLive := 0
				for k := 1; k < m; k++ {
					if a := res.Attempts[k]; a.Start-res.Attempts[0].Start > limit && !a.ExpiredAtStart {
						lateLive++
					}
				}
				r.Count("late_attempts_started_with_live_time_limit", int64(lateLive))
				la := res.Attempts[m-1]
				if c.Class == "retry-past-time-limit" && !la.ExpiredAtStart && la.Start-res.Attempts[0].Start > limit {
					usedBy := "backoff_waits"
					for _, a := range res.Attempts[:m-1] {
						if a.Kind == "hang" {
							usedBy = "hanging_attempt"
						}
					}
					switch {
					case la.Kind == "ok" && res.Result == "":
						r.Count("late_attempt_after_"+usedBy+"_answered_success", 1)
					case la.Kind == "failcode" && res.Result == resultFailureCode:
						r.Count("late_attempt_answered_failure_code", 1)
					}
				}
			}
		}
		p.Close()
	}
	for _, k := range []string{"reached_maxAttempts", "backoff_gaps_checked", "cancel_stopped_retries", "cancel_in_backoff_stopped_retries", "timeout_408_seen", "timeout_408_seen_stream_body", "timeout_408_seen_buffered_body", "stream_single_attempt_on_failure", "stopped_at_first_success_after_retries",
		"late_attempts_started_with_live_time_limit", "late_attempt_after_hanging_attempt_answered_success", "late_attempt_after_backoff_waits_answered_success", "late_attempt_answered_failure_code"} {
		r.Require(k, 1)
	}
}
