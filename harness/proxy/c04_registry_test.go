//go:build verif

package proxy

// C04, FAULTS of the service registry during a pool's life (added after seed C04i).
//
// The other pool monitors hand discovery reports straight to ServerPool.useService.  Here the
// pool is configured with serviceRegistry + serviceName + serverTags (+ static servers) and runs
// its OWN watchServers against the real ServiceRegistry system controller, behind which sits a
// fake registry driver (serviceregistry.Registry) owned by the harness.  The driver misbehaves
// the way real ones do:
//   - at pool creation it is not registered yet ("<name> not found"), or its backend fails the
//     first listing once, or keeps failing for a while;
//   - a later report cannot be listed (backend unreachable: the registry logs and drops it);
//   - it emits an event the registry rejects (invalid instance);
//   - it deregisters and registers again (the watcher's source closes and comes back).
// After every such fault come reports that DO get through, as full replacements or as
// apply/delete diffs.
//
// Reference model (from the property sentence): the pool's current list is the set of tagged
// instances of the report discovery delivered LAST (a listing of the service that succeeded:
// the first listing, the listing for the new watcher, the listing after a driver event, the
// listing at deregistration), or the static list when no instance of it qualifies or nothing
// was reported yet.  A fault never changes the list; the first report after it does.
//
// Quiescence without wall-clock verdicts and without hooks: the driver's notify channel is
// unbuffered and the registry handles driver events on one goroutine, so when the send of an
// (ignored) empty event returns, every earlier event has been pushed to the pool's watcher;
// the pool's watcher goroutine has applied everything pushed to it once a goroutine dump
// (taken after that) shows it parked in its select again - a goroutine with a pending receive
// is runnable, never parked.  Only then the pool is judged.  If the dump never becomes idle
// the case is inconclusive; a run whose dumps never showed a pool watcher goroutine at all is
// inconclusive too (the barrier would be vacuous).

import (
	"fmt"
	"math/rand"
	"regexp"
	"runtime"
	"strings"
	"sync"
	"testing"
	"time"

	"github.com/megaease/easegress/pkg/filters"
	"github.com/megaease/easegress/pkg/object/serviceregistry"
	"github.com/megaease/easegress/pkg/option"
	"github.com/megaease/easegress/pkg/supervisor"
	"verif.local/kit"
)

// ---- fake registry driver ------------------------------------------------------------------

type c04FakeReg struct {
	name   string
	notify chan *serviceregistry.RegistryEvent

	mu       sync.Mutex
	insts    map[string]*serviceregistry.ServiceInstanceSpec
	failing  bool // every listing fails
	failNext int  // the next n listings fail
	listOK   int
	listErr  int
}

func (f *c04FakeReg) Name() string                                  { return f.name }
func (f *c04FakeReg) Notify() <-chan *serviceregistry.RegistryEvent { return f.notify }
func (f *c04FakeReg) ApplyServiceInstances(map[string]*serviceregistry.ServiceInstanceSpec) error {
	return nil
}
func (f *c04FakeReg) DeleteServiceInstances(map[string]*serviceregistry.ServiceInstanceSpec) error {
	return nil
}
func (f *c04FakeReg) GetServiceInstance(serviceName, instanceID string) (*serviceregistry.ServiceInstanceSpec, error) {
	return nil, fmt.Errorf("not found")
}
func (f *c04FakeReg) list(serviceName string) (map[string]*serviceregistry.ServiceInstanceSpec, error) {
	f.mu.Lock()
	defer f.mu.Unlock()
	if f.failNext > 0 {
		f.failNext--
		f.listErr++
		return nil, fmt.Errorf("backend unreachable (verif)")
	}
	if f.failing {
		f.listErr++
		return nil, fmt.Errorf("backend unreachable (verif)")
	}
	f.listOK++
	out := map[string]*serviceregistry.ServiceInstanceSpec{}
	for k, v := range f.insts {
		if serviceName == "" || v.ServiceName == serviceName {
			out[k] = v.DeepCopy()
		}
	}
	return out, nil
}
func (f *c04FakeReg) ListServiceInstances(serviceName string) (map[string]*serviceregistry.ServiceInstanceSpec, error) {
	return f.list(serviceName)
}
func (f *c04FakeReg) ListAllServiceInstances() (map[string]*serviceregistry.ServiceInstanceSpec, error) {
	return f.list("")
}
func (f *c04FakeReg) set(m map[string]*serviceregistry.ServiceInstanceSpec, failing bool) {
	f.mu.Lock()
	f.insts, f.failing = m, failing
	f.mu.Unlock()
}

func c04RegSpecs(insts []c04Inst) map[string]*serviceregistry.ServiceInstanceSpec {
	m := map[string]*serviceregistry.ServiceInstanceSpec{}
	for k := range insts {
		in := insts[k]
		s := &serviceregistry.ServiceInstanceSpec{RegistryName: "fake", ServiceName: "svc", InstanceID: in.ID,
			Address: in.Address, Port: in.Port, Scheme: in.Scheme, Tags: append([]string{}, in.Tags...), Weight: in.Weight}
		m[s.Key()] = s
	}
	return m
}

func c04RegCopy(m map[string]*serviceregistry.ServiceInstanceSpec) map[string]*serviceregistry.ServiceInstanceSpec {
	out := map[string]*serviceregistry.ServiceInstanceSpec{}
	for k, v := range m {
		out[k] = v.DeepCopy()
	}
	return out
}

// ---- quiescence barrier --------------------------------------------------------------------

var c04RegGoroutineHdr = regexp.MustCompile(`^goroutine \d+ \[([^\]]*)\]:`)

// c04RegIdle takes one goroutine dump and reports whether every pool watcher goroutine and
// every registry event goroutine is parked in its select, and how many pool watchers it saw.
func c04RegIdle() (idle bool, poolWatchers int) {
	buf := make([]byte, 1<<20)
	for {
		n := runtime.Stack(buf, true)
		if n < len(buf) {
			buf = buf[:n]
			break
		}
		buf = make([]byte, 2*len(buf))
	}
	idle = true
	for _, blk := range strings.Split(string(buf), "\n\n") {
		// also matches the "created by ...(*ServerPool).watchServers" line of a watcher goroutine
		// that has not run yet (runnable, with the watcher's first event already buffered)
		isPool := strings.Contains(blk, "(*ServerPool).watchServers")
		isReg := strings.Contains(blk, "(*ServiceRegistry).watchRegistry")
		if !isPool && !isReg {
			continue
		}
		m := c04RegGoroutineHdr.FindStringSubmatch(blk)
		if m == nil {
			return false, poolWatchers
		}
		if isPool {
			poolWatchers++
		}
		if !strings.HasPrefix(m[1], "select") {
			idle = false
		}
	}
	return idle, poolWatchers
}

// c04RegQuiesce: see the file comment.  ok=false means the watchdog fired (inconclusive).
func c04RegQuiesce(fake *c04FakeReg, registered bool) (ok bool, poolWatchers int) {
	deadline := time.Now().Add(120 * time.Second)
	if registered {
		select {
		case fake.notify <- &serviceregistry.RegistryEvent{}: // Empty(): the registry ignores it
		case <-time.After(120 * time.Second):
			return false, 0
		}
	}
	for {
		idle, n := c04RegIdle()
		if idle {
			return true, n
		}
		if time.Now().After(deadline) {
			return false, n
		}
		time.Sleep(200 * time.Microsecond)
	}
}

// ---- cases ---------------------------------------------------------------------------------

var c04RegInits = []string{"ok", "unregistered", "first-listing-error-once", "first-listing-error"}
var c04RegStepKinds = []string{"report", "report-diff", "report-list-error", "invalid-event", "bounce", "report-diff-list-error"}

type c04RegStep struct {
	Kind  string    `json:"kind"`         // register | report | report-diff | report-list-error | report-diff-list-error | invalid-event | bounce
	Insts []c04Inst `json:"instances"`    // driver's instances of the service after the step
	Fail  bool      `json:"listingFails"` // the driver's backend fails listings during this step
}

type c04RegCase struct {
	Cfg       c04PoolCfg   `json:"pool"`
	Init      string       `json:"init"`
	InitInsts []c04Inst    `json:"initInstances"`
	Steps     []c04RegStep `json:"steps"`
}

func c04GenRegCase(rng *rand.Rand, i int) *c04RegCase {
	rc := &c04RegCase{}
	pol := c04Policies[i%len(c04Policies)]
	rc.Cfg.Policy = pol
	if pol == LoadBalancePolicyHeaderHash {
		rc.Cfg.HeaderKey = "X-Key"
	}
	rc.Cfg.ServiceRegistry = "fake"
	rc.Cfg.ServiceName = "svc"
	rc.Cfg.ServerTags = [][]string{{"v2"}, {"v2", "blue"}, {"blue"}}[rng.Intn(3)]
	rc.Init = c04RegInits[(i/len(c04Policies))%len(c04RegInits)]
	ns := []int{1, 2, 3, 1, 0}[rng.Intn(5)]
	rc.Cfg.WithWeights = ns > 0 && rng.Intn(2) == 0
	for j := 0; j < ns; j++ {
		w := 0
		if rc.Cfg.WithWeights {
			w = 1 + rng.Intn(100)
		}
		rc.Cfg.Static = append(rc.Cfg.Static, c04Srv{URL: fmt.Sprintf("http://10.10.%d.%d:8080", i%200, j+1), Weight: w})
	}
	tagSets := [][]string{nil, {"v1"}, {"x"}, {"v2"}, {"blue"}, {"v2", "blue"}, {"blue", "x"}, {"v1", "v2"}}
	next := 0
	fresh := func(qualifying bool) c04Inst {
		next++
		in := c04Inst{ID: fmt.Sprintf("i%d", next), Address: fmt.Sprintf("10.9.%d.%d", i%200, next), Port: uint16(9000 + next)}
		if rng.Intn(6) == 0 {
			in.Scheme = "https"
		}
		for {
			in.Tags = tagSets[rng.Intn(len(tagSets))]
			if c04HasTag(in.Tags, rc.Cfg.ServerTags) == qualifying {
				break
			}
		}
		return in
	}
	// a report: mostly 1..4 instances of which at least one qualifies; sometimes none qualifies
	// (fallback) or the report is empty; every report brings new addresses, so that a pool
	// staying on an older report (or on the static list) is visible in every request.
	report := func(keep []c04Inst) []c04Inst {
		var out []c04Inst
		shape := rng.Intn(10)
		if shape == 0 {
			return out
		}
		if len(keep) > 0 && rng.Intn(2) == 0 {
			out = append(out, keep[rng.Intn(len(keep))])
		}
		n := 1 + rng.Intn(4)
		wk := rng.Intn(4) // none, positive, some zero, equal
		eq := 1 + rng.Intn(100)
		for j := 0; j < n; j++ {
			in := fresh(shape != 1 && (j == 0 || rng.Intn(4) != 0))
			switch wk {
			case 1:
				in.Weight = 1 + rng.Intn(100)
			case 2:
				if rng.Intn(2) == 0 {
					in.Weight = 1 + rng.Intn(100)
				}
			case 3:
				in.Weight = eq
			}
			out = append(out, in)
		}
		return out
	}
	rc.InitInsts = report(nil)
	cur := rc.InitInsts
	if rc.Init == "unregistered" {
		rc.Steps = append(rc.Steps, c04RegStep{Kind: "register", Insts: cur})
	}
	nsteps := 3 + rng.Intn(3)
	for s := 0; s < nsteps; s++ {
		kind := c04RegStepKinds[rng.Intn(len(c04RegStepKinds))]
		if s == 0 {
			kind = c04RegStepKinds[(i/(len(c04Policies)*len(c04RegInits)))%len(c04RegStepKinds)]
		}
		st := c04RegStep{Kind: kind}
		switch kind {
		case "report":
			cur = report(nil)
		case "report-diff":
			cur = report(cur)
		case "report-list-error":
			cur = report(nil)
			st.Fail = true
		case "report-diff-list-error":
			cur = report(cur)
			st.Fail = true
		case "bounce":
			st.Fail = rng.Intn(3) == 0
		}
		st.Insts = cur
		rc.Steps = append(rc.Steps, st)
		if st.Fail || kind == "invalid-event" || kind == "bounce" {
			// the report that follows the fault and must get through
			k2 := []string{"report", "report-diff"}[rng.Intn(2)]
			if k2 == "report" {
				cur = report(nil)
			} else {
				cur = report(cur)
			}
			rc.Steps = append(rc.Steps, c04RegStep{Kind: k2, Insts: cur})
		}
	}
	if rc.Init == "first-listing-error" || rc.Init == "unregistered" {
		// make sure a report follows the failed first listing even if the drawn steps were all faults
		cur = report(nil)
		rc.Steps = append(rc.Steps, c04RegStep{Kind: "report", Insts: cur})
	}
	return rc
}

func c04RegEnv() (*supervisor.Supervisor, *supervisor.ObjectEntity, *serviceregistry.ServiceRegistry, error) {
	entity, err := supervisor.NewDefaultMock().NewObjectEntityFromConfig("kind: ServiceRegistry\nname: ServiceRegistry\nsyncInterval: 10s\n")
	if err != nil {
		return nil, nil, nil, err
	}
	entity.InitWithRecovery(nil)
	var systemControllers sync.Map
	systemControllers.Store(serviceregistry.Kind, entity)
	super := supervisor.NewMock(option.New(), nil, sync.Map{}, systemControllers, nil, nil, false, nil, nil)
	return super, entity, entity.Instance().(*serviceregistry.ServiceRegistry), nil
}

func TestVerif_C04_Registry(t *testing.T) {
	r := kit.Start(t, "C04")
	defer r.Finish()
	r.Rule("registry faults over a pool's life: pools (6 policies x static list of 0..3 members x serverTags) configured with serviceRegistry+serviceName and running their own watchServers against the real ServiceRegistry controller with a fake driver; the driver at pool creation is {registered and listing, not registered yet, failing the first listing once, failing every listing}; then 3..11 steps: full-replacement report, apply/delete diff report, report whose listing fails (dropped by the registry), invalid event (rejected), driver deregisters and registers again, late registration - every fault is followed by a report that gets through; policy x initial state x first step walk systematically. After creation and after every step, at quiescence (empty-event barrier + goroutine dump showing the pool watcher parked), 2n+3 requests through ServerPool.handle and 2n+2 selections through sp.LoadBalancer().ChooseServer are judged against the tagged instances of the report delivered LAST (static list if none qualifies / nothing reported yet): membership, 503 iff empty, zero weight never chosen; distinct = (policy, initial state, step kind, fault it follows, which list served, list size)")
	r.Assume("as TestVerif_C04_Pool: serverTags non-empty, instance URLs unique within a report and disjoint from the static URLs; a report counts as delivered when the driver emitted a valid event for the service (or the pool/watcher/deregistration listed it) while the driver was registered and its listing succeeded; reports bring new addresses, so lists of different reports are disjoint except for at most one kept instance")

	old := fnSendRequest
	fnSendRequest = c04Transport
	defer func() { fnSendRequest = old }()

	total := r.N(144, 2880)
	for i := 0; i < total; i++ {
		if !r.Mine(i) {
			continue
		}
		rng := r.CaseRand(i)
		rc := c04GenRegCase(rng, i)
		r.Case(i, rc)
		if i < 2 {
			r.Sample(rc)
		}
		pol := c04PolicyName(rc.Cfg.Policy)
		weighted := rc.Cfg.Policy == LoadBalancePolicyWeightedRandom

		super, entity, registry, err := c04RegEnv()
		if err != nil {
			r.Inconclusive("cannot create the ServiceRegistry controller: " + err.Error())
			continue
		}
		fake := &c04FakeReg{name: "fake", notify: make(chan *serviceregistry.RegistryEvent)}

		// ---- model ----
		registered := rc.Init != "unregistered"
		var delivered []c04Inst
		has := false
		fault := "none" // the last fault since the last delivered report
		drv := c04RegSpecs(rc.InitInsts)

		fake.set(c04RegCopy(drv), rc.Init == "first-listing-error")
		if rc.Init == "first-listing-error-once" {
			fake.failNext = 1
		}
		if registered {
			if err := registry.RegisterRegistry(fake); err != nil {
				r.Inconclusive("RegisterRegistry: " + err.Error())
				entity.CloseWithRecovery()
				continue
			}
		}
		switch rc.Init {
		case "ok", "first-listing-error-once": // the first listing, or the listing for the new watcher, succeeds
			delivered, has = rc.InitInsts, true
			if rc.Init != "ok" {
				fault = rc.Init
			}
		default:
			fault = rc.Init
		}

		var p *Proxy
		spec, err := filters.NewSpec(super, "", rc.Cfg.raw())
		if err != nil {
			r.Count("pool_spec_rejected", 1)
			r.Note("generated registry pool rejected by validation: %v", err)
			entity.CloseWithRecovery()
			continue
		}
		if r.Guard("C04:pool:"+pol+":registry:"+rc.Init+":create", rc, func() {
			p = kind.CreateInstance(spec).(*Proxy)
			p.Init()
		}) {
			entity.CloseWithRecovery()
			continue
		}
		r.Count("reg_pools_built", 1)
		r.Count("reg_init_"+rc.Init, 1)
		sp := p.mainPool
		keys := []c04Key{}
		for j := 0; j < 4; j++ {
			keys = append(keys, c04Key{IP: c04PublicIPs[rng.Intn(len(c04PublicIPs))], Header: c04HeaderVals[rng.Intn(len(c04HeaderVals))]})
		}

		// judge the pool at quiescence against the report delivered last
		judge := func(stepNo int, stepKind string) bool {
			ok, nw := c04RegQuiesce(fake, registered)
			if !ok {
				r.Inconclusive("registry part: event pipeline did not become idle within 120 s (watchdog)")
				return false
			}
			if nw > 0 {
				r.Count("reg_pool_watcher_goroutine_seen", 1)
			}
			phase := "registry:" + stepKind + ":after-" + fault
			L, fb := append([]c04Srv{}, rc.Cfg.Static...), true
			if has {
				L, fb = c04RefList(&rc.Cfg, delivered)
			}
			jpc := &c04PoolCase{Cfg: rc.Cfg, list: [][]c04Srv{L}}
			det := func(extra map[string]interface{}) map[string]interface{} {
				m := map[string]interface{}{"pool": rc.Cfg, "init": rc.Init, "step": stepNo, "step_kind": stepKind, "steps": rc.Steps,
					"last_fault": fault, "report_delivered_last": delivered, "any_report_delivered": has, "list": L}
				for k, v := range extra {
					m[k] = v
				}
				return m
			}
			nreq := 2*len(L) + 3
			for k := 0; k < nreq; k++ {
				o := c04Handle(sp, keys[rng.Intn(len(keys))], rc.Cfg.HeaderKey, rng)
				r.Eval(1)
				if !c04Judge(r, jpc, o, 0, 0, phase) {
					return false
				}
			}
			nd := 2*len(L) + 2
			totalW := c04Total(L)
			lb := sp.LoadBalancer()
			req := c04NewRequest(keys[0], rc.Cfg.HeaderKey, rng.Intn(3), 1024+rng.Intn(60000), "")
			var bad, badURL string
			if r.Guard("C04:pool:"+pol+":choose:"+phase, rc, func() {
				for k := 0; k < nd && bad == ""; k++ {
					s := lb.ChooseServer(req)
					switch {
					case s == nil && len(L) > 0:
						bad = "pool:no-server-without-empty-list:" + pol + ":" + phase
					case s == nil:
					case len(L) == 0:
						bad, badURL = "pool:server-from-empty-list:"+pol+":"+phase, s.URL
					default:
						m, in := c04Find(L, s.URL)
						if !in {
							bad, badURL = "pool:target-not-in-current-list:"+pol+":"+phase, s.URL
						} else if weighted && totalW > 0 && m.Weight == 0 {
							bad, badURL = "pool:weightedRandom-picked-zero-weight:"+phase, s.URL
						}
					}
				}
				r.Eval(nd)
			}) {
				return false
			}
			if bad != "" {
				r.Violation(bad, det(map[string]interface{}{"via": "sp.LoadBalancer().ChooseServer", "picked": badURL}))
				return false
			}
			which := "instances"
			switch {
			case len(L) == 0:
				which = "empty"
			case fb && has:
				which = "fallback"
			case fb:
				which = "static-nothing-reported"
			}
			r.Cover(fmt.Sprintf("reg/%s/%s/%s/after-%s/%s/n%d", pol, rc.Init, stepKind, fault, which, len(L)))
			return true
		}

		good := judge(0, "created")
		if good && has {
			r.Count("reg_created_with_report_judged", 1)
			if fault != "none" {
				r.Count("reg_report_after_"+fault+"_judged", 1)
			}
			fault = "none"
		}
		send := func(ev *serviceregistry.RegistryEvent) bool {
			select {
			case fake.notify <- ev:
				return true
			case <-time.After(120 * time.Second):
				r.Inconclusive("registry part: the registry did not take the driver's event within 120 s (watchdog)")
				return false
			}
		}
		for si := 0; si < len(rc.Steps) && good; si++ {
			st := rc.Steps[si]
			newDrv := c04RegSpecs(st.Insts)
			deliveredNow := false
			switch st.Kind {
			case "register":
				fake.set(c04RegCopy(newDrv), st.Fail)
				if err := registry.RegisterRegistry(fake); err != nil {
					r.Inconclusive("RegisterRegistry: " + err.Error())
					good = false
					break
				}
				registered = true
			case "report", "report-list-error", "report-diff", "report-diff-list-error":
				fake.set(c04RegCopy(newDrv), st.Fail)
				var ev *serviceregistry.RegistryEvent
				if strings.HasPrefix(st.Kind, "report-diff") {
					ev = serviceregistry.NewRegistryEventFromDiff("fake", c04RegCopy(drv), c04RegCopy(newDrv))
				} else {
					ev = &serviceregistry.RegistryEvent{SourceRegistryName: "fake", UseReplace: true, Replace: c04RegCopy(newDrv)}
				}
				if ev.Empty() { // nothing changed (empty -> empty): the driver has nothing to say
					r.Count("reg_diff_reports_without_change", 1)
					break
				}
				if !send(ev) {
					good = false
					break
				}
				if st.Fail {
					fault = "report-list-error"
				} else {
					deliveredNow = true
				}
			case "invalid-event":
				fake.set(c04RegCopy(drv), false)
				bad := c04RegCopy(drv)
				bad["fake/svc/broken"] = &serviceregistry.ServiceInstanceSpec{RegistryName: "fake", ServiceName: "svc", InstanceID: "broken",
					Address: "", Port: 0, Tags: append([]string{}, rc.Cfg.ServerTags...)}
				if !send(&serviceregistry.RegistryEvent{SourceRegistryName: "fake", UseReplace: true, Replace: bad}) {
					good = false
					break
				}
				fault = "invalid-event"
			case "bounce":
				fake.set(c04RegCopy(drv), st.Fail)
				if err := registry.DeregisterRegistry("fake"); err != nil {
					r.Inconclusive("DeregisterRegistry: " + err.Error())
					good = false
					break
				}
				// the registry lists the service once more for its watchers while deregistering
				if !st.Fail {
					deliveredNow = true
				}
				fake.set(c04RegCopy(drv), false)
				if err := registry.RegisterRegistry(fake); err != nil {
					r.Inconclusive("RegisterRegistry: " + err.Error())
					good = false
					break
				}
			}
			if !good {
				break
			}
			drv = newDrv
			if deliveredNow {
				delivered, has = st.Insts, true
			}
			if st.Kind == "bounce" {
				// judged as a fault: what the deregistration delivered is the driver's unchanged
				// state; the interesting report is the one after it
				if !judge(si+1, st.Kind) {
					good = false
					break
				}
				r.Count("reg_steps_"+st.Kind, 1)
				if deliveredNow {
					fault = "bounce"
				} else {
					fault = "bounce-list-error"
				}
				continue
			}
			if !judge(si+1, st.Kind) {
				good = false
				break
			}
			r.Count("reg_steps_"+st.Kind, 1)
			if deliveredNow {
				r.Count("reg_reports_delivered_judged", 1)
				if fault != "none" {
					r.Count("reg_report_after_"+fault+"_judged", 1)
				}
				if _, fb := c04RefList(&rc.Cfg, delivered); !fb && fault != "none" {
					r.Count("reg_tagged_instances_after_fault_judged", 1)
				}
				fault = "none"
			} else if st.Kind != "register" {
				r.Count("reg_faults_list_kept_judged", 1)
			}
		}

		// ---- teardown ----
		// The driver is NOT deregistered here: DeregisterRegistry re-makes bucket.done, which the
		// registry's event goroutine reads without the lock (a race inside pkg/object/serviceregistry,
		// outside C04's scope; the "bounce" steps exercise it once per process already).  The parked
		// event goroutine of the case is left behind.
		kit.Recover(func() { p.Close() })
		entity.CloseWithRecovery()
	}
	r.Require("reg_pools_built", 1)
	for _, k := range c04RegInits {
		r.Require("reg_init_"+k, 1)
	}
	r.Require("reg_pool_watcher_goroutine_seen", 1)
	r.Require("reg_created_with_report_judged", 1)
	r.Require("reg_reports_delivered_judged", 1)
	r.Require("reg_faults_list_kept_judged", 1)
	r.Require("reg_tagged_instances_after_fault_judged", 1)
	for _, k := range []string{"unregistered", "first-listing-error", "first-listing-error-once", "report-list-error", "invalid-event", "bounce"} {
		r.Require("reg_report_after_"+k+"_judged", 1)
	}
	for _, k := range []string{"register", "report", "report-diff", "report-list-error", "invalid-event", "bounce"} {
		r.Require("reg_steps_"+k, 1)
	}
}
