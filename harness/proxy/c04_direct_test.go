//go:build verif

package proxy

// C04 (a): NewLoadBalancer driven directly.  Oracle from the property sentence:
//   - the chosen server is a member of the list; nil iff the list is empty;
//   - roundRobin: after k picks every member was chosen floor(k/n) or ceil(k/n) times,
//     sequentially (after every pick) and with 16 goroutines (at quiescence);
//   - ipHash / headerHash: equal key => equal server while the list is unchanged;
//   - weightedRandom: a zero-weight member is never chosen when some weight is positive;
//   - no panic.

import (
	"fmt"
	"math/rand"
	"runtime/debug"
	"strings"
	"sync"
	"testing"

	"github.com/megaease/easegress/pkg/protocols/httpprot"
	"verif.local/kit"
)

// c04PanicSite returns the easegress frame of the ROOT panic: when a deferred function
// (ServerPool.collectMetrics) panics again while the first panic unwinds, the stack shows
// several panic markers and the deepest one is the cause.
func c04PanicSite() string {
	lines := strings.Split(string(debug.Stack()), "\n")
	site, armed := "unknown", false
	for i := 0; i+1 < len(lines); i++ {
		l := lines[i]
		if strings.HasPrefix(l, "panic(") || strings.HasPrefix(l, "runtime.panic") || strings.HasPrefix(l, "runtime.goPanic") || strings.HasPrefix(l, "runtime.sigpanic") {
			armed = true
			continue
		}
		if armed && strings.HasPrefix(l, "github.com/megaease/easegress/") && !strings.Contains(lines[i+1], "zz_verif") {
			fn := l
			if j := strings.LastIndex(fn, "("); j > 0 {
				fn = fn[:j]
			}
			site = strings.TrimPrefix(fn, "github.com/megaease/easegress/")
			armed = false
		}
	}
	return site
}

var c04Policies = []string{"", LoadBalancePolicyRoundRobin, LoadBalancePolicyRandom, LoadBalancePolicyWeightedRandom, LoadBalancePolicyIPHash, LoadBalancePolicyHeaderHash}
var c04WeightKinds = []string{"none", "equal", "mixed", "somezero", "allzero"}

func c04PolicyName(p string) string {
	if p == "" {
		return "default"
	}
	return p
}

// c04Weights builds the weight vector of a kind for n servers.
func c04Weights(kind string, n int, rng *rand.Rand) []int {
	w := make([]int, n)
	switch kind {
	case "none", "allzero":
	case "equal":
		v := 1 + rng.Intn(100)
		for i := range w {
			w[i] = v
		}
	case "mixed":
		for i := range w {
			w[i] = 1 + rng.Intn(100)
		}
		if n > 0 && rng.Intn(3) == 0 { // boundary values
			w[rng.Intn(n)] = 1
			w[rng.Intn(n)] = 100
		}
	case "somezero":
		for i := range w {
			w[i] = 1 + rng.Intn(100)
		}
		if n > 0 {
			z := 1 + rng.Intn(n) // 1..n zero entries; if all become zero it is the allzero shape
			if z == n && n > 1 {
				z = n - 1
			}
			for _, i := range rng.Perm(n)[:z] {
				w[i] = 0
			}
			if n == 1 {
				w[0] = 0
			}
		}
	}
	return w
}

type c04DirectCase struct {
	Policy     string   `json:"policy"`
	N          int      `json:"n"`
	WeightKind string   `json:"weightKind"`
	Servers    []c04Srv `json:"servers"`
	HeaderKey  string   `json:"headerHashKey"`
	Accepted   bool     `json:"validationAccepted"`
	Reject     string   `json:"reject,omitempty"`
}

func TestVerif_C04_Direct(t *testing.T) {
	r := kit.Start(t, "C04")
	defer r.Finish()
	r.Rule("systematic product {default,roundRobin,random,weightedRandom,ipHash,headerHash} x list size 0..6 x weight vector {none,equal,mixed,some zero,all zero}, repeated with seeded weights/keys/pick counts; each balancer is created with the real NewLoadBalancer (the pool spec is also passed through filters.NewSpec to learn whether validation accepts it) and driven sequentially and from 16 goroutines; distinct = (policy, n, weight kind, accepted, sub-check that ran)")
	r.Assume("server identity is the *Server pointer of the list handed to NewLoadBalancer; equal key = same client IP (whatever the port / presentation) resp. same header value; weights are within the schema range 0..100")

	combos := len(c04Policies) * 7 * len(c04WeightKinds)
	total := r.N(combos*15, combos*200)
	draws := r.N(3000, 10000)

	for i := 0; i < total; i++ {
		if !r.Mine(i) {
			continue
		}
		rng := r.CaseRand(i)
		c := i % combos
		pol := c04Policies[c%len(c04Policies)]
		c /= len(c04Policies)
		n := c % 7
		c /= 7
		wk := c04WeightKinds[c%len(c04WeightKinds)]

		weights := c04Weights(wk, n, rng)
		dc := c04DirectCase{Policy: pol, N: n, WeightKind: wk}
		if pol == LoadBalancePolicyHeaderHash {
			dc.HeaderKey = []string{"X-Key", "X-Key", "X-Tenant", ""}[rng.Intn(4)]
		}
		servers := make([]*Server, n)
		for j := 0; j < n; j++ {
			s := c04Srv{URL: fmt.Sprintf("http://10.9.%d.%d:80%02d", i%200, j+1, j), Weight: weights[j]}
			dc.Servers = append(dc.Servers, s)
			servers[j] = &Server{URL: s.URL, Weight: s.Weight}
		}
		// Does validation accept a pool with exactly these members?
		cfg := &c04PoolCfg{Policy: pol, HeaderKey: dc.HeaderKey, Static: dc.Servers, WithWeights: wk != "none"}
		if n == 0 {
			cfg.ServiceName = "svc" // a discovery-backed pool may have an empty static list
		}
		if _, err := c04Validate(cfg); err != nil {
			dc.Reject = kit.MsgClass(err.Error())
			r.Count("pools_rejected_by_validation", 1)
		} else {
			dc.Accepted = true
			r.Count("pools_accepted_by_validation", 1)
		}
		r.Case(i, dc)
		if i < 3 {
			r.Sample(dc)
		}
		acc := "rejected"
		if dc.Accepted {
			acc = "accepted"
		}
		base := fmt.Sprintf("%s/n%d/%s/%s", c04PolicyName(pol), n, wk, acc)
		// Panic signature: policy + weight-vector shape (+ empty list) — the kind of input.
		shape := "positive-total-weight"
		if n == 0 {
			shape = "empty-list"
		} else if c04Total(dc.Servers) == 0 {
			shape = "zero-total-weight"
		}
		gsig := fmt.Sprintf("C04:direct:%s:%s:%s", c04PolicyName(pol), shape, acc)

		index := map[*Server]int{}
		for j, s := range servers {
			index[s] = j
		}
		someWeight := false
		for _, w := range weights {
			if w > 0 {
				someWeight = true
			}
		}
		member := func(s *Server, where string) bool {
			if n == 0 {
				if s != nil {
					r.Violation("direct:non-nil-from-empty-list:"+c04PolicyName(pol), map[string]interface{}{"case": dc, "where": where})
					return false
				}
				return true
			}
			if s == nil {
				r.Violation("direct:nil-from-non-empty-list:"+c04PolicyName(pol), map[string]interface{}{"case": dc, "where": where})
				return false
			}
			if _, ok := index[s]; !ok {
				r.Violation("direct:server-not-in-list:"+c04PolicyName(pol), map[string]interface{}{"case": dc, "where": where, "got": s.URL})
				return false
			}
			return true
		}

		var lb LoadBalancer
		if r.Guard(gsig+":new", dc, func() {
			lb = NewLoadBalancer(&LoadBalanceSpec{Policy: pol, HeaderHashKey: dc.HeaderKey}, servers)
		}) {
			continue
		}
		keys := make([]c04Key, 6)
		for j := range keys {
			keys[j] = c04Key{IP: c04PublicIPs[rng.Intn(len(c04PublicIPs))], Header: c04HeaderVals[rng.Intn(len(c04HeaderVals))]}
		}
		mkreq := func(k c04Key, rg *rand.Rand) *httpprot.Request {
			return c04NewRequest(k, dc.HeaderKey, rg.Intn(3), 1024+rg.Intn(60000), "")
		}

		switch pol {
		case "", LoadBalancePolicyRoundRobin:
			// sequential: fairness after every pick
			k1 := 1 + rng.Intn(4*n+4)
			counts := make([]int, n)
			bad := false
			panicked := r.Guard(gsig+":choose", dc, func() {
				for k := 1; k <= k1 && !bad; k++ {
					s := lb.ChooseServer(mkreq(keys[k%len(keys)], rng))
					r.Eval(1)
					if !member(s, "sequential") {
						bad = true
						break
					}
					if n == 0 {
						continue
					}
					counts[index[s]]++
					if !c04Fair(counts, k) {
						r.Violation("direct:roundRobin-unfair:sequential", map[string]interface{}{"case": dc, "k": k, "counts": append([]int{}, counts...)})
						bad = true
					}
				}
			})
			if panicked || bad {
				continue
			}
			r.Cover(base + "/seq")
			if n == 0 {
				r.Count("empty_list_nil", 1)
				continue
			}
			// concurrent: 16 goroutines, two phases, counts compared at quiescence
			total := k1
			for phase := 0; phase < 2; phase++ {
				per := make([]int, 16)
				for g := range per {
					per[g] = rng.Intn(12) // some goroutines may do nothing
					total += per[g]
				}
				reqs := make([][]*httpprot.Request, 16)
				for g := range reqs {
					for x := 0; x < per[g]; x++ {
						reqs[g] = append(reqs[g], mkreq(keys[x%len(keys)], rng))
					}
				}
				var wg sync.WaitGroup
				var mu sync.Mutex
				var gPanic string
				local := make([][]int, 16)
				start := make(chan struct{})
				for g := 0; g < 16; g++ {
					wg.Add(1)
					local[g] = make([]int, n+1)
					go func(g int) {
						defer wg.Done()
						defer func() {
							if e := recover(); e != nil {
								mu.Lock()
								gPanic = fmt.Sprint(e) + " @ " + c04PanicSite()
								mu.Unlock()
							}
						}()
						<-start
						for _, q := range reqs[g] {
							s := lb.ChooseServer(q)
							if j, ok := index[s]; ok {
								local[g][j]++
							} else {
								local[g][n]++ // nil or foreign
							}
						}
					}(g)
				}
				close(start)
				wg.Wait()
				if gPanic != "" {
					r.Violation(gsig+":choose-concurrent:panic", map[string]interface{}{"case": dc, "panic": gPanic})
					bad = true
					break
				}
				for g := 0; g < 16; g++ {
					for j := 0; j < n; j++ {
						counts[j] += local[g][j]
					}
					if local[g][n] > 0 {
						r.Violation("direct:server-not-in-list:"+c04PolicyName(pol)+":concurrent", map[string]interface{}{"case": dc})
						bad = true
					}
				}
				r.Eval(total - k1)
				if !bad && !c04Fair(counts, total) {
					r.Violation("direct:roundRobin-unfair:concurrent", map[string]interface{}{"case": dc, "k": total, "counts": append([]int{}, counts...), "phase": phase})
					bad = true
				}
				if bad {
					break
				}
				r.Count("rr_concurrent_checks", 1)
			}
			if !bad {
				r.Cover(base + "/conc16")
			}

		case LoadBalancePolicyRandom:
			bad := false
			if r.Guard(gsig+":choose", dc, func() {
				for k := 0; k < 60 && !bad; k++ {
					r.Eval(1)
					if !member(lb.ChooseServer(mkreq(keys[k%len(keys)], rng)), "random") {
						bad = true
					}
				}
			}) || bad {
				continue
			}
			r.Cover(base + "/member")
			if n == 0 {
				r.Count("empty_list_nil", 1)
			}

		case LoadBalancePolicyWeightedRandom:
			bad := false
			nd := draws
			if n == 0 || !someWeight {
				nd = 50
			}
			seenZero := -1
			if r.Guard(gsig+":choose", dc, func() {
				req := mkreq(keys[0], rng)
				for k := 0; k < nd && !bad; k++ {
					s := lb.ChooseServer(req)
					if !member(s, "weightedRandom") {
						bad = true
						break
					}
					if n > 0 && someWeight && weights[index[s]] == 0 {
						seenZero = index[s]
						bad = true
					}
				}
				r.Eval(nd)
			}) {
				if shape == "zero-total-weight" {
					r.Count("weightedRandom_zero_total_panics", 1)
				}
				continue
			}
			if seenZero >= 0 {
				r.Violation("direct:weightedRandom-picked-zero-weight", map[string]interface{}{"case": dc, "picked": seenZero})
			}
			if bad {
				continue
			}
			r.Cover(base + "/draws")
			if someWeight && wk == "somezero" {
				r.Count("weighted_somezero_checked", 1)
			}
			if n == 0 {
				r.Count("empty_list_nil", 1)
			}

		case LoadBalancePolicyIPHash, LoadBalancePolicyHeaderHash:
			// stickiness: sequential interleaving of keys, then 16 goroutines
			first := map[string]*Server{}
			keyOf := func(k c04Key) string {
				if pol == LoadBalancePolicyIPHash {
					return k.IP
				}
				if dc.HeaderKey == "" {
					return "" // no header configured: every request has the same (empty) key
				}
				return k.Header
			}
			bad := false
			if r.Guard(gsig+":choose", dc, func() {
				for k := 0; k < 36 && !bad; k++ {
					kk := keys[rng.Intn(len(keys))]
					s := lb.ChooseServer(mkreq(kk, rng))
					r.Eval(1)
					if !member(s, "hash-seq") {
						bad = true
						break
					}
					if prev, ok := first[keyOf(kk)]; ok && prev != s {
						r.Violation("direct:"+pol+"-not-sticky:sequential", map[string]interface{}{"case": dc, "key": kk})
						bad = true
					}
					first[keyOf(kk)] = s
				}
			}) || bad {
				continue
			}
			r.Cover(base + "/sticky-seq")
			if n == 0 {
				r.Count("empty_list_nil", 1)
				continue
			}
			var wg sync.WaitGroup
			var mu sync.Mutex
			var gPanic string
			diverged := 0
			type pr struct {
				q *httpprot.Request
				k string
			}
			work := make([][]pr, 16)
			for g := range work {
				for x := 0; x < 10; x++ {
					kk := keys[rng.Intn(len(keys))]
					work[g] = append(work[g], pr{mkreq(kk, rng), keyOf(kk)})
				}
			}
			for g := 0; g < 16; g++ {
				wg.Add(1)
				go func(g int) {
					defer wg.Done()
					defer func() {
						if e := recover(); e != nil {
							mu.Lock()
							gPanic = fmt.Sprint(e) + " @ " + c04PanicSite()
							mu.Unlock()
						}
					}()
					for _, w := range work[g] {
						s := lb.ChooseServer(w.q)
						mu.Lock()
						if prev, ok := first[w.k]; ok {
							if prev != s {
								diverged++
							}
						} else {
							if _, in := index[s]; !in {
								diverged++
							}
							first[w.k] = s
						}
						mu.Unlock()
					}
				}(g)
			}
			wg.Wait()
			r.Eval(160)
			if gPanic != "" {
				r.Violation(gsig+":choose-concurrent:panic", map[string]interface{}{"case": dc, "panic": gPanic})
				continue
			}
			if diverged > 0 {
				r.Violation("direct:"+pol+"-not-sticky:concurrent", map[string]interface{}{"case": dc, "diverged": diverged})
				continue
			}
			r.Cover(base + "/sticky-conc16")
			r.Count("hash_concurrent_checks", 1)
		}
	}
	r.Require("rr_concurrent_checks", 1)
	r.Require("hash_concurrent_checks", 1)
	r.Require("weighted_somezero_checked", 1)
	r.Require("empty_list_nil", 1)
	r.Require("pools_accepted_by_validation", 1)
}
