//go:build verif

package proxy

// C04 (c): requests that make MORE THAN ONE selection.  A pool with a retry policy re-selects
// a server for every attempt of a request; the property's quantifier ("any interleaving of
// list replacement with selection") therefore includes member-list replacements that land
// between two attempts of the SAME request: while an attempt is at the backend, and while the
// request sits in the retry policy's back-off.  The other pool monitors send requests that
// select exactly once, so a selection made from anything but the pool's current list can only
// be seen there when the replacement races with that single selection.
//
// Observation: every attempt, not every request.  The pool opens one child span per attempt
// (ctx.Span().NewChild ... Finish), so a recording tracing.Span handed in with the request
// context marks the begin and the end of each attempt on the request's own goroutine; the
// recording transport (fnSendRequest) notes the target of the attempt and answers what the
// script says (network error, a status of the pool's failureCodes, or 200).
//
// Oracle (per attempt, reference lists as in c04_pool_test.go): the selection of an attempt
// is made between the begin of the attempt (lo = last generation whose useService had
// returned; for the first attempt: when the request was handed to the pool) and the transport call, or the end of the attempt when no server was chosen
// (hi = last generation whose useService had been entered).  The target must be a member of
// list(lo) u ... u list(hi); an attempt may end without a server only if one of these lists is
// empty and must if all are; weightedRandom / hash stickiness / roundRobin floor-ceil as in the
// property, counted over attempts.  Nothing about the NUMBER of attempts or the waits is judged
// (that is C10).
//
// Phase "scripted": the replacement is part of the script and happens at an exact point
// (a goroutine other than the request's runs useService to completion while the attempt is
// inside the transport, or right after the attempt's span was finished, i.e. in the
// back-off), so lo == hi for every attempt.  Phase "concurrent": 4 requesters with failing
// attempts against one updater, windows as above.

import (
	"fmt"
	"io"
	"math/rand"
	"net/http"
	"sort"
	"strings"
	"sync"
	"sync/atomic"
	"testing"
	"time"

	"github.com/megaease/easegress/pkg/context"
	"github.com/megaease/easegress/pkg/protocols/httpprot"
	"github.com/megaease/easegress/pkg/resilience"
	"github.com/megaease/easegress/pkg/tracing"
	"verif.local/kit"
)

const c04RetryFailCode = 502

type c04RetryStep struct {
	Answer  string `json:"answer"`            // neterr | failcode | ok
	Replace string `json:"replace,omitempty"` // "" | in-flight | back-off (scripted phase only)
}

type c04Attempt struct {
	Lo       int    `json:"gen_lo"`
	Hi       int    `json:"gen_hi"`
	Target   string `json:"target"` // "" = no server chosen, transport not reached
	Calls    int    `json:"calls"`
	Answer   string `json:"answer,omitempty"`
	Replaced string `json:"replaced,omitempty"` // "<where>:<generation installed after the selection of this attempt>"
	open     bool
}

// c04RetryReq is the record of one request.  All fields are touched only by the goroutine
// that runs ServerPool.handle for this request (span hooks and transport run on it).
type c04RetryReq struct {
	plan            []c04RetryStep
	attempts        []*c04Attempt
	gStarted, gDone *int64
	seen            *int64                 // attempts ended (shared counter of the case)
	install         func(where string) int // scripted phase: install the next generation, 0 = none left
	unspanned       int
	startLo         int
}

func (rq *c04RetryReq) step(j int) c04RetryStep {
	if j >= len(rq.plan) {
		j = len(rq.plan) - 1
	}
	return rq.plan[j]
}

func (rq *c04RetryReq) begin() *c04Attempt {
	a := &c04Attempt{Lo: int(atomic.LoadInt64(rq.gDone)), Hi: -1, open: true}
	if len(rq.attempts) == 0 {
		// the first selection of a request may use whatever was current since the request
		// was handed to the pool (as in c04_pool_test.go).
		a.Lo = rq.startLo
	}
	rq.attempts = append(rq.attempts, a)
	return a
}

func (rq *c04RetryReq) current() *c04Attempt {
	if n := len(rq.attempts); n > 0 && rq.attempts[n-1].open {
		return rq.attempts[n-1]
	}
	// a transport call outside any attempt span: still an observed selection.
	rq.unspanned++
	return rq.begin()
}

func (rq *c04RetryReq) end() {
	n := len(rq.attempts)
	if n == 0 || !rq.attempts[n-1].open {
		return
	}
	a := rq.attempts[n-1]
	if a.Calls == 0 {
		a.Hi = int(atomic.LoadInt64(rq.gStarted))
	}
	a.open = false
	atomic.AddInt64(rq.seen, 1)
	if rq.install == nil || a.Replaced != "" {
		return
	}
	st := rq.step(n - 1)
	// an attempt that found no server never reaches the backend: its scripted replacement
	// happens in the back-off instead.
	if st.Replace == "back-off" || (st.Replace == "in-flight" && a.Calls == 0) {
		if g := rq.install("back-off"); g > 0 {
			a.Replaced = fmt.Sprintf("back-off:%d", g)
		}
	}
}

// c04Span is the request's tracing span: a no-op span whose NewChild / Finish mark the
// attempts of the pool.
type c04Span struct {
	tracing.Span
	rq    *c04RetryReq
	child bool
}

func (s *c04Span) NewChild(name string) tracing.Span {
	if s.child {
		return s
	}
	s.rq.begin()
	return &c04Span{Span: tracing.NoopSpan, rq: s.rq, child: true}
}

func (s *c04Span) NewChildWithStart(name string, _ time.Time) tracing.Span { return s.NewChild(name) }

func (s *c04Span) Finish() {
	if s.child {
		s.rq.end()
	}
}

var c04RetryReqs sync.Map // id -> *c04RetryReq

func c04RetryTransport(r *http.Request, _ *http.Client) (*http.Response, error) {
	v, ok := c04RetryReqs.Load(r.Header.Get(c04IDHeader))
	if !ok {
		atomic.AddInt64(&c04Unknown, 1)
		return nil, fmt.Errorf("c04: request without harness id")
	}
	rq := v.(*c04RetryReq)
	a := rq.current()
	a.Calls++
	if a.Calls == 1 {
		a.Hi = int(atomic.LoadInt64(rq.gStarted))
		a.Target = r.URL.Scheme + "://" + r.URL.Host
	}
	st := rq.step(len(rq.attempts) - 1)
	a.Answer = st.Answer
	if st.Replace == "in-flight" && rq.install != nil && a.Replaced == "" {
		if g := rq.install("in-flight"); g > 0 {
			a.Replaced = fmt.Sprintf("in-flight:%d", g)
		}
	}
	if st.Answer == "neterr" {
		return nil, fmt.Errorf("dial tcp %s: connect: connection refused", r.URL.Host)
	}
	code, body := 200, "ok"
	if st.Answer == "failcode" {
		code, body = c04RetryFailCode, "bad gateway"
	}
	return &http.Response{
		StatusCode:    code,
		Status:        fmt.Sprintf("%d %s", code, http.StatusText(code)),
		Proto:         "HTTP/1.1",
		ProtoMajor:    1,
		ProtoMinor:    1,
		Header:        http.Header{"Content-Type": []string{"text/plain"}},
		Body:          io.NopCloser(strings.NewReader(body)),
		ContentLength: int64(len(body)),
		Request:       r,
	}, nil
}

type c04RetryOutcome struct {
	Key      c04Key         `json:"key"`
	Plan     []c04RetryStep `json:"plan"`
	Attempts []*c04Attempt  `json:"attempts"`
	Status   int            `json:"status"`
	Result   string         `json:"result"`
	Panic    string         `json:"panic,omitempty"`
	PanicAt  string         `json:"panic_at,omitempty"`
}

// c04RetryHandle sends one request through the real ServerPool.handle (retry wrapper included).
func c04RetryHandle(sp *ServerPool, rq *c04RetryReq, k c04Key, headerName string, rng *rand.Rand) (out c04RetryOutcome) {
	id := fmt.Sprintf("q%d", atomic.AddUint64(&c04NextID, 1))
	c04RetryReqs.Store(id, rq)
	defer c04RetryReqs.Delete(id)
	req := c04NewRequest(k, headerName, rng.Intn(3), 1024+rng.Intn(60000), id)
	ctx := context.New(&c04Span{Span: tracing.NoopSpan, rq: rq})
	ctx.SetRequest(context.DefaultNamespace, req)
	rq.startLo = int(atomic.LoadInt64(rq.gDone))
	func() {
		defer func() {
			if e := recover(); e != nil {
				out.Panic = fmt.Sprint(e)
				out.PanicAt = c04PanicSite()
			}
		}()
		out.Result = sp.handle(ctx, false)
	}()
	out.Key, out.Plan, out.Attempts = k, rq.plan, rq.attempts
	if out.Panic == "" {
		if resp, ok := ctx.GetOutputResponse().(*httpprot.Response); ok && resp != nil {
			out.Status = resp.StatusCode()
		}
	}
	return out
}

func c04WindowURLs(pc *c04PoolCase, lo, hi int) (urls map[string]bool, someEmpty, allEmpty bool) {
	urls, allEmpty = map[string]bool{}, true
	for g := lo; g <= hi; g++ {
		if len(pc.list[g]) == 0 {
			someEmpty = true
			continue
		}
		allEmpty = false
		for _, s := range pc.list[g] {
			urls[s.URL] = true
		}
	}
	return
}

// c04JudgeRetry judges every attempt of one request.
func c04JudgeRetry(r *kit.Run, pc *c04PoolCase, o c04RetryOutcome, phase string) bool {
	pol := c04PolicyName(pc.Cfg.Policy)
	det := func(j int) map[string]interface{} {
		lists := map[string][]c04Srv{}
		if j >= 0 {
			for g := o.Attempts[j].Lo; g <= o.Attempts[j].Hi; g++ {
				lists[fmt.Sprint(g)] = pc.list[g]
			}
			if j > 0 {
				for g := o.Attempts[0].Lo; g <= o.Attempts[0].Hi; g++ {
					lists[fmt.Sprint(g)] = pc.list[g]
				}
			}
		}
		return map[string]interface{}{"pool": pc.Cfg, "attempt": j + 1, "lists": lists, "outcome": o, "phase": phase}
	}
	if o.Panic != "" {
		r.Violation(fmt.Sprintf("C04:pool-retry:%s:panic:%s:%s", pol, o.PanicAt, kit.MsgClass(o.Panic)), det(-1))
		return false
	}
	good := true
	sticky := map[int]string{}
	for j, a := range o.Attempts {
		r.Eval(1)
		ord := "first-attempt"
		if j > 0 {
			ord = "later-attempt"
			r.Count("retry_later_attempts", 1)
		}
		if a.Hi < a.Lo { // attempt never closed (cannot happen unless handle panicked)
			continue
		}
		urls, someEmpty, allEmpty := c04WindowURLs(pc, a.Lo, a.Hi)
		if j > 0 {
			// observations the monitor depends on: could a selection from the list of the
			// first attempt be told from a selection from the current list?
			first := o.Attempts[0]
			if a.Lo > first.Hi && first.Hi >= first.Lo {
				old, oldSomeEmpty, _ := c04WindowURLs(pc, first.Lo, first.Hi)
				tell := (oldSomeEmpty && !someEmpty) || (len(old) > 0 && allEmpty)
				for u := range old {
					if !urls[u] {
						tell = true
					}
				}
				if tell {
					r.Count("retry_"+phase+"_later_attempt_on_replaced_list", 1)
				}
			}
			prev := o.Attempts[j-1]
			switch {
			case strings.HasPrefix(prev.Replaced, "in-flight:"):
				r.Count("retry_later_attempt_after_in_flight_replacement", 1)
			case strings.HasPrefix(prev.Replaced, "back-off:"):
				r.Count("retry_later_attempt_after_back_off_replacement", 1)
			}
			if prev.Calls == 0 && a.Calls > 0 {
				r.Count("retry_forwarded_after_attempt_without_server", 1)
			}
			if prev.Calls > 0 && a.Calls == 0 {
				r.Count("retry_no_server_after_forwarded_attempt", 1)
			}
		}
		if a.Calls == 0 {
			if !someEmpty {
				r.Violation("pool:retry:no-server-without-empty-list:"+pol+":"+ord+":"+phase, det(j))
				good = false
			}
			continue
		}
		if a.Calls > 1 {
			r.Violation("pool:retry:transport-called-more-than-once-per-attempt:"+pol, det(j))
			good = false
			continue
		}
		if allEmpty {
			r.Violation("pool:retry:forwarded-although-list-empty:"+pol+":"+ord+":"+phase, det(j))
			good = false
			continue
		}
		if !urls[a.Target] {
			r.Violation("pool:retry:target-not-in-current-list:"+pol+":"+ord+":"+phase, det(j))
			good = false
			continue
		}
		if pc.Cfg.Policy == LoadBalancePolicyWeightedRandom {
			okWeight := false
			for g := a.Lo; g <= a.Hi; g++ {
				if s, in := c04Find(pc.list[g], a.Target); in && (s.Weight > 0 || c04Total(pc.list[g]) == 0) {
					okWeight = true
				}
			}
			if !okWeight {
				r.Violation("pool:retry:weightedRandom-picked-zero-weight:"+ord+":"+phase, det(j))
				good = false
				continue
			}
		}
		if (pc.Cfg.Policy == LoadBalancePolicyIPHash || pc.Cfg.Policy == LoadBalancePolicyHeaderHash) && a.Lo == a.Hi {
			if prev, ok := sticky[a.Lo]; ok && prev != a.Target {
				r.Violation("pool:retry:"+pol+"-not-sticky-across-attempts:"+phase, det(j))
				good = false
				continue
			}
			sticky[a.Lo] = a.Target
		}
	}
	if n := len(o.Attempts); n > 0 {
		last := o.Attempts[n-1]
		switch {
		case last.Calls == 0 && last.Hi >= last.Lo && o.Status != 503:
			r.Violation("pool:retry:no-server-status-not-503:"+pol, det(n-1))
			good = false
		case last.Calls == 1 && last.Answer == "ok" && (o.Status != 200 || o.Result != ""):
			r.Violation("pool:retry:forwarded-but-not-200:"+pol, det(n-1))
			good = false
		}
	} else {
		r.Count("retry_requests_without_attempt", 1)
	}
	return good
}

func c04RetryShape(o c04RetryOutcome) string {
	parts := []string{}
	for _, a := range o.Attempts {
		s := "N"
		if a.Calls > 0 {
			s = map[string]string{"neterr": "E", "failcode": "F", "ok": "O"}[a.Answer]
		}
		if i := strings.Index(a.Replaced, ":"); i > 0 {
			s += ">" + a.Replaced[:i]
		}
		parts = append(parts, s)
	}
	return strings.Join(parts, ",")
}

func c04RetryPlan(rng *rand.Rand, maxAttempts int, replace bool) []c04RetryStep {
	nfail := rng.Intn(maxAttempts + 1)
	if rng.Intn(3) == 0 && nfail == 0 {
		nfail = 1
	}
	plan := []c04RetryStep{}
	for j := 0; j < nfail; j++ {
		st := c04RetryStep{Answer: []string{"neterr", "failcode"}[rng.Intn(2)]}
		if replace {
			st.Replace = []string{"", "", "", "in-flight", "in-flight", "in-flight", "in-flight", "back-off", "back-off", "back-off"}[rng.Intn(10)]
		}
		plan = append(plan, st)
	}
	last := c04RetryStep{Answer: "ok"}
	if nfail >= maxAttempts {
		last = plan[len(plan)-1]
		last.Replace = ""
	}
	return append(plan, last)
}

func TestVerif_C04_RetryPool(t *testing.T) {
	r := kit.Start(t, "C04")
	defer r.Finish()
	r.Rule("requests that select more than once: pools as in TestVerif_C04_Pool (6 policies x static list of 0..4 members x serverTags x 6..13 discovery generations; half of the instances of a generation get a new address, as in a rolling deployment) with an injected retry policy (maxAttempts 2..4, waitDuration 50us..1ms, back-off none/random/exponential, randomizationFactor 0/0.5/1) and failureCodes [502]; a scripted transport fails the first 0..maxAttempts attempts of a request with a network error or a 502; every ATTEMPT is observed (begin/end through the per-attempt child span of the request's tracing span, target through the transport) and judged against the lists current during that attempt.  Phase scripted: the next generation is installed through useService by another goroutine at an exact point of the script - while a failing attempt is at the backend, or right after the attempt ended (retry back-off; also used when the attempt found no server) - so that each later attempt has exactly one current list; roundRobin floor/ceil and hash stickiness are counted over attempts per generation.  Phase concurrent: 4 requesters with failing attempts against one updater that replays the generations, per-attempt generation windows.  distinct = (policy, maxAttempts, phase, per-attempt sequence of no-server/error/failcode/ok with the replacement points)")
	r.Assume("as TestVerif_C04_Pool; the number of attempts and the back-off times are not judged here (C10); one child span of the request's span = one attempt of the pool")

	old := fnSendRequest
	fnSendRequest = c04RetryTransport
	defer func() { fnSendRequest = old }()

	total := r.N(108, 2520)
	for i := 0; i < total; i++ {
		if !r.Mine(i) {
			continue
		}
		rng := r.CaseRand(i)
		pc := c04GenPoolCase(rng, i)
		// rolling deployment: an instance of a generation may be a new one (new address).
		for g := range pc.Gens {
			for k := range pc.Gens[g] {
				if rng.Intn(2) == 0 {
					pc.Gens[g][k].Address = fmt.Sprintf("10.7.%d.%d", i%200, k+1+10*(1+rng.Intn(8)))
				}
			}
		}
		pc.Cfg.RetryPolicy = "c04retry"
		pc.Cfg.FailureCodes = []int{c04RetryFailCode}
		pc.prepare()
		maxAttempts := 2 + rng.Intn(3)
		policy := &resilience.RetryPolicy{
			MaxAttempts:         maxAttempts,
			WaitDuration:        []string{"50us", "100us", "300us", "1ms"}[rng.Intn(4)],
			BackOffPolicy:       []string{"", "random", "exponential"}[rng.Intn(3)],
			RandomizationFactor: []float64{0, 0.5, 1}[rng.Intn(3)],
		}
		r.Case(i, map[string]interface{}{"pool": pc.Cfg, "generations": pc.Gens, "retry": policy})
		p, err := c04NewProxy(&pc.Cfg)
		if err != nil {
			r.Count("pool_spec_rejected", 1)
			r.Note("generated retry pool rejected by validation: %v", err)
			continue
		}
		p.InjectResiliencePolicy(map[string]resilience.Policy{"c04retry": policy})
		r.Count("retry_pools_built", 1)
		sp := p.mainPool
		pol := c04PolicyName(pc.Cfg.Policy)
		keys := []c04Key{}
		for j := 0; j < 3; j++ {
			keys = append(keys, c04Key{IP: c04PublicIPs[rng.Intn(len(c04PublicIPs))], Header: c04HeaderVals[rng.Intn(len(c04HeaderVals))]})
		}
		if i < 1 {
			r.Sample(map[string]interface{}{"pool": pc.Cfg, "retry": policy, "generations": pc.Gens[:2], "reference_lists": pc.list[:3]})
		}

		var gStarted, gDone, seen int64
		var updPanic, updSite string

		// ---------------- phase scripted: replacement at exact points of a request ----------------
		cur := 0
		install := func(where string) int {
			if cur+1 >= len(pc.list) || updPanic != "" {
				return 0
			}
			g := cur + 1
			atomic.StoreInt64(&gStarted, int64(g))
			done := make(chan struct{})
			go func() { // the service watcher goroutine's job
				defer close(done)
				updPanic, updSite, _ = kit.Recover(func() { sp.useService(pc.m[g]) })
			}()
			<-done
			atomic.StoreInt64(&gDone, int64(g))
			cur = g
			return g
		}
		rrSel := map[int]map[string]int{} // roundRobin: selections per generation
		rrK := map[int]int{}
		good := true
		tailN := 0 // two more requests after the last generation was installed
		for n := 0; good && n < 3*len(pc.list)+2 && tailN < 2; n++ {
			if cur+1 >= len(pc.list) {
				tailN++
			}
			rq := &c04RetryReq{plan: c04RetryPlan(rng, maxAttempts, true), gStarted: &gStarted, gDone: &gDone, seen: &seen, install: install}
			o := c04RetryHandle(sp, rq, keys[rng.Intn(len(keys))], pc.Cfg.HeaderKey, rng)
			if !c04JudgeRetry(r, pc, o, "scripted") {
				good = false
				break
			}
			if pc.Cfg.Policy == "" || pc.Cfg.Policy == LoadBalancePolicyRoundRobin {
				for _, a := range o.Attempts {
					if a.Calls == 0 || a.Lo != a.Hi {
						continue
					}
					g := a.Lo
					if rrSel[g] == nil {
						rrSel[g] = map[string]int{}
					}
					rrSel[g][a.Target]++
					rrK[g]++
					cv := make([]int, 0, len(pc.list[g]))
					for _, s := range pc.list[g] {
						cv = append(cv, rrSel[g][s.URL])
					}
					if !c04Fair(cv, rrK[g]) {
						r.Violation("pool:retry:roundRobin-unfair-over-attempts:scripted", map[string]interface{}{"pool": pc.Cfg, "generation": g, "list": pc.list[g], "k": rrK[g], "counts": rrSel[g], "outcome": o})
						good = false
					}
				}
			}
			r.Cover(fmt.Sprintf("retry/%s/A%d/scripted/%s", pol, maxAttempts, c04RetryShape(o)))
		}
		if updPanic != "" {
			r.Violation("C04:pool-retry:"+pol+":useService-scripted:panic:"+updSite+":"+kit.MsgClass(updPanic), pc)
		}

		// ---------------- phase concurrent: 4 retrying requesters vs one updater ----------------
		if updPanic == "" { // judged on its own, whatever the scripted phase found
			sp.useService(nil) // back to generation 0 (static list) at quiescence
			atomic.StoreInt64(&gStarted, 0)
			atomic.StoreInt64(&gDone, 0)
			var stop int32
			logs := make([][]c04RetryOutcome, 4)
			var wg sync.WaitGroup
			for h := 0; h < len(logs); h++ {
				wg.Add(1)
				hr := rand.New(rand.NewSource(rng.Int63()))
				go func(h int, hr *rand.Rand) {
					defer wg.Done()
					for atomic.LoadInt32(&stop) == 0 {
						rq := &c04RetryReq{plan: c04RetryPlan(hr, maxAttempts, false), gStarted: &gStarted, gDone: &gDone, seen: &seen}
						logs[h] = append(logs[h], c04RetryHandle(sp, rq, keys[hr.Intn(len(keys))], pc.Cfg.HeaderKey, hr))
					}
				}(h, hr)
			}
			watchdog := false
			waitSeen := func(need int64) {
				base := atomic.LoadInt64(&seen)
				deadline := time.Now().Add(180 * time.Second)
				for atomic.LoadInt64(&seen)-base < need {
					if time.Now().After(deadline) {
						watchdog = true
						return
					}
					time.Sleep(20 * time.Microsecond)
				}
			}
			waitSeen(2)
			for g := 1; g < len(pc.list) && !watchdog && updPanic == ""; g++ {
				atomic.StoreInt64(&gStarted, int64(g))
				updPanic, updSite, _ = kit.Recover(func() { sp.useService(pc.m[g]) })
				atomic.StoreInt64(&gDone, int64(g))
				waitSeen([]int64{1, 1, 2, 3, 6}[rng.Intn(5)])
			}
			if !watchdog {
				waitSeen(4)
			}
			atomic.StoreInt32(&stop, 1)
			wg.Wait()
			if updPanic != "" {
				r.Violation("C04:pool-retry:"+pol+":useService-concurrent:panic:"+updSite+":"+kit.MsgClass(updPanic), pc)
			}
			if watchdog {
				r.Inconclusive("retry phase concurrent made no progress for 180 s (watchdog)")
			}
			shapes := map[string]bool{}
			for h := range logs {
				for _, o := range logs[h] {
					if c04JudgeRetry(r, pc, o, "concurrent") {
						w := 0
						for _, a := range o.Attempts {
							if a.Hi-a.Lo > w {
								w = a.Hi - a.Lo
							}
						}
						if w > 2 {
							w = 2
						}
						shapes[fmt.Sprintf("%s/w%d", c04RetryShape(o), w)] = true
					}
				}
			}
			ss := []string{}
			for s := range shapes {
				ss = append(ss, s)
			}
			sort.Strings(ss)
			for _, s := range ss {
				r.Cover(fmt.Sprintf("retry/%s/A%d/concurrent/%s", pol, maxAttempts, s))
			}
		}
		p.Close()
	}
	r.Require("retry_pools_built", 1)
	r.Require("retry_later_attempts", 1)
	r.Require("retry_later_attempt_after_in_flight_replacement", 1)
	r.Require("retry_later_attempt_after_back_off_replacement", 1)
	r.Require("retry_scripted_later_attempt_on_replaced_list", 1)
	r.Require("retry_concurrent_later_attempt_on_replaced_list", 1)
	r.Require("retry_forwarded_after_attempt_without_server", 1)
	r.Require("retry_no_server_after_forwarded_attempt", 1)
}
