//go:build verif

package proxy

// C04 (b): a real ServerPool (built through the real validation gate and Proxy.Init) whose
// member list is replaced through useService — exactly what the pool's service watcher
// goroutine does — while requests run through ServerPool.handle with the transport
// replaced (package variable fnSendRequest) by a recorder of the target URL.
//
// Reference model (from the property sentence, shares no code with pool.go):
//   list(g) = instances of generation g that carry one of the pool's serverTags
//             (URL scheme://address:port, discovery weight), or the static list when no
//             instance qualifies.
//   A request that ran while generations lo..hi were current must go to a member of
//   list(lo) u ... u list(hi); it may be failed for lack of a server (503, transport not
//   reached) only if one of these lists is empty, and must be if all of them are.

import (
	"fmt"
	"math/rand"
	"sort"
	"sync"
	"sync/atomic"
	"testing"
	"time"

	"github.com/megaease/easegress/pkg/object/serviceregistry"
	"verif.local/kit"
)

type c04Inst struct {
	ID      string   `json:"id"`
	Address string   `json:"address"`
	Port    uint16   `json:"port"`
	Scheme  string   `json:"scheme"`
	Tags    []string `json:"tags"`
	Weight  int      `json:"weight"`
}

func (in *c04Inst) url() string {
	s := in.Scheme
	if s == "" {
		s = "http"
	}
	return fmt.Sprintf("%s://%s:%d", s, in.Address, in.Port)
}

type c04PoolCase struct {
	Cfg  c04PoolCfg    `json:"pool"`
	Gens [][]c04Inst   `json:"generations"` // generation g>=1 is Gens[g-1]; generation 0 is the static list
	list [][]c04Srv    // reference lists, index = generation
	fb   []bool        // generation fell back to static
	m    []map[string]*serviceregistry.ServiceInstanceSpec
}

func c04HasTag(tags []string, want []string) bool {
	for _, w := range want {
		for _, t := range tags {
			if t == w {
				return true
			}
		}
	}
	return false
}

// c04RefList is the reference model of the current member list.
func c04RefList(cfg *c04PoolCfg, gen []c04Inst) ([]c04Srv, bool) {
	var out []c04Srv
	for i := range gen {
		if c04HasTag(gen[i].Tags, cfg.ServerTags) {
			out = append(out, c04Srv{URL: gen[i].url(), Weight: gen[i].Weight})
		}
	}
	if len(out) == 0 {
		return append([]c04Srv{}, cfg.Static...), true
	}
	return out, false
}

func c04GenPoolCase(rng *rand.Rand, i int) *c04PoolCase {
	pc := &c04PoolCase{}
	pol := c04Policies[i%len(c04Policies)]
	pc.Cfg.Policy = pol
	if pol == LoadBalancePolicyHeaderHash {
		pc.Cfg.HeaderKey = "X-Key"
	}
	pc.Cfg.ServiceName = "svc"
	pc.Cfg.ServerTags = [][]string{{"v2"}, {"v2", "blue"}, {"blue"}, {"green"}}[rng.Intn(4)]
	// static list: 0..4 members, weights none or all positive (what validation accepts)
	ns := []int{0, 1, 2, 3, 4, 2, 0}[(i/len(c04Policies))%7]
	pc.Cfg.WithWeights = ns > 0 && rng.Intn(2) == 0
	for j := 0; j < ns; j++ {
		u := fmt.Sprintf("http://10.8.%d.%d:8080", i%200, j+1)
		if rng.Intn(4) == 0 {
			u = fmt.Sprintf("http://static-%d.svc.local:8080", j)
		}
		w := 0
		if pc.Cfg.WithWeights {
			w = 1 + rng.Intn(100)
		}
		pc.Cfg.Static = append(pc.Cfg.Static, c04Srv{URL: u, Weight: w})
	}
	tagChoices := [][]string{nil, {"v1"}, {"v2"}, {"blue", "x"}, {"x"}, {"v2", "blue"}, {"v2"}, {"blue"}}
	ngen := 6 + rng.Intn(8)
	for g := 0; g < ngen; g++ {
		var gen []c04Inst
		shape := rng.Intn(10)
		ni := 0
		switch {
		case shape == 0: // empty instance map
		case shape == 1: // only untagged / foreign-tagged instances
			ni = 1 + rng.Intn(3)
		default:
			ni = 1 + rng.Intn(6)
		}
		wkind := rng.Intn(4) // 0 none, 1 positive, 2 some zero, 3 equal
		eq := 1 + rng.Intn(100)
		for j := 0; j < ni; j++ {
			in := c04Inst{ID: fmt.Sprintf("i%d", j), Address: fmt.Sprintf("10.7.%d.%d", i%200, j+1), Port: uint16(9000 + j)}
			if rng.Intn(5) == 0 {
				in.Scheme = "https"
			}
			if shape == 1 {
				in.Tags = [][]string{nil, {"v1"}, {"x"}}[rng.Intn(3)]
			} else {
				in.Tags = tagChoices[rng.Intn(len(tagChoices))]
			}
			switch wkind {
			case 1:
				in.Weight = 1 + rng.Intn(100)
			case 2:
				if rng.Intn(2) == 0 {
					in.Weight = 1 + rng.Intn(100)
				}
			case 3:
				in.Weight = eq
			}
			gen = append(gen, in)
		}
		pc.Gens = append(pc.Gens, gen)
	}
	return pc
}

func (pc *c04PoolCase) prepare() {
	pc.list = [][]c04Srv{append([]c04Srv{}, pc.Cfg.Static...)}
	pc.fb = []bool{true}
	pc.m = []map[string]*serviceregistry.ServiceInstanceSpec{nil}
	for _, gen := range pc.Gens {
		l, fb := c04RefList(&pc.Cfg, gen)
		pc.list = append(pc.list, l)
		pc.fb = append(pc.fb, fb)
		m := map[string]*serviceregistry.ServiceInstanceSpec{}
		for k := range gen {
			in := gen[k]
			s := &serviceregistry.ServiceInstanceSpec{RegistryName: "reg", ServiceName: "svc", InstanceID: in.ID,
				Address: in.Address, Port: in.Port, Scheme: in.Scheme, Tags: append([]string{}, in.Tags...), Weight: in.Weight}
			m[s.Key()] = s
		}
		pc.m = append(pc.m, m)
	}
}

func c04Total(l []c04Srv) int {
	t := 0
	for _, s := range l {
		t += s.Weight
	}
	return t
}

func c04Find(l []c04Srv, url string) (c04Srv, bool) {
	for _, s := range l {
		if s.URL == url {
			return s, true
		}
	}
	return c04Srv{}, false
}

// c04Judge checks one outcome against the lists of generations lo..hi.
func c04Judge(r *kit.Run, pc *c04PoolCase, o c04Outcome, lo, hi int, phase string) bool {
	pol := c04PolicyName(pc.Cfg.Policy)
	someEmpty, allEmpty, zeroTotal := false, true, false
	for g := lo; g <= hi; g++ {
		if len(pc.list[g]) == 0 {
			someEmpty = true
		} else {
			allEmpty = false
			if c04Total(pc.list[g]) == 0 {
				zeroTotal = true
			}
		}
	}
	det := func() map[string]interface{} {
		lists := map[string][]c04Srv{}
		for g := lo; g <= hi; g++ {
			lists[fmt.Sprint(g)] = pc.list[g]
		}
		return map[string]interface{}{"pool": pc.Cfg, "window": []int{lo, hi}, "lists": lists, "outcome": o, "phase": phase}
	}
	if o.Panic != "" {
		shape := "other-input"
		if pc.Cfg.Policy == LoadBalancePolicyWeightedRandom && zeroTotal {
			shape = "zero-total-weight"
			r.Count("pool_weightedRandom_zero_total_panics", 1)
		}
		r.Violation(fmt.Sprintf("C04:pool:%s:%s:panic:%s:%s", pol, shape, o.PanicAt, kit.MsgClass(o.Panic)), det())
		return false
	}
	if o.Calls == 0 {
		if !someEmpty {
			r.Violation("pool:failed-without-empty-list:"+pol+":"+phase, det())
			return false
		}
		if o.Status != 503 {
			r.Violation("pool:no-server-status-not-503:"+pol, det())
			return false
		}
		r.Count("pool_empty_list_503", 1)
		return true
	}
	if o.Calls != 1 {
		r.Violation("pool:transport-called-more-than-once:"+pol, det())
		return false
	}
	if allEmpty {
		r.Violation("pool:forwarded-although-list-empty:"+pol+":"+phase, det())
		return false
	}
	ok, okWeight := false, false
	for g := lo; g <= hi; g++ {
		if s, in := c04Find(pc.list[g], o.Target); in {
			ok = true
			if s.Weight > 0 || c04Total(pc.list[g]) == 0 {
				okWeight = true
			}
		}
	}
	if !ok {
		r.Violation("pool:target-not-in-current-list:"+pol+":"+phase, det())
		return false
	}
	if pc.Cfg.Policy == LoadBalancePolicyWeightedRandom && !okWeight {
		r.Violation("pool:weightedRandom-picked-zero-weight:"+phase, det())
		return false
	}
	if o.Status != 200 || o.Result != "" {
		r.Violation("pool:forwarded-but-not-200:"+pol, det())
		return false
	}
	return true
}

func TestVerif_C04_Pool(t *testing.T) {
	r := kit.Start(t, "C04")
	defer r.Finish()
	r.Rule("pools (6 policies x static list of 0..4 members with/without weights x serverTags) accepted by filters.NewSpec and initialised by Proxy.Init; 6..13 discovery generations each (empty map, only untagged/foreign-tagged instances, 1..6 instances with tag sets over {v1,v2,blue,x}, discovery weights none/positive/some zero/equal, http/https); phase 1 applies each generation through useService and sends 2n+3 requests at quiescence (exact list, fairness, stickiness); phase 2 replays the generations from one goroutine while 8 goroutines call ServerPool.handle and records the generation window of every request; distinct = (policy, static size, list kind per generation, window width)")
	r.Assume("the pool's serverTags are non-empty (what 'qualifies' means without tags is left open by the property); instance URLs are unique within a generation and disjoint from the static URLs; useService is called from one goroutine at a time (as the watcher does)")

	old := fnSendRequest
	fnSendRequest = c04Transport
	defer func() { fnSendRequest = old }()

	total := r.N(252, 3360)
	for i := 0; i < total; i++ {
		if !r.Mine(i) {
			continue
		}
		rng := r.CaseRand(i)
		pc := c04GenPoolCase(rng, i)
		pc.prepare()
		r.Case(i, pc)
		if i < 2 {
			r.Sample(map[string]interface{}{"pool": pc.Cfg, "generations": pc.Gens[:2], "reference_lists": pc.list[:3]})
		}
		p, err := c04NewProxy(&pc.Cfg)
		if err != nil {
			r.Count("pool_spec_rejected", 1)
			r.Note("generated pool rejected by validation: %v", err)
			continue
		}
		r.Count("pools_built", 1)
		sp := p.mainPool
		pol := c04PolicyName(pc.Cfg.Policy)
		keys := []c04Key{}
		for j := 0; j < 4; j++ {
			keys = append(keys, c04Key{IP: c04PublicIPs[rng.Intn(len(c04PublicIPs))], Header: c04HeaderVals[rng.Intn(len(c04HeaderVals))]})
		}
		keyOf := func(k c04Key) string {
			if pc.Cfg.Policy == LoadBalancePolicyIPHash {
				return k.IP
			}
			return k.Header
		}

		// ---------------- phase 1: sequential, exact ----------------
		for g := 0; g < len(pc.list); g++ {
			if g > 0 {
				panicked := r.Guard("C04:pool:"+pol+":useService", pc, func() { sp.useService(pc.m[g]) })
				if panicked {
					break
				}
			}
			L := pc.list[g]
			kindOf := "tagged"
			switch {
			case len(L) == 0:
				kindOf = "empty"
			case pc.fb[g]:
				kindOf = "fallback"
				if g > 0 {
					r.Count("pool_fallback_generations", 1)
				}
			default:
				r.Count("pool_tagged_generations", 1)
			}
			nreq := 2*len(L) + 3
			counts := map[string]int{}
			sticky := map[string]string{}
			okGen := true
			for k := 1; k <= nreq && okGen; k++ {
				kk := keys[rng.Intn(len(keys))]
				o := c04Handle(sp, kk, pc.Cfg.HeaderKey, rng)
				r.Eval(1)
				if !c04Judge(r, pc, o, g, g, "quiescent") {
					okGen = false
					break
				}
				if o.Calls == 0 {
					continue
				}
				counts[o.Target]++
				switch pc.Cfg.Policy {
				case "", LoadBalancePolicyRoundRobin:
					cv := make([]int, 0, len(L))
					for _, s := range L {
						cv = append(cv, counts[s.URL])
					}
					if !c04Fair(cv, k) {
						r.Violation("pool:roundRobin-unfair:quiescent", map[string]interface{}{"pool": pc.Cfg, "generation": g, "list": L, "k": k, "counts": counts})
						okGen = false
					}
				case LoadBalancePolicyIPHash, LoadBalancePolicyHeaderHash:
					if prev, ok := sticky[keyOf(kk)]; ok && prev != o.Target {
						r.Violation("pool:"+pol+"-not-sticky:quiescent", map[string]interface{}{"pool": pc.Cfg, "generation": g, "list": L, "key": kk, "targets": []string{prev, o.Target}})
						okGen = false
					}
					sticky[keyOf(kk)] = o.Target
				}
			}
			if okGen {
				r.Cover(fmt.Sprintf("pool/%s/static%d/%s/n%d/seq", pol, len(pc.Cfg.Static), kindOf, len(L)))
			}
		}

		// ---------------- phase 2: 8 handlers vs one updater ----------------
		sp.useService(nil) // back to generation 0 (static list) at quiescence
		var gStarted, gDone, reqs int64
		var stop int32
		logs := make([][]c04Outcome, 8)
		var wg sync.WaitGroup
		for h := 0; h < 8; h++ {
			wg.Add(1)
			hr := rand.New(rand.NewSource(rng.Int63()))
			go func(h int, hr *rand.Rand) {
				defer wg.Done()
				for atomic.LoadInt32(&stop) == 0 {
					ki := hr.Intn(len(keys))
					lo := int(atomic.LoadInt64(&gDone))
					o := c04Handle(sp, keys[ki], pc.Cfg.HeaderKey, hr)
					hi := int(atomic.LoadInt64(&gStarted))
					o.Lo, o.Hi, o.KeyIndex = lo, hi, ki
					logs[h] = append(logs[h], o)
					atomic.AddInt64(&reqs, 1)
				}
			}(h, hr)
		}
		watchdog := false
		waitReqs := func(need int64) {
			base := atomic.LoadInt64(&reqs)
			deadline := time.Now().Add(180 * time.Second)
			for atomic.LoadInt64(&reqs)-base < need {
				if time.Now().After(deadline) {
					watchdog = true
					return
				}
				time.Sleep(50 * time.Microsecond)
			}
		}
		waitReqs(4)
		var updPanic, updSite string
		for g := 1; g < len(pc.list) && !watchdog && updPanic == ""; g++ {
			atomic.StoreInt64(&gStarted, int64(g))
			updPanic, updSite, _ = kit.Recover(func() { sp.useService(pc.m[g]) })
			atomic.StoreInt64(&gDone, int64(g))
			waitReqs([]int64{0, 0, 1, 3, 9, 20}[rng.Intn(6)])
		}
		if !watchdog {
			waitReqs(8)
		}
		atomic.StoreInt32(&stop, 1)
		wg.Wait()
		if updPanic != "" {
			r.Violation("C04:pool:"+pol+":useService-concurrent:panic:"+updSite+":"+kit.MsgClass(updPanic), pc)
		}
		if watchdog {
			r.Inconclusive("phase 2 made no progress for 180 s (watchdog)")
		}
		widths := map[int]bool{}
		good := true
		for h := range logs {
			for _, o := range logs[h] {
				r.Eval(1)
				if o.Hi > o.Lo {
					r.Count("pool_overlap_windows", 1)
				}
				widths[o.Hi-o.Lo] = true
				if !c04Judge(r, pc, o, o.Lo, o.Hi, "concurrent") {
					good = false
				}
			}
		}
		if good {
			ws := []int{}
			for w := range widths {
				ws = append(ws, w)
			}
			sort.Ints(ws)
			r.Cover(fmt.Sprintf("pool/%s/static%d/conc/widths%v", pol, len(pc.Cfg.Static), ws))
		}
		p.Close()
	}
	if n := atomic.LoadInt64(&c04Unknown); n > 0 {
		r.Note("transport saw %d requests without a harness id", n)
	}
	r.Require("pools_built", 1)
	r.Require("pool_overlap_windows", 1)
	r.Require("pool_fallback_generations", 1)
	r.Require("pool_tagged_generations", 1)
	r.Require("pool_empty_list_503", 1)
}
