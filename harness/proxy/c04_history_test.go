//go:build verif

package proxy

// C04, discovery report HISTORIES (added after seed C04g).
//
// The property speaks of "the tagged instances LAST reported by service discovery" and of
// "weights set by discovery".  A registry reports the complete instance list on every sync,
// so the typical history is not a sequence of unrelated lists (what TestVerif_C04_Pool
// generates) but a sequence in which consecutive reports differ in ONE attribute — or in
// nothing: only the weights (an instance drained to 0, raised from 0, weights rotated), only
// the tags, only the scheme / port / address of one instance, only the order or the ids of
// the instances, the identical report repeated, one instance added or removed.
//
// Every report is handed to the real ServerPool.useService (what the watcher goroutine does)
// and afterwards the pool must behave as the reference model says for THAT report — never
// for an earlier one:
//   list(g) = instances of report g carrying one of the pool's serverTags (URL + discovery
//             weight), or the static list when none qualifies;
//   the target of every request (through ServerPool.handle with the recording transport) and
//   every server returned by sp.LoadBalancer().ChooseServer is a member of list(g); 503 iff
//   list(g) is empty; weightedRandom never returns a member whose weight in list(g) is 0 while
//   list(g) has a positive weight; roundRobin is floor/ceil fair and ipHash/headerHash are
//   sticky within the report.
// Phase 2 replays the same history against 4 concurrent requesters (generation windows as in
// TestVerif_C04_Pool), which also puts an in-place update of a live balancer under the race
// detector.

import (
	"fmt"
	"math/rand"
	"sort"
	"strings"
	"sync"
	"sync/atomic"
	"testing"
	"time"

	"verif.local/kit"
)

var c04HistKinds = []string{"identical", "weights-only", "tags-only", "scheme-only", "port-only", "address-only", "order-only", "ids-only", "add-instance", "remove-instance"}
var c04HistWeightKinds = []string{"drain-one", "raise-one", "rotate", "rerandom", "all-zero", "one-positive"}

type c04HistCase struct {
	c04PoolCase
	Steps []string `json:"steps"` // Steps[g-1]: how report g was derived from report g-1 ("base" for the first)
}

func c04HistKindOf(step string) string {
	if j := strings.Index(step, "/"); j >= 0 {
		return step[:j]
	}
	return step
}

func c04GenHistCase(rng *rand.Rand, i int) *c04HistCase {
	hc := &c04HistCase{}
	pol := c04Policies[i%len(c04Policies)]
	hc.Cfg.Policy = pol
	if pol == LoadBalancePolicyHeaderHash {
		hc.Cfg.HeaderKey = "X-Key"
	}
	hc.Cfg.ServiceName = "svc"
	hc.Cfg.ServerTags = [][]string{{"v2"}, {"v2", "blue"}, {"blue"}}[rng.Intn(3)]
	ns := rng.Intn(4)
	hc.Cfg.WithWeights = ns > 0 && rng.Intn(2) == 0
	for j := 0; j < ns; j++ {
		w := 0
		if hc.Cfg.WithWeights {
			w = 1 + rng.Intn(100)
		}
		hc.Cfg.Static = append(hc.Cfg.Static, c04Srv{URL: fmt.Sprintf("http://10.6.%d.%d:8080", i%200, j+1), Weight: w})
	}

	tagSets := [][]string{nil, {"v1"}, {"v2"}, {"blue"}, {"x"}, {"v2", "blue"}, {"blue", "x"}, {"v1", "v2"}, {"green"}, {"x", "v2", "y"}}
	pickTags := func(qualifying bool) []string {
		for {
			ts := tagSets[rng.Intn(len(tagSets))]
			if c04HasTag(ts, hc.Cfg.ServerTags) == qualifying {
				return ts
			}
		}
	}
	weight := func() int {
		if rng.Intn(3) == 0 {
			return 0
		}
		return 1 + rng.Intn(100)
	}
	next := 0
	fresh := func() c04Inst {
		next++
		in := c04Inst{ID: fmt.Sprintf("i%d", next), Address: fmt.Sprintf("10.5.%d.%d", i%200, next), Port: uint16(9000 + next)}
		if rng.Intn(5) == 0 {
			in.Scheme = "https"
		}
		in.Tags = pickTags(rng.Intn(4) != 0)
		return in
	}

	// base report: 2..5 instances, most of them qualifying
	var cur []c04Inst
	ni := 2 + rng.Intn(4)
	wk := []string{"positive", "positive", "somezero", "none", "equal"}[rng.Intn(5)]
	eq := 1 + rng.Intn(100)
	for j := 0; j < ni; j++ {
		in := fresh()
		switch wk {
		case "positive":
			in.Weight = 1 + rng.Intn(100)
		case "somezero":
			in.Weight = weight()
		case "equal":
			in.Weight = eq
		}
		cur = append(cur, in)
	}
	hc.Gens = append(hc.Gens, cur)
	hc.Steps = append(hc.Steps, "base")

	mutate := func(kind string, sub int) string {
		if len(cur) == 0 && kind != "identical" && kind != "add-instance" {
			kind = "add-instance"
		}
		switch kind {
		case "identical", "order-only":
			if kind == "order-only" {
				rng.Shuffle(len(cur), func(a, b int) { cur[a], cur[b] = cur[b], cur[a] })
			}
			return kind
		case "weights-only":
			var pos, zero []int
			for j := range cur {
				if cur[j].Weight > 0 {
					pos = append(pos, j)
				} else {
					zero = append(zero, j)
				}
			}
			sk := c04HistWeightKinds[sub%len(c04HistWeightKinds)]
			switch sk {
			case "drain-one":
				if len(pos) == 0 {
					sk = "rerandom"
				} else {
					cur[pos[rng.Intn(len(pos))]].Weight = 0
				}
			case "raise-one":
				if len(zero) == 0 {
					sk = "rerandom"
				} else {
					cur[zero[rng.Intn(len(zero))]].Weight = 1 + rng.Intn(100)
				}
			case "rotate":
				w0 := cur[0].Weight
				for j := 0; j+1 < len(cur); j++ {
					cur[j].Weight = cur[j+1].Weight
				}
				cur[len(cur)-1].Weight = w0
			case "all-zero":
				for j := range cur {
					cur[j].Weight = 0
				}
			case "one-positive":
				for j := range cur {
					cur[j].Weight = 0
				}
				cur[rng.Intn(len(cur))].Weight = 1 + rng.Intn(100)
			}
			if sk == "rerandom" {
				for j := range cur {
					cur[j].Weight = weight()
				}
			}
			return kind + "/" + sk
		case "tags-only":
			j := rng.Intn(len(cur))
			q := c04HasTag(cur[j].Tags, hc.Cfg.ServerTags)
			if rng.Intn(2) == 0 {
				cur[j].Tags = pickTags(!q)
				return kind + "/flip"
			}
			cur[j].Tags = pickTags(q)
			return kind + "/keep"
		case "scheme-only":
			j := rng.Intn(len(cur))
			switch cur[j].Scheme {
			case "":
				cur[j].Scheme = []string{"https", "https", "http"}[rng.Intn(3)] // "" -> "http" leaves the URL as it is
			case "http":
				cur[j].Scheme = "https"
			default:
				cur[j].Scheme = ""
			}
			return kind
		case "port-only":
			next++
			cur[rng.Intn(len(cur))].Port = uint16(9000 + next)
			return kind
		case "address-only":
			next++
			cur[rng.Intn(len(cur))].Address = fmt.Sprintf("10.5.%d.%d", i%200, next)
			return kind
		case "ids-only":
			for j := range cur {
				if j == 0 || rng.Intn(2) == 0 {
					next++
					cur[j].ID = fmt.Sprintf("i%d", next)
				}
			}
			return kind
		case "remove-instance":
			j := rng.Intn(len(cur))
			cur = append(cur[:j], cur[j+1:]...)
			return kind
		default: // add-instance
			in := fresh()
			in.Weight = weight()
			cur = append(cur, in)
			return "add-instance"
		}
	}

	// The first mutation walks policy x kind systematically (and the weights-only sub-kinds);
	// the others are drawn, weights-only three times (weightedRandom pools: seven times) as often as
	// each other kind.
	draw := append(append([]string{}, c04HistKinds...), "weights-only", "weights-only")
	if pol == LoadBalancePolicyWeightedRandom { // the one policy whose behaviour depends on the weights
		draw = append(draw, "weights-only", "weights-only", "weights-only", "weights-only")
	}
	nsteps := 5 + rng.Intn(4)
	for s := 0; s < nsteps; s++ {
		cur = append([]c04Inst{}, cur...)
		kind, sub := draw[rng.Intn(len(draw))], rng.Intn(len(c04HistWeightKinds))
		if s == 0 {
			c := i / len(c04Policies)
			kind = c04HistKinds[c%len(c04HistKinds)]
			sub = c / len(c04HistKinds)
		}
		hc.Steps = append(hc.Steps, mutate(kind, sub))
		hc.Gens = append(hc.Gens, cur)
	}
	return hc
}

// c04HistChange classifies, on the REFERENCE lists, what report g changed against report g-1.
func c04HistChange(pc *c04PoolCase, g int) (class string, drained, raised bool) {
	prev, L := pc.list[g-1], pc.list[g]
	switch {
	case len(L) == 0:
		return "empty", false, false
	case pc.fb[g] && pc.fb[g-1]:
		return "fallback-kept", false, false
	case pc.fb[g]:
		return "to-fallback", false, false
	case pc.fb[g-1]:
		return "from-fallback", false, false
	}
	if len(prev) != len(L) {
		return "members-changed", false, false
	}
	changed := false
	for _, s := range L {
		p, ok := c04Find(prev, s.URL)
		if !ok {
			return "members-changed", false, false
		}
		if p.Weight != s.Weight {
			changed = true
		}
		if p.Weight > 0 && s.Weight == 0 {
			drained = true
		}
		if p.Weight == 0 && s.Weight > 0 {
			raised = true
		}
	}
	if !changed {
		return "same-list", false, false
	}
	if c04Total(L) == 0 {
		return "weights-all-zero", false, false
	}
	switch {
	case drained && raised:
		return "weights-drained+raised", true, true
	case drained:
		return "weights-drained", true, false
	case raised:
		return "weights-raised", false, true
	}
	return "weights-changed", false, false
}

func TestVerif_C04_History(t *testing.T) {
	r := kit.Start(t, "C04")
	defer r.Finish()
	r.Rule("discovery report histories: pools (6 policies x static list of 0..3 members x serverTags) fed a base report of 2..5 instances and then 5..8 reports each derived from the previous one by ONE change: identical repeat, weights only (one drained to 0, one raised from 0, rotated, re-drawn, all zero, one positive), tags only (qualification flipped or kept), scheme only, port only, address only, order only, ids only, one instance added / removed; the first change walks policy x kind systematically. After each report applied through useService: 2n+3 requests through ServerPool.handle and 2n+2 (300 for a weightedRandom list mixing zero and positive weights) selections through sp.LoadBalancer().ChooseServer, judged against the list of THAT report (membership, 503 iff empty, zero weight of the last report never chosen, fairness, stickiness); then the history is replayed against 4 concurrent requesters with generation windows; distinct = (policy, kind of change, what it changed in the reference list, list size)")
	r.Assume("as TestVerif_C04_Pool: serverTags non-empty, instance URLs unique within a report and disjoint from the static URLs, useService called from one goroutine at a time; stickiness is only demanded between two reports, not across a report (even an identical one)")

	old := fnSendRequest
	fnSendRequest = c04Transport
	defer func() { fnSendRequest = old }()

	total := r.N(180, 2400)
	for i := 0; i < total; i++ {
		if !r.Mine(i) {
			continue
		}
		rng := r.CaseRand(i)
		hc := c04GenHistCase(rng, i)
		pc := &hc.c04PoolCase
		pc.prepare()
		r.Case(i, hc)
		if i < 2 {
			r.Sample(map[string]interface{}{"pool": pc.Cfg, "steps": hc.Steps[:3], "reports": pc.Gens[:3], "reference_lists": pc.list[:4]})
		}
		p, err := c04NewProxy(&pc.Cfg)
		if err != nil {
			r.Count("pool_spec_rejected", 1)
			r.Note("generated pool rejected by validation: %v", err)
			continue
		}
		r.Count("hist_pools_built", 1)
		sp := p.mainPool
		pol := c04PolicyName(pc.Cfg.Policy)
		weighted := pc.Cfg.Policy == LoadBalancePolicyWeightedRandom
		keys := []c04Key{}
		for j := 0; j < 4; j++ {
			keys = append(keys, c04Key{IP: c04PublicIPs[rng.Intn(len(c04PublicIPs))], Header: c04HeaderVals[rng.Intn(len(c04HeaderVals))]})
		}
		keyOf := func(k c04Key) string {
			if pc.Cfg.Policy == LoadBalancePolicyIPHash {
				return k.IP
			}
			return k.Header
		}

		// ---------------- phase 1: report by report, at quiescence ----------------
		for g := 1; g < len(pc.list); g++ {
			step := hc.Steps[g-1]
			kind := c04HistKindOf(step)
			phase := "history:" + kind
			if r.Guard("C04:pool:"+pol+":useService:"+phase, hc, func() { sp.useService(pc.m[g]) }) {
				break
			}
			L := pc.list[g]
			class, drained, raised := c04HistChange(pc, g)
			hasZero, totalW := false, c04Total(L)
			for _, s := range L {
				if s.Weight == 0 {
					hasZero = true
				}
			}
			det := func(extra map[string]interface{}) map[string]interface{} {
				m := map[string]interface{}{"pool": pc.Cfg, "report": g, "step": step, "change": class,
					"this_report": pc.Gens[g-1], "previous_list": pc.list[g-1], "list": L}
				if g >= 2 {
					m["previous_report"] = pc.Gens[g-2]
				}
				for k, v := range extra {
					m[k] = v
				}
				return m
			}
			okGen := true
			counts := map[string]int{}
			sticky := map[string]string{}
			nreq := 2*len(L) + 3
			for k := 1; k <= nreq && okGen; k++ {
				kk := keys[rng.Intn(len(keys))]
				o := c04Handle(sp, kk, pc.Cfg.HeaderKey, rng)
				r.Eval(1)
				if !c04Judge(r, pc, o, g, g, phase) {
					okGen = false
					break
				}
				if o.Calls == 0 {
					continue
				}
				counts[o.Target]++
				switch pc.Cfg.Policy {
				case "", LoadBalancePolicyRoundRobin:
					cv := make([]int, 0, len(L))
					for _, s := range L {
						cv = append(cv, counts[s.URL])
					}
					if !c04Fair(cv, k) {
						r.Violation("pool:roundRobin-unfair:"+phase, det(map[string]interface{}{"k": k, "counts": counts}))
						okGen = false
					}
				case LoadBalancePolicyIPHash, LoadBalancePolicyHeaderHash:
					if prev, ok := sticky[keyOf(kk)]; ok && prev != o.Target {
						r.Violation("pool:"+pol+"-not-sticky:"+phase, det(map[string]interface{}{"key": kk, "targets": []string{prev, o.Target}}))
						okGen = false
					}
					sticky[keyOf(kk)] = o.Target
				}
			}
			// selections straight from the pool's current balancer
			if okGen {
				nd := 2*len(L) + 2
				if weighted && totalW > 0 && hasZero {
					nd = 300
				}
				lb := sp.LoadBalancer()
				req := c04NewRequest(keys[0], pc.Cfg.HeaderKey, rng.Intn(3), 1024+rng.Intn(60000), "")
				var bad, badURL string
				if r.Guard("C04:pool:"+pol+":choose:"+phase, hc, func() {
					for k := 0; k < nd && bad == ""; k++ {
						s := lb.ChooseServer(req)
						switch {
						case s == nil && len(L) > 0:
							bad = "pool:no-server-without-empty-list:" + pol + ":" + phase
						case s == nil:
						case len(L) == 0:
							bad, badURL = "pool:server-from-empty-list:"+pol+":"+phase, s.URL
						default:
							m, in := c04Find(L, s.URL)
							if !in {
								bad, badURL = "pool:target-not-in-current-list:"+pol+":"+phase, s.URL
							} else if weighted && totalW > 0 && m.Weight == 0 {
								bad, badURL = "pool:weightedRandom-picked-zero-weight:"+phase, s.URL
							}
						}
					}
					r.Eval(nd)
				}) {
					okGen = false
				} else if bad != "" {
					r.Violation(bad, det(map[string]interface{}{"via": "sp.LoadBalancer().ChooseServer", "picked": badURL}))
					okGen = false
				}
			}
			if !okGen {
				continue
			}
			r.Count("hist_reports_"+kind, 1)
			switch {
			case class == "same-list":
				r.Count("hist_same_list_reports", 1)
			case strings.HasPrefix(class, "weights-"):
				r.Count("hist_same_members_weights_changed", 1)
			default:
				r.Count("hist_membership_changed_reports", 1)
			}
			if weighted && drained {
				r.Count("hist_weightedRandom_drain_checked", 1) // same members, one went >0 -> 0, another is positive
			}
			if weighted && raised {
				r.Count("hist_weightedRandom_raise_checked", 1)
			}
			r.Cover(fmt.Sprintf("hist/%s/%s/%s/n%d", pol, kind, class, len(L)))
		}

		// ---------------- phase 2: the same history against 4 requesters ----------------
		sp.useService(nil) // generation 0 (static list) at quiescence
		var gStarted, gDone, reqs int64
		var stop int32
		logs := make([][]c04Outcome, 4)
		var wg sync.WaitGroup
		for h := range logs {
			wg.Add(1)
			hr := rand.New(rand.NewSource(rng.Int63()))
			go func(h int, hr *rand.Rand) {
				defer wg.Done()
				for atomic.LoadInt32(&stop) == 0 {
					ki := hr.Intn(len(keys))
					lo := int(atomic.LoadInt64(&gDone))
					o := c04Handle(sp, keys[ki], pc.Cfg.HeaderKey, hr)
					hi := int(atomic.LoadInt64(&gStarted))
					o.Lo, o.Hi, o.KeyIndex = lo, hi, ki
					logs[h] = append(logs[h], o)
					atomic.AddInt64(&reqs, 1)
				}
			}(h, hr)
		}
		watchdog := false
		waitReqs := func(need int64) {
			base := atomic.LoadInt64(&reqs)
			deadline := time.Now().Add(180 * time.Second)
			for atomic.LoadInt64(&reqs)-base < need {
				if time.Now().After(deadline) {
					watchdog = true
					return
				}
				time.Sleep(50 * time.Microsecond)
			}
		}
		waitReqs(4)
		var updPanic, updSite string
		for g := 1; g < len(pc.list) && !watchdog && updPanic == ""; g++ {
			atomic.StoreInt64(&gStarted, int64(g))
			updPanic, updSite, _ = kit.Recover(func() { sp.useService(pc.m[g]) })
			atomic.StoreInt64(&gDone, int64(g))
			waitReqs([]int64{0, 1, 3, 9, 16}[rng.Intn(5)])
		}
		if !watchdog {
			waitReqs(8)
		}
		atomic.StoreInt32(&stop, 1)
		wg.Wait()
		if updPanic != "" {
			r.Violation("C04:pool:"+pol+":useService-concurrent:history:panic:"+updSite+":"+kit.MsgClass(updPanic), hc)
		}
		if watchdog {
			r.Inconclusive("history phase 2 made no progress for 180 s (watchdog)")
		}
		widths := map[int]bool{}
		good := true
		for h := range logs {
			for _, o := range logs[h] {
				r.Eval(1)
				if o.Hi > o.Lo {
					r.Count("hist_overlap_windows", 1)
				} else if o.Lo > 0 {
					r.Count("hist_exact_windows_concurrent", 1)
				}
				widths[o.Hi-o.Lo] = true
				if !c04Judge(r, pc, o, o.Lo, o.Hi, "history:concurrent") {
					good = false
				}
			}
		}
		if good {
			ws := []int{}
			for w := range widths {
				ws = append(ws, w)
			}
			sort.Ints(ws)
			r.Cover(fmt.Sprintf("hist/%s/conc/widths%v", pol, ws))
		}
		p.Close()
	}
	r.Require("hist_pools_built", 1)
	for _, k := range c04HistKinds {
		r.Require("hist_reports_"+k, 1)
	}
	r.Require("hist_same_list_reports", 1)
	r.Require("hist_same_members_weights_changed", 1)
	r.Require("hist_membership_changed_reports", 1)
	r.Require("hist_weightedRandom_drain_checked", 1)
	r.Require("hist_weightedRandom_raise_checked", 1)
	r.Require("hist_overlap_windows", 1)
	r.Require("hist_exact_windows_concurrent", 1)
}
