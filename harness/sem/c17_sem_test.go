//go:build verif

package sem

// C17 (HTTP half, semaphore level): Semaphore alone as a counting model.  64 workers
// Acquire / AcquireWithContext (some contexts are cancelled while queued) / hold / Release
// while a controller runs SetMaxCount scripts.  holders = successful acquires minus releases,
// maintained under the monitor's lock, asserted at every successful acquire against the
// capacity in force (same definition as in harness/limitlistener/c17_limit_test.go: max of the
// capacities involved while a change's done channel has not been observed closed, the last
// capacity otherwise).  At the final quiescent point the free capacity is audited exactly with
// the underlying Weighted.TryAcquire.

import (
	"context"
	"fmt"
	"math/rand"
	"os"
	"runtime"
	"sync"
	"sync/atomic"
	"testing"
	"time"

	"verif.local/kit"
)

var c17Watchdog = func() time.Duration {
	if v, err := time.ParseDuration(os.Getenv("C17_WATCHDOG")); err == nil && v > 0 {
		return v
	}
	return 60 * time.Second
}()

var c17Stalls int32

func c17WD() time.Duration {
	if atomic.LoadInt32(&c17Stalls) > 0 {
		return 5 * time.Second
	}
	return c17Watchdog
}

type c17Step struct {
	Cap  int  `json:"cap"`
	Wait bool `json:"wait"`
	Gap  int  `json:"gap"`
	// saturated scripts only (issued back-to-back, nobody waits for a done channel, nobody
	// releases): scheduler yields before the step / let an applied grow be taken up first
	Yield  int  `json:"yield,omitempty"`
	Settle bool `json:"settle,omitempty"`
}

type c17Script struct {
	Kind    string    `json:"kind"`
	Cap0    int       `json:"cap0"`
	Workers int       `json:"workers"`
	MinIter int       `json:"minIter"`
	HoldMax int       `json:"holdMax"`
	Cancels bool      `json:"cancels"`
	// Saturate: every holder keeps its slot until the whole change script has been issued
	// (semaphore exhausted, further acquirers queued), then the normal churn starts
	Saturate bool      `json:"saturate,omitempty"`
	Steps    []c17Step `json:"steps"`
}

type c17Change struct {
	from, to int
	done     chan struct{}
	applied  bool
}

type c17Mon struct {
	r      *kit.Run
	script *c17Script

	mu          sync.Mutex
	holders     int
	bound       int
	lastIssued  int
	pending     int
	changes     []*c17Change
	epOverlap   bool
	epGrowOverS bool
	// an identical repeat (same value as the capacity set last) was issued while a shrink had
	// not been applied yet / a grow was issued after such a repeat over a still unapplied shrink
	epSameOverS          bool
	epGrowAfterSameOverS bool
	prevSameOverS        bool
	epKind               string
	lastApplied          string
	acquires             int
	maxHolders  int
	freedAtCap  bool
	history     []string

	events  int64
	aborted int32
	abort   chan struct{}
}

func (m *c17Mon) ctxLocked() string {
	switch {
	case m.pending == 0:
		return "steady:after-" + m.lastApplied
	case m.epGrowAfterSameOverS:
		return "overlap:grow-issued-after-identical-repeat-over-unapplied-shrink"
	case m.epGrowOverS:
		return "overlap:grow-issued-over-unapplied-shrink"
	case m.epOverlap:
		return "overlap:other"
	default:
		return "single:" + m.epKind
	}
}

func (m *c17Mon) note(s string) {
	if len(m.history) < 60 {
		m.history = append(m.history, s)
	}
}

func c17Kind(from, to int) string {
	switch {
	case to > from:
		return "grow"
	case to < from:
		return "shrink"
	}
	return "same"
}

func c17Closed(ch chan struct{}) bool {
	select {
	case <-ch:
		return true
	default:
		return false
	}
}

func (m *c17Mon) enter() {
	m.mu.Lock()
	m.holders++
	m.acquires++
	if m.holders > m.maxHolders {
		m.maxHolders = m.holders
	}
	if m.holders > m.bound {
		ctx := m.ctxLocked()
		m.r.Violation("sem:acquire-over-cap:"+ctx, map[string]interface{}{
			"holders_after_acquire": m.holders, "cap_in_force": m.bound, "context": ctx, "last_cap_set": m.lastIssued,
			"changes_outstanding": m.pending, "script": m.script, "history": append([]string{}, m.history...),
		})
		m.note(fmt.Sprintf("OVER holders=%d bound=%d", m.holders, m.bound))
	}
	if m.holders == m.bound {
		m.r.Count("acquires_reaching_cap", 1)
	}
	if m.freedAtCap {
		m.freedAtCap = false
		m.r.Count("released_capacity_reused", 1)
	}
	m.mu.Unlock()
	atomic.AddInt64(&m.events, 1)
}

func (m *c17Mon) leave() {
	m.mu.Lock()
	if m.holders >= m.bound && m.pending == 0 {
		m.freedAtCap = true
	}
	m.holders--
	m.mu.Unlock()
	atomic.AddInt64(&m.events, 1)
}

func (m *c17Mon) waitUntil(what string, cond func() bool) bool {
	last := atomic.LoadInt64(&m.events)
	lastT := time.Now()
	for n := 0; ; n++ {
		if cond() {
			return true
		}
		if atomic.LoadInt32(&m.aborted) != 0 {
			return false
		}
		if n < 50 {
			runtime.Gosched()
		} else {
			time.Sleep(200 * time.Microsecond)
		}
		if e := atomic.LoadInt64(&m.events); e != last {
			last, lastT = e, time.Now()
		} else if wd := c17WD(); time.Since(lastT) > wd {
			atomic.AddInt32(&c17Stalls, 1)
			if atomic.CompareAndSwapInt32(&m.aborted, 0, 1) {
				m.mu.Lock()
				why := fmt.Sprintf("watchdog: no progress for %v while waiting for %s [kind=%s holders=%d cap=%d outstanding=%d]", wd, what, m.script.Kind, m.holders, m.bound, m.pending)
				m.mu.Unlock()
				m.r.Inconclusive(why)
				close(m.abort)
			}
			return false
		}
	}
}

func (m *c17Mon) issue(s *Semaphore, st c17Step) *c17Change {
	m.mu.Lock()
	from := m.lastIssued
	ch := &c17Change{from: from, to: st.Cap}
	kind := c17Kind(from, st.Cap)
	sameOverS, growAfterSame, growRightAfterSame := false, false, false
	if m.pending > 0 {
		m.epOverlap = true
		shrinkUnapplied := false
		for _, o := range m.changes {
			if o.to < o.from && !c17Closed(o.done) {
				shrinkUnapplied = true
			}
		}
		if shrinkUnapplied {
			switch kind {
			case "grow":
				m.epGrowOverS = true
				if m.epSameOverS {
					m.epGrowAfterSameOverS = true
					growAfterSame = true
					growRightAfterSame = m.prevSameOverS
				}
			case "same":
				m.epSameOverS = true
				sameOverS = true
			}
		}
	} else {
		m.epKind = kind
	}
	m.prevSameOverS = sameOverS
	if st.Cap > m.bound {
		m.bound = st.Cap
	}
	m.lastIssued = st.Cap
	m.pending++
	m.changes = append(m.changes, ch)
	m.note(fmt.Sprintf("issue %d->%d (outstanding %d, holders %d)", from, st.Cap, m.pending, m.holders))
	m.mu.Unlock()
	m.r.Count("change_"+kind, 1)
	if sameOverS {
		m.r.Count("sem_identical_repeat_issued_over_unapplied_shrink", 1)
	}
	if growAfterSame {
		m.r.Count("sem_grow_issued_after_identical_repeat_over_unapplied_shrink", 1)
	}
	if growRightAfterSame {
		m.r.Count("sem_grow_issued_right_after_identical_repeat_over_unapplied_shrink", 1)
	}

	done := s.SetMaxCount(int64(st.Cap))
	ch.done = done
	go func() {
		select {
		case <-done:
			m.mu.Lock()
			ch.applied = true
			m.pending--
			if m.pending == 0 {
				m.bound = m.lastIssued
				switch {
				case m.epGrowAfterSameOverS:
					m.lastApplied = "overlap-grow-after-identical-repeat-over-shrink"
				case m.epGrowOverS:
					m.lastApplied = "overlap-grow-over-shrink"
				case m.epOverlap:
					m.lastApplied = "overlap"
				default:
					m.lastApplied = m.epKind
				}
				m.epOverlap, m.epGrowOverS, m.epKind = false, false, ""
				m.epSameOverS, m.epGrowAfterSameOverS, m.prevSameOverS = false, false, false
				m.changes = nil
				m.note(fmt.Sprintf("all applied: cap=%d holders=%d", m.bound, m.holders))
			}
			m.mu.Unlock()
			atomic.AddInt64(&m.events, 1)
		case <-m.abort:
		}
	}()
	return ch
}

func c17GenScript(rng *rand.Rand, i int) *c17Script {
	kinds := []string{"steady", "grow", "shrink-below-usage", "shrink-then-grow-b2b", "repeated-identical",
		"grow-then-shrink-b2b", "shrink-shrink-b2b", "sequential-mix", "random-mix", "shrink-grow-sequential",
		"saturated-b2b-mix"}
	s := &c17Script{Kind: kinds[i%len(kinds)], Workers: 64, MinIter: 2 + rng.Intn(3), HoldMax: []int{0, 3, 20, 60}[rng.Intn(4)], Cancels: rng.Intn(2) == 0}
	capv := func() int { return 1 + rng.Intn(12) }
	gap := func() int { return []int{0, 1, 5, 20, 40}[rng.Intn(5)] }
	s.Cap0 = capv()
	cur := s.Cap0
	add := func(c int, wait bool, g int) {
		s.Steps = append(s.Steps, c17Step{Cap: c, Wait: wait, Gap: g})
		cur = c
	}
	switch s.Kind {
	case "steady":
	case "grow":
		add(cur+1+rng.Intn(8), true, 10+gap())
		if rng.Intn(2) == 0 {
			add(cur+1+rng.Intn(8), true, gap())
		}
	case "shrink-below-usage":
		s.Cap0 = 4 + rng.Intn(9)
		cur = s.Cap0
		add(1+rng.Intn(cur-1), true, 10+gap())
		if rng.Intn(2) == 0 && cur > 1 {
			add(1+rng.Intn(cur-1), true, gap())
		}
	case "shrink-then-grow-b2b":
		s.Cap0 = 3 + rng.Intn(10)
		cur = s.Cap0
		lo := 1 + rng.Intn(cur-1)
		add(lo, false, 10+gap())
		add(lo+1+rng.Intn(s.Cap0-lo), true, 0)
	case "shrink-grow-sequential":
		s.Cap0 = 3 + rng.Intn(10)
		cur = s.Cap0
		lo := 1 + rng.Intn(cur-1)
		add(lo, true, 10+gap())
		add(lo+1+rng.Intn(s.Cap0-lo), true, 0)
	case "repeated-identical":
		n := 2 + rng.Intn(3)
		for k := 0; k < n; k++ {
			add(cur, rng.Intn(2) == 0, gap())
		}
		c := capv()
		for k := 0; k < n; k++ {
			add(c, false, 0)
		}
	case "grow-then-shrink-b2b":
		hi := cur + 1 + rng.Intn(8)
		add(hi, false, 10+gap())
		add(1+rng.Intn(hi-1), true, 0)
	case "shrink-shrink-b2b":
		s.Cap0 = 5 + rng.Intn(8)
		cur = s.Cap0
		mid := 2 + rng.Intn(cur-2)
		add(mid, false, 10+gap())
		add(1+rng.Intn(mid-1), true, 0)
	case "saturated-b2b-mix":
		// 3-6 changes issued back-to-back while every slot is held and nobody releases: shrinks
		// below the usage, identical repeats of the value set last, grows, returns to earlier values
		s.Saturate = true
		s.Cap0 = 2 + rng.Intn(9)
		for _, c := range c17SaturatedCaps(rng, s.Cap0) {
			s.Steps = append(s.Steps, c17Step{Cap: c, Yield: []int{0, 0, 1, 5}[rng.Intn(4)], Settle: rng.Intn(4) == 0})
		}
	case "sequential-mix":
		n := 3 + rng.Intn(4)
		for k := 0; k < n; k++ {
			add(capv(), true, gap())
		}
	case "random-mix":
		n := 3 + rng.Intn(5)
		for k := 0; k < n; k++ {
			add(capv(), rng.Intn(2) == 0, gap())
		}
	}
	return s
}

// c17SaturatedCaps draws the capacities of a back-to-back script: 3-6 values, each a shrink, an
// identical repeat, a grow or a return to a value used earlier (1..20).
func c17SaturatedCaps(rng *rand.Rand, cap0 int) []int {
	n := 3 + rng.Intn(4)
	cur := cap0
	seen := []int{cap0}
	var out []int
	for k := 0; k < n; k++ {
		c := cur
		switch x := rng.Intn(10); {
		case x < 4:
			if cur > 1 {
				c = 1 + rng.Intn(cur-1)
			}
		case x < 7:
			// identical repeat
		case x < 9:
			c = cur + 1 + rng.Intn(4)
		default:
			c = seen[rng.Intn(len(seen))]
		}
		if c > 20 {
			c = 20
		}
		out = append(out, c)
		seen = append(seen, c)
		cur = c
	}
	return out
}

// c17Quiesce sleeps at least 2ms and then until no acquire/applied event has been seen
// for 1ms (at most ~100ms).  It is only a lower bound on real time, never a verdict.
func c17Quiesce(m *c17Mon) {
	time.Sleep(2 * time.Millisecond)
	snap := func() [2]int { // cancelled acquires of queued workers are not of interest here
		m.mu.Lock()
		defer m.mu.Unlock()
		return [2]int{m.acquires, m.pending}
	}
	last := snap()
	for k := 0; k < 100; k++ {
		time.Sleep(time.Millisecond)
		e := snap()
		if e == last {
			return
		}
		last = e
	}
}

func c17RunScript(r *kit.Run, sc *c17Script, seed int64) {
	m := &c17Mon{r: r, script: sc, bound: sc.Cap0, lastIssued: sc.Cap0, lastApplied: "initial", abort: make(chan struct{})}
	s := NewSem(uint32(sc.Cap0))
	gate := make(chan struct{}) // saturated scripts: holders keep their slot until it opens
	var gateOnce sync.Once
	openGate := func() { gateOnce.Do(func() { close(gate) }) }
	if !sc.Saturate {
		openGate()
	}
	defer openGate()
	var stop int32
	var workers sync.WaitGroup
	for w := 0; w < sc.Workers; w++ {
		workers.Add(1)
		wr := rand.New(rand.NewSource(seed + int64(w)*7919))
		go func() {
			defer workers.Done()
			for it := 0; it < 4000; it++ {
				if it >= sc.MinIter && atomic.LoadInt32(&stop) != 0 {
					return
				}
				if atomic.LoadInt32(&m.aborted) != 0 {
					return
				}
				mode := wr.Intn(3)
				if !sc.Cancels && mode == 2 {
					mode = 1
				}
				switch mode {
				case 0:
					s.Acquire()
				case 1:
					if s.AcquireWithContext(context.Background()) != nil {
						r.Violation("sem:acquire-failed-without-cancel", sc)
						continue
					}
				case 2:
					ctx, cancel := context.WithCancel(context.Background())
					k := wr.Intn(30)
					go func() {
						for j := 0; j < k; j++ {
							runtime.Gosched()
						}
						cancel()
					}()
					if s.AcquireWithContext(ctx) != nil {
						r.Count("acquires_cancelled", 1)
						atomic.AddInt64(&m.events, 1)
						continue // must not hold a slot: the final audit checks that
					}
				}
				m.enter()
				select {
				case <-gate:
				case <-m.abort:
				}
				hold := wr.Intn(sc.HoldMax + 1)
				for k := 0; k < hold; k++ {
					runtime.Gosched()
				}
				if wr.Intn(4) == 0 {
					time.Sleep(time.Duration(hold) * 20 * time.Microsecond)
				}
				m.leave()
				s.Release()
			}
		}()
	}
	full := func() bool {
		m.mu.Lock()
		defer m.mu.Unlock()
		return m.holders >= m.bound
	}
	if sc.Saturate {
		if m.waitUntil("the semaphore to be exhausted", full) {
			// lower bound only: lets the other workers queue in Acquire ahead of whatever the
			// changes will queue
			time.Sleep(300 * time.Microsecond)
			if full() {
				r.Count("sem_b2b_scripts_started_exhausted", 1)
			}
		}
	}
	for _, st := range sc.Steps {
		for k := 0; k < st.Yield; k++ {
			runtime.Gosched()
		}
		if st.Settle {
			for k := 0; k < 40 && !full(); k++ { // not a verdict
				time.Sleep(50 * time.Microsecond)
			}
		}
		m.mu.Lock()
		target := m.acquires + st.Gap
		m.mu.Unlock()
		if !m.waitUntil("acquire progress before a step", func() bool {
			m.mu.Lock()
			defer m.mu.Unlock()
			return m.acquires >= target
		}) {
			break
		}
		ch := m.issue(s, st)
		if st.Wait {
			if !m.waitUntil("completion signal of SetMaxCount", func() bool {
				m.mu.Lock()
				defer m.mu.Unlock()
				return ch.applied
			}) {
				break
			}
		}
	}
	if sc.Saturate {
		// nobody has released yet: give an acquire beyond the capacity in force the chance to
		// show (lower bound on real time only), then let the holders go
		c17Quiesce(m)
		openGate()
	}
	atomic.StoreInt32(&stop, 1)
	wdone := make(chan struct{})
	go func() { workers.Wait(); close(wdone) }()
	ok := m.waitUntil("all workers to finish (released capacity must be reused)", func() bool { return c17Closed(wdone) })
	ok = ok && m.waitUntil("all capacity changes to complete after every holder released", func() bool {
		m.mu.Lock()
		defer m.mu.Unlock()
		return m.pending == 0
	})
	if ok {
		r.Count("scripts_completed", 1)
		// exact audit: nobody holds a slot, nothing is outstanding
		free := 0
		for free < 64 && s.sem.TryAcquire(1) {
			free++
		}
		s.sem.Release(int64(free))
		r.Count("capacity_audits", 1)
		if free != m.lastIssued {
			dir := "extra"
			if free < m.lastIssued {
				dir = "lost"
			}
			canc := "no-cancel"
			if sc.Cancels {
				canc = "with-cancel"
			}
			r.Violation("sem:capacity-drift:"+dir+":"+canc, map[string]interface{}{
				"free_slots_found": free, "free_slots_expected": m.lastIssued, "script": sc, "history": m.history,
			})
		}
	}
	m.mu.Lock()
	r.Cover(fmt.Sprintf("%s/cap0=%d/steps=%d/max=%d/final=%d/cancel=%v", sc.Kind, sc.Cap0, len(sc.Steps), m.maxHolders, m.lastIssued, sc.Cancels))
	r.Max("max:holders", int64(m.maxHolders))
	m.mu.Unlock()
	if atomic.CompareAndSwapInt32(&m.aborted, 0, 2) {
		close(m.abort)
	}
}

func TestVerif_C17_Semaphore(t *testing.T) {
	r := kit.Start(t, "C17")
	defer r.Finish()
	r.Rule("scripts over a real sem.Semaphore: 64 workers Acquire / AcquireWithContext (contexts cancelled while queued in half of the scripts) / hold / Release while a controller runs a SetMaxCount script (same eleven kinds as the listener part: steady, grow, shrink below usage, shrink-then-grow back-to-back, sequential shrink-grow, repeated identical, grow-then-shrink b2b, shrink-shrink b2b, sequential and random mixes, and the saturated back-to-back mix: every holder keeps its slot, the other workers are queued, then 3-6 changes - shrinks below the usage, identical repeats of the value set last also over an unapplied shrink, grows, returns to earlier values - are issued without waiting for a done channel and without any release, only then the holders let go; completion observed on the done channel); oracle: holders <= capacity in force at every acquire; exact free-capacity audit (Weighted.TryAcquire) at the final quiescent point; distinct = (kind, cap0, #steps, max holders, final cap, cancels)")
	r.Assume("capacities >= 1; capacity in force while changes are outstanding = max of the capacities involved")
	n := r.N(900, 30000)
	for i := 0; i < n; i++ {
		if !r.Mine(i) {
			continue
		}
		rng := r.CaseRand(i)
		sc := c17GenScript(rng, i)
		r.Case(i, sc)
		if i < 2 {
			r.Sample(sc)
		}
		c17RunScript(r, sc, rng.Int63())
	}
	for _, k := range []string{"acquires_reaching_cap", "released_capacity_reused", "acquires_cancelled", "change_grow", "change_shrink", "change_same", "capacity_audits", "scripts_completed",
		"sem_b2b_scripts_started_exhausted", "sem_identical_repeat_issued_over_unapplied_shrink", "sem_grow_issued_right_after_identical_repeat_over_unapplied_shrink"} {
		r.Require(k, 1)
	}
}
