//go:build verif

package cluster

// C18 part 1: the cluster mutex is exclusive across goroutines and members, and a
// failed / timed-out acquisition leaves it free for others.
//
// Monitor: always-on holder counter + interval history (logical clock) + a non-atomic
// read-modify-write of a shared etcd key inside the critical section (a lost update
// proves two holders even if the counter missed them), on a real embedded etcd with a
// primary and a secondary member in one process.

import (
	"context"
	"fmt"
	"math/rand"
	"runtime"
	"sort"
	"strconv"
	"sync"
	"sync/atomic"
	"testing"
	"time"

	clientv3 "go.etcd.io/etcd/client/v3"

	"verif.local/kit"
)

const (
	c18CfgShared    = "shared-object"          // one Mutex object used by all goroutines (what api.Server does)
	c18CfgPerMember = "object-per-member"      // one Mutex object per member, shared by that member's goroutines
	c18CfgDup       = "two-objects-one-member" // several Mutex objects for one name taken from ONE member
	c18CfgWaitTO    = "timeout-while-waiting"  // a waiter on another member gives up while the lock is held
	c18CfgRPCTO     = "timeout-in-acquire-rpc" // the acquire request itself times out on a free lock
	// first use of a lock name: the contending goroutines call cluster.Mutex(name) THEMSELVES, all at
	// the same instant, for a name no one has asked for before (nothing cached in the member), and then
	// contend on whatever they were handed; repeated over several fresh names per round
	c18CfgFirst1 = "first-use-one-member"  // all goroutines on one member
	c18CfgFirst2 = "first-use-two-members" // goroutines on both members
)

type c18Actor struct {
	G      int    `json:"g"`
	Member string `json:"member"`
	Obj    int    `json:"obj"`
	Acq    int    `json:"acquisitions"`
	HoldUs []int  `json:"hold_us"`
	// first-use configurations: the goroutine has obtained its object itself (c18FetchTogether); MBegin/MEnd
	// are the logical-clock stamps around that cluster.Mutex call, Obj numbers the objects a member handed
	// out for the name by identity
	MBegin int64 `json:"mutex_call_begin,omitempty"`
	MEnd   int64 `json:"mutex_call_end,omitempty"`
	mu     Mutex
	cl     *cluster
}

type c18Ev struct {
	G       int    `json:"g"`
	Member  string `json:"member"`
	Obj     int    `json:"obj"`
	Enter   int64  `json:"enter"` // logical clock, taken after Lock returned nil
	Exit    int64  `json:"exit"`  // logical clock, taken before Unlock is called
	Holders int32  `json:"holders_at_enter"`
	Waiters int32  `json:"lock_calls_pending_at_enter"`
	Read    int    `json:"read"`
	Wrote   int    `json:"wrote"`
	RMWErr  string `json:"rmw_err,omitempty"`
}

type c18Round struct {
	evs        []c18Ev
	lockErrs   []string
	unlockErrs []string
	timedOut   bool
}

// c18RunRound lets the actors contend; every actor does Acq acquisitions.
func c18RunRound(dataKey string, actors []*c18Actor, rng *rand.Rand, watchdog time.Duration) *c18Round {
	var (
		clock, holders, pending int64
		mu                      sync.Mutex
		out                     = &c18Round{}
		wg                      sync.WaitGroup
		start                   = make(chan struct{})
	)
	for _, a := range actors {
		a := a
		think := make([]time.Duration, a.Acq)
		for k := range think {
			think[k] = time.Duration(rng.Intn(1500)) * time.Microsecond
		}
		wg.Add(1)
		go func() {
			defer wg.Done()
			<-start
			for k := 0; k < a.Acq; k++ {
				atomic.AddInt64(&pending, 1)
				err := a.mu.Lock()
				atomic.AddInt64(&pending, -1)
				if err != nil {
					mu.Lock()
					out.lockErrs = append(out.lockErrs, fmt.Sprintf("g%d: %v", a.G, err))
					mu.Unlock()
					continue
				}
				ev := c18Ev{G: a.G, Member: a.Member, Obj: a.Obj}
				ev.Holders = int32(atomic.AddInt64(&holders, 1))
				ev.Enter = atomic.AddInt64(&clock, 1)
				ev.Waiters = int32(atomic.LoadInt64(&pending))
				// non-atomic read-modify-write of the shared key
				v, gerr := a.cl.Get(dataKey)
				if gerr != nil {
					ev.RMWErr = "get: " + gerr.Error()
				} else {
					if v != nil {
						ev.Read, _ = strconv.Atoi(*v)
					}
					if d := a.HoldUs[k]; d > 0 {
						time.Sleep(time.Duration(d) * time.Microsecond)
					}
					ev.Wrote = ev.Read + 1
					if perr := a.cl.Put(dataKey, strconv.Itoa(ev.Wrote)); perr != nil {
						ev.RMWErr = "put: " + perr.Error()
					}
				}
				ev.Exit = atomic.AddInt64(&clock, 1)
				atomic.AddInt64(&holders, -1)
				uerr := a.mu.Unlock()
				mu.Lock()
				out.evs = append(out.evs, ev)
				if uerr != nil {
					out.unlockErrs = append(out.unlockErrs, fmt.Sprintf("g%d: %v", a.G, uerr))
				}
				mu.Unlock()
				time.Sleep(think[k])
			}
		}()
	}
	close(start)
	done := make(chan struct{})
	go func() { wg.Wait(); close(done) }()
	select {
	case <-done:
	case <-time.After(watchdog):
		out.timedOut = true
	}
	return out
}

type c18Got struct {
	mu         Mutex
	begin, end int64 // logical clock around the cluster.Mutex call
	err        error
}

// c18FetchTogether is the first use of lock names: goroutine g (a user of member who[g]) asks ITS
// member for the mutex of every name, and before each name all goroutines meet at a spinning
// barrier, so that their cluster.Mutex calls for that name start within a few instructions of each
// other (a closed channel would wake them one after the other).  Nobody has asked for these names
// before.
func c18FetchTogether(members map[string]*cluster, who []string, names []string, watchdog time.Duration) ([][]c18Got, bool) {
	var clock, arrived int64
	n := int64(len(who))
	got := make([][]c18Got, len(who))
	var wg sync.WaitGroup
	for g := range who {
		g := g
		got[g] = make([]c18Got, len(names))
		cl := members[who[g]]
		wg.Add(1)
		go func() {
			defer wg.Done()
			for k := range names {
				atomic.AddInt64(&arrived, 1)
				for spins := 1; atomic.LoadInt64(&arrived) < n*int64(k+1); spins++ {
					if spins%4096 == 0 {
						runtime.Gosched()
					}
				}
				x := &got[g][k]
				x.begin = atomic.AddInt64(&clock, 1)
				x.mu, x.err = cl.Mutex(names[k])
				x.end = atomic.AddInt64(&clock, 1)
			}
		}()
	}
	done := make(chan struct{})
	go func() { wg.Wait(); close(done) }()
	select {
	case <-done:
		return got, false
	case <-time.After(watchdog):
		return nil, true
	}
}

func c18Relation(a, b c18Ev) string {
	switch {
	case a.Member != b.Member:
		return "distinct-members"
	case a.Obj != b.Obj:
		return "same-member-distinct-objects"
	default:
		return "same-object"
	}
}

// c18Overlaps lists the pairs of critical sections whose [Enter,Exit] intervals intersect.
func c18Overlaps(evs []c18Ev) (pairs [][2]c18Ev) {
	s := append([]c18Ev(nil), evs...)
	sort.Slice(s, func(i, j int) bool { return s[i].Enter < s[j].Enter })
	for i := range s {
		for j := i + 1; j < len(s) && s[j].Enter < s[i].Exit; j++ {
			pairs = append(pairs, [2]c18Ev{s[i], s[j]})
		}
	}
	return
}

func c18LockKeys(cli *clientv3.Client, name string) ([]string, error) {
	ctx, cancel := context.WithTimeout(context.Background(), 30*time.Second)
	defer cancel()
	resp, err := cli.Get(ctx, name+"/", clientv3.WithPrefix())
	if err != nil {
		return nil, err
	}
	var ks []string
	for _, kv := range resp.Kvs {
		ks = append(ks, fmt.Sprintf("%s (lease %x)", kv.Key, kv.Lease))
	}
	return ks, nil
}

func c18Purge(cli *clientv3.Client, name string) {
	ctx, cancel := context.WithTimeout(context.Background(), 30*time.Second)
	defer cancel()
	cli.Delete(ctx, name+"/", clientv3.WithPrefix())
}

// c18LocalFree tells, at a quiescent point, whether the process-local part of the mutex
// is free (nobody is using the object: TryLock must succeed).
func c18LocalFree(m Mutex) bool {
	mm := m.(*mutex)
	if mm.lock.TryLock() {
		mm.lock.Unlock()
		return true
	}
	return false
}

func c18MustMutex(c *cluster, name string) (Mutex, error) {
	return c.Mutex(name)
}

func TestVerif_C18_Mutex(t *testing.T) {
	r := kit.Start(t, "C18")
	defer r.Finish()
	r.Rule("rounds on a real embedded etcd with a primary and a secondary member in one process, each round on a fresh lock name: " +
		"(shared-object) 3-6 goroutines share one cluster.Mutex object; (object-per-member) one object on each member, 1-3 goroutines per member; " +
		"(two-objects-one-member) 2-3 objects for one name taken from the same member, 1-2 goroutines each; every goroutine does 2-5 acquisitions with hold times 0-20 ms; " +
		"(first-use-one-member / first-use-two-members) batches of fresh lock names that nobody has asked the cluster for before: 4-7 goroutines of one member and 2-3 names (one batch on each member per round), resp. 2-4 goroutines on each of the two members and 3-5 names; before every name the goroutines meet at a spinning barrier and then call cluster.Mutex(name) THEMSELVES at the same instant (cold per-member mutex cache; in the first round of a process also a member session that does not exist yet); then, name after name, they contend on whatever object they were handed (1-2 acquisitions, hold times 0-2 ms); the objects are numbered by identity, which only labels the relation of two overlapping holders in the signature; " +
		"the critical section bumps a holder counter, stamps a logical-clock interval and does a non-atomic read-modify-write of an etcd key through the cluster API; " +
		"(timeout-while-waiting) a waiter on the other member with a 150-400 ms request timeout gives up while the lock is held; (timeout-in-acquire-rpc) acquisitions of a free lock with a 0.1-1 ms request timeout; " +
		"after every failed Lock the process-local lock must be free and, once every holder has unlocked, no lock key of the name may remain in etcd; then other members must acquire it. " +
		"distinct = (configuration, goroutines, acquisitions, max pending Lock calls seen at an entry, zero-hold present); first-use rounds: (configuration, fresh names, max goroutines per batch, names on which cluster.Mutex calls of one member overlapped in logical time, max pending, zero-hold present). " +
		"required observations of the first-use class: rounds of both kinds, >= 5 fresh names on which the cluster.Mutex calls of two goroutines of ONE member overlapped (logical-clock stamps around the call), >= 5 entries with other Lock calls pending")
	r.Assume("mutex users call Unlock only after a successful Lock, from the goroutine that locked (the documented sync.Locker discipline)")
	r.Assume("in the first-use rounds every goroutine keeps using the object its own cluster.Mutex call returned (no re-fetch between acquisitions)")
	r.Assume("short request timeouts are injected by setting the unexported timeout field of an object returned by cluster.Mutex before it is used; the cluster itself keeps its 10 s request timeout")

	rig, err := c18StartRig(r.TmpDir(), true)
	if rig != nil {
		defer rig.Close()
	}
	if err != nil || rig == nil || rig.secondary == nil {
		r.Inconclusive(fmt.Sprintf("embedded etcd rig did not start: %v", err))
		return
	}
	cli, err := rig.primary.getClient()
	if err != nil {
		r.Inconclusive("no etcd client: " + err.Error())
		return
	}
	members := map[string]*cluster{"primary": rig.primary, "secondary": rig.secondary}
	memberNames := []string{"primary", "secondary"}
	// 9 entries: coprime with the shard counts, so every shard sees every configuration.  The first-use
	// configurations come first: the first round of a shard then also meets the members' etcd sessions
	// not yet created (cluster.getSession creates the session on the first Mutex call of a member).
	cfgCycle := []string{c18CfgFirst1, c18CfgFirst2, c18CfgShared, c18CfgPerMember, c18CfgDup, c18CfgWaitTO, c18CfgPerMember, c18CfgRPCTO, c18CfgDup}

	n := r.N(81, 2025)
	for i := 0; i < n; i++ {
		if !r.Mine(i) {
			continue
		}
		rng := r.CaseRand(i)
		cfg := cfgCycle[i%len(cfgCycle)]
		name := fmt.Sprintf("/verif/c18/s%d/lock-%d", r.Seed(), i)
		dataKey := fmt.Sprintf("/verif/c18/s%d/data-%d", r.Seed(), i)

		switch cfg {
		case c18CfgShared, c18CfgPerMember, c18CfgDup:
			// ---- build the actors
			var actors []*c18Actor
			var mkErr error
			newObj := func(member string) Mutex {
				m, err := c18MustMutex(members[member], name)
				if err != nil {
					mkErr = err
				}
				return m
			}
			acq := 2 + rng.Intn(4)
			addActor := func(member string, obj int, mu Mutex) {
				a := &c18Actor{G: len(actors), Member: member, Obj: obj, Acq: acq, mu: mu, cl: members[member]}
				for k := 0; k < acq; k++ {
					h := 0
					switch rng.Intn(4) {
					case 0: // zero hold
					case 1:
						h = rng.Intn(2000)
					default:
						h = rng.Intn(20000)
					}
					a.HoldUs = append(a.HoldUs, h)
				}
				actors = append(actors, a)
			}
			switch cfg {
			case c18CfgShared:
				member := memberNames[rng.Intn(2)]
				mu := newObj(member)
				for g, ng := 0, 3+rng.Intn(4); g < ng; g++ {
					addActor(member, 0, mu)
				}
			case c18CfgPerMember:
				for mi, member := range memberNames {
					mu := newObj(member)
					for g, ng := 0, 1+rng.Intn(3); g < ng; g++ {
						addActor(member, mi, mu)
					}
				}
			case c18CfgDup:
				member := memberNames[rng.Intn(2)]
				for o, no := 0, 2+rng.Intn(2); o < no; o++ {
					mu := newObj(member)
					for g, ng := 0, 1+rng.Intn(2); g < ng; g++ {
						addActor(member, o, mu)
					}
				}
			}
			r.Case(i, map[string]interface{}{"config": cfg, "lock": name, "actors": actors})
			if mkErr != nil {
				r.Inconclusive("cluster.Mutex failed: " + mkErr.Error())
				continue
			}
			res := c18RunRound(dataKey, actors, rng, 5*time.Minute)
			if res.timedOut {
				r.Inconclusive(fmt.Sprintf("round %d (%s) did not finish within the 5 min watchdog; aborting this shard", i, cfg))
				return
			}
			r.Count("rounds:"+cfg, 1)
			maxW, zeroHold := c18JudgeRound(r, i, cfg, name, dataKey, actors, res, rig, cli)
			r.Cover(fmt.Sprintf("%s/g%d/acq%d/pending%d/zero%v", cfg, len(actors), acq, maxW, zeroHold))
			if i < 3 {
				r.Sample(map[string]interface{}{"config": cfg, "actors": actors, "history": res.evs})
			}

		case c18CfgFirst1, c18CfgFirst2:
			// ---- batches of fresh names; the goroutines of a batch ask their member for the mutexes
			// themselves, at the same instant, and then contend on what they got, name after name
			type batch struct {
				Who    []string `json:"goroutine_member"`
				Names  []string `json:"fresh_names"`
				Acq    int      `json:"acquisitions"`
				HoldUs [][]int  `json:"hold_us"` // [name][goroutine*Acq+acquisition]
			}
			var batches []*batch
			mkBatch := func(tag string, who []string, nk int) {
				b := &batch{Who: who, Acq: 1 + rng.Intn(4)/3}
				for k := 0; k < nk; k++ {
					b.Names = append(b.Names, fmt.Sprintf("%s-%s%d", name, tag, k))
					var hs []int
					for x := 0; x < len(who)*b.Acq; x++ {
						h := 0
						if rng.Intn(4) != 0 {
							h = rng.Intn(2000)
						}
						hs = append(hs, h)
					}
					b.HoldUs = append(b.HoldUs, hs)
				}
				batches = append(batches, b)
			}
			if cfg == c18CfgFirst1 {
				// one batch on each member (both members serve fresh names in every round)
				first := rng.Intn(2)
				for x := 0; x < 2; x++ {
					member := memberNames[(first+x)%2]
					var who []string
					for g, ng := 0, 4+rng.Intn(4); g < ng; g++ {
						who = append(who, member)
					}
					mkBatch(fmt.Sprintf("b%d-", x), who, 2+rng.Intn(2))
				}
			} else {
				var who []string
				for _, member := range memberNames {
					for g, ng := 0, 2+rng.Intn(3); g < ng; g++ {
						who = append(who, member)
					}
				}
				rng.Shuffle(len(who), func(x, y int) { who[x], who[y] = who[y], who[x] }) // interleave the members in launch order
				mkBatch("b0-", who, 3+rng.Intn(3))
			}
			r.Case(i, map[string]interface{}{"config": cfg, "lock": name, "batches": batches})
			r.Count("rounds:"+cfg, 1)
			nNames, namesCoinc, maxPending, anyZero, maxG := 0, 0, int32(0), false, 0
			for bi, b := range batches {
				got, timedOut := c18FetchTogether(members, b.Who, b.Names, 3*time.Minute)
				if timedOut {
					r.Inconclusive(fmt.Sprintf("round %d (%s): the cluster.Mutex calls did not return within the 3 min watchdog; aborting this shard", i, cfg))
					return
				}
				if len(b.Who) > maxG {
					maxG = len(b.Who)
				}
				for k, lock := range b.Names {
					data := fmt.Sprintf("%s-b%d-%d", dataKey, bi, k)
					var actors []*c18Actor
					mkErr := error(nil)
					objs := map[string][]Mutex{} // objects handed out per member, numbered by identity
					for g, member := range b.Who {
						x := got[g][k]
						if x.err != nil {
							mkErr = x.err
							continue
						}
						a := &c18Actor{G: len(actors), Member: member, Obj: -1, Acq: b.Acq, HoldUs: b.HoldUs[k][g*b.Acq : (g+1)*b.Acq],
							MBegin: x.begin, MEnd: x.end, mu: x.mu, cl: members[member]}
						for o, m := range objs[member] {
							if m == x.mu {
								a.Obj = o
							}
						}
						if a.Obj < 0 {
							a.Obj = len(objs[member])
							objs[member] = append(objs[member], x.mu)
						}
						actors = append(actors, a)
					}
					if mkErr != nil {
						r.Inconclusive("cluster.Mutex failed: " + mkErr.Error())
						continue
					}
					// did cluster.Mutex calls of two goroutines of ONE member for this name overlap in time?
					coinc := 0
					for x, a := range actors {
						for _, c := range actors[x+1:] {
							if a.Member == c.Member && a.MBegin < c.MEnd && c.MBegin < a.MEnd {
								coinc++
							}
						}
					}
					nNames++
					r.Count("fresh_names:"+cfg, 1)
					r.Count("first_use_mutex_calls:"+cfg, int64(len(actors)))
					if coinc > 0 {
						namesCoinc++
						r.Count("fresh_names_with_coinciding_mutex_calls_of_one_member:"+cfg, 1)
						r.Count("coinciding_first_use_mutex_call_pairs_of_one_member:"+cfg, int64(coinc))
					}
					for member, os := range objs {
						if len(os) > 1 {
							// not a verdict by itself (the property speaks about holders); shown in the evidence
							r.Count("fresh_names_with_several_objects_handed_out_by_one_member:"+cfg, 1)
							r.Note("round %d (%s): member %s handed out %d distinct mutex objects for %s", i, cfg, member, len(os), lock)
						}
					}
					res := c18RunRound(data, actors, rng, 5*time.Minute)
					if res.timedOut {
						r.Inconclusive(fmt.Sprintf("round %d (%s, %s) did not finish within the 5 min watchdog; aborting this shard", i, cfg, lock))
						return
					}
					mw, zh := c18JudgeRound(r, i, cfg, lock, data, actors, res, rig, cli)
					if mw > maxPending {
						maxPending = mw
					}
					anyZero = anyZero || zh
					if i < 2 && bi == 0 && k == 0 {
						r.Sample(map[string]interface{}{"config": cfg, "lock": lock, "actors": actors, "history": res.evs})
					}
				}
			}
			r.Cover(fmt.Sprintf("%s/names%d/maxg%d/coinciding%d/pending%d/zero%v", cfg, nNames, maxG, namesCoinc, maxPending, anyZero))

		case c18CfgWaitTO:
			hm := memberNames[rng.Intn(2)]
			wm := "primary"
			if hm == "primary" {
				wm = "secondary"
			}
			T := time.Duration(150+rng.Intn(250)) * time.Millisecond
			nWaiters := 1 + rng.Intn(2)
			r.Case(i, map[string]interface{}{"config": cfg, "lock": name, "holder": hm, "waiters_on": wm, "waiters": nWaiters, "timeout_ms": T.Milliseconds()})
			c18TimeoutWhileWaiting(r, i, rig, cli, name, hm, wm, T, nWaiters)

		case c18CfgRPCTO:
			wm := memberNames[rng.Intn(2)]
			om := "primary"
			if wm == "primary" {
				om = "secondary"
			}
			var ts []time.Duration
			for k := 0; k < 8; k++ {
				ts = append(ts, time.Duration(100+rng.Intn(900))*time.Microsecond)
			}
			r.Case(i, map[string]interface{}{"config": cfg, "lock": name, "member": wm, "timeouts_us": ts})
			c18TimeoutInAcquire(r, i, rig, cli, name, wm, om, ts)
		}
	}
	r.Require("rounds:"+c18CfgShared, 1)
	r.Require("rounds:"+c18CfgPerMember, 1)
	r.Require("rounds:"+c18CfgDup, 1)
	r.Require("entries_with_other_lock_calls_pending:"+c18CfgShared, 5)
	r.Require("entries_with_other_lock_calls_pending:"+c18CfgPerMember, 5)
	r.Require("entries_with_other_lock_calls_pending:"+c18CfgDup, 1)
	for _, cfg := range []string{c18CfgFirst1, c18CfgFirst2} {
		r.Require("rounds:"+cfg, 1)
		r.Require("fresh_names_with_coinciding_mutex_calls_of_one_member:"+cfg, 5)
		r.Require("entries_with_other_lock_calls_pending:"+cfg, 5)
	}
	r.Require("waiter_timed_out_while_lock_held", 1)
	r.Require("acquire_rpc_timed_out", 1)
	r.Require("reacquired_after_timeout", 1)
}

// c18JudgeRound applies the oracles to one finished round on lock `name`: at most one holder
// (counter + interval history), no lost update of the shared key, everything released afterwards.
func c18JudgeRound(r *kit.Run, i int, cfg, name, dataKey string, actors []*c18Actor, res *c18Round, rig *c18Rig, cli *clientv3.Client) (maxW int32, zeroHold bool) {
	r.Eval(len(res.evs))
	r.Count("critical_sections:"+cfg, int64(len(res.evs)))
	r.Count("lock_errors", int64(len(res.lockErrs)))
	r.Count("unlock_errors", int64(len(res.unlockErrs)))
	if len(res.lockErrs)+len(res.unlockErrs) > 0 {
		r.Note("round %d (%s): lock errors %v unlock errors %v", i, cfg, res.lockErrs, res.unlockErrs)
	}
	rmwErr := false
	for _, e := range res.evs {
		if e.Waiters > maxW {
			maxW = e.Waiters
		}
		if e.Waiters > 0 {
			r.Count("entries_with_other_lock_calls_pending:"+cfg, 1)
		}
		if e.RMWErr != "" {
			rmwErr = true
		}
	}
	for _, a := range actors {
		for _, h := range a.HoldUs {
			if h == 0 {
				zeroHold = true
			}
		}
	}

	// ---- oracle 1: at most one holder (counter and interval history)
	detail := func(extra map[string]interface{}) map[string]interface{} {
		m := map[string]interface{}{"config": cfg, "lock": name, "actors": actors, "history": res.evs}
		for k, v := range extra {
			m[k] = v
		}
		return m
	}
	pairs := c18Overlaps(res.evs)
	byRel := map[string]int{}
	for _, p := range pairs {
		byRel[c18Relation(p[0], p[1])]++
	}
	for _, e := range res.evs {
		if e.Holders != 1 && len(pairs) == 0 {
			// the counter saw two holders although the stamped intervals do not intersect (cannot
			// happen: both are taken between Lock and Unlock) - report it all the same
			byRel["counter-only"]++
		}
	}
	for rel, cnt := range byRel {
		r.Count("overlapping_critical_sections:"+cfg, int64(cnt))
		var first interface{}
		for _, p := range pairs {
			if c18Relation(p[0], p[1]) == rel {
				first = p
				break
			}
		}
		r.Violation("mutex:overlap:"+cfg+":"+rel, detail(map[string]interface{}{
			"overlapping_pairs": cnt, "critical_sections": len(res.evs), "first_pair": first}))
	}
	// ---- oracle 2: no lost update of the shared key
	if rmwErr {
		r.Count("rounds_with_rmw_error", 1)
		r.Note("round %d: etcd get/put inside the critical section failed; lost-update oracle skipped", i)
	} else {
		final := 0
		v, gerr := rig.primary.Get(dataKey)
		if gerr != nil {
			r.Inconclusive("final read of the shared key failed: " + gerr.Error())
		} else {
			if v != nil {
				final, _ = strconv.Atoi(*v)
			}
			seen := map[int]int{}
			dups := 0
			for _, e := range res.evs {
				seen[e.Wrote]++
				if seen[e.Wrote] == 2 {
					dups++
				}
			}
			if final != len(res.evs) || dups > 0 {
				r.Count("lost_updates:"+cfg, int64(len(res.evs)-final))
				r.Violation("mutex:lost-update:"+cfg, detail(map[string]interface{}{
					"critical_sections": len(res.evs), "final_counter": final, "values_written_twice": dups}))
			}
		}
	}
	// ---- oracle 3: everything released
	for _, a := range actors {
		if !c18LocalFree(a.mu) {
			r.Violation("mutex:local-lock-held-after-round:"+cfg, detail(map[string]interface{}{"actor": a.G}))
			break
		}
	}
	if len(res.unlockErrs) == 0 {
		if ks, err := c18LockKeys(cli, name); err == nil && len(ks) > 0 {
			sig := "mutex:lock-key-left-after-unlock:" + cfg
			if len(res.lockErrs) > 0 {
				// some Lock call failed (10 s request timeout under load): the key belongs to a failed acquisition
				sig = "mutex:timed-out-lock-left-etcd-key:" + cfg
			}
			r.Violation(sig, detail(map[string]interface{}{"keys": ks, "lock_errors": res.lockErrs}))
			c18Purge(cli, name)
		}
	}
	return
}

// c18Reacquire: bounded progress - everybody can take and release the lock now.
type c18Who struct {
	label string
	mu    Mutex
}

func c18Reacquire(r *kit.Run, i int, cfg string, who []c18Who) {
	for _, x := range who {
		label, mu := x.label, x.mu
		done := make(chan error, 1)
		go func() {
			if err := mu.Lock(); err != nil {
				done <- fmt.Errorf("lock: %v", err)
				return
			}
			if err := mu.Unlock(); err != nil {
				done <- fmt.Errorf("unlock: %v", err)
				return
			}
			done <- nil
		}()
		select {
		case err := <-done:
			if err != nil {
				// the state checks before this call found the lock free; a failure here is load
				r.Inconclusive(fmt.Sprintf("round %d (%s): %s could not take the free lock within the 10 s request timeout: %v", i, cfg, label, err))
			} else {
				r.Count("reacquired_after_timeout", 1)
			}
		case <-time.After(3 * time.Minute):
			r.Inconclusive(fmt.Sprintf("round %d (%s): %s blocked > 3 min on a lock whose keys are gone", i, cfg, label))
		}
	}
}

func c18TimeoutWhileWaiting(r *kit.Run, i int, rig *c18Rig, cli *clientv3.Client, name, hm, wm string, T time.Duration, nWaiters int) {
	cfg := c18CfgWaitTO
	members := map[string]*cluster{"primary": rig.primary, "secondary": rig.secondary}
	h, err := members[hm].Mutex(name)
	if err != nil {
		r.Inconclusive("cluster.Mutex failed: " + err.Error())
		return
	}
	w, err := members[wm].Mutex(name) // one object shared by the waiters of that member
	if err != nil {
		r.Inconclusive("cluster.Mutex failed: " + err.Error())
		return
	}
	w.(*mutex).timeout = T
	if err := h.Lock(); err != nil {
		r.Inconclusive(fmt.Sprintf("round %d: holder could not take a fresh lock: %v", i, err))
		return
	}
	r.Count("rounds:"+cfg, 1)
	var holders int32 = 1
	type wres struct {
		err     error
		holders int32
		took    time.Duration
	}
	resc := make(chan wres, nWaiters)
	for k := 0; k < nWaiters; k++ {
		go func() {
			t0 := time.Now()
			err := w.Lock()
			x := wres{err: err, took: time.Since(t0)}
			if err == nil {
				x.holders = atomic.AddInt32(&holders, 1)
				atomic.AddInt32(&holders, -1)
				w.Unlock()
			}
			resc <- x
		}()
	}
	detail := map[string]interface{}{"config": cfg, "lock": name, "holder_member": hm, "waiter_member": wm, "timeout_ms": T.Milliseconds()}
	wd := time.After(2 * time.Minute)
	for k := 0; k < nWaiters; k++ {
		select {
		case x := <-resc:
			r.Eval(1)
			if x.err == nil {
				// the holder has not unlocked yet
				r.Violation("mutex:overlap:"+cfg+":distinct-members", map[string]interface{}{"case": detail, "holders_seen_by_waiter": x.holders})
			} else {
				r.Count("waiter_timed_out_while_lock_held", 1)
				if x.took < T {
					r.Note("round %d: waiter failed after %v < timeout %v: %v", i, x.took, T, x.err)
				}
			}
		case <-wd:
			r.Inconclusive(fmt.Sprintf("round %d (%s): a Lock call with a %v timeout did not return within 2 min", i, cfg, T))
			h.Unlock()
			return
		}
	}
	// quiescent: every waiter call has returned, the holder still holds
	r.Cover(fmt.Sprintf("%s/holder-%s/waiters%d", cfg, hm, nWaiters))
	if !c18LocalFree(w) {
		r.Violation("mutex:failed-lock-left-local-lock-held:"+cfg, map[string]interface{}{"case": fmt.Sprint(detail)})
		w.(*mutex).lock.TryLock()
		w.(*mutex).lock.Unlock()
	}
	uerr := h.Unlock()
	if uerr != nil {
		r.Note("round %d: holder unlock failed: %v", i, uerr)
		r.Count("unlock_errors", 1)
	} else if ks, err := c18LockKeys(cli, name); err == nil && len(ks) > 0 {
		detail["keys_left"] = ks
		r.Violation("mutex:timed-out-lock-left-etcd-key:"+cfg, detail)
		c18Purge(cli, name)
	}
	if !c18LocalFree(h) {
		r.Violation("mutex:local-lock-held-after-round:"+cfg, detail)
	}
	w.(*mutex).timeout = 10 * time.Second
	third, err := members[hm].Mutex(name)
	who := []c18Who{{"the waiter that had timed out", w}}
	if err == nil {
		who = append(who, c18Who{"a new object on the holder's member", third})
	}
	if uerr == nil {
		c18Reacquire(r, i, cfg, who)
	}
}

func c18TimeoutInAcquire(r *kit.Run, i int, rig *c18Rig, cli *clientv3.Client, base, wm, om string, ts []time.Duration) {
	cfg := c18CfgRPCTO
	members := map[string]*cluster{"primary": rig.primary, "secondary": rig.secondary}
	r.Count("rounds:"+cfg, 1)
	for k, T := range ts {
		name := fmt.Sprintf("%s-%d", base, k)
		w, err := members[wm].Mutex(name)
		if err != nil {
			r.Inconclusive("cluster.Mutex failed: " + err.Error())
			return
		}
		w.(*mutex).timeout = T
		r.Eval(1)
		lerr := w.Lock()
		if lerr == nil {
			r.Count("acquire_rpc_fast_enough", 1)
			w.(*mutex).timeout = 10 * time.Second
			w.Unlock()
			continue
		}
		r.Count("acquire_rpc_timed_out", 1)
		r.Cover(fmt.Sprintf("%s/%s/%dus", cfg, wm, T.Microseconds()/100*100))
		detail := map[string]interface{}{"config": cfg, "lock": name, "member": wm, "timeout_us": T.Microseconds(), "lock_error": lerr.Error()}
		if !c18LocalFree(w) {
			r.Violation("mutex:failed-lock-left-local-lock-held:"+cfg, map[string]interface{}{"case": fmt.Sprint(detail)})
			w.(*mutex).lock.TryLock()
			w.(*mutex).lock.Unlock()
		}
		// Lock has returned an error: the caller does not hold the lock and will not unlock it.
		ks, err := c18LockKeys(cli, name)
		if err != nil {
			r.Inconclusive("cannot list lock keys: " + err.Error())
			continue
		}
		w.(*mutex).timeout = 10 * time.Second
		if len(ks) > 0 {
			r.Count("lock_key_left_after_failed_lock", 1)
			detail["keys_left"] = ks
			// demonstrate the consequence for another member (evidence only, lower bound on time)
			if o, err := members[om].Mutex(name); err == nil {
				o.(*mutex).timeout = 300 * time.Millisecond
				if oerr := o.Lock(); oerr != nil {
					detail["other_member_lock"] = "failed after 300 ms: " + oerr.Error()
				} else {
					detail["other_member_lock"] = "acquired"
					o.Unlock()
				}
				o.(*mutex).timeout = 10 * time.Second // the object may be cached by the cluster
			}
			r.Violation("mutex:timed-out-lock-left-etcd-key:"+cfg, detail)
			c18Purge(cli, name)
		}
		if k == len(ts)-1 {
			// same member first: should a late-applied acquire request have left a key, it is reused and deleted here
			who := []c18Who{{"the object whose Lock had timed out", w}}
			if o, err := members[om].Mutex(name); err == nil {
				who = append(who, c18Who{"the other member", o})
			}
			c18Reacquire(r, i, cfg, who)
		}
	}
}
