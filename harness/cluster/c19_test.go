//go:build verif

package cluster

// C19  Syncer snapshots are real store states and converge to the final state.
//
// History checker against etcd's own MVCC history: generated write histories (unique
// values) run against a real embedded etcd through the cluster API while consumers read
// the four Sync* channels (fast, slow, gated so that the 10-slot channel fills); faults
// are an in-process etcd server stop/start (quick, and outages longer than pull interval +
// request timeout during which the periodic pulls fail; followed by more writes, or placed
// right after the last write of the history with a gated consumer released while the server
// is down and no write after the recovery), a watch blackout / cut through a TCP relay
// (second etcd client used only for the watch path) and a compaction that cancels the
// lagging watch.  LARGE watched prefixes (hundreds of keys) are rewritten by concurrent
// writers whose transactions change keys of distant regions of the prefix atomically while
// the syncers pull.  After the case the content of the key range at EVERY revision is read
// back from etcd (Get WithRev) and every delivered snapshot is matched against it.

import (
	"context"
	"fmt"
	"math/rand"
	"sort"
	"strings"
	"sync"
	"sync/atomic"
	"testing"
	"time"

	"go.etcd.io/etcd/api/v3/mvccpb"
	clientv3 "go.etcd.io/etcd/client/v3"

	"verif.local/kit"
)

const (
	// bounded convergence: a subscription whose view differs from the final content and
	// that received NOTHING while the harness completed this many reference cycles
	// (sleep one pull interval + one successful pull through the same cluster client the
	// syncer pulls with) is a violation.  The property's bound is "a few pull intervals".
	c19StuckCycles = 50
	// outer watchdog of the convergence phase: firing is inconclusive
	c19ConvergeWatchdog = 150 * time.Second
)

// ---------------------------------------------------------------- case description

type c19Op struct {
	T   string   `json:"t"` // put del same txn delprefix sleep
	K   string   `json:"k,omitempty"`
	Ks  []string `json:"ks,omitempty"`
	Del []bool   `json:"del,omitempty"`
	Ms  int      `json:"ms,omitempty"`
}

type c19SubSpec struct {
	Kind  string `json:"kind"` // Sync SyncRaw SyncPrefix SyncRawPrefix
	Relay bool   `json:"relay,omitempty"`
	Mode  string `json:"mode"` // fast slow gated
	Delay int    `json:"delay_ms,omitempty"`
}

type c19Step struct {
	Do      string       `json:"do"`          // write subscribe waitfirst pause unpause cut stop start outage fill compact release settle sleep populate
	N       int          `json:"n,omitempty"` // populate: size of the key universe k0000..k<N-1> (4 of 5 are created)
	Writers [][]c19Op    `json:"writers,omitempty"`
	Subs    []c19SubSpec `json:"subs,omitempty"`
	Ms      int          `json:"ms,omitempty"`
	Fault   string       `json:"fault,omitempty"` // concurrent with a write step: restart | subscribe
	After   int          `json:"after,omitempty"` // fired when this many ops of the step completed (outage step with coincide: the stop begins this many 100 us after the last writer)
	DownMs  int          `json:"down_ms,omitempty"`
	// outage step only: Writers = the LAST write of the history, made right before the server
	// stop (or, Coincide, concurrently with it); ReleaseDown = gated consumers are released
	// once the server is down; Pulls = number of request timeouts the server is held down
	Coincide    bool `json:"coincide,omitempty"`
	ReleaseDown bool `json:"release_while_down,omitempty"`
	Pulls       int  `json:"hold_request_timeouts,omitempty"`
}

type c19Case struct {
	Kind       string    `json:"kind"`
	IntervalMs int       `json:"pull_interval_ms"`
	Ending     string    `json:"ending"`
	Last       string    `json:"last_write_before_stop,omitempty"`    // outage-final: shape of the last write
	Universe   int       `json:"large_prefix_key_universe,omitempty"` // large-prefix: keys k0000..k<n-1> under the watched prefix
	Steps      []c19Step `json:"steps"`
}

var (
	c19Under   = []string{"a", "a", "a1", "b", "b", "c", "P"} // "a" is the single watched key; "P" is the key that equals the prefix string
	c19Outside = []string{"xa", "w", "wz"}
	c19Kinds   = []string{"Sync", "SyncRaw", "SyncPrefix", "SyncRawPrefix"}
)

func c19GenOps(rng *rand.Rand, n int, txnW float64) []c19Op {
	var ops []c19Op
	pick := func(l []string) string { return l[rng.Intn(len(l))] }
	for len(ops) < n {
		x := rng.Float64()
		switch {
		case x < txnW:
			all := []string{"a", "a1", "b", "c", "P", "xa", "w"}
			rng.Shuffle(len(all), func(i, j int) { all[i], all[j] = all[j], all[i] })
			k := 2 + rng.Intn(2)
			op := c19Op{T: "txn"}
			for i := 0; i < k; i++ {
				op.Ks = append(op.Ks, all[i])
				op.Del = append(op.Del, rng.Float64() < 0.4)
			}
			ops = append(ops, op)
			continue
		}
		x = rng.Float64()
		switch {
		case x < 0.40:
			ops = append(ops, c19Op{T: "put", K: pick(c19Under)})
		case x < 0.53:
			ops = append(ops, c19Op{T: "del", K: pick(c19Under)})
		case x < 0.62:
			ops = append(ops, c19Op{T: "same", K: pick(c19Under)})
		case x < 0.70:
			k := pick(c19Under)
			ops = append(ops, c19Op{T: "del", K: k}, c19Op{T: "put", K: k}) // delete-then-recreate
		case x < 0.80:
			ops = append(ops, c19Op{T: "put", K: pick(c19Outside)})
		case x < 0.85:
			ops = append(ops, c19Op{T: "del", K: pick(c19Outside)})
		case x < 0.88:
			ops = append(ops, c19Op{T: "delprefix"})
		default:
			ops = append(ops, c19Op{T: "sleep", Ms: 1 + rng.Intn(15)})
		}
	}
	return ops
}

// c19LargeKey names key i of a large prefix; the names sort like the indices.
func c19LargeKey(i int) string { return fmt.Sprintf("k%04d", i) }

// c19LargePresent: which keys of the universe the populate step creates (the others can be
// created later by the writers).
func c19LargePresent(i int) bool { return i%5 != 4 }

// c19GenLargeOps: writes over a large prefix.  Most of them are transactions that change
// keys of DISTANT regions of the (sorted) prefix atomically: a key of the first quarter and a
// key of the last quarter, optionally more keys anywhere and the single watched key "a"
// (which sorts before every k-key); puts of unique values and deletes, "move" = delete one
// key and create/overwrite a distant one.  Writers do not pause (a rare 1-3 ms sleep), so
// that commits land while the syncers' pulls are under way.
func c19GenLargeOps(rng *rand.Rand, n, universe int) []c19Op {
	q := universe / 4
	far := func(extraMax int) []string {
		ks := []string{c19LargeKey(rng.Intn(q)), c19LargeKey(universe - 1 - rng.Intn(q))}
		for extra := rng.Intn(extraMax + 1); extra > 0; extra-- {
			ks = append(ks, c19LargeKey(rng.Intn(universe)))
		}
		if rng.Intn(4) == 0 {
			ks = append(ks, "a")
		}
		seen := map[string]bool{}
		out := ks[:0]
		for _, k := range ks {
			if !seen[k] {
				seen[k] = true
				out = append(out, k)
			}
		}
		rng.Shuffle(len(out), func(i, j int) { out[i], out[j] = out[j], out[i] })
		return out
	}
	var ops []c19Op
	for len(ops) < n {
		x := rng.Float64()
		switch {
		case x < 0.50:
			op := c19Op{T: "txn", Ks: far(3)}
			for range op.Ks {
				op.Del = append(op.Del, rng.Float64() < 0.25)
			}
			ops = append(ops, op)
		case x < 0.65:
			ks := far(0)[:2]
			ops = append(ops, c19Op{T: "txn", Ks: ks, Del: []bool{true, false}}) // move
		case x < 0.80:
			ops = append(ops, c19Op{T: "put", K: c19LargeKey(rng.Intn(universe))})
		case x < 0.86:
			ops = append(ops, c19Op{T: "del", K: c19LargeKey(rng.Intn(universe))})
		case x < 0.91:
			ops = append(ops, c19Op{T: []string{"put", "put", "del"}[rng.Intn(3)], K: "a"})
		case x < 0.94:
			ops = append(ops, c19Op{T: "same", K: c19LargeKey(rng.Intn(universe))})
		case x < 0.97:
			ops = append(ops, c19Op{T: "put", K: pick19(rng, c19Outside)})
		default:
			ops = append(ops, c19Op{T: "sleep", Ms: 1 + rng.Intn(3)})
		}
	}
	return ops
}

func pick19(rng *rand.Rand, l []string) string { return l[rng.Intn(len(l))] }

func c19GenBurst(rng *rand.Rand, n int) []c19Op {
	var ops []c19Op
	keys := []string{"a", "b", "a", "c"}
	for i := 0; i < n; i++ {
		if rng.Intn(8) == 0 {
			ops = append(ops, c19Op{T: "del", K: "a"})
		}
		ops = append(ops, c19Op{T: "put", K: keys[i%len(keys)]})
		if rng.Intn(2) == 0 {
			ops = append(ops, c19Op{T: "sleep", Ms: 1 + rng.Intn(4)})
		}
	}
	return ops
}

func c19GenPrepop(rng *rand.Rand) []c19Op {
	ops := []c19Op{{T: "put", K: "a"}, {T: "put", K: "xa"}, {T: "put", K: "b"}}
	if rng.Intn(2) == 0 {
		ops = append(ops, c19Op{T: "put", K: "c"}, c19Op{T: "put", K: "P"})
	}
	if rng.Intn(2) == 0 {
		ops = append(ops, c19Op{T: "del", K: "a"}, c19Op{T: "put", K: "a"})
	}
	return ops
}

func c19GenSubs(rng *rand.Rand, relay bool, modes []string) []c19SubSpec {
	var out []c19SubSpec
	for _, k := range c19Kinds {
		m := modes[rng.Intn(len(modes))]
		s := c19SubSpec{Kind: k, Relay: relay, Mode: m}
		if m == "slow" {
			s.Delay = 20 + rng.Intn(100)
		}
		out = append(out, s)
	}
	return out
}

var c19Endings = []string{"value-only", "delete-only", "create-only", "delete-recreate", "same-value", "txn-swap", "delprefix", "outside-only", "none"}

// c19GenEnding: bring every consumer up to date (soft), then make one last change of a
// given shape, so that the final difference the syncer has to notice is exactly a value
// change / a deletion / a creation / nothing.
func c19GenEnding(rng *rand.Rand, which string) []c19Step {
	one := func(ops ...c19Op) c19Step { return c19Step{Do: "write", Writers: [][]c19Op{ops}} }
	var pre, fin []c19Op
	switch which {
	case "value-only":
		pre = []c19Op{{T: "put", K: "a"}, {T: "put", K: "b"}}
		fin = []c19Op{{T: "put", K: "a"}}
	case "delete-only":
		pre = []c19Op{{T: "put", K: "a"}, {T: "put", K: "b"}}
		fin = []c19Op{{T: "del", K: "a"}}
	case "create-only":
		pre = []c19Op{{T: "del", K: "a"}, {T: "put", K: "b"}}
		fin = []c19Op{{T: "put", K: "a"}}
	case "delete-recreate":
		pre = []c19Op{{T: "put", K: "a"}}
		fin = []c19Op{{T: "del", K: "a"}, {T: "put", K: "a"}}
	case "same-value":
		pre = []c19Op{{T: "put", K: "a"}, {T: "put", K: "c"}}
		fin = []c19Op{{T: "same", K: "a"}, {T: "same", K: "c"}}
	case "txn-swap":
		pre = []c19Op{{T: "put", K: "a"}, {T: "del", K: "c"}}
		fin = []c19Op{{T: "txn", Ks: []string{"a", "c"}, Del: []bool{true, false}}}
	case "delprefix":
		pre = []c19Op{{T: "put", K: "a"}, {T: "put", K: "b"}, {T: "put", K: "w"}}
		fin = []c19Op{{T: "delprefix"}}
	case "outside-only":
		fin = []c19Op{{T: "put", K: "xa"}, {T: "del", K: "w"}}
	case "none":
		return []c19Step{{Do: "release"}}
	}
	steps := []c19Step{{Do: "release"}}
	if len(pre) > 0 {
		steps = append(steps, one(pre...))
	}
	steps = append(steps, c19Step{Do: "settle"}, one(fin...))
	return steps
}

var c19Pattern = []string{
	"plain-empty", "plain-empty", "plain-empty", "plain-empty", "plain-empty",
	"prepop-gated", "prepop-gated", "prepop-gated", "prepop-gated", "prepop-gated",
	"txn-heavy", "txn-heavy", "txn-heavy", "txn-heavy", "txn-heavy",
	"mid-subscribe", "mid-subscribe", "mid-subscribe", "mid-subscribe",
	"static", "static", "static",
	"restart-mid", "restart-mid", "restart-mid",
	"restart-end", "restart-end",
	"subscribe-down", "subscribe-down",
	"blackout-end", "blackout-end", "blackout-end", "blackout-end", "blackout-end",
	"blackout-heal", "blackout-heal", "blackout-heal",
	"compact-cancel", "compact-cancel", "compact-cancel",
}

// c19LongPerBlock: after every len(c19Pattern) shuffled cases come this many
// "outage-long" cases and then as many "outage-final" cases at fixed positions (with the 8
// quick shards: one of the two kinds per shard), so that the quick tier always contains them.
const c19LongPerBlock = 4

// c19LargePerBlock: after those come this many "large-prefix" cases (with the 8 quick shards:
// one per shard).
const c19LargePerBlock = 8

// c19LastWrites: shapes of the last write of an "outage-final" history.  blocker = the change
// whose delivery finds the gated consumer's channel full (the syncer then sits in its send),
// fin = the last write, made while the syncer is blocked and right before the server stops.
var c19LastWrites = []struct {
	name         string
	blocker, fin []c19Op
}{
	{"value", []c19Op{{T: "put", K: "a"}}, []c19Op{{T: "put", K: "a"}}},
	{"value", []c19Op{{T: "put", K: "a"}}, []c19Op{{T: "put", K: "a"}}},
	{"delete", []c19Op{{T: "put", K: "a"}}, []c19Op{{T: "del", K: "a"}}},
	{"create", []c19Op{{T: "del", K: "a"}}, []c19Op{{T: "put", K: "a"}}},
	{"txn-swap", []c19Op{{T: "put", K: "a"}}, []c19Op{{T: "txn", Ks: []string{"a", "c"}, Del: []bool{true, false}}}},
	{"delprefix", []c19Op{{T: "put", K: "a"}}, []c19Op{{T: "delprefix"}}},
	{"delete-recreate", []c19Op{{T: "put", K: "a"}}, []c19Op{{T: "del", K: "a"}, {T: "put", K: "a"}}},
	{"other-then-value", []c19Op{{T: "put", K: "a"}}, []c19Op{{T: "put", K: "b"}, {T: "put", K: "a"}}},
}

func c19GenCase(rng *rand.Rand, kind string) *c19Case {
	cs := &c19Case{Kind: kind, IntervalMs: []int{100, 200, 300}[rng.Intn(3)]}
	cs.Ending = c19Endings[rng.Intn(len(c19Endings))]
	writers := func(n, lo, hi int, txnW float64) [][]c19Op {
		var w [][]c19Op
		for i := 0; i < n; i++ {
			w = append(w, c19GenOps(rng, lo+rng.Intn(hi-lo+1), txnW))
		}
		return w
	}
	add := func(s ...c19Step) { cs.Steps = append(cs.Steps, s...) }
	prepop := c19Step{Do: "write", Writers: [][]c19Op{c19GenPrepop(rng)}}
	anyMode := []string{"fast", "fast", "slow"}
	switch kind {
	case "plain-empty":
		add(c19Step{Do: "subscribe", Subs: c19GenSubs(rng, false, anyMode)})
		add(c19Step{Do: "write", Writers: writers(1+rng.Intn(3), 10, 25, 0.08)})
	case "prepop-gated":
		add(prepop)
		subs := c19GenSubs(rng, false, []string{"gated", "gated", "slow"})
		subs[rng.Intn(len(subs))].Mode = "gated"
		add(c19Step{Do: "subscribe", Subs: subs})
		w := [][]c19Op{c19GenBurst(rng, 30+rng.Intn(15))}
		if rng.Intn(2) == 0 {
			w = append(w, c19GenOps(rng, 10+rng.Intn(10), 0.1))
		}
		add(c19Step{Do: "write", Writers: w})
	case "txn-heavy":
		if rng.Intn(2) == 0 {
			add(prepop)
		}
		add(c19Step{Do: "subscribe", Subs: c19GenSubs(rng, false, anyMode)})
		add(c19Step{Do: "write", Writers: writers(3, 20, 30, 0.4)})
	case "mid-subscribe":
		if rng.Intn(2) == 0 {
			add(prepop)
		}
		w := writers(2+rng.Intn(2), 20, 30, 0.1)
		add(c19Step{Do: "write", Writers: w, Fault: "subscribe", After: 5 + rng.Intn(25), Subs: c19GenSubs(rng, false, anyMode)})
	case "static":
		add(prepop)
		add(c19Step{Do: "subscribe", Subs: c19GenSubs(rng, false, []string{"fast"})})
		add(c19Step{Do: "write", Writers: [][]c19Op{{{T: "put", K: "xa"}, {T: "put", K: "w"}, {T: "sleep", Ms: 50}, {T: "del", K: "w"}}}})
		cs.Ending = []string{"none", "outside-only", "same-value"}[rng.Intn(3)]
	case "restart-mid":
		if rng.Intn(2) == 0 {
			add(prepop)
		}
		add(c19Step{Do: "subscribe", Subs: c19GenSubs(rng, false, anyMode)})
		if rng.Intn(2) == 0 {
			add(c19Step{Do: "subscribe", Subs: c19GenSubs(rng, true, anyMode)[1+rng.Intn(2):]})
		}
		add(c19Step{Do: "write", Writers: writers(2, 12, 20, 0.1), Fault: "restart", After: 3 + rng.Intn(20), DownMs: rng.Intn(600)})
		add(c19Step{Do: "write", Writers: writers(1+rng.Intn(2), 5, 12, 0.1)})
	case "restart-end":
		add(prepop)
		add(c19Step{Do: "subscribe", Subs: c19GenSubs(rng, false, anyMode)})
		add(c19Step{Do: "write", Writers: writers(1, 5, 12, 0.1)})
		add(c19Step{Do: "release"}, c19Step{Do: "settle"})
		add(c19Step{Do: "write", Writers: [][]c19Op{{{T: []string{"put", "del"}[rng.Intn(2)], K: "a"}, {T: "put", K: "b"}}}})
		add(c19Step{Do: "stop"}, c19Step{Do: "sleep", Ms: rng.Intn(1500)}, c19Step{Do: "start"})
		cs.Ending = "none"
	case "outage-long":
		// The server stays down for longer than one pull interval plus the request timeout
		// while the watched key / prefix is NON-EMPTY: at least one periodic pull of every
		// subscription fails during the outage.  Nothing the syncer delivers meanwhile or
		// afterwards may be anything but a content of the store.
		add(prepop)
		add(c19Step{Do: "subscribe", Subs: c19GenSubs(rng, false, anyMode)})
		if rng.Intn(2) == 0 {
			add(c19Step{Do: "subscribe", Subs: c19GenSubs(rng, true, anyMode)[rng.Intn(3):]})
		}
		if rng.Intn(3) > 0 {
			add(c19Step{Do: "write", Writers: writers(1+rng.Intn(2), 5, 12, 0.1)})
		}
		// whatever the writers did: the prefix holds at least one key when the server stops
		ensure := [][]c19Op{
			{{T: "put", K: "b"}},
			{{T: "put", K: "a"}, {T: "put", K: "b"}},
			{{T: "put", K: "a"}, {T: "put", K: "b"}, {T: "put", K: "c"}},
			{{T: "del", K: "a"}, {T: "put", K: "b"}, {T: "put", K: "P"}},
		}[rng.Intn(4)]
		add(c19Step{Do: "write", Writers: [][]c19Op{ensure}})
		add(c19Step{Do: "release"}, c19Step{Do: "settle"})
		add(c19Step{Do: "outage", Ms: rng.Intn(800)})
		if rng.Intn(3) == 0 {
			// the content stays as it was for a few pull intervals after the recovery
			add(c19Step{Do: "sleep", Ms: (3 + rng.Intn(3)) * cs.IntervalMs})
		}
		add(c19Step{Do: "write", Writers: writers(1+rng.Intn(2), 5, 12, 0.1)})
	case "outage-final":
		// The LAST write of the history precedes (or coincides with) the server stop; the
		// server stays down for longer than pull interval + request timeout; after the
		// recovery NOTHING is written any more.  Consumers of all speeds: at least one
		// single-key and one prefix consumer are gated, their channel is filled (feedback
		// paced puts, step "fill") and the syncer sits in its 11th send when the last write
		// is made; they are released once the server is down, so that the pull triggered by
		// the last write's watch event fails.  Whatever the syncer missed has to come from
		// the periodic pull after the recovery.
		add(prepop)
		if rng.Intn(2) == 0 {
			add(c19Step{Do: "write", Writers: writers(1+rng.Intn(2), 5, 12, 0.1)})
		}
		ensure := [][]c19Op{
			{{T: "put", K: "a"}, {T: "put", K: "b"}},
			{{T: "put", K: "a"}, {T: "put", K: "b"}, {T: "put", K: "c"}},
			{{T: "put", K: "a"}, {T: "del", K: "c"}, {T: "put", K: "P"}},
		}[rng.Intn(3)]
		add(c19Step{Do: "write", Writers: [][]c19Op{ensure}})
		allModes := []string{"fast", "slow", "gated"}
		subs := c19GenSubs(rng, false, allModes)
		subs[rng.Intn(2)].Mode = "gated"   // Sync or SyncRaw
		subs[2+rng.Intn(2)].Mode = "gated" // SyncPrefix or SyncRawPrefix
		for i := range subs {
			if subs[i].Mode != "slow" {
				subs[i].Delay = 0
			}
		}
		add(c19Step{Do: "subscribe", Subs: subs})
		if rng.Intn(3) == 0 {
			add(c19Step{Do: "subscribe", Subs: c19GenSubs(rng, true, allModes)[rng.Intn(3):]})
		}
		lw := c19LastWrites[rng.Intn(len(c19LastWrites))]
		cs.Last = lw.name
		add(c19Step{Do: "fill", Writers: [][]c19Op{lw.blocker}})
		// held down for: the periodic pull + one pull per watch event that can be queued
		// behind the blocked send (the blocker's, if the syncer was blocked one change
		// earlier than the harness saw, and the last write's), each failing after one
		// request timeout
		add(c19Step{Do: "outage", Ms: rng.Intn(800), Writers: [][]c19Op{lw.fin}, Coincide: rng.Intn(4) == 0, After: rng.Intn(31), ReleaseDown: true, Pulls: 2 + len(lw.fin)})
		cs.Ending = "none"
	case "large-prefix":
		// The watched prefix holds HUNDREDS of keys (more than any page a reader might
		// cut the range into); 2-3 writers change keys of distant regions of the prefix in
		// single transactions, back to back, while all four Sync* kinds are subscribed and
		// at least one prefix consumer is fast (every commit makes the syncers pull).  Every
		// delivered snapshot must be the content of the prefix at ONE revision.
		cs.Universe = 300 + rng.Intn(201)
		add(c19Step{Do: "populate", N: cs.Universe})
		subs := c19GenSubs(rng, false, []string{"fast", "fast", "fast", "slow"})
		fast := &subs[2+rng.Intn(2)] // SyncPrefix or SyncRawPrefix
		fast.Mode, fast.Delay = "fast", 0
		var w [][]c19Op
		for i, nw := 0, 2+rng.Intn(2); i < nw; i++ {
			w = append(w, c19GenLargeOps(rng, 35+rng.Intn(21), cs.Universe))
		}
		if rng.Intn(3) == 0 {
			// subscribed while the writers run: the first pull overlaps commits as well
			add(c19Step{Do: "write", Writers: w, Fault: "subscribe", After: 3 + rng.Intn(20), Subs: subs})
		} else {
			add(c19Step{Do: "subscribe", Subs: subs})
			add(c19Step{Do: "write", Writers: w})
		}
	case "subscribe-down":
		add(prepop)
		add(c19Step{Do: "stop"})
		add(c19Step{Do: "subscribe", Subs: c19GenSubs(rng, false, anyMode)})
		add(c19Step{Do: "sleep", Ms: rng.Intn(800)}, c19Step{Do: "start"})
		if rng.Intn(3) > 0 {
			add(c19Step{Do: "write", Writers: writers(2, 5, 15, 0.1)})
		} else {
			cs.Ending = "none"
		}
	case "blackout-end":
		add(prepop)
		add(c19Step{Do: "subscribe", Subs: c19GenSubs(rng, false, anyMode)})
		add(c19Step{Do: "subscribe", Subs: c19GenSubs(rng, true, anyMode)})
		add(c19Step{Do: "waitfirst"}, c19Step{Do: "pause"})
		add(c19Step{Do: "write", Writers: writers(1+rng.Intn(2), 8, 20, 0.1)})
	case "blackout-heal":
		add(prepop)
		add(c19Step{Do: "subscribe", Subs: c19GenSubs(rng, false, anyMode)})
		add(c19Step{Do: "subscribe", Subs: c19GenSubs(rng, true, anyMode)})
		add(c19Step{Do: "waitfirst"})
		switch rng.Intn(3) {
		case 0:
			add(c19Step{Do: "pause"})
			add(c19Step{Do: "write", Writers: writers(2, 8, 15, 0.1)})
			add(c19Step{Do: "unpause"})
		case 1:
			add(c19Step{Do: "pause"})
			add(c19Step{Do: "write", Writers: writers(2, 8, 15, 0.1)})
			add(c19Step{Do: "cut"}, c19Step{Do: "unpause"})
		default:
			add(c19Step{Do: "write", Writers: writers(2, 8, 15, 0.1), Fault: "cut", After: 3 + rng.Intn(10)})
		}
		add(c19Step{Do: "write", Writers: writers(1, 5, 12, 0.1)})
	case "compact-cancel":
		add(prepop)
		add(c19Step{Do: "subscribe", Subs: c19GenSubs(rng, false, anyMode)})
		add(c19Step{Do: "subscribe", Subs: c19GenSubs(rng, true, anyMode)})
		add(c19Step{Do: "waitfirst"}, c19Step{Do: "pause"})
		w := writers(1, 6, 12, 0.1)
		w[0] = append([]c19Op{{T: "put", K: "a"}, {T: "put", K: "b"}, {T: "put", K: "a"}, {T: "put", K: "c"}}, w[0]...)
		add(c19Step{Do: "write", Writers: w})
		add(c19Step{Do: "compact"}, c19Step{Do: "cut"}, c19Step{Do: "unpause"})
		add(c19Step{Do: "sleep", Ms: 200 + rng.Intn(1500)})
		if rng.Intn(2) == 0 {
			add(c19Step{Do: "write", Writers: writers(1, 5, 12, 0.1)})
		}
	}
	add(c19GenEnding(rng, cs.Ending)...)
	return cs
}

// ---------------------------------------------------------------- subscriptions / consumers

type c19Delivery struct {
	KV   map[string]string   `json:"kv"`
	Raw  map[string]c19RawKV `json:"raw,omitempty"`
	Bad  string              `json:"bad,omitempty"`
	At   time.Time           `json:"-"`
	orig interface{}
}

type c19Sub struct {
	Spec   c19SubSpec
	Key    string
	Prefix bool
	RevSub int64

	resume     chan struct{}
	resumeOnce sync.Once
	exited     chan struct{}
	qlen       func() (int, int)

	mu       sync.Mutex
	deliv    []c19Delivery
	closed   bool
	fullSeen int

	// written by the case's main goroutine only (outage step, convergence phase)
	fullAtStop        bool              // channel full when the server of an outage-after-last-write was stopped
	atOutageEnd       bool              // the two fields below are set
	viewAtOutageEnd   map[string]string // the consumer's view just before the server was started again
	countAtOutageEnd  int
	behindAtOutageEnd bool // that view differs from the final content
	converged         bool
}

func (s *c19Sub) name() string {
	n := s.Spec.Kind + "/" + s.Spec.Mode
	if s.Spec.Relay {
		n += "/relay"
	}
	return n
}

func (s *c19Sub) release() { s.resumeOnce.Do(func() { close(s.resume) }) }

func (s *c19Sub) throttle() {
	switch s.Spec.Mode {
	case "slow":
		select {
		case <-time.After(time.Duration(s.Spec.Delay) * time.Millisecond):
		case <-s.resume:
		}
	case "gated":
		<-s.resume
	default:
		return
	}
	if n, c := s.qlen(); n == c {
		s.mu.Lock()
		s.fullSeen++
		s.mu.Unlock()
	}
}

func (s *c19Sub) record(d c19Delivery) {
	d.At = time.Now()
	s.mu.Lock()
	s.deliv = append(s.deliv, d)
	s.mu.Unlock()
}

func (s *c19Sub) finish() {
	s.mu.Lock()
	s.closed = true
	s.mu.Unlock()
	close(s.exited)
}

func (s *c19Sub) count() int {
	s.mu.Lock()
	defer s.mu.Unlock()
	return len(s.deliv)
}

func (s *c19Sub) isClosed() bool {
	s.mu.Lock()
	defer s.mu.Unlock()
	return s.closed
}

// view is the consumer's current idea of the content: the last snapshot, or empty.
func (s *c19Sub) view() map[string]string {
	s.mu.Lock()
	defer s.mu.Unlock()
	if len(s.deliv) == 0 {
		return map[string]string{}
	}
	return s.deliv[len(s.deliv)-1].KV
}

func c19RawOf(kv *mvccpb.KeyValue) c19RawKV {
	return c19RawKV{Value: string(kv.Value), Create: kv.CreateRevision, Mod: kv.ModRevision, Version: kv.Version, Lease: kv.Lease}
}

// The four consumers.  Their names start with c19Consume: a data race between one of
// them (reading a delivered snapshot) and the syncer is in the property's race scope.

func c19ConsumeSync(s *c19Sub, ch <-chan *string) {
	defer s.finish()
	for {
		s.throttle()
		v, ok := <-ch
		if !ok {
			return
		}
		d := c19Delivery{KV: map[string]string{}}
		if v != nil {
			d.KV[s.Key] = *v
		}
		s.record(d)
	}
}

func c19ConsumeSyncRaw(s *c19Sub, ch <-chan *mvccpb.KeyValue) {
	defer s.finish()
	for {
		s.throttle()
		kv, ok := <-ch
		if !ok {
			return
		}
		d := c19Delivery{KV: map[string]string{}, Raw: map[string]c19RawKV{}}
		if kv != nil {
			if string(kv.Key) != s.Key {
				d.Bad = fmt.Sprintf("SyncRaw(%q) delivered key %q", s.Key, kv.Key)
			}
			d.KV[string(kv.Key)] = string(kv.Value)
			d.Raw[string(kv.Key)] = c19RawOf(kv)
		}
		s.record(d)
	}
}

func c19ConsumeSyncPrefix(s *c19Sub, ch <-chan map[string]string) {
	defer s.finish()
	for {
		s.throttle()
		m, ok := <-ch
		if !ok {
			return
		}
		d := c19Delivery{KV: make(map[string]string, len(m)), orig: m}
		for k, v := range m {
			d.KV[k] = v
		}
		s.record(d)
	}
}

func c19ConsumeSyncRawPrefix(s *c19Sub, ch <-chan map[string]*mvccpb.KeyValue) {
	defer s.finish()
	for {
		s.throttle()
		m, ok := <-ch
		if !ok {
			return
		}
		d := c19Delivery{KV: make(map[string]string, len(m)), Raw: make(map[string]c19RawKV, len(m)), orig: m}
		for k, kv := range m {
			if kv == nil {
				d.Bad = fmt.Sprintf("SyncRawPrefix delivered nil for key %q", k)
				continue
			}
			if string(kv.Key) != k {
				d.Bad = fmt.Sprintf("SyncRawPrefix map key %q holds kv of key %q", k, kv.Key)
			}
			d.KV[k] = string(kv.Value)
			d.Raw[k] = c19RawOf(kv)
		}
		s.record(d)
	}
}

// c19RecheckOrig compares, at a quiescent point (syncer goroutine gone), the delivered
// map objects with the copies taken at receipt.
func c19RecheckOrig(d *c19Delivery) string {
	switch m := d.orig.(type) {
	case map[string]string:
		if len(m) != len(d.KV) {
			return "size changed"
		}
		for k, v := range m {
			if d.KV[k] != v {
				return "value of " + k + " changed"
			}
		}
	case map[string]*mvccpb.KeyValue:
		if len(m) != len(d.KV) {
			return "size changed"
		}
		for k, kv := range m {
			if kv == nil || d.KV[k] != string(kv.Value) || d.Raw[k] != c19RawOf(kv) {
				return "kv of " + k + " changed"
			}
		}
	}
	return ""
}

func c19Subscribe(sy Syncer, s *c19Sub) error {
	switch s.Spec.Kind {
	case "Sync":
		ch, err := sy.Sync(s.Key)
		if err != nil {
			return err
		}
		s.qlen = func() (int, int) { return len(ch), cap(ch) }
		go c19ConsumeSync(s, ch)
	case "SyncRaw":
		ch, err := sy.SyncRaw(s.Key)
		if err != nil {
			return err
		}
		s.qlen = func() (int, int) { return len(ch), cap(ch) }
		go c19ConsumeSyncRaw(s, ch)
	case "SyncPrefix":
		ch, err := sy.SyncPrefix(s.Key)
		if err != nil {
			return err
		}
		s.qlen = func() (int, int) { return len(ch), cap(ch) }
		go c19ConsumeSyncPrefix(s, ch)
	case "SyncRawPrefix":
		ch, err := sy.SyncRawPrefix(s.Key)
		if err != nil {
			return err
		}
		s.qlen = func() (int, int) { return len(ch), cap(ch) }
		go c19ConsumeSyncRawPrefix(s, ch)
	default:
		return fmt.Errorf("unknown kind %s", s.Spec.Kind)
	}
	return nil
}

// ---------------------------------------------------------------- one case

type c19Run struct {
	g        *c19Rig
	r        *kit.Run
	idx      int
	cs       *c19Case
	root     string
	P        string
	interval time.Duration
	truth    *c19Truth

	direct  Syncer
	relaySy *syncer
	subs    []*c19Sub
	subMu   sync.Mutex

	longOutages      int         // outages with a failed reference pull
	lastWriteOutage  bool        // the case's long outage followed the LAST write of the history (outage-final)
	coincide         bool        // ... and that write was issued concurrently with the server stop
	revAtStop        int64       // revision read after the last write, before the server stop (before the concurrent last write when coincide)
	opsSinceRecovery int64       // write operations the harness issued since the server came back (atomic)
	longNonEmpty     bool        // ... during which the watched prefix held at least one key
	outages          []c19Outage // server-down windows of the case (harness clock; classification only)

	valCtr      int64
	lastGoodRev int64 // last revision read while the server was up (lower bound for a subscription made while it is down)
	restarted   bool
	abort       string // non-empty: the case could not be carried out (inconclusive)
	truthLost   bool

	// large-prefix cases: revisions read right before and right after the step in which the
	// concurrent writers ran (a snapshot matched to a revision strictly between them was
	// pulled while the writers were still committing)
	large            bool
	phaseLo, phaseHi int64

	projKV  map[string][]map[string]string // per watched range: projection of truth.at(r), filled lazily
	projRaw map[string][]map[string]c19RawKV

	canaryCancel    context.CancelFunc
	canaryCompacted int32
	canaryDone      chan struct{}
}

// c19Outage is one window in which the harness had the etcd server stopped.
type c19Outage struct {
	from, to time.Time // just before CloseServer .. after StartServer reported ready
	long     bool      // longer than request timeout + pull intervals, a reference pull failed in it
}

// phaseOf tells where a delivery (by the consumer's receive time) lies relative to the
// server outages of the case.  Used in signatures only, never for a verdict.
func (cr *c19Run) phaseOf(at time.Time) string {
	phase := ""
	for _, o := range cr.outages {
		switch {
		case !at.Before(o.from) && (o.to.IsZero() || !at.After(o.to)):
			return "while-server-down"
		case !o.to.IsZero() && at.After(o.to):
			phase = "after-server-outage"
		}
	}
	return phase
}

func (cr *c19Run) outageBegin() {
	cr.outages = append(cr.outages, c19Outage{from: time.Now()})
}

func (cr *c19Run) outageEnd(long bool) {
	if n := len(cr.outages); n > 0 {
		cr.outages[n-1].to = time.Now()
		cr.outages[n-1].long = long
	}
}

func (cr *c19Run) key(sym string) string {
	switch sym {
	case "P":
		return cr.P
	case "xa":
		return cr.root + "x/a"
	case "w":
		return cr.root + "w" // the prefix without its trailing slash: outside
	case "wz":
		return cr.root + "wz"
	default:
		return cr.P + sym // a, a1, b, c
	}
}

func (cr *c19Run) newVal(w int) string {
	return fmt.Sprintf("c%d.w%d.%d", cr.idx, w, atomic.AddInt64(&cr.valCtr, 1))
}

func (cr *c19Run) allSubs() []*c19Sub {
	cr.subMu.Lock()
	defer cr.subMu.Unlock()
	return append([]*c19Sub(nil), cr.subs...)
}

func (cr *c19Run) subscribe(specs []c19SubSpec) {
	for _, sp := range specs {
		s := &c19Sub{Spec: sp, resume: make(chan struct{}), exited: make(chan struct{})}
		if strings.HasSuffix(sp.Kind, "Prefix") {
			s.Key, s.Prefix = cr.P, true
		} else {
			s.Key = cr.key("a")
		}
		if cr.g.down {
			s.RevSub = cr.lastGoodRev
		} else {
			rv, err := cr.g.waitRev(c19HarnessTimeout)
			if err != nil {
				cr.abort = "revision probe before subscribing failed: " + err.Error()
				return
			}
			s.RevSub = rv
		}
		var sy Syncer
		if sp.Relay {
			if cr.relaySy == nil {
				// same code, but the watch path uses the client behind the relay;
				// pulls still go through cluster.GetRaw/GetRawPrefix (the cluster's own client)
				cr.relaySy = &syncer{cluster: cr.g.c, client: cr.g.relayCli, pullInterval: cr.interval, done: make(chan struct{})}
			}
			sy = cr.relaySy
		} else {
			if cr.direct == nil {
				d, err := cr.g.c.Syncer(cr.interval)
				if err != nil {
					cr.abort = "cluster.Syncer failed: " + err.Error()
					return
				}
				cr.direct = d
			}
			sy = cr.direct
		}
		if err := c19Subscribe(sy, s); err != nil {
			cr.abort = "subscribe failed: " + err.Error()
			return
		}
		cr.subMu.Lock()
		cr.subs = append(cr.subs, s)
		cr.subMu.Unlock()
		cr.r.Count("subscriptions", 1)
	}
}

func (cr *c19Run) writer(w int, ops []c19Op, after func()) {
	c := cr.g.c
	for _, op := range ops {
		var err error
		if op.T != "sleep" {
			atomic.AddInt64(&cr.opsSinceRecovery, 1)
		}
		switch op.T {
		case "put":
			err = c.Put(cr.key(op.K), cr.newVal(w))
		case "same":
			// same-value put: write back what is there (no concurrent writer => no change of content)
			var cur *string
			cur, err = c.Get(cr.key(op.K))
			if err == nil {
				if cur != nil {
					err = c.Put(cr.key(op.K), *cur)
					cr.r.Count("same_value_puts", 1)
				} else {
					err = c.Put(cr.key(op.K), cr.newVal(w))
				}
			}
		case "del":
			err = c.Delete(cr.key(op.K))
		case "delprefix":
			err = c.DeletePrefix(cr.P)
		case "txn":
			m := map[string]*string{}
			for i, k := range op.Ks {
				if op.Del[i] {
					m[cr.key(k)] = nil
				} else {
					v := cr.newVal(w)
					m[cr.key(k)] = &v
				}
			}
			err = c.PutAndDelete(m)
			if err == nil && cr.large {
				under := 0
				for k := range m {
					if strings.HasPrefix(k, cr.P) {
						under++
					}
				}
				if under >= 2 {
					cr.r.Count("large_prefix_atomic_multi_key_commits", 1)
				}
			}
		case "sleep":
			time.Sleep(time.Duration(op.Ms) * time.Millisecond)
			after()
			continue
		}
		if err != nil {
			cr.r.Count("write_ops_failed", 1)
			time.Sleep(100 * time.Millisecond)
		} else {
			cr.r.Count("write_ops_ok", 1)
		}
		after()
	}
}

func (cr *c19Run) doRestart(downMs int) {
	if rv, err := cr.g.rev(); err == nil {
		cr.lastGoodRev = rv
	}
	cr.outageBegin()
	cr.g.stopServer()
	time.Sleep(time.Duration(downMs) * time.Millisecond)
	if err := cr.g.startServer(); err != nil {
		cr.abort = "server restart failed: " + err.Error()
		return
	}
	cr.outageEnd(false)
	atomic.StoreInt64(&cr.opsSinceRecovery, 0)
	cr.restarted = true
	cr.r.Count("server_restarts_in_case", 1)
}

func (cr *c19Run) write(st *c19Step) {
	if cr.large && len(st.Writers) >= 2 && cr.phaseLo == 0 {
		if rv, err := cr.g.waitRev(c19HarnessTimeout); err == nil {
			cr.phaseLo = rv
			defer func() {
				if rv, err := cr.g.waitRev(c19HarnessTimeout); err == nil {
					cr.phaseHi = rv
				}
			}()
		}
	}
	var done int64
	trigger := make(chan struct{})
	var once sync.Once
	fire := func() { once.Do(func() { close(trigger) }) }
	after := func() {
		if st.Fault != "" && atomic.AddInt64(&done, 1) >= int64(st.After) {
			fire()
		}
	}
	var fwg sync.WaitGroup
	if st.Fault != "" {
		fwg.Add(1)
		go func() {
			defer fwg.Done()
			<-trigger
			switch st.Fault {
			case "restart":
				cr.doRestart(st.DownMs)
			case "subscribe":
				cr.subscribe(st.Subs)
			case "cut":
				cr.g.relay.cut()
				cr.r.Count("relay_cuts", 1)
			}
		}()
	}
	var wg sync.WaitGroup
	for w, ops := range st.Writers {
		wg.Add(1)
		go func(w int, ops []c19Op) {
			defer wg.Done()
			cr.writer(w, ops, after)
		}(w, ops)
	}
	wg.Wait()
	fire()
	fwg.Wait()
}

// current reads the present content of the case's key range.
func (cr *c19Run) current() (map[string]c19RawKV, int64, error) {
	var lastErr error
	deadline := time.Now().Add(c19HarnessTimeout)
	for time.Now().Before(deadline) {
		ctx, cancel := context.WithTimeout(context.Background(), 10*time.Second)
		resp, err := cr.g.cli.Get(ctx, cr.root, clientv3.WithPrefix())
		cancel()
		if err == nil {
			m := map[string]c19RawKV{}
			for _, kv := range resp.Kvs {
				m[string(kv.Key)] = c19RawOf(kv)
			}
			return m, resp.Header.Revision, nil
		}
		lastErr = err
		time.Sleep(100 * time.Millisecond)
	}
	return nil, 0, lastErr
}

func c19Project(content map[string]c19RawKV, s *c19Sub) map[string]string {
	out := map[string]string{}
	for k, v := range content {
		if (s.Prefix && strings.HasPrefix(k, s.Key)) || (!s.Prefix && k == s.Key) {
			out[k] = v.Value
		}
	}
	return out
}

func c19ProjectRaw(content map[string]c19RawKV, s *c19Sub) map[string]c19RawKV {
	out := map[string]c19RawKV{}
	for k, v := range content {
		if (s.Prefix && strings.HasPrefix(k, s.Key)) || (!s.Prefix && k == s.Key) {
			out[k] = v
		}
	}
	return out
}

func c19EqKV(a, b map[string]string) bool {
	if len(a) != len(b) {
		return false
	}
	for k, v := range a {
		if w, ok := b[k]; !ok || w != v {
			return false
		}
	}
	return true
}

func c19EqRaw(a, b map[string]c19RawKV) bool {
	if len(a) != len(b) {
		return false
	}
	for k, v := range a {
		if w, ok := b[k]; !ok || w != v {
			return false
		}
	}
	return true
}

// c19DiffClass names how the view differs from the final content.
func c19DiffClass(view, fin map[string]string) string {
	var cl []string
	missing, extra, value := false, false, false
	for k, v := range fin {
		if w, ok := view[k]; !ok {
			missing = true
		} else if w != v {
			value = true
		}
	}
	for k := range view {
		if _, ok := fin[k]; !ok {
			extra = true
		}
	}
	if value {
		cl = append(cl, "stale-value")
	}
	if missing {
		cl = append(cl, "missing-key")
	}
	if extra {
		cl = append(cl, "deleted-key-still-present")
	}
	return strings.Join(cl, "+")
}

// refCycle is one reference pull interval as the harness observes it: sleep one pull
// interval, then one successful pull through the cluster's own client (the path the
// syncer's ticker pull takes).
func (cr *c19Run) refCycle() (map[string]c19RawKV, bool) {
	time.Sleep(cr.interval)
	kvs, err := cr.g.c.GetRawPrefix(cr.root)
	if err != nil {
		return nil, false
	}
	m := make(map[string]c19RawKV, len(kvs))
	for k, kv := range kvs {
		m[k] = c19RawOf(kv)
	}
	return m, true
}

// settle waits (softly, no verdict) until every consumer has the current content.
func (cr *c19Run) settle() {
	cur, _, err := cr.current()
	if err != nil {
		return
	}
	for i := 0; i < 25; i++ {
		ok := true
		for _, s := range cr.allSubs() {
			if !c19EqKV(s.view(), c19Project(cur, s)) {
				ok = false
			}
		}
		if ok {
			cr.r.Count("settle_points_reached", 1)
			return
		}
		cr.refCycle()
	}
	cr.r.Count("settle_points_not_reached", 1)
}

func (cr *c19Run) releaseAll(waitFull bool) {
	subs := cr.allSubs()
	if waitFull {
		// give a gated consumer's channel the chance to fill completely (soft wait)
		deadline := time.Now().Add(3 * time.Second)
		for _, s := range subs {
			if s.Spec.Mode != "gated" {
				continue
			}
			for time.Now().Before(deadline) {
				if n, c := s.qlen(); n == c {
					break
				}
				time.Sleep(10 * time.Millisecond)
			}
		}
	}
	for _, s := range subs {
		if s.Spec.Mode == "gated" {
			s.release()
		}
	}
}

func (cr *c19Run) step(st *c19Step) {
	g := cr.g
	switch st.Do {
	case "write":
		cr.write(st)
	case "subscribe":
		cr.subscribe(st.Subs)
	case "populate":
		cr.populate(st.N)
	case "waitfirst":
		// the relay's watches must be established before the relay is black-holed
		// (clientv3 Watch blocks until the server confirmed the creation): wait for the
		// first delivery of every relay subscription, which follows the watch creation.
		deadline := time.Now().Add(c19HarnessTimeout)
		for _, s := range cr.allSubs() {
			if !s.Spec.Relay {
				continue
			}
			if s.Spec.Mode == "gated" {
				s.release()
			}
			for s.count() == 0 {
				if time.Now().After(deadline) {
					cr.abort = "relay subscription delivered nothing for a non-empty store within the watchdog (before any fault)"
					return
				}
				time.Sleep(10 * time.Millisecond)
			}
		}
		cr.startCanary()
	case "pause":
		g.relay.pause()
	case "unpause":
		g.relay.unpause()
	case "cut":
		g.relay.cut()
		cr.r.Count("relay_cuts", 1)
	case "stop":
		if rv, err := g.rev(); err == nil {
			cr.lastGoodRev = rv
		}
		cr.outageBegin()
		g.stopServer()
	case "start":
		if err := g.startServer(); err != nil {
			cr.abort = "server start failed: " + err.Error()
			return
		}
		cr.outageEnd(false)
		atomic.StoreInt64(&cr.opsSinceRecovery, 0)
		cr.restarted = true
		cr.r.Count("server_restarts_in_case", 1)
	case "outage":
		cr.longOutage(st)
	case "fill":
		cr.fill(st)
	case "compact":
		rv, err := g.waitRev(c19HarnessTimeout)
		if err != nil {
			cr.abort = "revision probe failed: " + err.Error()
			return
		}
		if err := g.extend(cr.truth, rv); err != nil {
			if err == errC19TruthLost {
				cr.truthLost = true
			}
			cr.abort = "ground truth read before compaction failed: " + err.Error()
			return
		}
		if err := g.compact(rv); err != nil {
			cr.abort = "compaction failed: " + err.Error()
			return
		}
		cr.r.Count("compactions_by_harness", 1)
	case "release":
		cr.releaseAll(true)
	case "settle":
		cr.settle()
	case "sleep":
		time.Sleep(time.Duration(st.Ms) * time.Millisecond)
	}
}

// populate creates 4 of 5 keys of the universe k0000..k<n-1> under the watched prefix (plus
// the single watched key and one key outside), 50 per transaction.
func (cr *c19Run) populate(n int) {
	batch := map[string]*string{}
	flush := func() bool {
		if len(batch) == 0 {
			return true
		}
		var err error
		for try := 0; try < 3; try++ {
			if err = cr.g.c.PutAndDelete(batch); err == nil {
				break
			}
			time.Sleep(200 * time.Millisecond)
		}
		batch = map[string]*string{}
		if err != nil {
			cr.abort = "populating the large prefix failed: " + err.Error()
			return false
		}
		return true
	}
	created := 0
	for _, sym := range []string{"a", "xa"} {
		v := cr.newVal(9)
		batch[cr.key(sym)] = &v
	}
	for i := 0; i < n; i++ {
		if !c19LargePresent(i) {
			continue
		}
		v := cr.newVal(9)
		batch[cr.key(c19LargeKey(i))] = &v
		created++
		if len(batch) >= 50 && !flush() {
			return
		}
	}
	if !flush() {
		return
	}
	cr.r.Max("max:large_prefix_keys_populated", int64(created))
}

// fill brings every gated subscription into the state "channel full, syncer sitting in
// its next send": unique puts on the watched key, each one made only after the previous
// one's snapshot arrived in the gated channels (feedback pacing: no snapshot is skipped and
// no watch event piles up behind the send), until the channels are full; then the blocker
// change (st.Writers[0]), whose snapshot cannot be sent.  Soft waits only.
func (cr *c19Run) fill(st *c19Step) {
	var gated []*c19Sub
	for _, s := range cr.allSubs() {
		if s.Spec.Mode == "gated" {
			gated = append(gated, s)
		}
	}
	if len(gated) == 0 {
		return
	}
	level := func() (min int, full bool) {
		min, full = 1<<30, true
		for _, s := range gated {
			n, c := s.qlen()
			if n < min {
				min = n
			}
			if n < c {
				full = false
			}
		}
		return
	}
	waitLevel := func(want int, max time.Duration) {
		deadline := time.Now().Add(max)
		for time.Now().Before(deadline) {
			if min, full := level(); full || min >= want {
				return
			}
			time.Sleep(3 * time.Millisecond)
		}
	}
	waitLevel(1, 5*time.Second) // the first snapshot of the non-empty store
	puts := 0
	for ; puts < 40; puts++ {
		min, full := level()
		if full {
			break
		}
		cr.writer(0, []c19Op{{T: "put", K: "a"}}, func() {})
		waitLevel(min+1, 2*time.Second)
	}
	cr.r.Count("fill_puts", int64(puts))
	if _, full := level(); !full {
		cr.r.Count("fill_left_a_gated_channel_not_full", 1)
	}
	time.Sleep(cr.interval / 2)
	if len(st.Writers) > 0 {
		cr.writer(0, st.Writers[0], func() {})
	}
	// lower bound only: the blocker's watch event has been handled (pull + blocked send)
	time.Sleep(2*cr.interval + 100*time.Millisecond)
}

// longOutage stops the server and keeps it down for at least Pulls (default 1) request
// timeouts + 3 pull intervals (+ Ms): every subscription's ticker fires within one interval after the
// stop, and the pull it starts gives up after the request timeout at the latest.  A
// reference pull through the same cluster client, started one interval after the stop
// (not earlier than the latest of those ticker pulls), is observed to FAIL before the
// server is started again.  Lower bounds on real time only; no verdict depends on them.
//
// With st.Writers the step first makes the LAST write of the history (right before the
// stop, or concurrently with it), and with ReleaseDown it releases the gated consumers as
// soon as the server is down: the syncer, until then sitting in a send on a full channel,
// handles the last write's watch event while no pull can succeed.
func (cr *c19Run) longOutage(st *c19Step) {
	g := cr.g
	last := len(st.Writers) > 0
	if last && !st.Coincide {
		cr.write(&c19Step{Do: "write", Writers: st.Writers})
	}
	cur, rv, err := cr.current()
	if err != nil {
		cr.abort = "content not readable before the outage: " + err.Error()
		return
	}
	cr.lastGoodRev = rv
	underPrefix, watchedKey := 0, 0
	for k := range cur {
		if strings.HasPrefix(k, cr.P) {
			underPrefix++
		}
		if k == cr.key("a") {
			watchedKey++
		}
	}
	var lastWg sync.WaitGroup
	if last {
		cr.lastWriteOutage, cr.coincide, cr.revAtStop = true, st.Coincide, rv
		if st.Coincide {
			// the content while the server is down is not known in advance
			underPrefix, watchedKey = 0, 0
			lastWg.Add(1)
			started := make(chan struct{})
			go func() {
				defer lastWg.Done()
				close(started)
				cr.write(&c19Step{Do: "write", Writers: st.Writers})
			}()
			// the stop begins 0-3 ms after the writer: the write lands before the stop,
			// is cut off by it, or is replayed from the log at the restart
			<-started
			time.Sleep(time.Duration(st.After) * 100 * time.Microsecond)
		}
	}
	cr.outageBegin()
	g.stopServer()
	down := time.Now()
	if last {
		for _, s := range cr.allSubs() {
			if n, c := s.qlen(); n == c {
				s.fullAtStop = true
				cr.r.Count("subscriptions_with_full_channel_at_server_stop", 1)
			}
		}
	}
	if st.ReleaseDown {
		for _, s := range cr.allSubs() {
			if s.Spec.Mode == "gated" {
				s.release()
				cr.r.Count("gated_consumers_released_while_server_down", 1)
			}
		}
	}
	refErr := make(chan error, 1)
	go func() {
		time.Sleep(cr.interval)
		_, err := g.c.GetRawPrefix(cr.root)
		refErr <- err
	}()
	pulls := st.Pulls
	if pulls < 1 {
		pulls = 1
	}
	hold := time.Duration(pulls)*g.c.requestTimeout + 3*cr.interval + time.Duration(st.Ms)*time.Millisecond
	for time.Since(down) < hold {
		time.Sleep(20 * time.Millisecond)
	}
	failed := false
	select {
	case err := <-refErr:
		failed = err != nil
	case <-time.After(c19HarnessTimeout):
		cr.abort = "reference pull during the outage did not return"
	}
	lastWg.Wait()
	heldMs := time.Since(down).Milliseconds()
	if last {
		// what every consumer has at the end of the outage; anything newer can only be
		// delivered after the recovery
		for _, s := range cr.allSubs() {
			v := s.view()
			cp := make(map[string]string, len(v))
			for k, x := range v {
				cp[k] = x
			}
			s.atOutageEnd, s.viewAtOutageEnd, s.countAtOutageEnd = true, cp, s.count()
		}
	}
	if err := g.startServer(); err != nil {
		cr.abort = "server start after the long outage failed: " + err.Error()
		return
	}
	cr.outageEnd(failed)
	atomic.StoreInt64(&cr.opsSinceRecovery, 0)
	if cr.abort != "" {
		return
	}
	cr.restarted = true
	cr.r.Count("server_restarts_in_case", 1)
	if !failed {
		// cannot happen with a stopped single-node server; the case still runs, it just
		// does not count as a long outage
		cr.r.Count("long_outage_reference_pull_did_not_fail", 1)
		return
	}
	cr.longOutages++
	cr.r.Count("long_outages_with_failed_reference_pull", 1)
	cr.r.Max("max:long_outage_ms", heldMs)
	if last {
		cr.r.Count("long_outages_right_after_the_last_write", 1)
		if st.Coincide {
			cr.r.Count("long_outages_with_last_write_concurrent_to_server_stop", 1)
		}
	}
	if underPrefix > 0 {
		cr.r.Count("long_outages_over_nonempty_prefix", 1)
		cr.longNonEmpty = true
	}
	if watchedKey > 0 {
		cr.r.Count("long_outages_with_watched_single_key_present", 1)
	}
}

// startCanary opens a harness-owned watch on the relay client, like the syncer's: when the
// compaction fault cancels the lagging watches, the canary sees the same cancel.
func (cr *c19Run) startCanary() {
	if cr.canaryCancel != nil {
		return
	}
	ctx, cancel := context.WithCancel(context.Background())
	cr.canaryCancel = cancel
	cr.canaryDone = make(chan struct{})
	created := make(chan struct{})
	go func() {
		defer close(cr.canaryDone)
		wch := cr.g.relayCli.Watch(ctx, cr.P, clientv3.WithPrefix())
		close(created)
		for resp := range wch {
			if resp.Canceled && resp.CompactRevision != 0 {
				atomic.StoreInt32(&cr.canaryCompacted, 1)
			}
		}
	}()
	select {
	case <-created:
	case <-time.After(c19HarnessTimeout):
		cr.abort = "canary watch could not be created"
	}
}

type c19Viol struct {
	sig    string
	detail map[string]interface{}
}

// converge is the bounded-convergence clause.
func (cr *c19Run) converge() (fin map[string]c19RawKV, finRev int64, viols []c19Viol) {
	for _, s := range cr.allSubs() {
		s.release()
	}
	fin, finRev, err := cr.current()
	if err != nil {
		cr.abort = "final content not readable: " + err.Error()
		return nil, 0, nil
	}
	subs := cr.allSubs()
	type st struct {
		lastCount, since, total int
		done                    bool
	}
	state := make([]st, len(subs))
	for i, s := range subs {
		state[i].lastCount = s.count()
	}
	start := time.Now()
	paused := cr.g.relay.isPaused()
	// where the convergence phase lies relative to the faults of the case (signature only)
	phase := ""
	if cr.restarted && atomic.LoadInt64(&cr.opsSinceRecovery) == 0 {
		phase = ":after-server-restart-without-later-write"
		if cr.longOutages > 0 {
			phase = ":after-long-outage-without-later-write"
		}
	}
	for {
		open := 0
		for i, s := range subs {
			x := &state[i]
			if x.done {
				continue
			}
			if n := s.count(); n != x.lastCount {
				x.lastCount, x.since = n, 0
			}
			want := c19Project(fin, s)
			view := s.view()
			switch {
			case c19EqKV(view, want):
				x.done = true
				s.converged = true
				cr.r.Eval(1)
				cr.r.Count("subscriptions_converged", 1)
				switch {
				case x.total == 0:
					cr.r.Count("converged_before_first_interval", 1)
				case x.total <= 3:
					cr.r.Count("converged_within_3_intervals", 1)
				default:
					cr.r.Count("converged_after_more_than_3_intervals", 1)
				}
				cr.r.Max("max:convergence_cycles", int64(x.total))
				if s.Spec.Relay && paused {
					cr.r.Count("converged_during_watch_blackout", 1)
				}
			case s.isClosed():
				x.done = true // reported by the safety oracle (channel closed without Close)
			case x.since >= c19StuckCycles:
				x.done = true
				viols = append(viols, c19Viol{
					sig: fmt.Sprintf("no-convergence:%s:%s%s", s.Spec.Kind, c19DiffClass(view, want), phase),
					detail: map[string]interface{}{
						"channel_full_at_server_stop": s.fullAtStop, "deliveries_at_end_of_outage": s.countAtOutageEnd,
						"write_ops_issued_since_recovery": atomic.LoadInt64(&cr.opsSinceRecovery),
						"subscription":                    s.name(), "view": view, "final_content": want, "final_revision": finRev,
						"reference_pull_cycles_without_any_delivery": x.since, "pull_interval_ms": cr.cs.IntervalMs,
						"deliveries_so_far": x.lastCount, "watch_blackout": s.Spec.Relay && paused,
						"elapsed_s": time.Since(start).Seconds(),
					},
				})
			default:
				open++
			}
		}
		if open == 0 {
			break
		}
		if time.Since(start) > c19ConvergeWatchdog {
			cr.r.Inconclusive(fmt.Sprintf("case %d (%s): convergence watchdog fired with %d subscription(s) still differing but not silent for %d cycles", cr.idx, cr.cs.Kind, open, c19StuckCycles))
			break
		}
		if cur, ok := cr.refCycle(); ok {
			if !c19EqRaw(cur, fin) {
				// a write whose client call had timed out was applied late: the final
				// content is what the store holds now; start counting again
				cr.r.Count("final_content_moved_during_convergence", 1)
				fin = cur
				viols = nil
				for i, s := range subs {
					state[i] = st{lastCount: s.count()}
					s.converged = false
				}
				continue
			}
			for i := range state {
				if !state[i].done {
					state[i].since++
					state[i].total++
				}
			}
		}
	}
	// stay two more intervals: a syncer that re-sends or keeps sending shows up here
	cr.refCycle()
	cr.refCycle()
	// the store must not have moved behind the verdicts' back
	cur, rv, err := cr.current()
	if err != nil {
		cr.abort = "final content not readable after the convergence phase: " + err.Error()
		return fin, finRev, nil
	}
	if !c19EqRaw(cur, fin) {
		cr.r.Count("final_content_moved_during_convergence", 1)
		if len(viols) > 0 {
			cr.abort = "store content still moving while a convergence verdict was due"
			viols = nil
		}
		fin = cur
	}
	return fin, rv, viols
}

func c19KeysOf(m map[string]string) []string {
	var out []string
	for k, v := range m {
		out = append(out, k+"="+v)
	}
	sort.Strings(out)
	return out
}

// proj / projRawAt: the content of the subscription's key or prefix at revision r of the
// ground truth (cached: a large prefix is projected once per revision, not once per probe).
func (cr *c19Run) proj(s *c19Sub, r int64) map[string]string {
	t := cr.truth
	if r < t.from || r > t.last() {
		return c19Project(t.at(r), s)
	}
	if cr.projKV == nil {
		cr.projKV = map[string][]map[string]string{}
	}
	id := fmt.Sprintf("%v|%s", s.Prefix, s.Key)
	c := cr.projKV[id]
	if len(c) != len(t.revs) {
		nc := make([]map[string]string, len(t.revs))
		copy(nc, c)
		c = nc
		cr.projKV[id] = c
	}
	if c[r-t.from] == nil {
		c[r-t.from] = c19Project(t.at(r), s)
	}
	return c[r-t.from]
}

func (cr *c19Run) projRawAt(s *c19Sub, r int64) map[string]c19RawKV {
	t := cr.truth
	if r < t.from || r > t.last() {
		return c19ProjectRaw(t.at(r), s)
	}
	if cr.projRaw == nil {
		cr.projRaw = map[string][]map[string]c19RawKV{}
	}
	id := fmt.Sprintf("%v|%s", s.Prefix, s.Key)
	c := cr.projRaw[id]
	if len(c) != len(t.revs) {
		nc := make([]map[string]c19RawKV, len(t.revs))
		copy(nc, c)
		c = nc
		cr.projRaw[id] = c
	}
	if c[r-t.from] == nil {
		c[r-t.from] = c19ProjectRaw(t.at(r), s)
	}
	return c[r-t.from]
}

// c19BriefLimit: contents with more keys are shown in violation details by size and
// difference, not in full.
const c19BriefLimit = 12

func c19Brief(m map[string]string) interface{} {
	if len(m) <= c19BriefLimit {
		return c19KeysOf(m)
	}
	return fmt.Sprintf("%d keys", len(m))
}

// c19Diff lists (at most max entries of) how one content (la) differs from another (lb).
func c19Diff(snap, store map[string]string, la, lb string, max int) (n int, items []string) {
	var keys []string
	for k := range snap {
		keys = append(keys, k)
	}
	for k := range store {
		if _, ok := snap[k]; !ok {
			keys = append(keys, k)
		}
	}
	sort.Strings(keys)
	for _, k := range keys {
		a, inSnap := snap[k]
		b, inStore := store[k]
		if inSnap && inStore && a == b {
			continue
		}
		n++
		if len(items) >= max {
			continue
		}
		switch {
		case !inStore:
			items = append(items, fmt.Sprintf("%s: %s=%s %s=<absent>", k, la, a, lb))
		case !inSnap:
			items = append(items, fmt.Sprintf("%s: %s=<absent> %s=%s", k, la, lb, b))
		default:
			items = append(items, fmt.Sprintf("%s: %s=%s %s=%s", k, la, a, lb, b))
		}
	}
	return n, items
}

// mixedOf examines a snapshot that equals the store's content at NO revision of the case:
// did every key, taken alone, have the snapshot's state (that value / absent) at some
// revision?  Then the snapshot is assembled from the store's contents at several revisions.
// Also returns the revision whose content is closest to the snapshot.
func (cr *c19Run) mixedOf(s *c19Sub, snap map[string]string) (mixed bool, closest int64, nDiff int, diff []string, perKeyRevs []string) {
	t := cr.truth
	keys := map[string]bool{}
	for k := range snap {
		keys[k] = true
	}
	for r := t.from; r <= t.last(); r++ {
		for k := range cr.proj(s, r) {
			keys[k] = true
		}
	}
	firstRev := map[string]int64{} // per key: first revision at which the key had the snapshot's state
	closest, nDiff = -1, 1<<30
	for r := t.from; r <= t.last(); r++ {
		c := cr.proj(s, r)
		d := 0
		for k := range keys {
			a, inSnap := snap[k]
			b, inStore := c[k]
			if inSnap == inStore && a == b {
				if _, ok := firstRev[k]; !ok {
					firstRev[k] = r
				}
			} else {
				d++
			}
		}
		if d < nDiff {
			closest, nDiff = r, d
		}
	}
	mixed = len(firstRev) == len(keys)
	if closest >= 0 {
		var items []string
		_, items = c19Diff(snap, cr.proj(s, closest), "snapshot", "store", 12)
		diff = items
		if mixed {
			// the keys that differ from the closest revision, with a revision at which each had the snapshot's state
			c := cr.proj(s, closest)
			var ks []string
			for k := range keys {
				a, inSnap := snap[k]
				b, inStore := c[k]
				if !(inSnap == inStore && a == b) {
					ks = append(ks, k)
				}
			}
			sort.Strings(ks)
			for _, k := range ks {
				if len(perKeyRevs) >= 12 {
					break
				}
				perKeyRevs = append(perKeyRevs, fmt.Sprintf("%s had the snapshot's state at revision %d", k, firstRev[k]))
			}
		}
	}
	return
}

// c19Safety: every snapshot equals the content at some revision r_i >= subscription,
// r_i non-decreasing, consecutive snapshots differ.
func (cr *c19Run) safety(s *c19Sub) (viols []c19Viol) {
	t := cr.truth
	s.mu.Lock()
	deliv := append([]c19Delivery(nil), s.deliv...)
	s.mu.Unlock()
	lo := s.RevSub
	if lo < t.from {
		lo = t.from
	}
	loRaw := lo
	excerpt := func(i int) map[string]interface{} {
		d := map[string]interface{}{"subscription": s.name(), "watched": s.Key, "prefix": s.Prefix, "delivery_index": i,
			"deliveries": len(deliv), "subscribed_at_revision": s.RevSub, "truth_revisions": []int64{t.from, t.last()},
			"snapshot": c19Brief(deliv[i].KV), "snapshot_keys": len(deliv[i].KV), "lower_bound_revision": lo}
		if i > 0 {
			d["previous_snapshot"] = c19Brief(deliv[i-1].KV)
		}
		// the store's distinct contents (as this subscription sees them) from the lower bound on
		var hist []string
		var prev map[string]string
		for r := lo; r <= t.last() && len(hist) < 25; r++ {
			c := cr.proj(s, r)
			if prev == nil || !c19EqKV(c, prev) {
				switch {
				case len(c) <= c19BriefLimit:
					hist = append(hist, fmt.Sprintf("rev %d: %v", r, c19KeysOf(c)))
				case prev == nil:
					hist = append(hist, fmt.Sprintf("rev %d: %d keys", r, len(c)))
				default:
					n, items := c19Diff(c, prev, "now", "before", 6)
					hist = append(hist, fmt.Sprintf("rev %d: %d keys, %d changed: %v", r, len(c), n, items))
				}
				prev = c
			}
		}
		d["store_contents_from_lower_bound"] = hist
		return d
	}
	skipped := 0
	for i := range deliv {
		d := &deliv[i]
		cr.r.Count("deliveries_checked", 1)
		cr.r.Eval(1)
		if d.Bad != "" {
			x := excerpt(i)
			x["problem"] = d.Bad
			viols = append(viols, c19Viol{"malformed-delivery:" + s.Spec.Kind, x})
		}
		if msg := c19RecheckOrig(d); msg != "" {
			x := excerpt(i)
			x["problem"] = msg
			viols = append(viols, c19Viol{"snapshot-mutated-after-delivery:" + s.Spec.Kind, x})
		}
		if i == 0 && len(d.KV) == 0 {
			cr.r.Count("first_delivery_empty", 1)
		}
		if i > 0 && c19EqKV(d.KV, deliv[i-1].KV) {
			viols = append(viols, c19Viol{"consecutive-snapshots-equal:" + s.Spec.Kind, excerpt(i)})
		}
		found := int64(-1)
		for r := lo; r <= t.last(); r++ {
			if c19EqKV(cr.proj(s, r), d.KV) {
				found = r
				break
			}
		}
		if found < 0 {
			ever := int64(-1)
			for r := t.from; r < lo; r++ {
				if c19EqKV(cr.proj(s, r), d.KV) {
					ever = r
				}
			}
			x := excerpt(i)
			// signature = what the snapshot is (never a content / a content that was gone
			// before the subscription / a content older than an earlier delivery), the
			// subscription kind, whether it is the empty snapshot, and where the delivery
			// lies relative to the server outages of the case
			var class string
			switch {
			case ever < 0:
				// equal to the content at NO revision.  If every key, taken alone, had the
				// snapshot's state at some revision, the snapshot mixes the contents of
				// several revisions (e.g. keys changed by one transaction appear half
				// old, half new); otherwise it holds something the store never held.
				class = "phantom-snapshot-never-a-store-content"
				mixed, closest, nDiff, diff, perKey := cr.mixedOf(s, d.KV)
				if mixed {
					class = "phantom-snapshot-mixes-several-store-revisions"
					x["each_differing_key_alone"] = perKey
				}
				x["closest_revision"] = closest
				x["keys_differing_from_closest_revision"] = nDiff
				x["differences_to_closest_revision"] = diff
				if cr.large {
					x["concurrent_write_phase_revisions"] = []int64{cr.phaseLo, cr.phaseHi}
				}
			case i == 0:
				class = "first-snapshot-older-than-subscription"
			case ever < s.RevSub:
				// not the first delivery, and the store has not had this content since
				// the subscription was made (e.g. an empty snapshot of a range that has
				// been non-empty ever since)
				class = "snapshot-of-content-gone-before-subscription"
			default:
				class = "snapshot-order-regression"
			}
			if ever >= 0 {
				x["last_revision_with_that_content"] = ever
			}
			sig := class + ":" + s.Spec.Kind
			if len(d.KV) == 0 {
				sig += ":empty-snapshot"
			}
			if ph := cr.phaseOf(d.At); ph != "" {
				sig += ":" + ph
				x["delivery_phase"] = ph
			}
			viols = append(viols, c19Viol{sig, x})
			continue
		}
		// distinct contents the syncer skipped between two deliveries (allowed; coverage only)
		for r := lo + 1; r < found; r++ {
			if !c19EqKV(cr.proj(s, r), cr.proj(s, r-1)) {
				skipped++
			}
		}
		lo = found
		cr.r.Count("snapshots_matched_to_a_revision", 1)
		if cr.large {
			cr.r.Max("max:large_prefix_keys_in_a_snapshot", int64(len(d.KV)))
			if s.Prefix && len(d.KV) > 200 {
				cr.r.Count("large_prefix_snapshots_of_more_than_200_keys_matched_to_one_revision", 1)
				if found > cr.phaseLo && found < cr.phaseHi {
					// the content of a revision the concurrent writers went beyond: this
					// pull was served while they were still committing
					cr.r.Count("large_prefix_snapshots_pulled_while_writers_were_committing", 1)
					cr.r.Count("large_prefix_snapshots_pulled_while_writers_were_committing:"+s.Spec.Kind, 1)
				}
			}
		}
		if d.Raw != nil {
			if loRaw < lo {
				// the raw form fixes the revision at least as tightly as the key/value form
				loRaw = lo
			}
			fr := int64(-1)
			for r := loRaw; r <= t.last(); r++ {
				if c19EqRaw(cr.projRawAt(s, r), d.Raw) {
					fr = r
					break
				}
			}
			if fr < 0 {
				x := excerpt(i)
				if len(d.Raw) <= c19BriefLimit {
					x["raw"] = d.Raw
				}
				viols = append(viols, c19Viol{"raw-snapshot-metadata-not-a-store-state:" + s.Spec.Kind, x})
			} else {
				loRaw = fr
				cr.r.Count("raw_snapshots_matched_to_a_revision", 1)
			}
		}
	}
	cr.r.Count("store_states_skipped_by_syncer", int64(skipped))
	return viols
}

func c19Bucket(n int) string {
	switch {
	case n == 0:
		return "0"
	case n == 1:
		return "1"
	case n <= 4:
		return "2-4"
	case n <= 10:
		return "5-10"
	case n <= 30:
		return "11-30"
	}
	return ">30"
}

// run executes the case; returns false if ground truth was lost (retry).
func (cr *c19Run) run() bool {
	g, r := cr.g, cr.r
	rev0, err := g.waitRev(c19HarnessTimeout)
	if err != nil {
		r.Inconclusive(fmt.Sprintf("case %d: store not readable at case start: %v", cr.idx, err))
		return true
	}
	cr.lastGoodRev = rev0
	cr.truth = &c19Truth{root: cr.root, from: rev0}
	if err := g.extend(cr.truth, rev0); err != nil {
		r.Inconclusive(fmt.Sprintf("case %d: %v", cr.idx, err))
		return true
	}

	for i := range cr.cs.Steps {
		cr.step(&cr.cs.Steps[i])
		if cr.abort != "" {
			break
		}
	}
	var fin map[string]c19RawKV
	var finRev int64
	var viols []c19Viol
	if cr.abort == "" {
		fin, finRev, viols = cr.converge()
	}

	// tear down: heal the relay, let every consumer run, close the syncers
	g.relay.unpause()
	if g.down {
		if err := g.startServer(); err != nil && cr.abort == "" {
			cr.abort = "server start at teardown failed: " + err.Error()
		}
	}
	subs := cr.allSubs()
	for _, s := range subs {
		s.release()
	}
	closedEarly := map[*c19Sub]bool{}
	for _, s := range subs {
		closedEarly[s] = s.isClosed()
	}
	if cr.direct != nil {
		cr.direct.Close()
	}
	if cr.relaySy != nil {
		cr.relaySy.Close()
	}
	quiescent := true
	for _, s := range subs {
		select {
		case <-s.exited:
		case <-time.After(45 * time.Second):
			quiescent = false
			r.Count("syncer_goroutine_did_not_exit_after_close", 1)
		}
	}
	if cr.canaryCancel != nil {
		cr.canaryCancel()
		select {
		case <-cr.canaryDone:
		case <-time.After(10 * time.Second):
		}
		if atomic.LoadInt32(&cr.canaryCompacted) == 1 {
			r.Count("watch_cancelled_by_compaction_seen", 1)
		}
	}
	if cr.truthLost {
		return false
	}
	if cr.abort != "" {
		r.Inconclusive(fmt.Sprintf("case %d (%s): %s", cr.idx, cr.cs.Kind, cr.abort))
		return true
	}

	// ground truth: content at every revision of the case, up to the revision reached
	// after every syncer goroutine is gone
	if rv, err := g.waitRev(c19HarnessTimeout); err == nil && rv > finRev {
		finRev = rv
	}
	if err := g.extend(cr.truth, finRev); err != nil {
		if err == errC19TruthLost {
			return false
		}
		r.Inconclusive(fmt.Sprintf("case %d: ground truth not readable: %v", cr.idx, err))
		return true
	}
	if !quiescent {
		for _, s := range subs {
			s.mu.Lock()
			for i := range s.deliv {
				s.deliv[i].orig = nil // syncer goroutine may still be alive: do not touch its maps
			}
			s.mu.Unlock()
		}
	}
	for _, s := range subs {
		if closedEarly[s] {
			viols = append(viols, c19Viol{"channel-closed-without-Close:" + s.Spec.Kind, map[string]interface{}{"subscription": s.name(), "deliveries": s.count()}})
		}
		viols = append(viols, cr.safety(s)...)
		if cr.longOutages > 0 {
			// every delivery of this subscription, before, during and after the outage,
			// went through the snapshot-is-a-store-content oracle above
			r.Count("long_outage_subscriptions_checked:"+s.Spec.Kind, 1)
			if s.Prefix && cr.longNonEmpty {
				r.Count("long_outage_nonempty_prefix_subscriptions_checked", 1)
			}
			during, after := 0, 0
			s.mu.Lock()
			for i := range s.deliv {
				switch cr.phaseOf(s.deliv[i].At) {
				case "while-server-down":
					during++
				case "after-server-outage":
					after++
				}
			}
			s.mu.Unlock()
			r.Count("deliveries_received_while_server_down", int64(during))
			r.Count("deliveries_received_after_long_outage", int64(after))
		}
	}
	if cr.lastWriteOutage && cr.longOutages > 0 {
		// The last write preceded the long outage.  Did the store's content of the case's
		// range change at any revision after the one read right before the server stop?
		later := false
		for rr := cr.revAtStop + 1; rr <= cr.truth.last(); rr++ {
			if rr-1 >= cr.truth.from && !c19EqRaw(cr.truth.at(rr), cr.truth.at(rr-1)) {
				later = true
			}
		}
		suffix := "by_periodic_pull_only"
		switch {
		case !later:
			// no write at all since before the stop: no watch event is produced after the
			// recovery, what a subscription still lacks has to come from the periodic pull
			r.Count("recoveries_without_any_later_write", 1)
		case cr.coincide:
			// the concurrently issued last write was applied (before the stop or when the
			// server replayed its log)
			r.Count("recoveries_after_last_write_concurrent_to_server_stop", 1)
			suffix = "with_last_write_concurrent_to_stop"
		default:
			r.Count("recoveries_followed_by_a_late_applied_write", 1)
			suffix = ""
		}
		for _, s := range subs {
			if suffix == "" || !s.atOutageEnd || c19EqKV(s.viewAtOutageEnd, c19Project(fin, s)) {
				continue
			}
			s.behindAtOutageEnd = true
			r.Count("subscriptions_behind_final_content_at_end_of_outage", 1)
			if s.fullAtStop {
				r.Count("subscriptions_behind_at_end_of_outage_with_full_channel_at_stop", 1)
			}
			if s.converged && s.count() > s.countAtOutageEnd {
				r.Count("converged_after_outage_"+suffix, 1)
				r.Count("converged_after_outage_"+suffix+":"+s.Spec.Kind, 1)
			}
		}
	}
	for _, v := range viols {
		v.detail["case_kind"] = cr.cs.Kind
		v.detail["ending"] = cr.cs.Ending
		v.detail["z_case_script"] = cr.cs
		v.detail["key_root"] = cr.root
		r.Violation(v.sig, v.detail)
	}

	// evidence
	if cr.large {
		r.Count("large_prefix_cases_completed", 1)
		for _, s := range subs {
			r.Count("large_prefix_subscriptions_checked:"+s.Spec.Kind, 1)
		}
	}
	r.Count("cases_completed", 1)
	r.Count("cases_"+cr.cs.Kind, 1)
	if cr.restarted {
		r.Count("cases_with_server_restart", 1)
	}
	distinct := 0
	for rr := cr.truth.from + 1; rr <= cr.truth.last(); rr++ {
		a, b := cr.truth.at(rr), cr.truth.at(rr-1)
		if !c19EqRaw(a, b) {
			distinct++
		}
	}
	r.Count("store_changes_in_case_range", int64(distinct))
	for _, s := range subs {
		n := s.count()
		r.Count("deliveries_total", int64(n))
		s.mu.Lock()
		full := s.fullSeen
		s.mu.Unlock()
		if full > 0 {
			r.Count("channel_full_observed", 1)
		}
		end := cr.cs.Ending
		if cr.cs.Last != "" {
			end = "last-write-before-stop:" + cr.cs.Last
		}
		r.Cover(fmt.Sprintf("%s/%s/end=%s/deliveries=%s/final=%s", cr.cs.Kind, s.name(), end, c19Bucket(n), c19Bucket(len(c19Project(fin, s)))))
	}
	if cr.idx < 2 {
		per := map[string]int{}
		for _, s := range subs {
			per[s.name()] = s.count()
		}
		r.Sample(map[string]interface{}{"case": cr.cs, "revisions": []int64{cr.truth.from, cr.truth.last()}, "store_changes": distinct, "deliveries_per_subscription": per})
	}
	return true
}

// ---------------------------------------------------------------- the test

func TestVerif_C19_Syncer(t *testing.T) {
	r := kit.Start(t, "C19")
	defer r.Finish()
	r.Rule("seeded histories against a real embedded etcd (cluster.New): 1-3 concurrent writers issue puts of UNIQUE values, deletes, same-value puts, delete-then-recreate, multi-key transactions and prefix deletes through the cluster API on 5 keys under the watched prefix (incl. the key equal to the prefix string and a key extending the single watched key) and 3 keys outside it; consumers of Sync/SyncRaw/SyncPrefix/SyncRawPrefix are fast, slow (20-120 ms per receive) or gated until the 10-slot channel is full; case kinds: empty start, pre-populated+burst+gated, transaction-heavy, subscribe during writes, static store, server stop/start during writes / right after the last write / before subscribing (quick restarts: down 0-1.5 s, shorter than the 4 s request timeout, so pulls merely stall), LONG server outage (4 per block of 48 cases, one long-outage case of either sort per quick shard: non-empty watched prefix, all four Sync* kinds subscribed and settled, server down for >= request timeout + 3 pull intervals so that the periodic pulls FAIL - a reference pull through the same cluster client started one interval after the stop is observed to fail before the server is started again - then an idle period and writes after the recovery), LONG OUTAGE AFTER THE LAST WRITE (4 per block as well: all four Sync* kinds subscribed to a non-empty store, at least one single-key and one prefix consumer gated and the others fast, slow or gated; feedback-paced unique puts fill the gated 10-slot channels and one more change leaves the syncer sitting in its 11th send; then the LAST write of the history is made - value, delete, create, delete+recreate, txn swap, prefix delete, other key then value; in 1 of 4 cases concurrently with the stop - the server is stopped, the gated consumers are released while it is down so that the pull triggered by the last write's watch event fails, the server is held down for 3-4 request timeouts + 3 pull intervals with a failing reference pull, is started again, and NOTHING is written any more: what a subscription lacks at the end of the outage can only come from the periodic pull; the bounded-convergence oracle decides and its signature gets the suffix :after-long-outage-without-later-write, or :after-server-restart-without-later-write after a quick restart), watch blackout to the end or healed or cut (second etcd client through a TCP relay for the watch path only), compaction that cancels the lagging watch, LARGE PREFIX (8 per block of 56 cases, one per quick shard: 240-400 keys k0000.. under the watched prefix created 50 per transaction - more than any page a reader might cut the range into -, all four Sync* kinds subscribed before or during the writes, at least one prefix consumer fast, 2-3 writers issue 35-55 operations each back to back: transactions (PutAndDelete) that put/delete a key of the first quarter AND a key of the last quarter of the sorted prefix plus 0-3 keys anywhere and sometimes the single watched key, 'moves' = delete one key and put a distant one in one transaction, single puts/deletes/same-value puts; every commit makes the syncers pull, so commits land while pulls are under way - observed as prefix snapshots of > 200 keys that equal the content at a revision strictly inside the writers' phase); each case ends with a chosen last change (value only, delete only, create only, delete+recreate, same value, txn swap, prefix delete, outside only, none).  Ground truth = Get(WithRev) of the key range at every revision of the case.  Every delivery - before, during and after an outage - must be the content at some revision at or after the subscription; a delivery that is not gets the signature <what it is>:<Sync kind>[:empty-snapshot][:while-server-down|:after-server-outage], where a snapshot equal to the content at NO revision is phantom-snapshot-mixes-several-store-revisions if every key taken alone had the snapshot's state (that value / absent) at some revision of the case (a snapshot assembled from reads at different revisions, e.g. keys written by one transaction half old and half new) and phantom-snapshot-never-a-store-content otherwise.  distinct = (case kind, subscription kind/mode/relay, ending, #deliveries bucket, final size bucket)")
	r.Assume("relay subscriptions use the real syncer code with a second etcd client (through the harness relay) for the watch and the cluster's own client for pulls; the relay is black-holed only after the watch was established and never together with a server restart (a watch that must be (re)created while its connection is black-holed blocks the syncer loop, which cannot happen with the single client of production)")
	r.Assume("bounded convergence replaces 'eventually': a subscription that differs from the final content and received nothing during 50 reference pull cycles (each = one pull interval of sleep + one successful pull through the cluster client, counted by the harness after the last write) is a violation; a firing 150 s watchdog otherwise is inconclusive")
	r.Assume("a long outage is measured by the harness with lower bounds only: the server is kept stopped for at least request timeout (4 s) + 3 pull intervals after CloseServer returned and until a reference pull (cluster.GetRawPrefix, started one pull interval after the stop) has returned an error; the delivery phase (while-server-down / after-server-outage) in a signature comes from the consumer's receive time and only labels a violation, it never decides one")
	r.Assume("'no write after the recovery' is established from etcd's own history: the content of the case's key range is the same at every revision after the one read between the last write and the server stop; a subscription counts as converged by the periodic pull only if its view at the end of the outage (taken before StartServer was called) differed from the final content, it received a delivery afterwards and ended equal to the final content.  When the server is started again the harness ends the gRPC reconnect back-off of the etcd clients (ResetConnectBackoff every 100 ms until the server is ready): after an outage of 10-20 s the next connection attempt could otherwise come later than the request timeout of easegress' start-up step 'register cluster name', which panics the process")
	r.Assume("raw snapshots (SyncRaw/SyncRawPrefix) are additionally matched with create/mod revision, version and lease against the store at some revision; 'consecutive snapshots differ' and convergence are judged on keys and values only, since a same-value put changes only the mod revision")

	g, err := c19NewRig(r)
	if err != nil {
		r.Inconclusive("embedded etcd could not be started: " + err.Error())
		return
	}
	defer g.close()

	// blocks of len(c19Pattern) shuffled kinds followed by c19LongPerBlock long outages
	// with writes after the recovery and c19LongPerBlock long outages after the last write
	// and c19LargePerBlock large-prefix cases
	blockLen := len(c19Pattern) + 2*c19LongPerBlock + c19LargePerBlock
	n := r.N(blockLen, 25*blockLen)
	for i := 0; i < n; i++ {
		if !r.Mine(i) {
			continue
		}
		block, pos := i/blockLen, i%blockLen
		kind := "outage-long"
		if pos >= len(c19Pattern)+c19LongPerBlock {
			kind = "outage-final"
		}
		if pos >= len(c19Pattern)+2*c19LongPerBlock {
			kind = "large-prefix"
		}
		if pos < len(c19Pattern) {
			pat := append([]string(nil), c19Pattern...)
			prng := r.Rand(fmt.Sprintf("plan/%d", block))
			prng.Shuffle(len(pat), func(a, b int) { pat[a], pat[b] = pat[b], pat[a] })
			kind = pat[pos]
		}
		rng := r.CaseRand(i)
		cs := c19GenCase(rng, kind)
		r.Case(i, cs)
		for attempt := 0; attempt < 3; attempt++ {
			if err := g.refresh(attempt > 0); err != nil {
				r.Inconclusive(fmt.Sprintf("case %d: server refresh failed: %v", i, err))
				return
			}
			root := fmt.Sprintf("/c19/%d-%d/", i, attempt)
			cr := &c19Run{g: g, r: r, idx: i, cs: cs, root: root, P: root + "w/", interval: time.Duration(cs.IntervalMs) * time.Millisecond, large: kind == "large-prefix"}
			if cr.run() {
				break
			}
			r.Count("cases_retried_ground_truth_compacted", 1)
			if attempt == 2 {
				r.Inconclusive(fmt.Sprintf("case %d: ground truth lost to auto-compaction three times", i))
			}
		}
	}
	r.Require("cases_completed", 1)
	r.Require("deliveries_total", 1)
	r.Require("snapshots_matched_to_a_revision", 1)
	r.Require("subscriptions_converged", 1)
	r.Require("store_states_skipped_by_syncer", 1)
	r.Require("channel_full_observed", 1)
	r.Require("same_value_puts", 1)
	r.Require("cases_with_server_restart", 1)
	r.Require("converged_during_watch_blackout", 1)
	r.Require("watch_cancelled_by_compaction_seen", 1)
	// the long-outage class: server down for longer than pull interval + request timeout
	// (a reference pull failed meanwhile) over a non-empty prefix, all four Sync* variants
	r.Require("long_outages_with_failed_reference_pull", 1)
	r.Require("long_outages_over_nonempty_prefix", 1)
	r.Require("long_outage_nonempty_prefix_subscriptions_checked", 1)
	for _, k := range c19Kinds {
		r.Require("long_outage_subscriptions_checked:"+k, 1)
	}
	r.Require("deliveries_received_after_long_outage", 1)
	// the outage-after-the-last-write class: syncer sitting in a send on a full channel when
	// the last write is made, server stopped, consumer released while it is down, outage
	// longer than the failing pulls, recovery, no write any more: convergence by the
	// periodic pull alone
	r.Require("long_outages_right_after_the_last_write", 1)
	r.Require("subscriptions_with_full_channel_at_server_stop", 1)
	r.Require("gated_consumers_released_while_server_down", 1)
	r.Require("recoveries_without_any_later_write", 1)
	r.Require("subscriptions_behind_final_content_at_end_of_outage", 1)
	r.Require("subscriptions_behind_at_end_of_outage_with_full_channel_at_stop", 1)
	r.Require("converged_after_outage_by_periodic_pull_only", 1)
	// the large-prefix class: hundreds of keys under the watched prefix, keys of distant
	// regions changed atomically by concurrent writers, all four Sync* kinds checked, prefix
	// snapshots of > 200 keys matched to ONE revision, some of them pulled while the
	// writers were still committing
	r.Require("large_prefix_cases_completed", 1)
	r.Require("large_prefix_atomic_multi_key_commits", 1)
	for _, k := range c19Kinds {
		r.Require("large_prefix_subscriptions_checked:"+k, 1)
	}
	r.Require("large_prefix_snapshots_of_more_than_200_keys_matched_to_one_revision", 1)
	r.Require("large_prefix_snapshots_pulled_while_writers_were_committing:SyncPrefix", 1)
	r.Require("large_prefix_snapshots_pulled_while_writers_were_committing:SyncRawPrefix", 1)
}
