//go:build verif

package cluster

// Rig of the C18 monitors in pkg/cluster: an embedded single-node etcd ("primary"
// member) plus a secondary member (own client, own lease, own session) in the same
// process.  Everything on disk lives under the kit's scratch directory.

import (
	"fmt"
	"os"
	"path/filepath"
	"sync"
	"time"

	"github.com/phayes/freeport"

	"github.com/megaease/easegress/pkg/env"
	"github.com/megaease/easegress/pkg/logger"
	"github.com/megaease/easegress/pkg/option"
)

func init() { logger.InitNop() }

var c18ArgsMu sync.Mutex

// c18Options mirrors CreateOptionsForTest (test_util.go) but keeps every directory,
// including home-dir, under dir and also knows how to describe a secondary member.
func c18Options(dir, name, role string, primaryPeerURLs []string) (opt *option.Options, err error) {
	defer func() {
		if e := recover(); e != nil {
			err = fmt.Errorf("options: %v", e)
		}
	}()
	ports, err := freeport.GetFreePorts(3)
	if err != nil {
		return nil, err
	}
	opt = option.New()
	opt.Name = name
	opt.ClusterName = "c18-cluster"
	opt.ClusterRole = role
	opt.ClusterRequestTimeout = "10s"
	if role == "primary" {
		opt.Cluster.ListenClientURLs = []string{fmt.Sprintf("http://localhost:%d", ports[0])}
		opt.Cluster.AdvertiseClientURLs = opt.Cluster.ListenClientURLs
		opt.Cluster.ListenPeerURLs = []string{fmt.Sprintf("http://localhost:%d", ports[1])}
		opt.Cluster.InitialAdvertisePeerURLs = opt.Cluster.ListenPeerURLs
		opt.Cluster.InitialCluster = map[string]string{name: opt.Cluster.InitialAdvertisePeerURLs[0]}
	} else {
		opt.Cluster.PrimaryListenPeerURLs = primaryPeerURLs
	}
	opt.APIAddr = fmt.Sprintf("localhost:%d", ports[2])
	opt.HomeDir = filepath.Join(dir, name)
	opt.DataDir = filepath.Join(dir, name, "data")
	opt.LogDir = filepath.Join(dir, name, "log")
	opt.MemberDir = filepath.Join(dir, name, "member")

	// option.Parse reads os.Args[1:]; the test binary's -test.* flags are not its business.
	c18ArgsMu.Lock()
	saved := os.Args
	os.Args = saved[:1]
	_, err = opt.Parse()
	os.Args = saved
	c18ArgsMu.Unlock()
	if err != nil {
		return nil, err
	}
	if err = env.InitServerDir(opt); err != nil {
		return nil, err
	}
	return opt, nil
}

type c18Rig struct {
	primary   *cluster
	secondary *cluster // nil if it could not be created
}

// c18NewCluster runs New with a generous watchdog (New retries forever on failure).
func c18NewCluster(opt *option.Options, wait time.Duration) (*cluster, error) {
	type res struct {
		c   Cluster
		err error
	}
	ch := make(chan res, 1)
	go func() {
		defer func() {
			if e := recover(); e != nil {
				ch <- res{nil, fmt.Errorf("cluster.New panicked: %v", e)}
			}
		}()
		c, err := New(opt)
		ch <- res{c, err}
	}()
	select {
	case x := <-ch:
		if x.err != nil {
			return nil, x.err
		}
		return x.c.(*cluster), nil
	case <-time.After(wait):
		return nil, fmt.Errorf("cluster %s not ready after %v", opt.Name, wait)
	}
}

func c18StartRig(dir string, withSecondary bool) (*c18Rig, error) {
	popt, err := c18Options(dir, "c18-primary", "primary", nil)
	if err != nil {
		return nil, err
	}
	p, err := c18NewCluster(popt, 3*time.Minute)
	if err != nil {
		return nil, err
	}
	rig := &c18Rig{primary: p}
	if withSecondary {
		sopt, err := c18Options(dir, "c18-secondary", "secondary", popt.Cluster.ListenPeerURLs)
		if err != nil {
			return rig, err
		}
		s, err := c18NewCluster(sopt, 3*time.Minute)
		if err != nil {
			return rig, err
		}
		rig.secondary = s
	}
	return rig, nil
}

func (g *c18Rig) Close() {
	done := make(chan struct{})
	go func() {
		defer close(done)
		var wg sync.WaitGroup
		if g.secondary != nil {
			wg.Add(1)
			g.secondary.Close(&wg)
		}
		if g.primary != nil {
			wg.Add(1)
			g.primary.Close(&wg)
		}
	}()
	select {
	case <-done:
	case <-time.After(60 * time.Second):
	}
}
