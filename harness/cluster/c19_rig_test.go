//go:build verif

package cluster

// C19 rig: one real embedded etcd (cluster.New) per harness shard, a harness-owned
// direct etcd client (ground truth reads, revision probes, compaction), a TCP relay with
// a second etcd client through it (watch blackout / cut), and the reader that
// reconstructs the content of a key range at every revision from etcd itself.

import (
	"context"
	"errors"
	"fmt"
	"net"
	"net/url"
	"os"
	"path/filepath"
	"strings"
	"sync"
	"sync/atomic"
	"time"

	"go.etcd.io/etcd/api/v3/v3rpc/rpctypes"
	clientv3 "go.etcd.io/etcd/client/v3"
	"go.uber.org/zap"

	"github.com/megaease/easegress/pkg/logger"
	"github.com/megaease/easegress/pkg/option"
	"verif.local/kit"
)

func init() {
	logger.InitNop()
}

const (
	c19RequestTimeout = "4s" // cluster request timeout: operations against a stopped server block this long
	c19HarnessTimeout = 60 * time.Second
	// the embedded server auto-compacts to (rev-10) every 5 minutes after its start
	// (config.go: revision mode, retention 10); ground truth needs every revision of a
	// case, so the server is restarted between cases before it gets that old.
	c19MaxServerAge = 150 * time.Second
)

var errC19TruthLost = errors.New("c19: revision compacted before the harness read it")

type c19Rig struct {
	r        *kit.Run
	opt      *option.Options
	c        *cluster
	cli      *clientv3.Client // harness' own client, straight to the listen-client URL
	relay    *c19Relay
	relayCli *clientv3.Client // second client whose connection runs through the relay
	upSince  time.Time
	down     bool
}

// c19StartCluster runs cluster.New in a goroutine (New retries forever when the ports
// picked by freeport were taken by somebody else in the meantime).
func c19StartCluster(dir string) (*cluster, *option.Options, error) {
	type res struct {
		c   Cluster
		opt *option.Options
		err error
	}
	ch := make(chan res, 1)
	go func() {
		defer func() {
			if e := recover(); e != nil {
				ch <- res{err: fmt.Errorf("panic while starting the cluster: %v", e)}
			}
		}()
		opt := CreateOptionsForTest(dir)
		opt.ClusterRequestTimeout = c19RequestTimeout
		// CreateOptionsForTest takes its ports from the kernel's ephemeral range.  This rig stops
		// its server on purpose (for up to 20 s): meanwhile any process on the machine may be
		// given one of those ports for a listener (another embedded etcd of a check running next
		// to this one, whose answers the syncers would then take for their own server's) or for
		// an outgoing connection.  Ports below the ephemeral range are given to nobody unasked.
		if ports, ok := c19PortsOutsideEphemeralRange(3); ok {
			name := opt.Name
			opt.Cluster.ListenClientURLs = []string{fmt.Sprintf("http://localhost:%d", ports[0])}
			opt.Cluster.AdvertiseClientURLs = opt.Cluster.ListenClientURLs
			opt.Cluster.ListenPeerURLs = []string{fmt.Sprintf("http://localhost:%d", ports[1])}
			opt.Cluster.InitialAdvertisePeerURLs = opt.Cluster.ListenPeerURLs
			opt.Cluster.InitialCluster = map[string]string{name: opt.Cluster.InitialAdvertisePeerURLs[0]}
			opt.APIAddr = fmt.Sprintf("localhost:%d", ports[2])
		}
		cl, err := New(opt)
		ch <- res{c: cl, opt: opt, err: err}
	}()
	select {
	case x := <-ch:
		if x.err != nil {
			return nil, nil, x.err
		}
		return x.c.(*cluster), x.opt, nil
	case <-time.After(120 * time.Second):
		return nil, nil, fmt.Errorf("cluster.New did not return within 120s")
	}
}


// c19PortsOutsideEphemeralRange picks n TCP ports in 12000..31999 (below the kernel's
// ephemeral range 32768..60999, so neither a ":0" listener nor an outgoing connection of any
// process is ever given one of them) that are free on the loopback addresses right now.  The
// start point depends on the process id so that shards running side by side look at
// different ports first.
func c19PortsOutsideEphemeralRange(n int) ([]int, bool) {
	const lo, span = 12000, 20000
	start := (os.Getpid()*131 + int(time.Now().UnixNano()/1000)%977) % span
	var out []int
	for i := 0; i < span && len(out) < n; i++ {
		p := lo + (start+i*7)%span
		free := true
		for _, host := range []string{"127.0.0.1", "[::1]", ""} {
			ln, err := net.Listen("tcp", fmt.Sprintf("%s:%d", host, p))
			if err != nil {
				if host == "[::1]" && !strings.Contains(err.Error(), "address already in use") {
					continue // no IPv6 loopback here
				}
				free = false
				break
			}
			ln.Close()
		}
		if free {
			out = append(out, p)
		}
	}
	return out, len(out) == n
}

func c19NewRig(r *kit.Run) (*c19Rig, error) {
	// option.Parse reads os.Args; the test binary's -test.* flags are not its business
	os.Args = os.Args[:1]
	var lastErr error
	for attempt := 0; attempt < 3; attempt++ {
		dir := filepath.Join(r.TmpDir(), fmt.Sprintf("etcd-%d", attempt))
		os.MkdirAll(dir, 0o755)
		c, opt, err := c19StartCluster(dir)
		if err != nil {
			lastErr = err
			continue
		}
		g := &c19Rig{r: r, opt: opt, c: c, upSince: time.Now()}
		g.cli, err = clientv3.New(clientv3.Config{
			Endpoints:   opt.Cluster.ListenClientURLs,
			DialTimeout: 30 * time.Second,
			Logger:      zap.NewNop(),
		})
		if err != nil {
			return nil, err
		}
		u, err := url.Parse(opt.Cluster.ListenClientURLs[0])
		if err != nil {
			return nil, err
		}
		g.relay, err = c19NewRelay(u.Host)
		if err != nil {
			return nil, err
		}
		g.relayCli, err = clientv3.New(clientv3.Config{
			Endpoints:   []string{"http://" + g.relay.addr()},
			DialTimeout: 30 * time.Second,
			Logger:      zap.NewNop(),
		})
		if err != nil {
			return nil, err
		}
		if _, err := g.waitRev(c19HarnessTimeout); err != nil {
			return nil, err
		}
		return g, nil
	}
	return nil, lastErr
}

func (g *c19Rig) close() {
	g.relay.unpause()
	g.relayCli.Close()
	g.cli.Close()
	g.relay.close()
	wg := &sync.WaitGroup{}
	wg.Add(1)
	done := make(chan struct{})
	go func() { g.c.Close(wg); close(done) }()
	select {
	case <-done:
	case <-time.After(60 * time.Second):
	}
}

// rev returns the store's current revision (linearizable read through the harness client).
func (g *c19Rig) rev() (int64, error) {
	ctx, cancel := context.WithTimeout(context.Background(), 10*time.Second)
	defer cancel()
	resp, err := g.cli.Get(ctx, "/c19-revision-probe")
	if err != nil {
		return 0, err
	}
	return resp.Header.Revision, nil
}

// waitRev polls rev until it succeeds.
func (g *c19Rig) waitRev(max time.Duration) (int64, error) {
	deadline := time.Now().Add(max)
	for {
		rv, err := g.rev()
		if err == nil {
			return rv, nil
		}
		if time.Now().After(deadline) {
			return 0, fmt.Errorf("store not readable for %v: %v", max, err)
		}
		time.Sleep(100 * time.Millisecond)
	}
}

func (g *c19Rig) stopServer() {
	wg := &sync.WaitGroup{}
	wg.Add(1)
	g.c.CloseServer(wg)
	wg.Wait()
	g.down = true
}

func (g *c19Rig) startServer() error {
	done, timeout, err := g.c.StartServer()
	for try := 0; err != nil && try < 20 && strings.Contains(err.Error(), "address already in use"); try++ {
		// The server's ports are ordinary ephemeral ports: while it is down some other process'
		// outgoing connection can sit on one of them for a moment.  Environment, not the syncer.
		g.r.Count("server_start_retried_because_port_was_taken_meanwhile", 1)
		time.Sleep(500 * time.Millisecond)
		done, timeout, err = g.c.StartServer()
	}
	if err != nil {
		return err
	}
	// While the server was down every etcd client's connection attempts backed off (gRPC:
	// 1 s x 1.6 per failure); after an outage of 10-20 s the next attempt can be further
	// away than the request timeout, and easegress' own start-up step "register cluster
	// name" (a Put with that timeout, issued the moment the server is ready) then panics
	// the process.  That is the environment's business, not the syncer's: the harness makes
	// the clients re-dial at once while the server comes up.
	giveUp := time.After(180 * time.Second)
	kick := time.NewTicker(100 * time.Millisecond)
	defer kick.Stop()
wait:
	for {
		select {
		case <-done:
			break wait
		case <-timeout:
			return fmt.Errorf("StartServer reported timeout")
		case <-giveUp:
			return fmt.Errorf("StartServer not ready within 180s")
		case <-kick.C:
			g.redial()
		}
	}
	g.redial()
	g.upSince = time.Now()
	g.down = false
	_, err = g.waitRev(c19HarnessTimeout)
	return err
}

// redial ends the reconnect back-off of the cluster's etcd client and of the harness' clients.
func (g *c19Rig) redial() {
	if cl, err := g.c.getClient(); err == nil && cl != nil {
		cl.ActiveConnection().ResetConnectBackoff()
	}
	g.cli.ActiveConnection().ResetConnectBackoff()
	g.relayCli.ActiveConnection().ResetConnectBackoff()
}

// refresh restarts the server between cases when it is old enough for its periodic
// auto-compaction to come near.
func (g *c19Rig) refresh(force bool) error {
	if !force && !g.down && time.Since(g.upSince) < c19MaxServerAge {
		return nil
	}
	if !g.down {
		g.stopServer()
	}
	g.r.Count("server_refreshes_between_cases", 1)
	return g.startServer()
}

func (g *c19Rig) compact(rev int64) error {
	ctx, cancel := context.WithTimeout(context.Background(), 30*time.Second)
	defer cancel()
	_, err := g.cli.Compact(ctx, rev)
	return err
}

// ---------------------------------------------------------------- ground truth

type c19RawKV struct {
	Value   string
	Create  int64
	Mod     int64
	Version int64
	Lease   int64
}

// c19Truth is the content of every key under root at every revision from..(from+len-1),
// read from etcd with Get(WithRev).
type c19Truth struct {
	root string
	from int64
	revs []map[string]c19RawKV
}

func (t *c19Truth) last() int64 { return t.from + int64(len(t.revs)) - 1 }

func (t *c19Truth) at(r int64) map[string]c19RawKV {
	if r < t.from || r > t.last() {
		return nil
	}
	return t.revs[r-t.from]
}

// extend reads the revisions (last+1 .. upto).
func (g *c19Rig) extend(t *c19Truth, upto int64) error {
	for r := t.last() + 1; r <= upto; r++ {
		var resp *clientv3.GetResponse
		var err error
		for try := 0; try < 5; try++ {
			ctx, cancel := context.WithTimeout(context.Background(), 20*time.Second)
			resp, err = g.cli.Get(ctx, t.root, clientv3.WithPrefix(), clientv3.WithRev(r))
			cancel()
			if err == nil || err == rpctypes.ErrCompacted {
				break
			}
			time.Sleep(200 * time.Millisecond)
		}
		if err == rpctypes.ErrCompacted {
			return errC19TruthLost
		}
		if err != nil {
			return err
		}
		m := make(map[string]c19RawKV, len(resp.Kvs))
		for _, kv := range resp.Kvs {
			m[string(kv.Key)] = c19RawKV{Value: string(kv.Value), Create: kv.CreateRevision, Mod: kv.ModRevision, Version: kv.Version, Lease: kv.Lease}
		}
		t.revs = append(t.revs, m)
		g.r.Count("truth_revisions_read", 1)
	}
	return nil
}

// ---------------------------------------------------------------- TCP relay

// c19Relay forwards TCP connections to the etcd client port.  pause() black-holes the
// traffic (bytes are held, nothing is lost or reordered, connections stay open), cut()
// closes every connection (new ones are accepted again at once).
type c19Relay struct {
	ln     net.Listener
	target string
	mu     sync.Mutex
	cond   *sync.Cond
	paused bool
	gen    int
	conns  map[net.Conn]struct{}
	closed bool
	fwd    int64
}

func c19NewRelay(target string) (*c19Relay, error) {
	ln, err := net.Listen("tcp", "127.0.0.1:0")
	if err != nil {
		return nil, err
	}
	rl := &c19Relay{ln: ln, target: target, conns: map[net.Conn]struct{}{}}
	rl.cond = sync.NewCond(&rl.mu)
	go rl.acceptLoop()
	return rl, nil
}

func (rl *c19Relay) addr() string { return rl.ln.Addr().String() }

func (rl *c19Relay) acceptLoop() {
	for {
		cc, err := rl.ln.Accept()
		if err != nil {
			return
		}
		go rl.serve(cc)
	}
}

func (rl *c19Relay) serve(cc net.Conn) {
	sc, err := net.DialTimeout("tcp", rl.target, 5*time.Second)
	if err != nil {
		cc.Close()
		return
	}
	rl.mu.Lock()
	if rl.closed {
		rl.mu.Unlock()
		cc.Close()
		sc.Close()
		return
	}
	gen := rl.gen
	rl.conns[cc] = struct{}{}
	rl.conns[sc] = struct{}{}
	rl.mu.Unlock()
	go rl.pipe(sc, cc, gen)
	go rl.pipe(cc, sc, gen)
}

func (rl *c19Relay) pipe(dst, src net.Conn, gen int) {
	defer func() {
		dst.Close()
		src.Close()
		rl.mu.Lock()
		delete(rl.conns, dst)
		delete(rl.conns, src)
		rl.mu.Unlock()
	}()
	buf := make([]byte, 32*1024)
	for {
		n, err := src.Read(buf)
		if n > 0 {
			rl.mu.Lock()
			for rl.paused && gen == rl.gen && !rl.closed {
				rl.cond.Wait()
			}
			ok := gen == rl.gen && !rl.closed
			rl.mu.Unlock()
			if !ok {
				return
			}
			if _, werr := dst.Write(buf[:n]); werr != nil {
				return
			}
			atomic.AddInt64(&rl.fwd, int64(n))
		}
		if err != nil {
			return
		}
	}
}

func (rl *c19Relay) pause() {
	rl.mu.Lock()
	rl.paused = true
	rl.mu.Unlock()
}

func (rl *c19Relay) unpause() {
	rl.mu.Lock()
	rl.paused = false
	rl.cond.Broadcast()
	rl.mu.Unlock()
}

func (rl *c19Relay) isPaused() bool {
	rl.mu.Lock()
	defer rl.mu.Unlock()
	return rl.paused
}

func (rl *c19Relay) cut() {
	rl.mu.Lock()
	rl.gen++
	for c := range rl.conns {
		c.Close()
	}
	rl.conns = map[net.Conn]struct{}{}
	rl.cond.Broadcast()
	rl.mu.Unlock()
}

func (rl *c19Relay) close() {
	rl.mu.Lock()
	rl.closed = true
	rl.mu.Unlock()
	rl.ln.Close()
	rl.cut()
}
