//go:build verif

package trafficcontroller

import (
	"bytes"
	"compress/gzip"
	"fmt"
	"io"
	"net/http"
	"net/http/httptest"
	"runtime"
	"strconv"
	"strings"
	"sync"
	"sync/atomic"
	"testing"
	"time"

	"github.com/megaease/easegress/pkg/context"
	_ "github.com/megaease/easegress/pkg/filters/corsadaptor"
	_ "github.com/megaease/easegress/pkg/filters/fallback"
	_ "github.com/megaease/easegress/pkg/filters/headertojson"
	_ "github.com/megaease/easegress/pkg/filters/mock"
	_ "github.com/megaease/easegress/pkg/filters/proxy"
	_ "github.com/megaease/easegress/pkg/filters/ratelimiter"
	_ "github.com/megaease/easegress/pkg/filters/requestadaptor"
	_ "github.com/megaease/easegress/pkg/filters/responseadaptor"
	_ "github.com/megaease/easegress/pkg/filters/validator"
	"github.com/megaease/easegress/pkg/logger"
	"github.com/megaease/easegress/pkg/protocols/httpprot"
	"github.com/megaease/easegress/pkg/supervisor"
	"github.com/megaease/easegress/pkg/tracing"
	"verif.local/kit"
)

func init() { logger.InitNop() }

// c11Pipeline is a self-identifying pipeline generation: the Mock body and the header
// set by the ResponseAdaptor both carry k.  variant selects extra (stateful) filters.
func c11Pipeline(name string, k int, variant int) string {
	var b strings.Builder
	fmt.Fprintf(&b, "kind: Pipeline\nname: %s\nflow:\n", name)
	if variant&1 != 0 {
		b.WriteString("- filter: cors\n")
	}
	b.WriteString("- filter: rl\n")
	if variant&2 != 0 {
		b.WriteString("- filter: val\n- filter: reqad\n")
	}
	if variant&4 != 0 {
		// a real Proxy (with retry and circuit-breaker policies) in place of the Mock: the
		// RequestAdaptor 'reqgen' stamps the generation on the request, the backend echoes it
		b.WriteString("- filter: reqgen\n- filter: proxy\n- filter: ra\n")
		b.WriteString("resilience:\n- name: retry3\n  kind: Retry\n  maxAttempts: 3\n  waitDuration: 1ms\n")
		b.WriteString("- name: cb\n  kind: CircuitBreaker\n  slidingWindowType: COUNT_BASED\n  slidingWindowSize: 100\n  failureRateThreshold: 100\n  minimumNumberOfCalls: 100\n")
		b.WriteString("filters:\n")
	} else {
		b.WriteString("- filter: mock\n  jumpIf: {mocked: ra}\n- filter: ra\nfilters:\n")
	}
	if variant&1 != 0 {
		b.WriteString("- name: cors\n  kind: CORSAdaptor\n  allowedOrigins: [\"*\"]\n")
	}
	// the rate limiter rule and policy are the same in every generation: its state is
	// inherited from generation to generation (and never limits: 1e6 per 10ms)
	b.WriteString(`- name: rl
  kind: RateLimiter
  policies:
  - name: p
    timeoutDuration: 0ms
    limitRefreshPeriod: 10ms
    limitForPeriod: 1000000
  defaultPolicyRef: p
  urls:
  - url:
      prefix: /
    policyRef: p
`)
	if variant&2 != 0 {
		b.WriteString(`- name: val
  kind: Validator
  headers:
    X-Client:
      values: ["verif"]
- name: reqad
  kind: RequestAdaptor
  header:
    set:
      X-Seen: "yes"
`)
	}
	if variant&4 != 0 {
		fmt.Fprintf(&b, `- name: reqgen
  kind: RequestAdaptor
  header:
    set:
      X-Gen-Req: "%d"
- name: proxy
  kind: Proxy
%s  pools:
  - servers:
    - url: %s
    loadBalance:
      policy: %s
      headerHashKey: X-Client
    retryPolicy: retry3
    circuitBreakerPolicy: cb
    failureCodes: [503]
%s- name: ra
  kind: ResponseAdaptor
  header:
    set:
      X-Gen: "%d"
`, k, c11ProxyLevelOpts(k), c11Backend().URL, c11LBPolicy(k), c11PoolLevelOpts(k), k)
		return b.String()
	}
	fmt.Fprintf(&b, `- name: mock
  kind: Mock
  rules:
  - match:
      pathPrefix: /
    code: 200
    body: "gen-%d"
- name: ra
  kind: ResponseAdaptor
  header:
    set:
      X-Gen: "%d"
`, k, k)
	return b.String()
}

// The optional, stateful options of the Proxy come and go from generation to generation (a
// pure function of k, so that re-applying generation k is an unchanged spec): the pool's
// memoryCache in every third generation, response compression in every fourth, a (generous)
// pool timeout in every fifth, and the load-balance policy cycles.
func c11HasCache(k int) bool       { return k%3 == 1 }
func c11HasCompression(k int) bool { return k%4 == 2 }
func c11HasTimeout(k int) bool     { return k%5 == 3 }

func c11LBPolicy(k int) string {
	return []string{"roundRobin", "random", "ipHash", "headerHash"}[k%4]
}

func c11ProxyLevelOpts(k int) string {
	if c11HasCompression(k) {
		return "  compression:\n    minLength: 1\n"
	}
	return ""
}

func c11PoolLevelOpts(k int) string {
	s := ""
	if c11HasTimeout(k) {
		s += "    timeout: 10m\n"
	}
	if c11HasCache(k) {
		s += "    memoryCache:\n      expiration: 1h\n      maxEntryBytes: 4096\n      codes: [200]\n      methods: [GET]\n"
	}
	return s
}

var (
	c11BackendOnce sync.Once
	c11BackendSrv  *httptest.Server
	c11CanarySrv   *httptest.Server

	c11AttemptsMu sync.Mutex
	c11Attempts   = map[string]int{} // X-Req-Id -> attempts the backends have seen so far
	c11ReqSeq     int64
)

// c11BackendHandler is a scripted loopback backend: it echoes the generation stamped on the
// request (and the pool it belongs to); a request that carries X-Req-Id is counted per id, and
// its first X-Fail-First attempts are answered with X-Fail-Code (default 503) instead: the
// transient backend failure a Retry policy of the pipeline exists to mask.
func c11BackendHandler(pool string) http.Handler {
	return http.HandlerFunc(func(w http.ResponseWriter, r *http.Request) {
		w.Header().Set("Content-Type", "text/plain")
		if id := r.Header.Get("X-Req-Id"); id != "" {
			c11AttemptsMu.Lock()
			c11Attempts[id]++
			n := c11Attempts[id]
			c11AttemptsMu.Unlock()
			if v, ok := c11Parks.Load(id); ok {
				// the request is parked here, inside the backend, on the attempt its slot names,
				// until the rig has finished the update it wants to overlap with
				if s := v.(*c11ParkSlot); n == s.attempt {
					close(s.arrived)
					select {
					case <-s.release:
					case <-time.After(5 * time.Minute):
						atomic.StoreInt32(&s.timedOut, 1) // watchdog: the rig reports Inconclusive
					}
				}
			}
			if ff, _ := strconv.Atoi(r.Header.Get("X-Fail-First")); n <= ff {
				code, _ := strconv.Atoi(r.Header.Get("X-Fail-Code"))
				if code == 0 {
					code = http.StatusServiceUnavailable
				}
				w.WriteHeader(code)
				fmt.Fprintf(w, "fail-%s", pool)
				return
			}
		}
		if pool != "main" {
			w.Header().Set("X-Pool", pool)
		}
		fmt.Fprintf(w, "gen-%s", r.Header.Get("X-Gen-Req"))
	})
}

// c11ParkSlot lets a rig hold one request (identified by its X-Req-Id) in flight at the backend.
type c11ParkSlot struct {
	attempt  int // which attempt of the request is held (1 = the first)
	arrived  chan struct{}
	release  chan struct{}
	timedOut int32
}

var c11Parks sync.Map // X-Req-Id -> *c11ParkSlot

func c11Park(id string, attempt int) *c11ParkSlot {
	s := &c11ParkSlot{attempt: attempt, arrived: make(chan struct{}), release: make(chan struct{})}
	c11Parks.Store(id, s)
	return s
}

func c11StartBackends() {
	c11BackendOnce.Do(func() {
		c11BackendSrv = httptest.NewServer(c11BackendHandler("main"))
		c11CanarySrv = httptest.NewServer(c11BackendHandler("canary"))
	})
}

// c11Backend is the loopback backend of the main pool, c11Canary the one of the candidate pool.
func c11Backend() *httptest.Server { c11StartBackends(); return c11BackendSrv }
func c11Canary() *httptest.Server  { c11StartBackends(); return c11CanarySrv }

// c11TakeAttempts returns (and forgets) the number of attempts the backends saw for id.
func c11TakeAttempts(id string) int {
	c11AttemptsMu.Lock()
	n := c11Attempts[id]
	delete(c11Attempts, id)
	c11AttemptsMu.Unlock()
	return n
}

type c11Obs struct {
	Status   int    `json:"status"`
	Body     string `json:"body"`
	Hdr      string `json:"x_gen"`
	Result   string `json:"result"`
	Pool     string `json:"pool,omitempty"`
	Attempts int    `json:"backend_attempts,omitempty"` // only for requests that carry X-Req-Id
	Gzip     bool   `json:"gzip,omitempty"`             // the body arrived gzip-encoded (Proxy compression option)
}

// c11Call sends one request; every fourth one asks the (Proxy variants') backend to fail its
// first attempt, which the pipeline's Retry policy has to mask in whatever generation serves it.
func c11Call(h context.Handler) c11Obs {
	n := atomic.AddInt64(&c11ReqSeq, 1)
	if n%4 != 0 {
		return c11Do(h, nil)
	}
	// its own path: a generation with a memoryCache must not answer it from the cache
	return c11DoReq(h, "GET", fmt.Sprintf("/r/%d", n), "", map[string]string{"X-Req-Id": fmt.Sprintf("conc-%d", n), "X-Fail-First": "1"})
}

func c11Do(h context.Handler, hdr map[string]string) c11Obs {
	return c11DoReq(h, "GET", "/x", "", hdr)
}

func c11DoReq(h context.Handler, method, path, body string, hdr map[string]string) c11Obs {
	var rd io.Reader
	if body != "" {
		rd = strings.NewReader(body)
	}
	std := httptest.NewRequest(method, "http://h.test"+path, rd)
	std.Header.Set("X-Client", "verif")
	for k, v := range hdr {
		std.Header.Set(k, v)
	}
	req, _ := httpprot.NewRequest(std)
	req.FetchPayload(0)
	ctx := context.New(tracing.NoopSpan)
	ctx.SetRequest(context.DefaultNamespace, req)
	res := h.Handle(ctx)
	o := c11Obs{Result: res}
	if v := ctx.GetResponse(context.DefaultNamespace); v != nil {
		if resp, ok := v.(*httpprot.Response); ok {
			o.Status = resp.StatusCode()
			raw, _ := io.ReadAll(resp.GetPayload())
			if strings.Contains(resp.HTTPHeader().Get("Content-Encoding"), "gzip") {
				if zr, err := gzip.NewReader(bytes.NewReader(raw)); err == nil {
					if plain, err := io.ReadAll(zr); err == nil {
						raw, o.Gzip = plain, true
					}
				}
			}
			o.Body = string(raw)
			o.Hdr = resp.HTTPHeader().Get("X-Gen")
			o.Pool = resp.HTTPHeader().Get("X-Pool")
		}
	}
	ctx.Finish()
	if id := hdr["X-Req-Id"]; id != "" {
		o.Attempts = c11TakeAttempts(id)
	}
	return o
}

func c11NewTC(super *supervisor.Supervisor) *TrafficController {
	spec, err := super.NewSpec("kind: TrafficController\nname: tc\n")
	if err != nil {
		panic(err)
	}
	tc := &TrafficController{}
	tc.Init(spec)
	return tc
}

func c11GenOf(o c11Obs) (int, int, bool) {
	if !strings.HasPrefix(o.Body, "gen-") {
		return 0, 0, false
	}
	a, e1 := strconv.Atoi(o.Body[4:])
	b, e2 := strconv.Atoi(o.Hdr)
	return a, b, e1 == nil && e2 == nil
}

// TestVerif_C11_Pipelines: requests through Namespace.GetHandler(name).Handle while the
// same pipeline is updated through generations and other pipelines are created, updated
// and deleted; plus the sequential rendering of "a request still holds the old
// generation" and of "unchanged spec is a no-op".
func TestVerif_C11_Pipelines(t *testing.T) {
	r := kit.Start(t, "C11")
	defer r.Finish()
	r.Rule("rig 2/3: real TrafficController + real Pipelines (RateLimiter whose state is inherited, Mock, ResponseAdaptor, optionally CORSAdaptor/Validator/RequestAdaptor, and in half of the cases a real Proxy with Retry and CircuitBreaker policies and failureCodes [503] to a scripted loopback backend in place of the Mock; the optional stateful parts of that Proxy come and go with the generation number k: pool memoryCache iff k%3==1, compression (minLength 1, gzip bodies are decoded by the observer) iff k%4==2, pool timeout 10m iff k%5==3, loadBalance policy roundRobin/random/ipHash/headerHash by k%4; every fourth request goes to a path of its own (never answered from a memoryCache) and asks that backend to fail its first attempt with 503, which the Retry policy of whichever generation serves the request must mask); 8 client goroutines call GetHandler(hot).Handle while one goroutine applies generations g0..gN of 'hot' (body and header both carry the generation) and another creates/updates/deletes three other pipelines; oracle: no panic, status 200 (a request whose failed first attempt was not retried gets its own signature), body generation == header generation, applied-before-start <= generation <= started-before-end, the untouched pipeline 'stable' always available with its own marker; sequential (old generations 0..4, so that each optional Proxy part is in a closed generation that is then used): handler obtained before an update is used after it (and after the old generation was closed), re-applying an identical spec returns the same entity and instance; distinct = (phase, variant, generation lag, overlap)")
	r.Assume("an update has 'been applied' when ApplyPipelineForSpec/UpdatePipelineForSpec returned")
	super := supervisor.NewDefaultMock()
	rounds := r.N(10, 300)
	for i := 0; i < rounds; i++ {
		if !r.Mine(i) {
			continue
		}
		rng := r.CaseRand(i)
		variant := rng.Intn(8)
		if i%5 == 2 {
			variant |= 4 // the Proxy + resilience variant is exercised in every shard
		}
		// quick: fewer generations per case than before the optional Proxy parts (gzip, cache) made
		// a generation dearer
		gens := r.N(20, 30) + rng.Intn(r.N(30, 40))
		useUpdate := rng.Intn(2) == 0
		r.Case(i, map[string]interface{}{"variant": variant, "generations": gens, "useUpdate": useUpdate})
		tc := c11NewTC(super)
		const ns = "verif-ns"
		apply := func(yaml string) (*supervisor.ObjectEntity, error) {
			spec, err := super.NewSpec(yaml)
			if err != nil {
				return nil, fmt.Errorf("spec rejected: %v", err)
			}
			return tc.ApplyPipelineForSpec(ns, spec)
		}
		if _, err := apply(c11Pipeline("hot", 0, variant)); err != nil {
			t.Fatal(err)
		}
		if _, err := apply(c11Pipeline("stable", 777, 0)); err != nil {
			t.Fatal(err)
		}
		space := tc.namespaces[ns]

		// ---- sequential: old generation used after the update, unchanged spec no-op
		const seqGens = 5 // old generations 0..4: each optional Proxy option is present in one of them
		for k := 1; k <= seqGens; k++ {
			old, ok := space.GetHandler("hot")
			if !ok {
				r.Violation("pipeline-hot-update:handler-missing", "hot not found")
				break
			}
			ent1, err := apply(c11Pipeline("hot", k, variant))
			if err != nil {
				t.Fatal(err)
			}
			var o c11Obs
			in := map[string]interface{}{"variant": variant, "step": "old generation handles a request after new.Inherit(old)+old.Close()", "k": k}
			if !r.Guard("C11:old-generation-after-update", in, func() { o = c11Call(old) }) {
				r.Count("old_generation_requests", 1)
				if variant&4 != 0 {
					// the old generation's Proxy had these optional parts when it was closed
					for opt, has := range map[string]bool{"memory_cache": c11HasCache(k - 1), "compression": c11HasCompression(k - 1), "pool_timeout": c11HasTimeout(k - 1)} {
						if has {
							r.Count("old_generation_requests_proxy_with_"+opt, 1)
						}
					}
					if o.Gzip {
						r.Count("old_generation_requests_answered_gzip", 1)
					}
				}
				if o.Status != 200 && o.Attempts == 1 {
					r.Violation(fmt.Sprintf("pipeline-hot-update:old-generation-request-failed:failed-first-attempt-not-retried:status%d", o.Status), map[string]interface{}{"obs": o, "variant": variant, "old_generation": k - 1})
				} else if o.Status != 200 {
					r.Violation(fmt.Sprintf("pipeline-hot-update:old-generation-request-failed:status%d", o.Status), map[string]interface{}{"obs": o, "variant": variant})
				}
				r.Cover(fmt.Sprintf("seq/old-after-update/variant%d/status%d", variant, o.Status))
			}
			ent2, err := apply(c11Pipeline("hot", k, variant))
			if err != nil {
				t.Fatal(err)
			}
			r.Count("unchanged_reapply", 1)
			if ent2 != ent1 || ent2.Instance() != ent1.Instance() {
				r.Violation("pipeline-hot-update:unchanged-spec-not-a-noop", map[string]interface{}{"k": k, "variant": variant})
			}
			r.Cover(fmt.Sprintf("seq/unchanged-reapply/variant%d", variant))
		}

		// ---- concurrent
		var started, done int64 = seqGens, seqGens
		var overlappedCache int64
		var stop int32
		var served, overlapped, retrySaved int64
		var wg sync.WaitGroup
		for c := 0; c < 8; c++ {
			wg.Add(1)
			go func(c int) {
				defer wg.Done()
				for atomic.LoadInt32(&stop) == 0 {
					name := "hot"
					if c == 7 {
						name = "stable"
					}
					lo := atomic.LoadInt64(&done)
					h, ok := space.GetHandler(name)
					if !ok {
						r.Violation("pipeline-hot-update:"+name+"-unavailable-during-update-of-another-object", map[string]interface{}{"applied": lo})
						continue
					}
					var o c11Obs
					if r.Guard("C11:pipeline-request-during-update", map[string]interface{}{"pipeline": name, "variant": variant}, func() { o = c11Call(h) }) {
						continue
					}
					hi := atomic.LoadInt64(&started)
					atomic.AddInt64(&served, 1)
					if hi != lo {
						atomic.AddInt64(&overlapped, 1)
					}
					if o.Attempts >= 2 && o.Status == 200 {
						atomic.AddInt64(&retrySaved, 1)
					}
					bk, hk, ok := c11GenOf(o)
					bad := ""
					switch {
					case o.Status != 200 && o.Attempts == 1:
						bad = fmt.Sprintf("request-failed-during-update:failed-first-attempt-not-retried:status%d:result=%s", o.Status, o.Result)
					case o.Status != 200:
						bad = fmt.Sprintf("request-failed-during-update:status%d:result=%s", o.Status, o.Result)
					case !ok:
						bad = "unparsable-observation"
					case bk != hk:
						bad = "mixed-generation:mock-body-vs-responseadaptor-header"
					case name == "stable" && bk != 777:
						bad = "other-object-disturbed"
					case name == "hot" && int64(bk) < lo:
						bad = "stale-generation-after-update-applied"
					case name == "hot" && int64(bk) > hi:
						bad = "generation-from-the-future"
					}
					if bad != "" {
						r.Violation("pipeline-hot-update:"+bad, map[string]interface{}{"pipeline": name, "obs": o, "applied_before_start": lo, "started_before_end": hi, "variant": variant})
						continue
					}
					if name == "hot" && variant&4 != 0 && hi != lo && int64(bk) < hi && c11HasCache(bk) {
					// served by a generation whose Proxy has a memoryCache while that generation
					// was being (or had been) replaced and closed
					atomic.AddInt64(&overlappedCache, 1)
				}
				r.Cover(fmt.Sprintf("conc/%s/variant%d/lag=%d/overlap=%v", name, variant, minInt64(hi-int64(bk), 2), hi != lo))
				}
			}(c)
		}
		wg.Add(1)
		go func() { // churn on other objects
			defer wg.Done()
			n := 0
			for atomic.LoadInt32(&stop) == 0 {
				name := fmt.Sprintf("other-%d", n%3)
				spec, err := super.NewSpec(c11Pipeline(name, n, n%8))
				if err != nil {
					r.Inconclusive("churn spec rejected: " + err.Error())
					return
				}
				r.Guard("C11:churn", name, func() {
					switch n % 5 {
					case 0, 1, 2:
						tc.ApplyPipelineForSpec(ns, spec)
					case 3:
						tc.UpdatePipelineForSpec(ns, spec)
					default:
						tc.DeletePipeline(ns, name)
					}
				})
				n++
			}
			r.Count("churn_ops_on_other_objects", int64(n))
		}()
		for k := seqGens + 1; k <= seqGens+gens; k++ {
			spec, err := super.NewSpec(c11Pipeline("hot", k, variant))
			if err != nil {
				t.Fatal(err)
			}
			atomic.StoreInt64(&started, int64(k))
			r.Guard("C11:apply", k, func() {
				if useUpdate {
					_, err = tc.UpdatePipelineForSpec(ns, spec)
				} else {
					_, err = tc.ApplyPipelineForSpec(ns, spec)
				}
			})
			if err != nil {
				r.Violation("pipeline-hot-update:update-returned-error", err.Error())
			}
			atomic.StoreInt64(&done, int64(k))
			n0 := atomic.LoadInt64(&served)
			for atomic.LoadInt64(&served) < n0+4 {
				yieldC11()
			}
		}
		atomic.StoreInt32(&stop, 1)
		wg.Wait()
		r.Eval(int(served))
		r.Count("pipeline_requests", served)
		r.Count("pipeline_requests_overlapping_an_update", overlapped)
		r.Count("pipeline_requests_saved_by_retry_policy", retrySaved)
		r.Count("pipeline_requests_overlapping_the_replacement_of_their_generation_with_memory_cache", overlappedCache)
		if i < 2 {
			r.Sample(map[string]interface{}{"rig": "trafficcontroller", "variant": variant, "generations": gens, "requests": served, "overlapping": overlapped, "spec_gen_1": c11Pipeline("hot", 1, variant)})
		}
		tc.Close()
	}
	r.Require("pipeline_requests_overlapping_an_update", 1)
	r.Require("pipeline_requests_saved_by_retry_policy", 1)
	r.Require("old_generation_requests", 1)
	r.Require("old_generation_requests_proxy_with_memory_cache", 1)
	r.Require("old_generation_requests_proxy_with_compression", 1)
	r.Require("old_generation_requests_proxy_with_pool_timeout", 1)
	r.Require("old_generation_requests_answered_gzip", 1)
	r.Require("pipeline_requests_overlapping_the_replacement_of_their_generation_with_memory_cache", 1)
	r.Require("unchanged_reapply", 1)
}

func minInt64(a, b int64) int64 {
	if a < b {
		return a
	}
	return b
}

func yieldC11() { runtime.Gosched() }
