//go:build verif

package trafficcontroller

import (
	"fmt"
	"math/rand"
	"net/http/httptest"
	"strings"
	"sync"
	"sync/atomic"
	"testing"
	"time"

	"github.com/megaease/easegress/pkg/context"
	"github.com/megaease/easegress/pkg/supervisor"
	"verif.local/kit"
)

// Rig 2c: the OPTIONAL, stateful parts of the filters of a hot-updated pipeline.  Each
// generation of pipeline 'hot' (RequestAdaptor stamping k -> Proxy -> ResponseAdaptor stamping
// k) draws anew which optional parts its Proxy has; requests HOLD the old generation while the
// new one is applied (parked in flight inside the backend) and ENTER the old generation after
// the new one has inherited from it and closed it.

var (
	c11oOnce     sync.Once
	c11oMain2Srv *httptest.Server // a second server of the main pool (for the load-balance policies)
)

// Not drawn: mirrorPool.  Proxy.Handle starts `go mirrorPool.handle(ctx, true)`, which reads the
// shared *context.Context (GetInputRequest) while Pipeline.doHandle goes on to UseNamespace for
// the next filter: the race detector reports that on the unchanged tree for any pipeline with a
// filter after a mirroring Proxy, update or no update.  It is not a hot-update matter (reported
// to the coordinator instead), and its reports would fall into this property's race scope.

func c11oStart() {
	c11oOnce.Do(func() {
		c11oMain2Srv = httptest.NewServer(c11BackendHandler("main"))
	})
}

// c11oGen is the spec of one generation: which optional parts the Proxy has.
type c11oGen struct {
	K           int    `json:"k"`
	ProxyName   string `json:"proxy_filter_name"`
	Cache       bool   `json:"main_pool_memory_cache"`
	CacheMax    int    `json:"memory_cache_max_entry_bytes"`
	Canary      bool   `json:"candidate_pool"`
	CanaryCache bool   `json:"candidate_pool_memory_cache"`
	LB          string `json:"load_balance_policy"` // "" = no loadBalance section
	Servers     int    `json:"main_pool_servers"`
	Compression bool   `json:"compression"`
	Timeout     bool   `json:"pool_timeout"`
	MaxBody     int64  `json:"server_max_body_size"` // 0 default, -1 streamed response bodies
	MaxIdle     int    `json:"max_idle_conns"`
	RateLimiter bool   `json:"rate_limiter_filter"`
}

func c11oDrawGen(rng *rand.Rand, k int, prev *c11oGen) c11oGen {
	g := c11oGen{K: k, ProxyName: "proxy"}
	if prev != nil {
		g.ProxyName = prev.ProxyName
		if rng.Intn(5) == 0 {
			g.ProxyName = map[string]string{"proxy": "proxy-b", "proxy-b": "proxy"}[prev.ProxyName]
		}
	}
	g.Cache = rng.Intn(2) == 0
	g.CacheMax = []int{4096, 8192, 1 << 16}[rng.Intn(3)]
	g.Canary = rng.Intn(2) == 0
	g.CanaryCache = g.Canary && rng.Intn(2) == 0
	g.LB = []string{"", "roundRobin", "random", "weightedRandom", "ipHash", "headerHash"}[rng.Intn(6)]
	g.Servers = 1 + rng.Intn(2)
	g.Compression = rng.Intn(3) == 0
	g.Timeout = rng.Intn(3) == 0
	g.MaxBody = []int64{0, 0, 1 << 20, -1}[rng.Intn(4)]
	g.MaxIdle = 0
	if rng.Intn(2) == 0 {
		g.MaxIdle = 4 + rng.Intn(60)
	}
	g.RateLimiter = rng.Intn(3) == 0
	return g
}

// options lists the optional parts present in g (the coverage classes of this rig).
func (g c11oGen) options() []string {
	var o []string
	add := func(b bool, s string) {
		if b {
			o = append(o, s)
		}
	}
	add(g.Cache, "memory_cache")
	add(g.CanaryCache, "candidate_pool_memory_cache")
	add(g.Canary, "candidate_pool")
	add(g.LB == "ipHash" || g.LB == "headerHash", "hash_load_balance")
	add(g.LB == "random" || g.LB == "weightedRandom", "random_load_balance")
	add(g.Compression, "compression")
	add(g.Timeout, "pool_timeout")
	add(g.MaxBody < 0, "streamed_response_body")
	add(g.RateLimiter, "rate_limiter")
	return o
}

func (g c11oGen) yaml() string {
	c11oStart()
	var b strings.Builder
	b.WriteString("kind: Pipeline\nname: hot\nresilience:\n- name: retry3\n  kind: Retry\n  maxAttempts: 3\n  waitDuration: 1ms\nfilters:\n")
	if g.RateLimiter {
		b.WriteString("- name: rl\n  kind: RateLimiter\n  policies:\n  - name: p\n    timeoutDuration: 0ms\n    limitRefreshPeriod: 10ms\n    limitForPeriod: 1000000\n  defaultPolicyRef: p\n  urls:\n  - url:\n      prefix: /\n    policyRef: p\n")
	}
	fmt.Fprintf(&b, "- name: reqgen\n  kind: RequestAdaptor\n  header:\n    set:\n      X-Gen-Req: \"%d\"\n", g.K)
	fmt.Fprintf(&b, "- name: %s\n  kind: Proxy\n", g.ProxyName)
	if g.MaxIdle > 0 {
		fmt.Fprintf(&b, "  maxIdleConns: %d\n  maxIdleConnsPerHost: %d\n", g.MaxIdle, g.MaxIdle)
	}
	if g.MaxBody != 0 {
		fmt.Fprintf(&b, "  serverMaxBodySize: %d\n", g.MaxBody)
	}
	if g.Compression {
		b.WriteString("  compression:\n    minLength: 1\n")
	}
	cache := func(max int) string {
		return fmt.Sprintf("    memoryCache:\n      expiration: 1h\n      maxEntryBytes: %d\n      codes: [200]\n      methods: [GET]\n", max)
	}
	b.WriteString("  pools:\n")
	if g.Canary {
		fmt.Fprintf(&b, "  - servers:\n    - url: %s\n    filter:\n      headers:\n        X-Canary:\n          exact: \"1\"\n    failureCodes: [503]\n", c11Canary().URL)
		if g.CanaryCache {
			b.WriteString(cache(g.CacheMax))
		}
	}
	b.WriteString("  - servers:\n")
	urls := []string{c11Backend().URL, c11oMain2Srv.URL}
	for i := 0; i < g.Servers; i++ {
		fmt.Fprintf(&b, "    - url: %s\n", urls[i])
		if g.LB == "weightedRandom" {
			fmt.Fprintf(&b, "      weight: %d\n", 1+2*i)
		}
	}
	if g.LB != "" {
		fmt.Fprintf(&b, "    loadBalance:\n      policy: %s\n", g.LB)
		if g.LB == "headerHash" {
			b.WriteString("      headerHashKey: X-Req-Id\n")
		}
	}
	if g.Timeout {
		b.WriteString("    timeout: 10m\n") // never fires: no request of the rig waits that long (parking watchdog: 5m)
	}
	b.WriteString("    retryPolicy: retry3\n    failureCodes: [503]\n")
	if g.Cache {
		b.WriteString(cache(g.CacheMax))
	}
	fmt.Fprintf(&b, "- name: ra\n  kind: ResponseAdaptor\n  header:\n    set:\n      X-Gen: \"%d\"\n", g.K)
	return b.String()
}

// c11oReq is one request of the rig.
type c11oReq struct {
	Kind        string `json:"kind"`
	Canary      bool   `json:"x_canary,omitempty"`
	Identity    bool   `json:"accept_encoding_identity,omitempty"`
	ParkAttempt int    `json:"parked_at_backend_on_attempt,omitempty"`
}

const (
	c11oShared    = "get-shared-path"                    // GET /x: answered by the memoryCache when there is a warm one
	c11oUnique    = "get-unique-path"                    // never cached before: backend, then stored
	c11oNoCache   = "get-shared-path-no-cache"           // Cache-Control: no-cache
	c11oPost      = "post-with-body"                     // method outside memoryCache.methods
	c11oFailFirst = "get-unique-path-first-attempt-503" // the Retry policy of its generation must mask it
)

func c11oDrawReq(rng *rand.Rand, parked bool) c11oReq {
	kinds := []string{c11oShared, c11oUnique, c11oUnique, c11oNoCache, c11oPost, c11oFailFirst}
	if parked {
		kinds = kinds[1:] // a parked request has to reach the backend
	}
	q := c11oReq{Kind: kinds[rng.Intn(len(kinds))], Identity: rng.Intn(4) == 0}
	if q.Kind != c11oFailFirst {
		q.Canary = rng.Intn(3) == 0 // the candidate pool has no retry policy
	}
	if parked {
		q.ParkAttempt = 1
		if q.Kind == c11oFailFirst {
			q.ParkAttempt = 1 + rng.Intn(2) // held before the failing first attempt answers, or on the retry
		}
	}
	return q
}

func c11oSend(h context.Handler, id string, q c11oReq) c11Obs {
	hdr := map[string]string{"X-Req-Id": id}
	method, path, body := "GET", "/x", ""
	switch q.Kind {
	case c11oUnique:
		path = "/u/" + id
	case c11oNoCache:
		hdr["Cache-Control"] = "no-cache"
	case c11oPost:
		method, body = "POST", "payload-of-"+id
	case c11oFailFirst:
		path = "/u/" + id
		hdr["X-Fail-First"] = "1"
	}
	if q.Canary {
		hdr["X-Canary"] = "1"
	}
	if q.Identity {
		hdr["Accept-Encoding"] = "identity"
	}
	return c11DoReq(h, method, path, body, hdr)
}

// TestVerif_C11_ProxyOptions: requests that hold / enter the OLD generation of a pipeline whose
// Proxy has optional stateful parts, while / after the new generation is applied.
func TestVerif_C11_ProxyOptions(t *testing.T) {
	r := kit.Start(t, "C11")
	defer r.Finish()
	r.Rule("rig 2c (optional stateful parts of the hot-updated filters): a real TrafficController holds pipeline 'hot' (optional RateLimiter, RequestAdaptor stamping k, Proxy, ResponseAdaptor stamping k) and takes it through a chain of 4-6 generations by ApplyPipelineForSpec/UpdatePipelineForSpec; every generation draws anew which optional parts its Proxy has: memoryCache on the main and/or candidate pool, header-selected candidate pool, loadBalance policy (none/roundRobin/random/weightedRandom/ipHash/headerHash over 1-2 servers), compression, pool timeout (10m, never fires), serverMaxBodySize (default/1MiB/-1 = streamed), maxIdleConns, filter name kept (Inherit) or changed; per update k-1 -> k: the handler of generation k-1 is obtained, warmed (GET /x twice, so that a memoryCache has an entry), 2-4 requests are sent through it and PARKED inside the scripted loopback backend (unique path / no-cache / POST / first attempt answered 503, held on attempt 1 or on the retry; to main or candidate pool, Accept-Encoding identity or not), generation k is applied while they are in flight, 3-5 more requests ENTER generation k-1 afterwards (additionally GET /x = cache hit), the parked ones are released before or after those, and requests through the handler obtained after the update must be served by generation k; oracle for every request that holds generation k-1: no panic, status 200 (a failed first attempt must have been retried by the Retry policy of its generation), body generation == header generation == k-1, answered by the pool its generation's spec selects; distinct = (phase, request kind, optional parts of the generation it holds, status)")
	r.Assume("an update has 'been applied' when ApplyPipelineForSpec/UpdatePipelineForSpec returned; a parked request is 'in flight at the backend' from the moment the backend handler saw it until the rig releases it (watchdogs of 2-5 min on the parking only make the case inconclusive)")
	super := supervisor.NewDefaultMock()
	var seq int64
	for i := 0; i < r.N(10, 400); i++ {
		if !r.Mine(i) {
			continue
		}
		rng := r.CaseRand(i)
		ngen := 5 + rng.Intn(3)
		gens := make([]c11oGen, ngen)
		for k := range gens {
			var prev *c11oGen
			if k > 0 {
				prev = &gens[k-1]
			}
			gens[k] = c11oDrawGen(rng, k, prev)
		}
		// every chain has a generation with a memoryCache that is replaced by one without and
		// vice versa, and a compressing one
		gens[1].Cache, gens[2].Cache = true, false
		gens[rng.Intn(ngen-1)].Compression = true
		useUpdate := rng.Intn(2) == 0
		r.Case(i, map[string]interface{}{"generations": gens, "useUpdate": useUpdate})
		tc := c11NewTC(super)
		const ns = "verif-opt"
		apply := func(g c11oGen, create bool) error {
			spec, err := super.NewSpec(g.yaml())
			if err != nil {
				t.Fatalf("generated spec rejected: %v\n%s", err, g.yaml())
			}
			r.Guard("C11:proxy-options:apply", g, func() {
				if !create && useUpdate {
					_, err = tc.UpdatePipelineForSpec(ns, spec)
				} else {
					_, err = tc.ApplyPipelineForSpec(ns, spec)
				}
			})
			return err
		}
		if err := apply(gens[0], true); err != nil {
			t.Fatal(err)
		}
		space := tc.namespaces[ns]

		// judge one answered request that was sent through the handler of generation g
		judge := func(phase string, g c11oGen, q c11oReq, o c11Obs) {
			r.Eval(1)
			det := map[string]interface{}{"phase": phase, "generation_held": g, "request": q, "obs": o}
			wantPool := ""
			if q.Canary && g.Canary {
				wantPool = "canary"
			}
			bk, hk, ok := c11GenOf(o)
			switch {
			case o.Status != 200 && q.Kind == c11oFailFirst && o.Attempts == 1:
				r.Violation(fmt.Sprintf("pipeline-proxy-options:%s:request-failed:failed-first-attempt-not-retried:status%d:result=%s", phase, o.Status, o.Result), det)
			case o.Status != 200:
				r.Violation(fmt.Sprintf("pipeline-proxy-options:%s:request-failed:%s:status%d:result=%s", phase, q.Kind, o.Status, o.Result), det)
			case !ok:
				r.Violation(fmt.Sprintf("pipeline-proxy-options:%s:unparsable-observation:%s", phase, q.Kind), det)
			case bk != hk:
				r.Violation(fmt.Sprintf("pipeline-proxy-options:%s:mixed-generation:proxy-response-vs-responseadaptor-header:%s", phase, q.Kind), det)
			case bk != g.K:
				r.Violation(fmt.Sprintf("pipeline-proxy-options:%s:served-by-another-generation:%s", phase, q.Kind), det)
			case o.Pool != wantPool:
				r.Violation(fmt.Sprintf("pipeline-proxy-options:%s:answered-by-pool-its-generation-does-not-select:%s", phase, q.Kind), det)
			default:
				if o.Attempts == 0 {
					r.Count("opt_requests_answered_from_memory_cache:"+phase, 1)
				}
				if o.Gzip {
					r.Count("opt_requests_answered_gzip:"+phase, 1)
				}
				if o.Attempts >= 2 {
					r.Count("opt_requests_saved_by_retry_policy:"+phase, 1)
				}
				r.Count("opt_requests:"+phase, 1)
				for _, opt := range g.options() {
					r.Count("opt_requests:"+phase+":proxy_with_"+opt, 1)
				}
				r.Cover(fmt.Sprintf("opts/%s/%s/canary=%v/%s/cachehit=%v/gzip=%v", phase, q.Kind, wantPool != "", strings.Join(g.options(), "+"), o.Attempts == 0, o.Gzip))
			}
		}
		newID := func(tag string) string { return fmt.Sprintf("opt-%d-%s-%d", i, tag, atomic.AddInt64(&seq, 1)) }

		const (
			phWarm   = "on-current-generation"
			phParked = "in-flight-at-backend-during-update"
			phLate   = "entering-old-generation-after-update"
			phNew    = "new-request-after-update"
		)
		aborted := false
		for k := 1; k < ngen && !aborted; k++ {
			gOld, gNew := gens[k-1], gens[k]
			old, ok := space.GetHandler("hot")
			if !ok {
				r.Violation("pipeline-proxy-options:handler-missing", gOld)
				break
			}
			// warm: the current generation serves (and a memoryCache gets its entry for GET /x)
			for _, q := range []c11oReq{{Kind: c11oShared}, {Kind: c11oShared}, {Kind: c11oShared, Canary: true}} {
				var o c11Obs
				if !r.Guard("C11:proxy-options:"+phWarm, map[string]interface{}{"generation": gOld, "request": q}, func() { o = c11oSend(old, newID("warm"), q) }) {
					judge(phWarm, gOld, q, o)
				}
			}

			// park requests that hold generation k-1 inside the backend
			type parked struct {
				q    c11oReq
				slot *c11ParkSlot
				done chan struct{}
				o    c11Obs
				pan  bool
			}
			var ps []*parked
			for n := 2 + rng.Intn(3); n > 0; n-- {
				p := &parked{q: c11oDrawReq(rng, true), done: make(chan struct{})}
				id := newID("park")
				p.slot = c11Park(id, p.q.ParkAttempt)
				ps = append(ps, p)
				go func() {
					defer close(p.done)
					p.pan = r.Guard("C11:proxy-options:"+phParked, map[string]interface{}{"generation_held": gOld, "generation_applied": gNew, "request": p.q}, func() { p.o = c11oSend(old, id, p.q) })
				}()
			}
			for _, p := range ps {
				select {
				case <-p.slot.arrived:
				case <-p.done: // answered (or panicked) without ever being held: judged below
				case <-time.After(2 * time.Minute):
					r.Inconclusive("proxy-options: a request to be parked did not reach the backend within 2 min")
					aborted = true
				}
			}

			// the update, while they are in flight
			if err := apply(gNew, false); err != nil {
				r.Violation("pipeline-proxy-options:update-returned-error", map[string]interface{}{"generation": gNew, "error": err.Error()})
				aborted = true
			}
			r.Count("opt_updates_with_requests_in_flight_at_backend", 1)

			release := func() {
				for _, p := range ps {
					close(p.slot.release)
				}
				for _, p := range ps {
					select {
					case <-p.done:
					case <-time.After(6 * time.Minute):
						r.Inconclusive("proxy-options: a released request did not return within 6 min")
						aborted = true
						continue
					}
					if atomic.LoadInt32(&p.slot.timedOut) != 0 {
						r.Inconclusive("proxy-options: parking watchdog fired")
						continue
					}
					if !p.pan {
						select {
						case <-p.slot.arrived:
							judge(phParked, gOld, p.q, p.o)
						default:
							r.Count("opt_requests_meant_to_be_parked_that_never_reached_the_backend", 1)
							judge(phLate, gOld, p.q, p.o)
						}
					}
				}
			}
			releaseFirst := rng.Intn(2) == 0
			if releaseFirst {
				release()
			}

			// requests that enter generation k-1 after generation k inherited from it and closed it
			late := []c11oReq{{Kind: c11oShared}, {Kind: c11oShared, Canary: true}}
			for n := 1 + rng.Intn(3); n > 0; n-- {
				late = append(late, c11oDrawReq(rng, false))
			}
			for _, q := range late {
				var o c11Obs
				if !r.Guard("C11:proxy-options:"+phLate, map[string]interface{}{"generation_held": gOld, "generation_applied": gNew, "request": q}, func() { o = c11oSend(old, newID("late"), q) }) {
					judge(phLate, gOld, q, o)
				}
			}

			// every new request sees generation k (not a warm entry of generation k-1's cache)
			if cur, ok := space.GetHandler("hot"); !ok {
				r.Violation("pipeline-proxy-options:handler-missing-after-update", gNew)
				aborted = true
			} else {
				for _, q := range []c11oReq{{Kind: c11oShared}, {Kind: c11oShared, Canary: true}, c11oDrawReq(rng, false)} {
					var o c11Obs
					if !r.Guard("C11:proxy-options:"+phNew, map[string]interface{}{"generation": gNew, "request": q}, func() { o = c11oSend(cur, newID("new"), q) }) {
						judge(phNew, gNew, q, o)
					}
				}
			}
			if !releaseFirst {
				release()
			}
		}
		if i < 2 {
			r.Sample(map[string]interface{}{"rig": "proxy options", "chain": gens, "spec_gen_1": gens[1].yaml()})
		}
		tc.Close()
	}
	// the observations the rig depends on: requests completed in both phases on generations that
	// had each optional part, caches were really warm, compression really applied
	for _, ph := range []string{"in-flight-at-backend-during-update", "entering-old-generation-after-update"} {
		r.Require("opt_requests:"+ph, 1)
		for _, opt := range []string{"memory_cache", "candidate_pool_memory_cache", "hash_load_balance", "compression", "pool_timeout", "streamed_response_body", "rate_limiter"} {
			r.Require("opt_requests:"+ph+":proxy_with_"+opt, 1)
		}
		r.Require("opt_requests_answered_gzip:"+ph, 1)
		r.Require("opt_requests_saved_by_retry_policy:"+ph, 1)
	}
	r.Require("opt_requests_answered_from_memory_cache:entering-old-generation-after-update", 1)
	r.Require("opt_requests_answered_from_memory_cache:new-request-after-update", 1)
	r.Require("opt_updates_with_requests_in_flight_at_backend", 1)
}
