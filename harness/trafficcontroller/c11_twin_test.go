//go:build verif

package trafficcontroller

import (
	"fmt"
	"math/rand"
	"strings"
	"testing"

	"github.com/megaease/easegress/pkg/context"
	"github.com/megaease/easegress/pkg/supervisor"
	"verif.local/kit"
)

// c11tGen is the spec of one generation of the twin rig's pipeline.  Everything that shapes
// the behaviour of the generation is drawn anew per generation, so that "the new generation"
// is something an observer can tell from the old one by its behaviour, not only by its marker.
type c11tGen struct {
	K           int    `json:"k"`
	ProxyName   string `json:"proxy_filter_name"` // kept => Proxy.Inherit, changed => Proxy.Init inside the updated pipeline
	Inherited   bool   `json:"proxy_inherited"`   // the previous generation had a filter of that name
	RetryName   string `json:"retry_policy_name"`
	Retry       int    `json:"main_retry_max_attempts"` // 0: the main pool has no retryPolicy
	CanaryRetry int    `json:"canary_retry_max_attempts"`
	Canary      bool   `json:"candidate_pool"`
	CBWindow    int    `json:"breaker_window"` // 0: no circuitBreakerPolicy
	CBThreshold int    `json:"breaker_threshold"`
	Also500     bool   `json:"failure_codes_include_500"`
	MaxIdle     int    `json:"max_idle_conns"`
	Extra       int    `json:"extra_filters"` // 1 cors, 2 validator+requestadaptor, 4 ratelimiter
	// options of the RateLimiter filter 'rl' (present when Extra&4 != 0): policies 'strict'
	// (RLStrict permits per hour, no waiting) and 'loose' are always declared; the one URL rule
	// (prefix /limited) names one of them or relies on defaultPolicyRef
	RLDefault string `json:"ratelimiter_default_policy_ref"`
	RLRuleRef string `json:"ratelimiter_url_policy_ref"`
	RLStrict  int    `json:"ratelimiter_strict_permits"`
}

func (g c11tGen) rlPresent() bool { return g.Extra&4 != 0 }

// rlEffective is the policy the spec binds to the URL rule.
func (g c11tGen) rlEffective() string {
	if g.RLRuleRef != "" {
		return g.RLRuleRef
	}
	return g.RLDefault
}

// rlPermits is the number of /limited requests the spec lets through per (one hour) period.
func (g c11tGen) rlPermits() int {
	if g.rlEffective() == "strict" {
		return g.RLStrict
	}
	return 1000000
}

// c11tRLMayShare: the update may legitimately keep the limiter state of the previous generation
// (same filter, same effective policy with the same body): the permits already used count.
func c11tRLMayShare(prev, g c11tGen) bool {
	return prev.rlPresent() && g.rlPresent() && prev.rlEffective() == g.rlEffective() && (g.rlEffective() == "loose" || prev.RLStrict == g.RLStrict)
}

func c11tDrawRL(rng *rand.Rand, g *c11tGen, prev *c11tGen) {
	g.RLDefault = []string{"strict", "loose"}[rng.Intn(2)]
	g.RLRuleRef = []string{"", "", "strict", "loose"}[rng.Intn(4)]
	g.RLStrict = 1 + rng.Intn(3)
	if prev != nil && rng.Intn(3) != 0 {
		// most updates change one thing at a time
		g.RLDefault, g.RLRuleRef, g.RLStrict = prev.RLDefault, prev.RLRuleRef, prev.RLStrict
		c11tRLChangeOne(rng.Intn(4), g)
	}
}

// c11tRLChangeOne changes exactly one option of the RateLimiter spec.
func c11tRLChangeOne(kind int, g *c11tGen) {
	other := map[string]string{"strict": "loose", "loose": "strict"}
	switch kind {
	case 0: // only defaultPolicyRef
		g.RLDefault = other[g.RLDefault]
	case 1: // only the URL rule's policyRef: explicit <-> other explicit, or default -> explicit other
		g.RLRuleRef = other[g.rlEffective()]
	case 2: // only the body of the strict policy
		g.RLStrict = g.RLStrict%3 + 1
	case 3: // the URL rule stops/starts naming the policy it gets anyway
		if g.RLRuleRef == "" {
			g.RLRuleRef = g.RLDefault
		} else {
			g.RLDefault, g.RLRuleRef = g.RLRuleRef, ""
		}
	}
}

func c11tDrawGen(rng *rand.Rand, k int, prev *c11tGen) c11tGen {
	g := c11tGen{K: k, ProxyName: "proxy", MaxIdle: 10 + rng.Intn(50), Extra: rng.Intn(8)}
	if prev != nil {
		g.ProxyName = prev.ProxyName
		g.Extra = prev.Extra ^ (rng.Intn(8) & rng.Intn(8)) // filters come and go
		if k > 1 && rng.Intn(4) == 0 {
			// the update replaces the filter by one of another name: Init, not Inherit
			g.ProxyName = map[string]string{"proxy": "proxy-b", "proxy-b": "proxy"}[prev.ProxyName]
		}
		g.Inherited = g.ProxyName == prev.ProxyName
	}
	c11tDrawRL(rng, &g, prev)
	g.RetryName = []string{"retry-a", "retry-b"}[rng.Intn(2)]
	g.Retry = []int{0, 2, 3, 4}[rng.Intn(4)]
	g.Canary = rng.Intn(2) == 0
	g.CanaryRetry = []int{0, 2, 3}[rng.Intn(3)]
	if rng.Intn(2) == 0 {
		g.CBWindow = 2 + rng.Intn(3)
		g.CBThreshold = []int{50, 100}[rng.Intn(2)]
	}
	g.Also500 = rng.Intn(3) == 0
	return g
}

func (g c11tGen) yaml(name string) string {
	var b strings.Builder
	fmt.Fprintf(&b, "kind: Pipeline\nname: %s\n", name)
	var res strings.Builder
	if g.Retry > 0 {
		fmt.Fprintf(&res, "- name: %s\n  kind: Retry\n  maxAttempts: %d\n  waitDuration: 1ms\n", g.RetryName, g.Retry)
	}
	if g.Canary && g.CanaryRetry > 0 {
		fmt.Fprintf(&res, "- name: %s-canary\n  kind: Retry\n  maxAttempts: %d\n  waitDuration: 1ms\n", g.RetryName, g.CanaryRetry)
	}
	if g.CBWindow > 0 {
		fmt.Fprintf(&res, "- name: breaker\n  kind: CircuitBreaker\n  slidingWindowType: COUNT_BASED\n  slidingWindowSize: %d\n  minimumNumberOfCalls: %d\n  failureRateThreshold: %d\n  waitDurationInOpenState: 1h\n", g.CBWindow, g.CBWindow, g.CBThreshold)
	}
	if res.Len() > 0 {
		b.WriteString("resilience:\n" + res.String())
	}
	b.WriteString("filters:\n")
	if g.Extra&1 != 0 {
		b.WriteString("- name: cors\n  kind: CORSAdaptor\n  allowedOrigins: [\"*\"]\n")
	}
	if g.Extra&4 != 0 {
		fmt.Fprintf(&b, "- name: rl\n  kind: RateLimiter\n  policies:\n  - name: strict\n    timeoutDuration: 0ms\n    limitRefreshPeriod: 1h\n    limitForPeriod: %d\n  - name: loose\n    timeoutDuration: 0ms\n    limitRefreshPeriod: 1h\n    limitForPeriod: 1000000\n  defaultPolicyRef: %s\n  urls:\n  - url:\n      prefix: /limited\n", g.RLStrict, g.RLDefault)
		if g.RLRuleRef != "" {
			fmt.Fprintf(&b, "    policyRef: %s\n", g.RLRuleRef)
		}
	}
	if g.Extra&2 != 0 {
		b.WriteString("- name: val\n  kind: Validator\n  headers:\n    X-Client:\n      values: [\"verif\"]\n- name: reqad\n  kind: RequestAdaptor\n  header:\n    set:\n      X-Seen: \"yes\"\n")
	}
	fmt.Fprintf(&b, "- name: reqgen\n  kind: RequestAdaptor\n  header:\n    set:\n      X-Gen-Req: \"%d\"\n", g.K)
	codes := "[503]"
	if g.Also500 {
		codes = "[500, 503]"
	}
	fmt.Fprintf(&b, "- name: %s\n  kind: Proxy\n  maxIdleConns: %d\n  pools:\n", g.ProxyName, g.MaxIdle)
	if g.Canary {
		fmt.Fprintf(&b, "  - servers:\n    - url: %s\n    filter:\n      headers:\n        X-Canary:\n          exact: \"1\"\n    failureCodes: %s\n", c11Canary().URL, codes)
		if g.CanaryRetry > 0 {
			fmt.Fprintf(&b, "    retryPolicy: %s-canary\n", g.RetryName)
		}
	}
	fmt.Fprintf(&b, "  - servers:\n    - url: %s\n    failureCodes: %s\n", c11Backend().URL, codes)
	if g.Retry > 0 {
		fmt.Fprintf(&b, "    retryPolicy: %s\n", g.RetryName)
	}
	if g.CBWindow > 0 {
		b.WriteString("    circuitBreakerPolicy: breaker\n")
	}
	fmt.Fprintf(&b, "- name: ra\n  kind: ResponseAdaptor\n  header:\n    set:\n      X-Gen: \"%d\"\n", g.K)
	return b.String()
}

// c11tProbe is one request of the probe sequence both twins receive.
type c11tProbe struct {
	Class     string `json:"class"`
	Canary    bool   `json:"to_candidate_pool"`
	FailFirst int    `json:"backend_fails_first_n_attempts"`
	FailCode  int    `json:"with_status"`
	Limited   bool   `json:"to_rate_limited_url"`
}

// c11tProbes draws the probe sequence for a generation; the class names what the spec of that
// generation says about the probe (it goes into the violation signature).
func c11tProbes(rng *rand.Rand, g c11tGen, last bool) []c11tProbe {
	// the first probe meets a pool without any recorded failure: it must be served, by generation k
	ps := []c11tProbe{{Class: "healthy-backend"}}
	add := func(canary bool, ff, code int) {
		attempts := g.Retry
		if canary && g.Canary {
			attempts = g.CanaryRetry
		}
		listed := code == 503 || g.Also500
		class := ""
		switch {
		case !listed:
			class = "backend-status-not-a-failure-code"
		case attempts == 0:
			class = "first-attempts-fail:pool-without-retry-policy"
		case ff < attempts:
			class = "first-attempts-fail:within-retry-policy"
		default:
			class = "first-attempts-fail:retry-policy-exhausted"
		}
		ps = append(ps, c11tProbe{Class: class, Canary: canary, FailFirst: ff, FailCode: code})
	}
	add(false, 1, 503)
	add(true, 1, 503)
	for n := 2 + rng.Intn(3); n > 0; n-- {
		code := 503
		if rng.Intn(3) == 0 {
			code = 500
		}
		add(rng.Intn(3) == 0, 1+rng.Intn(4), code)
	}
	ps = append(ps, c11tProbe{Class: "healthy-backend", Canary: true})
	if last && g.CBWindow > 0 {
		// a full window of failed calls, then the backend is healthy again: the breaker the
		// spec names must have opened and must keep the healthy requests from the backend
		for n := 0; n < g.CBWindow; n++ {
			ps = append(ps, c11tProbe{Class: "breaker:window-of-failed-calls", FailFirst: 99, FailCode: 503})
		}
		ps = append(ps, c11tProbe{Class: "breaker:healthy-request-after-window-of-failed-calls"},
			c11tProbe{Class: "breaker:healthy-request-after-window-of-failed-calls"})
	}
	if g.rlPresent() {
		// healthy requests to the rate-limited URL, two more than the strictest policy permits.
		// They come last: a kept limiter may reject what the fresh twin's serves, and a request
		// that only one of the two forwards would make the breakers of the two differ for
		// whatever followed.
		for n := 0; n < 5; n++ {
			ps = append(ps, c11tProbe{Class: "rate-limited-url:" + g.rlEffective() + "-policy", Limited: true})
		}
	}
	return ps
}

func c11tSend(h context.Handler, id string, p c11tProbe) c11Obs {
	hdr := map[string]string{"X-Req-Id": id}
	if p.FailFirst > 0 {
		hdr["X-Fail-First"] = fmt.Sprint(p.FailFirst)
		hdr["X-Fail-Code"] = fmt.Sprint(p.FailCode)
	}
	if p.Canary {
		hdr["X-Canary"] = "1"
	}
	if p.Limited {
		return c11DoReq(h, "GET", "/limited/x", "", hdr)
	}
	return c11Do(h, hdr)
}

// TestVerif_C11_TwinGenerations: twin oracle for "once the update has been applied every new
// request sees the new generation" / "never fails a request because of the update": the
// pipeline that reached spec k through hot updates must answer a probe sequence exactly like a
// pipeline freshly created from spec k.
func TestVerif_C11_TwinGenerations(t *testing.T) {
	r := kit.Start(t, "C11")
	defer r.Finish()
	r.Rule("rig 2b (twin generations): a real TrafficController holds pipeline 'live' which is taken through a chain of 3-5 generations by ApplyPipelineForSpec/UpdatePipelineForSpec; each generation is drawn anew: RequestAdaptor + ResponseAdaptor carrying k, optional CORSAdaptor/Validator/RequestAdaptor/RateLimiter that come and go (the RateLimiter declares a strict policy of 1-3 permits per hour and a loose one, its URL rule on /limited names one or relies on defaultPolicyRef; every chain keeps it across one update that changes exactly one of defaultPolicyRef / the rule's policyRef / the policy body / which of the two names the policy), a Proxy whose filter name is kept (Inherit) or changed by the update (Init inside an updated pipeline), main pool and optional header-selected candidate pool to scripted loopback backends, per pool a Retry policy (none/2/3/4 attempts, policy name changes), optional CircuitBreaker (window 2-4), failureCodes [503] or [500,503]; after every update a twin pipeline is freshly created from the same spec in another namespace, both receive the same probe sequence (healthy backend; backend failing the first 1-4 attempts of the request with 503/500, to main and candidate pool; in the last generation a full breaker window of failing requests followed by healthy ones; last, five healthy requests to the rate-limited URL) and the twin is deleted; oracle: per probe the updated generation's (status, body, X-Gen header, pool, filter result, number of attempts the backend saw) equal the fresh twin's (for the rate-limited URL only when the update changed the effective policy or its body, i.e. the limiter cannot have been kept; otherwise a rejection by the updated generation is accepted, it must let through at most the permitted number and none after a rejection, and what it lets through is compared like any other probe), a healthy probe carries generation k in body and header, 'live' stays available when the twin is created/deleted; distinct = (probe class, proxy inherited/new, retry attempts, breaker, status, attempts)")
	r.Assume("a Proxy generation starts with empty resilience state (Proxy.Inherit builds new pools and breakers exactly like Init), so the probe sequence sent to the updated generation and to its fresh twin meets the same circuit-breaker window; breaker probes are only sent in the last generation of a chain and open-state wait is 1h (no wall-clock dependence)")
	super := supervisor.NewDefaultMock()
	for i := 0; i < r.N(16, 600); i++ {
		if !r.Mine(i) {
			continue
		}
		rng := r.CaseRand(i)
		ngen := 3 + rng.Intn(3)
		gens := make([]c11tGen, ngen)
		for k := range gens {
			var prev *c11tGen
			if k > 0 {
				prev = &gens[k-1]
			}
			gens[k] = c11tDrawGen(rng, k, prev)
		}
		// every chain contains the classes the monitor must not miss: an inherited Proxy whose
		// spec names a retry policy, and a breaker in the last generation
		if gens[1].Retry == 0 {
			gens[1].Retry = 2 + rng.Intn(3)
		}
		if gens[ngen-1].CBWindow == 0 {
			gens[ngen-1].CBWindow, gens[ngen-1].CBThreshold = 2+rng.Intn(3), 100
		}
		// ... and a RateLimiter kept across an update that changes exactly one of its options
		// (kind i%4: defaultPolicyRef / the rule's policyRef / the policy body / who names the policy)
		gens[1].Extra |= 4
		gens[2].Extra |= 4
		if i%4 == 0 {
			gens[1].RLRuleRef = ""
		}
		gens[2].RLDefault, gens[2].RLRuleRef, gens[2].RLStrict = gens[1].RLDefault, gens[1].RLRuleRef, gens[1].RLStrict
		c11tRLChangeOne(i%4, &gens[2])
		useUpdate := rng.Intn(2) == 0
		r.Case(i, map[string]interface{}{"generations": gens, "useUpdate": useUpdate})
		tc := c11NewTC(super)
		const liveNS, twinNS = "verif-live", "verif-twin"
		mkspec := func(g c11tGen) *supervisor.Spec {
			spec, err := super.NewSpec(g.yaml("live"))
			if err != nil {
				t.Fatalf("generated spec rejected: %v\n%s", err, g.yaml("live"))
			}
			return spec
		}
		broken := false
		for k, g := range gens {
			var err error
			r.Guard("C11:twin-apply", g, func() {
				if k > 0 && useUpdate {
					_, err = tc.UpdatePipelineForSpec(liveNS, mkspec(g))
				} else {
					_, err = tc.ApplyPipelineForSpec(liveNS, mkspec(g))
				}
			})
			if err != nil {
				r.Violation("pipeline-twin:update-returned-error", map[string]interface{}{"generation": g, "error": err.Error()})
				break
			}
			if k == 0 {
				continue // a created pipeline is its own twin; the chain starts with traffic on it
			}
			r.Guard("C11:twin-create", g, func() { _, err = tc.ApplyPipelineForSpec(twinNS, mkspec(g)) })
			if err != nil {
				t.Fatalf("twin: %v", err)
			}
			how := "proxy-new-in-updated-pipeline"
			if g.Inherited {
				how = "proxy-inherited"
				r.Count("twin_generations_with_inherited_proxy", 1)
			} else {
				r.Count("twin_generations_with_new_proxy_in_updated_pipeline", 1)
			}
			probes := c11tProbes(rng, g, k == len(gens)-1)
			rlMayShare, rlPassed, rlRejected := c11tRLMayShare(gens[k-1], g), 0, false
			for pi, p := range probes {
				live, ok1 := tc.namespaces[liveNS].GetHandler("live")
				twin, ok2 := tc.namespaces[twinNS].GetHandler("live")
				if !ok1 || !ok2 {
					r.Violation("pipeline-twin:pipeline-unavailable-after-create-of-another-object", map[string]interface{}{"live": ok1, "twin": ok2, "generation": g})
					broken = true
					break
				}
				var ol, of c11Obs
				in := map[string]interface{}{"generation": g, "probe": p}
				if r.Guard("C11:twin-request-on-updated-generation", in, func() { ol = c11tSend(live, fmt.Sprintf("c%d-g%d-p%d-live", i, k, pi), p) }) ||
					r.Guard("C11:twin-request-on-fresh-pipeline", in, func() { of = c11tSend(twin, fmt.Sprintf("c%d-g%d-p%d-fresh", i, k, pi), p) }) {
					continue
				}
				r.Eval(1)
				r.Count("twin_probes", 1)
				if of.Status == 200 && of.Attempts >= 2 {
					r.Count("twin_fresh_request_saved_by_retry_policy", 1)
					if g.Inherited {
						r.Count("twin_retry_probe_on_inherited_proxy", 1)
					}
				}
				if strings.HasPrefix(p.Class, "breaker:healthy") && of.Attempts == 0 && of.Status == 503 {
					r.Count("twin_fresh_breaker_short_circuited", 1)
				}
				if p.Limited {
					r.Count("twin_rate_limited_url_probes", 1)
					if of.Status == 429 {
						r.Count("twin_fresh_rate_limited", 1)
					}
					if gens[k-1].rlPresent() && !rlMayShare {
						r.Count("twin_ratelimiter_policy_changed_on_kept_filter", 1)
					}
				}
				if p.Limited && rlMayShare {
					// the limiter state may have been kept: permits used by earlier generations
					// count, so a rejection the fresh twin does not show is accepted; what the
					// spec of generation k says about a period is judged, and a request the
					// kept limiter lets through is compared with the twin's like any other
					if ol.Status == 429 {
						rlRejected = true
						r.Cover(fmt.Sprintf("twin/%s/limiter-may-be-kept/rejected", p.Class))
						continue
					}
					bad := ""
					switch {
					case rlRejected:
						bad = "passed-after-rejection-within-the-period"
					case rlPassed >= g.rlPermits():
						bad = "more-passed-than-the-policy-permits"
					}
					rlPassed++
					if bad != "" {
						r.Violation("pipeline-twin:rate-limited-url:kept-limiter:"+bad+":"+g.rlEffective()+"-policy",
							map[string]interface{}{"generation": g, "previous_generation": gens[k-1], "probe": p, "updated": ol, "fresh": of, "spec": g.yaml("live")})
						continue
					}
				}
				field := ""
				switch {
				case ol.Status != of.Status:
					field = "status"
				case ol.Attempts != of.Attempts:
					field = "backend-attempts"
				case ol.Result != of.Result:
					field = "filter-result"
				case ol.Body != of.Body:
					field = "body"
				case ol.Hdr != of.Hdr:
					field = "generation-header"
				case ol.Pool != of.Pool:
					field = "pool"
				}
				if field != "" {
					r.Violation(fmt.Sprintf("pipeline-twin:updated-generation-differs-from-fresh-pipeline-of-same-spec:%s:%s:%s", p.Class, field, how),
						map[string]interface{}{"generation": g, "previous_generation": gens[k-1], "probe": p, "updated": ol, "fresh": of, "spec": g.yaml("live")})
					continue
				}
				if pi == 0 && (ol.Status != 200 || ol.Body != fmt.Sprintf("gen-%d", k) || ol.Hdr != fmt.Sprint(k)) {
					r.Violation("pipeline-twin:applied-generation-not-visible", map[string]interface{}{"generation": g, "probe": p, "updated": ol, "fresh": of})
					continue
				}
				attempts := g.Retry
				if p.Canary && g.Canary {
					attempts = g.CanaryRetry
				}
				r.Cover(fmt.Sprintf("twin/%s/%s/retry=%d/breaker=%v/status%d/attempts=%d", p.Class, how, attempts, g.CBWindow > 0, ol.Status, ol.Attempts))
			}
			if broken {
				break
			}
			if err := tc.DeletePipeline(twinNS, "live"); err != nil {
				r.Violation("pipeline-twin:delete-of-twin-failed", err.Error())
			}
			if _, ok := tc.namespaces[liveNS]; !ok {
				r.Violation("pipeline-twin:pipeline-unavailable-after-delete-of-another-object", map[string]interface{}{"generation": g})
				break
			}
		}
		if i < 2 {
			r.Sample(map[string]interface{}{"rig": "twin generations", "chain": gens, "spec_last": gens[ngen-1].yaml("live")})
		}
		tc.Close()
	}
	r.Require("twin_probes", 1)
	r.Require("twin_generations_with_inherited_proxy", 1)
	r.Require("twin_generations_with_new_proxy_in_updated_pipeline", 1)
	r.Require("twin_fresh_request_saved_by_retry_policy", 1)
	r.Require("twin_retry_probe_on_inherited_proxy", 1)
	r.Require("twin_fresh_breaker_short_circuited", 1)
	r.Require("twin_fresh_rate_limited", 1)
	r.Require("twin_ratelimiter_policy_changed_on_kept_filter", 1)
}
