//go:build verif

package circuitbreaker

import (
	"fmt"
	"runtime"
	"sort"
	"sync"
	"sync/atomic"
	"testing"
	"time"

	"github.com/anishathalye/porcupine"
	"verif.local/kit"
)

// Concurrent phase: a sequential lock-step prelude brings the breaker into some state, the
// virtual clock is then frozen and 2-6 goroutines issue acquire/record bursts.  The recorded
// history (logical timestamps from one atomic counter) plus a final State() read at quiescence
// is checked with porcupine against the same reference automaton (as a nondeterministic model,
// so the choices the property leaves open stay open).

type c08OpIn struct {
	Kind string `json:"kind"` // acquire | record | state
	Call int    `json:"call"`
	Res  uint8  `json:"res"`
	T    int64  `json:"t"`
}

type c08OpOut struct {
	Permitted bool  `json:"permitted"`
	State     State `json:"state"`
}

type c08Logged struct {
	Client int      `json:"client"`
	In     c08OpIn  `json:"in"`
	Out    c08OpOut `json:"out"`
	Call   int64    `json:"call_ts"`
	Ret    int64    `json:"return_ts"`
}

func c08PorcupineModel(init []*c08Model) porcupine.Model {
	nm := porcupine.NondeterministicModel{
		Init: func() []interface{} {
			out := make([]interface{}, 0, len(init))
			for _, m := range init {
				out = append(out, m)
			}
			return out
		},
		Step: func(state, input, output interface{}) []interface{} {
			m := state.(*c08Model)
			in := input.(c08OpIn)
			out := output.(c08OpOut)
			var res []interface{}
			switch in.Kind {
			case "acquire":
				for _, a := range m.acquire(in.T, in.Call) {
					if a.permitted == out.Permitted {
						res = append(res, a.next)
					}
				}
			case "record":
				for _, a := range m.record(in.T, in.Call, in.Res) {
					res = append(res, a.next)
				}
			case "state":
				if m.allows(out.State, in.T) {
					res = append(res, m)
				}
			}
			return res
		},
		Equal: func(a, b interface{}) bool { return a.(*c08Model).key() == b.(*c08Model).key() },
		DescribeOperation: func(input, output interface{}) string {
			return fmt.Sprintf("%+v -> %+v", input, output)
		},
	}
	return nm.ToModel()
}

type c08Script struct {
	kind  string // "A" acquire, "R" record own latest admitted call (else a pre-assigned stale call, else acquire)
	res   uint8
	hasEr bool
	d     time.Duration
}

func TestVerif_C08_Concurrent(t *testing.T) {
	r := kit.Start(t, "C08")
	defer r.Finish()
	c08InstallClock()
	r.Rule("policies as in the sequential part (including those with minimumNumberOfCalls < permitted, whose half-open decision point is followed); a lock-step prelude of 0-50 random steps (half of the cases then move the clock to the exact instant the open wait elapses, or past max-wait) leaves CLOSED / OPEN / HALF_OPEN states with outstanding calls of earlier states; then, at a frozen virtual time, 2-6 goroutines run scripts of 2-5 acquire/record operations (<= 30 operations); the history + final State() is checked by porcupine against the reference automaton; distinct = (start state, goroutines, linearizable, admissions in burst, final state)")
	r.Assume("same assumptions as TestVerif_C08_Sequential; logical timestamps are taken from one atomic counter before the call and after the return of every operation")
	n := r.N(5000, 150000)
	for i := 0; i < n; i++ {
		if !r.Mine(i) {
			continue
		}
		rng := r.CaseRand(i)
		pol := c08GenPolicy(rng, i, c08AnyPolicy)
		r.Case(i, pol)
		g := c08NewRig(r, pol, rng)
		// ---- prelude
		pre := rng.Intn(51)
		for k := 0; k < pre && !g.stopped; k++ {
			g.step(rng)
		}
		if !g.stopped && rng.Intn(2) == 0 {
			m := g.set[0]
			switch {
			case m.st == c08Open && m.openHi+int64(pol.Wait) > g.now:
				g.advance(m.openHi+int64(pol.Wait)-g.now-int64(rng.Intn(2)), "prelude: to the instant wait elapses (or 1ns before)")
			case m.st == c08Half && pol.MaxWait > 0 && m.admitted == int(pol.Permitted):
				g.advance(m.halfHi+int64(pol.MaxWait)+1-g.now, "prelude: past max-wait with all trials out")
			}
		}
		if g.stopped {
			r.Count("prelude_stopped", 1)
			continue
		}
		start := g.set
		startSt := c08StName[start[0].st]
		// ---- scripts
		G := 2 + rng.Intn(5)
		perG := 2 + rng.Intn(4)
		if G*perG > 29 {
			perG = 29 / G
		}
		scripts := make([][]c08Script, G)
		stale := make([][]c08Pending, G)
		for k, pc := range g.pending {
			if k >= 12 {
				break
			}
			w := rng.Intn(G)
			stale[w] = append(stale[w], pc)
		}
		acqBias := []int{30, 50, 80}[rng.Intn(3)]
		for w := 0; w < G; w++ {
			for k := 0; k < perG; k++ {
				s := c08Script{kind: "A"}
				if rng.Intn(100) >= acqBias {
					s.kind = "R"
				}
				s.res = g.pickResult(rng)
				s.hasEr, s.d = c08Durations(rng, pol, s.res)
				scripts[w] = append(scripts[w], s)
			}
		}
		// ---- burst
		var clock int64
		var gate int32
		var wg sync.WaitGroup
		logs := make([][]c08Logged, G)
		cb := g.cb
		now := g.now
		callBase := g.nextCall
		panics := make([]string, G)
		for w := 0; w < G; w++ {
			wg.Add(1)
			go func(w int) {
				defer wg.Done()
				defer func() {
					if e := recover(); e != nil {
						panics[w] = fmt.Sprint(e)
					}
				}()
				var own []c08Pending
				mine := stale[w]
				for atomic.LoadInt32(&gate) == 0 {
					runtime.Gosched()
				}
				for k, s := range scripts[w] {
					kind := s.kind
					var pc c08Pending
					if kind == "R" {
						switch {
						case len(own) > 0:
							pc, own = own[len(own)-1], own[:len(own)-1]
						case len(mine) > 0:
							pc, mine = mine[0], mine[1:]
						default:
							kind = "A"
						}
					}
					if kind == "A" {
						call := callBase + w*100 + k
						c := atomic.AddInt64(&clock, 1)
						ok, tag := cb.AcquirePermission()
						ret := atomic.AddInt64(&clock, 1)
						if ok {
							own = append(own, c08Pending{call, tag})
						}
						logs[w] = append(logs[w], c08Logged{w, c08OpIn{"acquire", call, 0, now}, c08OpOut{Permitted: ok}, c, ret})
					} else {
						c := atomic.AddInt64(&clock, 1)
						cb.RecordResult(pc.tag, s.hasEr, s.d)
						ret := atomic.AddInt64(&clock, 1)
						logs[w] = append(logs[w], c08Logged{w, c08OpIn{"record", pc.call, s.res, now}, c08OpOut{}, c, ret})
					}
				}
			}(w)
		}
		atomic.StoreInt32(&gate, 1)
		wg.Wait()
		for w, p := range panics {
			if p != "" {
				r.Violation("conc:panic:"+kit.MsgClass(p), map[string]interface{}{"policy": pol, "goroutine": w, "panic": p, "prelude": g.trace})
			}
		}
		// quiescent: State() may be read
		final := cb.State()
		var hist []c08Logged
		for w := 0; w < G; w++ {
			hist = append(hist, logs[w]...)
		}
		c := atomic.AddInt64(&clock, 1)
		hist = append(hist, c08Logged{G, c08OpIn{"state", 0, 0, now}, c08OpOut{State: final}, c, c + 1})
		sort.Slice(hist, func(a, b int) bool { return hist[a].Call < hist[b].Call })
		r.Eval(len(hist))
		// overlap statistics
		overlaps, admitted := 0, 0
		for a := range hist {
			if hist[a].In.Kind == "acquire" && hist[a].Out.Permitted {
				admitted++
			}
			for b := a + 1; b < len(hist); b++ {
				if hist[b].Call < hist[a].Ret && hist[a].Client != hist[b].Client {
					overlaps++
				}
			}
		}
		r.Count("conc_overlapping_operation_pairs", int64(overlaps))
		if overlaps > 0 {
			r.Count("conc_histories_with_overlap", 1)
		}
		r.Count("conc_start_"+startSt, 1)
		ops := make([]porcupine.Operation, 0, len(hist))
		for _, h := range hist {
			ops = append(ops, porcupine.Operation{ClientId: h.Client, Input: h.In, Call: h.Call, Output: h.Out, Return: h.Ret})
		}
		res := porcupine.CheckOperationsTimeout(c08PorcupineModel(start), ops, 120*time.Second)
		switch res {
		case porcupine.Ok:
			r.Count("porcupine_ok", 1)
		case porcupine.Unknown:
			r.Count("porcupine_unknown", 1)
			r.Inconclusive(fmt.Sprintf("porcupine Unknown (timeout) on case %d", i))
		case porcupine.Illegal:
			r.Count("porcupine_illegal", 1)
			// classify: how many admissions could the start state allow at a frozen clock?
			kind := "other"
			m := start[0]
			switch m.st {
			case c08Open:
				if now-m.openHi < int64(pol.Wait) && admitted > 0 {
					kind = "admitted-while-open"
				} else if admitted > int(pol.Permitted) {
					kind = "more-admissions-than-permitted-trials"
				}
			case c08Half:
				if admitted > int(pol.Permitted)-m.admitted {
					kind = "more-admissions-than-permitted-trials"
				}
			case c08Closed:
				kind = "closed-start"
			}
			if !pol.deciding() && kind == "more-admissions-than-permitted-trials" {
				// HALF_OPEN may end inside the burst, later admissions can be CLOSED ones: the count says nothing
				kind = "other(open-decision-point)"
			}
			starts := []interface{}{}
			for _, s := range start {
				starts = append(starts, s.describe())
			}
			r.Violation(fmt.Sprintf("conc:not-linearizable:start=%s:%s:final=%s", startSt, kind, stateStrings[final]), map[string]interface{}{
				"policy": pol, "prelude": g.trace, "start_states": starts, "frozen_now_ns": now, "history": hist, "final_state": stateStrings[final],
			})
		}
		bucket := admitted
		if bucket > 6 {
			bucket = 6
		}
		wt := "C"
		if pol.TimeBased {
			wt = "T"
		}
		r.Cover(fmt.Sprintf("conc/%s/p%d/start=%s/G%d/%v/adm%d/final=%s", wt, pol.Permitted, startSt, G, res, bucket, stateStrings[final]))
		if i < 2 {
			r.Sample(map[string]interface{}{"policy": pol, "start": start[0].describe(), "history": hist, "porcupine": fmt.Sprint(res)})
		}
	}
	r.Require("porcupine_ok", 1)
	r.Require("conc_histories_with_overlap", 1)
	r.Require("conc_start_CLOSED", 1)
	r.Require("conc_start_OPEN", 1)
	r.Require("conc_start_HALF_OPEN", 1)
}

// ---------------------------------------------------------------- trials completing together

func c08ToOps(hist []c08Logged) []porcupine.Operation {
	ops := make([]porcupine.Operation, 0, len(hist))
	for _, h := range hist {
		ops = append(ops, porcupine.Operation{ClientId: h.Client, Input: h.In, Call: h.Call, Output: h.Out, Return: h.Ret})
	}
	return ops
}

// TestVerif_C08_ConcurrentHalfOpenExit: policies with minimumNumberOfCalls < permitted, so the
// breaker can leave HALF_OPEN while admitted trials are still in flight.  A lock-step prelude
// steers the breaker into HALF_OPEN with 2..permitted trials admitted and outstanding; then, at a
// frozen virtual time, every outstanding trial is completed by its own goroutine at the same
// moment (plus goroutines that acquire / record other calls).  When HALF_OPEN ends is read at
// quiescence and followed; what is judged (porcupine, same automaton) is what the property fixes:
// trial results that arrive after that end belong to an earlier state and must not count in the
// new state.  A sequential tail of fresh calls with State() after every operation exposes a window
// that holds a result it must not hold (opens with fewer than minimumNumberOfCalls fresh results,
// or does not open although the fresh results alone reach the threshold).
func TestVerif_C08_ConcurrentHalfOpenExit(t *testing.T) {
	r := kit.Start(t, "C08")
	defer r.Finish()
	c08InstallClock()
	r.Rule("policies with minimumNumberOfCalls < permitted trials (minimumNumberOfCalls in {0,1,N,N+1} and 2..permitted-1, permitted {2,5}, every threshold, both window types); lock-step prelude: 0-14 random steps, then steered (failures until OPEN, clock to the end of the wait, acquires) into HALF_OPEN with 2..permitted trials admitted and still outstanding, some trial results possibly recorded one by one; burst at a frozen clock: one goroutine per outstanding trial records its result (mostly successes, also mixed / all failed or slow) and then runs 0-2 further acquire/record operations, 0-2 more goroutines acquire and record; in 60% of the cases the goroutines are released as a convoy (the harness holds the breaker's own lock, as a slow concurrent caller would, until every goroutine has started its first operation), otherwise they run freely; then State() at quiescence and a sequential tail of 2-9 acquire/record operations (fresh calls and calls left over from the burst) with State() after each; the whole history is checked by porcupine against the reference automaton (decision point nondeterministic, staleness deterministic); distinct = (window type, permitted, min-calls class, trials in burst, convoy, state after burst, final state, verdict)")
	r.Assume("same assumptions as TestVerif_C08_Sequential; the harness takes CircuitBreaker.lock only to delay the start of a burst (never while reading state); a lower bound of 50us of real time is waited after the last goroutine announced its first operation, nothing depends on that wait having been long enough except the required overlap observations")
	n := r.N(2000, 60000)
	for i := 0; i < n; i++ {
		if !r.Mine(i) {
			continue
		}
		rng := r.CaseRand(i)
		var pol *c08Policy
		for {
			pol = c08GenPolicy(rng, -1, c08EarlyExit)
			if pol.TimeBased || pol.MinCalls <= pol.N { // a count window smaller than minimumNumberOfCalls never opens
				break
			}
		}
		r.Case(i, pol)
		g := c08NewRig(r, pol, rng)
		for k := rng.Intn(15); k > 0 && !g.stopped; k-- {
			g.step(rng)
		}
		// ---- steer into HALF_OPEN with `want` trials admitted and >= 2 of them outstanding
		want := int(pol.Permitted)
		if rng.Intn(2) == 0 {
			want = 2 + rng.Intn(int(pol.Permitted)-1)
		}
		trialFail := []int{0, 0, 15, 15, 50, 100}[rng.Intn(6)]
		trialSlow := []int{0, 0, 20, 100}[rng.Intn(4)]
		pickTrial := func() uint8 {
			if rng.Intn(100) < trialFail {
				return c08Failure
			}
			if rng.Intn(100) < trialSlow {
				return c08Slow
			}
			return c08Success
		}
		var cur []int // indices into g.pending of the outstanding trials of the current HALF_OPEN
		ready := false
		for k := 0; k < 150 && !g.stopped && !ready; k++ {
			m := g.set[0]
			allHalf := true
			for _, x := range g.set {
				if x.st != c08Half {
					allHalf = false
				}
			}
			switch {
			case m.st == c08Closed:
				g.acquire()
				if !g.stopped && len(g.pending) > 0 {
					res := uint8(c08Failure)
					if rng.Intn(10) == 0 {
						res = g.pickResult(rng)
					}
					g.record(len(g.pending)-1, res, rng)
				}
				if pol.TimeBased && k%8 == 7 && !g.stopped {
					g.advance(int64(pol.N)*c08Sec, "steer: let old results leave the time window")
				}
			case m.st == c08Open:
				d := m.openHi + int64(pol.Wait) - g.now + []int64{0, 0, 1, rng.Int63n(c08Sec)}[rng.Intn(4)]
				if d < 0 {
					d = 0
				}
				g.advance(d, "steer: to the end of the open wait")
				if !g.stopped {
					g.acquire()
				}
			case !allHalf:
				g.acquire()
			default:
				cur = cur[:0]
				for idx, pc := range g.pending {
					if ep, ok := m.calls[pc.call]; ok && ep == m.epoch {
						cur = append(cur, idx)
					}
				}
				switch {
				case m.admitted < want:
					g.acquire()
				case len(cur) >= 3 && rng.Intn(100) < 35:
					g.record(cur[rng.Intn(len(cur))], pickTrial(), rng) // one trial reports on its own first
				case len(cur) >= 2:
					ready = true
				case len(cur) == 1:
					g.record(cur[0], pickTrial(), rng) // too few trials left: let this HALF_OPEN go on / finish
				default:
					g.acquire() // every admitted trial has reported and the breaker is still half-open
				}
			}
		}
		if g.stopped {
			r.Count("prelude_stopped", 1)
			continue
		}
		if !ready {
			r.Count("halfexit_prelude_did_not_reach_half_open", 1)
			continue
		}
		start := g.set
		trialsBefore := len(start[0].trials)
		// ---- scripts: goroutine w < len(cur) completes trial cur[w] first
		nt := len(cur)
		G := nt + rng.Intn(3)
		scripts := make([][]c08Script, G)
		first := make([]c08Pending, nt)
		isCur := map[int]bool{}
		for w, idx := range cur {
			first[w] = g.pending[idx]
			isCur[idx] = true
		}
		stale := make([][]c08Pending, G)
		ns := 0
		for idx, pc := range g.pending {
			if !isCur[idx] && ns < 6 {
				w := rng.Intn(G)
				stale[w] = append(stale[w], pc)
				ns++
			}
		}
		mk := func(kind string, res uint8) c08Script {
			s := c08Script{kind: kind, res: res}
			s.hasEr, s.d = c08Durations(rng, pol, s.res)
			return s
		}
		for w := 0; w < G; w++ {
			extra := rng.Intn(3)
			if w < nt {
				scripts[w] = append(scripts[w], mk("T", pickTrial()))
			} else {
				scripts[w] = append(scripts[w], mk("A", 0))
				extra = 1 + rng.Intn(2)
			}
			for k := 0; k < extra; k++ {
				kind := "A"
				if rng.Intn(2) == 0 {
					kind = "R"
				}
				scripts[w] = append(scripts[w], mk(kind, g.pickResult(rng)))
			}
		}
		convoy := rng.Intn(100) < 60
		// ---- burst
		var clock int64
		var gate, arrived int32
		var wg sync.WaitGroup
		logs := make([][]c08Logged, G)
		left := make([][]c08Pending, G)
		cb := g.cb
		now := g.now
		callBase := g.nextCall
		panics := make([]string, G)
		if convoy {
			cb.lock.Lock()
		}
		for w := 0; w < G; w++ {
			wg.Add(1)
			go func(w int) {
				defer wg.Done()
				defer func() {
					if e := recover(); e != nil {
						panics[w] = fmt.Sprint(e)
					}
				}()
				var own []c08Pending
				mine := stale[w]
				for atomic.LoadInt32(&gate) == 0 {
					runtime.Gosched()
				}
				atomic.AddInt32(&arrived, 1)
				for k, s := range scripts[w] {
					kind := s.kind
					var pc c08Pending
					switch kind {
					case "T":
						pc, kind = first[w], "R"
					case "R":
						switch {
						case len(own) > 0:
							pc, own = own[len(own)-1], own[:len(own)-1]
						case len(mine) > 0:
							pc, mine = mine[0], mine[1:]
						default:
							kind = "A"
						}
					}
					if kind == "A" {
						call := callBase + w*100 + k
						c := atomic.AddInt64(&clock, 1)
						ok, tag := cb.AcquirePermission()
						ret := atomic.AddInt64(&clock, 1)
						if ok {
							own = append(own, c08Pending{call, tag})
						}
						logs[w] = append(logs[w], c08Logged{w, c08OpIn{"acquire", call, 0, now}, c08OpOut{Permitted: ok}, c, ret})
					} else {
						c := atomic.AddInt64(&clock, 1)
						cb.RecordResult(pc.tag, s.hasEr, s.d)
						ret := atomic.AddInt64(&clock, 1)
						logs[w] = append(logs[w], c08Logged{w, c08OpIn{"record", pc.call, s.res, now}, c08OpOut{}, c, ret})
					}
				}
				left[w] = append(own, mine...)
			}(w)
		}
		atomic.StoreInt32(&gate, 1)
		if convoy {
			dl := time.Now().Add(60 * time.Second)
			for atomic.LoadInt32(&arrived) < int32(G) && time.Now().Before(dl) {
				runtime.Gosched()
			}
			late := atomic.LoadInt32(&arrived) < int32(G)
			for k := 0; k < 20; k++ {
				runtime.Gosched()
			}
			time.Sleep(50 * time.Microsecond)
			cb.lock.Unlock()
			if late {
				r.Inconclusive(fmt.Sprintf("convoy of case %d did not assemble within 60s", i))
			}
			r.Count("halfexit_convoy_bursts", 1)
		} else {
			r.Count("halfexit_free_running_bursts", 1)
		}
		wg.Wait()
		for w, p := range panics {
			if p != "" {
				r.Violation("conc:halfexit:panic:"+kit.MsgClass(p), map[string]interface{}{"policy": pol, "goroutine": w, "panic": p, "prelude": g.trace})
			}
		}
		// ---- quiescent: State(), then the sequential tail
		var hist []c08Logged
		for w := 0; w < G; w++ {
			hist = append(hist, logs[w]...)
		}
		sort.Slice(hist, func(a, b int) bool { return hist[a].Call < hist[b].Call })
		burstOps := len(hist)
		desc := make([]string, burstOps, burstOps+24)
		seqOp := func(in c08OpIn, what string, f func() c08OpOut) c08OpOut {
			c := atomic.AddInt64(&clock, 1)
			out := f()
			ret := atomic.AddInt64(&clock, 1)
			hist = append(hist, c08Logged{G, in, out, c, ret})
			desc = append(desc, what)
			return out
		}
		readState := func(after string) State {
			return seqOp(c08OpIn{"state", 0, 0, now}, "state-after-"+after, func() c08OpOut { return c08OpOut{State: cb.State()} }).State
		}
		exit := readState("burst")
		var tailOwn, leftover []c08Pending
		for w := 0; w < G; w++ {
			leftover = append(leftover, left[w]...)
		}
		tailFail := []int{10, 50, 90, 100}[rng.Intn(4)]
		tailOps := 2 + rng.Intn(8)
		tailRecorded := 0
		for k := 0; k < tailOps; k++ {
			x := rng.Intn(100)
			switch {
			case len(tailOwn) > 0 && (x < 60 || k == tailOps-1):
				pc := tailOwn[len(tailOwn)-1]
				tailOwn = tailOwn[:len(tailOwn)-1]
				res := uint8(c08Success)
				if y := rng.Intn(100); y < tailFail {
					res = c08Failure
				} else if y < tailFail+10 {
					res = c08Slow
				}
				hasErr, d := c08Durations(rng, pol, res)
				what := "fresh-" + c08ResName[res]
				seqOp(c08OpIn{"record", pc.call, res, now}, what, func() c08OpOut { cb.RecordResult(pc.tag, hasErr, d); return c08OpOut{} })
				tailRecorded++
				readState(what)
			case len(leftover) > 0 && x >= 85:
				pc := leftover[0]
				leftover = leftover[1:]
				res := g.pickResult(rng)
				hasErr, d := c08Durations(rng, pol, res)
				what := "burst-call-" + c08ResName[res]
				seqOp(c08OpIn{"record", pc.call, res, now}, what, func() c08OpOut { cb.RecordResult(pc.tag, hasErr, d); return c08OpOut{} })
				readState(what)
			default:
				call := callBase + 5000 + k
				var tag uint32
				out := seqOp(c08OpIn{"acquire", call, 0, now}, "acquire", func() c08OpOut {
					ok, tg := cb.AcquirePermission()
					tag = tg
					return c08OpOut{Permitted: ok}
				})
				what := "acquire-rejected"
				if out.Permitted {
					tailOwn = append(tailOwn, c08Pending{call, tag})
					what = "acquire-admitted"
				}
				desc[len(desc)-1] = what
				readState(what)
			}
		}
		final := cb.State()
		r.Eval(len(hist))
		// ---- what was observed
		trialOverlap := 0 // pairs of trial completions of the current HALF_OPEN that overlap in time
		for a := 0; a < burstOps; a++ {
			for b := a + 1; b < burstOps; b++ {
				ha, hb := hist[a], hist[b]
				if ha.Client < nt && hb.Client < nt && ha.Client != hb.Client && ha.In.Kind == "record" && hb.In.Kind == "record" &&
					ha.In.Call == first[ha.Client].call && hb.In.Call == first[hb.Client].call && hb.Call < ha.Ret {
					trialOverlap++
				}
			}
		}
		if trialOverlap > 0 {
			r.Count("halfexit_bursts_with_overlapping_trial_results", 1)
			if exit != StateHalfOpen {
				r.Count("halfexit_overlapping_trial_results_and_exit_to_"+stateStrings[exit], 1)
				if trialsBefore+nt > 1 && exit == StateClosed && tailRecorded > 0 {
					r.Count("halfexit_fresh_results_recorded_after_exit_to_Closed", 1)
				}
			}
		}
		res := porcupine.CheckOperationsTimeout(c08PorcupineModel(start), c08ToOps(hist), 120*time.Second)
		switch res {
		case porcupine.Ok:
			r.Count("porcupine_ok", 1)
		case porcupine.Unknown:
			r.Count("porcupine_unknown", 1)
			r.Inconclusive(fmt.Sprintf("porcupine Unknown (timeout) on case %d", i))
		case porcupine.Illegal:
			r.Count("porcupine_illegal", 1)
			// localize: the shortest prefix (burst + state, then the tail operation by operation) that has no linearization
			where := "burst"
			for k := burstOps + 1; k <= len(hist); k++ {
				pr := porcupine.CheckOperationsTimeout(c08PorcupineModel(start), c08ToOps(hist[:k]), 120*time.Second)
				if pr == porcupine.Illegal {
					if k > burstOps+1 {
						where = "tail:" + desc[k-1]
						if hist[k-1].In.Kind == "state" {
							where += "=" + stateStrings[hist[k-1].Out.State]
						}
					}
					break
				}
			}
			starts := []interface{}{}
			for _, s := range start {
				starts = append(starts, s.describe())
			}
			r.Violation(fmt.Sprintf("conc:halfexit:not-linearizable:after-burst=%s:%s", stateStrings[exit], where), map[string]interface{}{
				"policy": pol, "prelude": g.trace, "start_states": starts, "frozen_now_ns": now, "convoy": convoy,
				"trial_calls_completed_together": first, "history": hist, "tail_operations": desc[burstOps:], "final_state": stateStrings[final],
				"reading": "after-burst = State() when all goroutines had returned; a tail position means: the burst alone can be explained, but the fresh calls after it behave as if the new state's window held results it must not hold (or missed some)",
			})
		}
		wt := "C"
		if pol.TimeBased {
			wt = "T"
		}
		mc := "min" + fmt.Sprint(pol.MinCalls)
		r.Cover(fmt.Sprintf("halfexit/%s/p%d/%s/trials%d+%d/convoy=%v/%v/exit=%s/final=%s", wt, pol.Permitted, mc, trialsBefore, nt, convoy, res, stateStrings[exit], stateStrings[final]))
		if i < 2 {
			r.Sample(map[string]interface{}{"policy": pol, "start": start[0].describe(), "history": hist, "porcupine": fmt.Sprint(res)})
		}
	}
	r.Require("porcupine_ok", 1)
	r.Require("halfexit_convoy_bursts", 1)
	r.Require("halfexit_free_running_bursts", 1)
	r.Require("halfexit_bursts_with_overlapping_trial_results", 1)
	r.Require("halfexit_overlapping_trial_results_and_exit_to_Closed", 1)
	r.Require("halfexit_overlapping_trial_results_and_exit_to_Open", 1)
	r.Require("halfexit_fresh_results_recorded_after_exit_to_Closed", 1)
}
