//go:build verif

package circuitbreaker

import (
	"fmt"
	"runtime"
	"sort"
	"sync"
	"sync/atomic"
	"testing"
	"time"

	"github.com/anishathalye/porcupine"
	"verif.local/kit"
)

// Concurrent phase: a sequential lock-step prelude brings the breaker into some state, the
// virtual clock is then frozen and 2-6 goroutines issue acquire/record bursts.  The recorded
// history (logical timestamps from one atomic counter) plus a final State() read at quiescence
// is checked with porcupine against the same reference automaton (as a nondeterministic model,
// so the choices the property leaves open stay open).

type c08OpIn struct {
	Kind string `json:"kind"` // acquire | record | state
	Call int    `json:"call"`
	Res  uint8  `json:"res"`
	T    int64  `json:"t"`
}

type c08OpOut struct {
	Permitted bool  `json:"permitted"`
	State     State `json:"state"`
}

type c08Logged struct {
	Client int      `json:"client"`
	In     c08OpIn  `json:"in"`
	Out    c08OpOut `json:"out"`
	Call   int64    `json:"call_ts"`
	Ret    int64    `json:"return_ts"`
}

func c08PorcupineModel(init []*c08Model) porcupine.Model {
	nm := porcupine.NondeterministicModel{
		Init: func() []interface{} {
			out := make([]interface{}, 0, len(init))
			for _, m := range init {
				out = append(out, m)
			}
			return out
		},
		Step: func(state, input, output interface{}) []interface{} {
			m := state.(*c08Model)
			in := input.(c08OpIn)
			out := output.(c08OpOut)
			var res []interface{}
			switch in.Kind {
			case "acquire":
				for _, a := range m.acquire(in.T, in.Call) {
					if a.permitted == out.Permitted {
						res = append(res, a.next)
					}
				}
			case "record":
				for _, a := range m.record(in.T, in.Call, in.Res) {
					res = append(res, a.next)
				}
			case "state":
				if m.allows(out.State, in.T) {
					res = append(res, m)
				}
			}
			return res
		},
		Equal: func(a, b interface{}) bool { return a.(*c08Model).key() == b.(*c08Model).key() },
		DescribeOperation: func(input, output interface{}) string {
			return fmt.Sprintf("%+v -> %+v", input, output)
		},
	}
	return nm.ToModel()
}

type c08Script struct {
	kind  string // "A" acquire, "R" record own latest admitted call (else a pre-assigned stale call, else acquire)
	res   uint8
	hasEr bool
	d     time.Duration
}

func TestVerif_C08_Concurrent(t *testing.T) {
	r := kit.Start(t, "C08")
	defer r.Finish()
	c08InstallClock()
	r.Rule("deciding policies (as in the sequential part); a lock-step prelude of 0-50 random steps (half of the cases then move the clock to the exact instant the open wait elapses, or past max-wait) leaves CLOSED / OPEN / HALF_OPEN states with outstanding calls of earlier states; then, at a frozen virtual time, 2-6 goroutines run scripts of 2-5 acquire/record operations (<= 30 operations); the history + final State() is checked by porcupine against the reference automaton; distinct = (start state, goroutines, linearizable, admissions in burst, final state)")
	r.Assume("same assumptions as TestVerif_C08_Sequential; logical timestamps are taken from one atomic counter before the call and after the return of every operation")
	n := r.N(5000, 150000)
	for i := 0; i < n; i++ {
		if !r.Mine(i) {
			continue
		}
		rng := r.CaseRand(i)
		pol := c08GenPolicy(rng, i, true)
		r.Case(i, pol)
		g := c08NewRig(r, pol, rng)
		// ---- prelude
		pre := rng.Intn(51)
		for k := 0; k < pre && !g.stopped; k++ {
			g.step(rng)
		}
		if !g.stopped && rng.Intn(2) == 0 {
			m := g.set[0]
			switch {
			case m.st == c08Open && m.openHi+int64(pol.Wait) > g.now:
				g.advance(m.openHi+int64(pol.Wait)-g.now-int64(rng.Intn(2)), "prelude: to the instant wait elapses (or 1ns before)")
			case m.st == c08Half && pol.MaxWait > 0 && m.admitted == int(pol.Permitted):
				g.advance(m.halfHi+int64(pol.MaxWait)+1-g.now, "prelude: past max-wait with all trials out")
			}
		}
		if g.stopped {
			r.Count("prelude_stopped", 1)
			continue
		}
		start := g.set
		startSt := c08StName[start[0].st]
		// ---- scripts
		G := 2 + rng.Intn(5)
		perG := 2 + rng.Intn(4)
		if G*perG > 29 {
			perG = 29 / G
		}
		scripts := make([][]c08Script, G)
		stale := make([][]c08Pending, G)
		for k, pc := range g.pending {
			if k >= 12 {
				break
			}
			w := rng.Intn(G)
			stale[w] = append(stale[w], pc)
		}
		acqBias := []int{30, 50, 80}[rng.Intn(3)]
		for w := 0; w < G; w++ {
			for k := 0; k < perG; k++ {
				s := c08Script{kind: "A"}
				if rng.Intn(100) >= acqBias {
					s.kind = "R"
				}
				s.res = g.pickResult(rng)
				s.hasEr, s.d = c08Durations(rng, pol, s.res)
				scripts[w] = append(scripts[w], s)
			}
		}
		// ---- burst
		var clock int64
		var gate int32
		var wg sync.WaitGroup
		logs := make([][]c08Logged, G)
		cb := g.cb
		now := g.now
		callBase := g.nextCall
		panics := make([]string, G)
		for w := 0; w < G; w++ {
			wg.Add(1)
			go func(w int) {
				defer wg.Done()
				defer func() {
					if e := recover(); e != nil {
						panics[w] = fmt.Sprint(e)
					}
				}()
				var own []c08Pending
				mine := stale[w]
				for atomic.LoadInt32(&gate) == 0 {
					runtime.Gosched()
				}
				for k, s := range scripts[w] {
					kind := s.kind
					var pc c08Pending
					if kind == "R" {
						switch {
						case len(own) > 0:
							pc, own = own[len(own)-1], own[:len(own)-1]
						case len(mine) > 0:
							pc, mine = mine[0], mine[1:]
						default:
							kind = "A"
						}
					}
					if kind == "A" {
						call := callBase + w*100 + k
						c := atomic.AddInt64(&clock, 1)
						ok, tag := cb.AcquirePermission()
						ret := atomic.AddInt64(&clock, 1)
						if ok {
							own = append(own, c08Pending{call, tag})
						}
						logs[w] = append(logs[w], c08Logged{w, c08OpIn{"acquire", call, 0, now}, c08OpOut{Permitted: ok}, c, ret})
					} else {
						c := atomic.AddInt64(&clock, 1)
						cb.RecordResult(pc.tag, s.hasEr, s.d)
						ret := atomic.AddInt64(&clock, 1)
						logs[w] = append(logs[w], c08Logged{w, c08OpIn{"record", pc.call, s.res, now}, c08OpOut{}, c, ret})
					}
				}
			}(w)
		}
		atomic.StoreInt32(&gate, 1)
		wg.Wait()
		for w, p := range panics {
			if p != "" {
				r.Violation("conc:panic:"+kit.MsgClass(p), map[string]interface{}{"policy": pol, "goroutine": w, "panic": p, "prelude": g.trace})
			}
		}
		// quiescent: State() may be read
		final := cb.State()
		var hist []c08Logged
		for w := 0; w < G; w++ {
			hist = append(hist, logs[w]...)
		}
		c := atomic.AddInt64(&clock, 1)
		hist = append(hist, c08Logged{G, c08OpIn{"state", 0, 0, now}, c08OpOut{State: final}, c, c + 1})
		sort.Slice(hist, func(a, b int) bool { return hist[a].Call < hist[b].Call })
		r.Eval(len(hist))
		// overlap statistics
		overlaps, admitted := 0, 0
		for a := range hist {
			if hist[a].In.Kind == "acquire" && hist[a].Out.Permitted {
				admitted++
			}
			for b := a + 1; b < len(hist); b++ {
				if hist[b].Call < hist[a].Ret && hist[a].Client != hist[b].Client {
					overlaps++
				}
			}
		}
		r.Count("conc_overlapping_operation_pairs", int64(overlaps))
		if overlaps > 0 {
			r.Count("conc_histories_with_overlap", 1)
		}
		r.Count("conc_start_"+startSt, 1)
		ops := make([]porcupine.Operation, 0, len(hist))
		for _, h := range hist {
			ops = append(ops, porcupine.Operation{ClientId: h.Client, Input: h.In, Call: h.Call, Output: h.Out, Return: h.Ret})
		}
		res := porcupine.CheckOperationsTimeout(c08PorcupineModel(start), ops, 120*time.Second)
		switch res {
		case porcupine.Ok:
			r.Count("porcupine_ok", 1)
		case porcupine.Unknown:
			r.Count("porcupine_unknown", 1)
			r.Inconclusive(fmt.Sprintf("porcupine Unknown (timeout) on case %d", i))
		case porcupine.Illegal:
			r.Count("porcupine_illegal", 1)
			// classify: how many admissions could the start state allow at a frozen clock?
			kind := "other"
			m := start[0]
			switch m.st {
			case c08Open:
				if now-m.openHi < int64(pol.Wait) && admitted > 0 {
					kind = "admitted-while-open"
				} else if admitted > int(pol.Permitted) {
					kind = "more-admissions-than-permitted-trials"
				}
			case c08Half:
				if admitted > int(pol.Permitted)-m.admitted {
					kind = "more-admissions-than-permitted-trials"
				}
			case c08Closed:
				kind = "closed-start"
			}
			starts := []interface{}{}
			for _, s := range start {
				starts = append(starts, s.describe())
			}
			r.Violation(fmt.Sprintf("conc:not-linearizable:start=%s:%s:final=%s", startSt, kind, stateStrings[final]), map[string]interface{}{
				"policy": pol, "prelude": g.trace, "start_states": starts, "frozen_now_ns": now, "history": hist, "final_state": stateStrings[final],
			})
		}
		bucket := admitted
		if bucket > 6 {
			bucket = 6
		}
		wt := "C"
		if pol.TimeBased {
			wt = "T"
		}
		r.Cover(fmt.Sprintf("conc/%s/p%d/start=%s/G%d/%v/adm%d/final=%s", wt, pol.Permitted, startSt, G, res, bucket, stateStrings[final]))
		if i < 2 {
			r.Sample(map[string]interface{}{"policy": pol, "start": start[0].describe(), "history": hist, "porcupine": fmt.Sprint(res)})
		}
	}
	r.Require("porcupine_ok", 1)
	r.Require("conc_histories_with_overlap", 1)
	r.Require("conc_start_CLOSED", 1)
	r.Require("conc_start_OPEN", 1)
	r.Require("conc_start_HALF_OPEN", 1)
}
