//go:build verif

package circuitbreaker

import (
	"fmt"
	"math/rand"
	"testing"
	"time"

	"verif.local/kit"
)

// Rate-boundary histories: "a failure rate or slow-call rate AT OR ABOVE its threshold opens the
// breaker" is a statement about the exact rate bad/total, and thresholds are whole percents
// 1..100.  The random policies of the other parts use thresholds {1,50,99,100} with at most ten
// results in a window, so every rate they ever evaluate is either a whole number or more than
// one percentage point away from its threshold: no history there can tell an exact comparison
// from one made on a truncated, rounded or rounded-up percentage.  This part generates the
// missing class: a target mix "K results of one kind among N" and a threshold chosen one step
// around the exact rate 100K/N (the first whole percent above it: the breaker must not open;
// the last whole percent at or below it: it must), for N/K whose rate has fractional part 0,
// below one half, and at least one half; for the failure rate and the slow-call rate; for
// count-based and time-based windows; evaluated on the CLOSED window and on the HALF_OPEN trials.
// The histories run on the same lock-step rig and are judged by the same reference automaton as
// TestVerif_C08_Sequential (c08Model.rateTrips compares bad*100 >= threshold*total exactly).

type c08BndCase struct {
	Kind     string     `json:"rate"`      // failure | slow: the rate that sits next to its threshold
	HalfOpen bool       `json:"onTrials"`  // the rate is evaluated on HALF_OPEN trials (else on the CLOSED window)
	N        int        `json:"n"`         // results in the window / trials when the rate is evaluated
	K        int        `json:"k"`         // ... of which K are of the kind
	Other    int        `json:"other"`     // ... and Other of the other non-success kind (whose threshold is 100)
	Above    bool       `json:"thresholdAtOrBelowRate"`
	Overlap  bool       `json:"admitAllFirst"`
	Pol      *c08Policy `json:"policy"`
}

var c08BndPairs = func() [][2]int {
	var out [][2]int
	for n := 2; n <= 12; n++ {
		for k := 1; k < n; k++ {
			out = append(out, [2]int{n, k})
		}
	}
	return out
}()

func c08GenBoundary(rng *rand.Rand, i int) *c08BndCase {
	c := &c08BndCase{Kind: "failure"}
	var timeBased bool
	sys := i >= 0 && i < 16*len(c08BndPairs)
	if sys {
		if i&1 != 0 {
			c.Kind = "slow"
		}
		timeBased = i&2 != 0
		c.HalfOpen = i&4 != 0
		c.Above = i&8 != 0
		pr := c08BndPairs[(i/16)%len(c08BndPairs)]
		c.N, c.K = pr[0], pr[1]
	} else {
		if rng.Intn(2) == 0 {
			c.Kind = "slow"
		}
		timeBased = rng.Intn(2) == 0
		c.HalfOpen = rng.Intn(2) == 0
		c.Above = rng.Intn(2) == 0
		c.N = 2 + rng.Intn(15) // 2..16
		c.K = 1 + rng.Intn(c.N-1)
		if rng.Intn(3) == 0 {
			c.Other = rng.Intn(c.N - c.K + 1)
		}
		c.Overlap = rng.Intn(4) == 0
	}
	th := uint8(c.K * 100 / c.N) // last whole percent at or below the exact rate (>= 6)
	if !c.Above {
		th++ // first whole percent above it (<= 100 because K < N)
	}
	p := &c08Policy{FailTh: 100, SlowTh: 100, TimeBased: timeBased}
	if c.Kind == "failure" {
		p.FailTh = th
	} else {
		p.SlowTh = th
	}
	p.SlowDur = c08SlowDurs[rng.Intn(len(c08SlowDurs))]
	p.Wait = []time.Duration{500 * time.Millisecond, time.Second, time.Minute}[rng.Intn(3)]
	if rng.Intn(3) == 0 {
		p.MaxWait = time.Hour // never reached: the histories below stay far below it
	}
	if c.HalfOpen {
		// the property fixes the decision point after all permitted trials when
		// minimumNumberOfCalls >= permitted
		p.Permitted = uint32(c.N)
		p.MinCalls = uint32(c.N + rng.Intn(3))
		if timeBased {
			p.N = uint32(1 + rng.Intn(5))
		} else {
			p.N = p.MinCalls + uint32(rng.Intn(3)) // the CLOSED window must be able to reach minimumNumberOfCalls
		}
	} else {
		p.Permitted = uint32(1 + rng.Intn(3))
		p.MinCalls = uint32(c.N)
		if !sys {
			switch rng.Intn(5) {
			case 0:
				p.MinCalls = 0
			case 1:
				p.MinCalls = 1
			case 2:
				p.MinCalls = uint32(1 + rng.Intn(c.N))
			}
		}
		if timeBased {
			p.N = uint32(1 + rng.Intn(5))
		} else {
			p.N = uint32(c.N)
			if !sys && rng.Intn(2) == 0 {
				p.N += uint32(rng.Intn(4)) // window not yet full when the rate is evaluated
			}
		}
	}
	c.Pol = p
	return c
}

// mix returns the N target results.  Shuffled when nothing is evaluated before the N-th result,
// otherwise the results of the judged kind come last: every prefix then has a smaller rate than
// the full mix (an earlier opening is still judged by the automaton, it only misses the target).
func (c *c08BndCase) mix(rng *rand.Rand, shuffle bool) []uint8 {
	kind, other := c08Failure, c08Slow
	if c.Kind == "slow" {
		kind, other = c08Slow, c08Failure
	}
	out := make([]uint8, 0, c.N)
	for j := 0; j < c.N-c.K-c.Other; j++ {
		out = append(out, c08Success)
	}
	for j := 0; j < c.Other; j++ {
		out = append(out, other)
	}
	rng.Shuffle(len(out), func(a, b int) { out[a], out[b] = out[b], out[a] })
	for j := 0; j < c.K; j++ {
		out = append(out, kind)
	}
	if shuffle {
		rng.Shuffle(len(out), func(a, b int) { out[a], out[b] = out[b], out[a] })
	}
	return out
}

// c08BndDrive runs one boundary history on the rig.
func c08BndDrive(g *c08Rig, c *c08BndCase, rng *rand.Rand) {
	p := c.Pol
	// small clock moves that keep a time-based window intact: at most N-1 whole seconds in sum
	budget := int64(0)
	if p.TimeBased {
		budget = int64(p.N-1) * c08Sec
	}
	tick := func() {
		if g.stopped || rng.Intn(3) != 0 {
			return
		}
		d := []int64{1, 1 + rng.Int63n(c08Sec-1), c08Sec - g.now%c08Sec, c08Sec}[rng.Intn(4)]
		if p.TimeBased && !(c.HalfOpen && g.set[0].st == c08Half) {
			// whole seconds crossed by this move (trials are "the trials' recorded results",
			// not a time window: no budget there)
			crossed := ((g.now+d)/c08Sec - g.now/c08Sec) * c08Sec
			if crossed > budget {
				return
			}
			budget -= crossed
		}
		g.advance(d, "boundary history: small move")
	}
	// one complete call: admission, then its result; false when it was short-circuited
	call := func(res uint8) bool {
		before := len(g.pending)
		g.acquire()
		if g.stopped || len(g.pending) == before {
			return false
		}
		g.record(len(g.pending)-1, res, rng)
		return !g.stopped
	}
	// results for calls admitted together, recorded in the given order
	batch := func(results []uint8) {
		first := len(g.pending)
		for range results {
			g.acquire()
			if g.stopped {
				return
			}
		}
		for _, res := range results {
			if g.stopped || len(g.pending) <= first {
				return
			}
			tick()
			if g.stopped {
				return
			}
			g.record(first, res, rng)
		}
	}
	kind := c08Failure
	if c.Kind == "slow" {
		kind = c08Slow
	}

	if c.HalfOpen {
		// open the breaker: minimumNumberOfCalls results, all failed (or all slow): 100 % is at
		// or above every threshold
		opener := c08Failure
		if c.Kind == "slow" && rng.Intn(2) == 0 {
			opener = c08Slow
		}
		for j := 0; j < int(p.MinCalls) && !g.stopped && g.set[0].st == c08Closed; j++ {
			if !call(opener) {
				break
			}
		}
		if g.stopped {
			return
		}
		if g.set[0].st != c08Open {
			g.r.Count("boundary_setup_did_not_open", 1)
			return
		}
		d := int64(p.Wait)
		if rng.Intn(2) == 0 {
			d += 1 + rng.Int63n(3*c08Sec)
		}
		g.advance(d, "boundary history: wait elapsed")
		if g.stopped {
			return
		}
		results := c.mix(rng, true)
		if c.Overlap || rng.Intn(2) == 0 {
			batch(results) // all trials admitted, then their results
		} else {
			for _, res := range results {
				tick()
				if g.stopped || !call(res) {
					break
				}
			}
		}
	} else {
		results := c.mix(rng, int(p.MinCalls) >= c.N && rng.Intn(4) != 0)
		if c.Overlap {
			batch(results)
		} else {
			for _, res := range results {
				tick()
				if g.stopped || !call(res) {
					break
				}
			}
		}
	}
	if g.stopped {
		return
	}
	// tail: further calls with the same mix keep a sliding window next to the boundary
	for j, tail := 0, rng.Intn(c.N+4); j < tail && !g.stopped; j++ {
		res := c08Success
		if rng.Intn(c.N) < c.K {
			res = kind
		}
		if p.TimeBased && rng.Intn(4) == 0 {
			g.advance([]int64{c08Sec, int64(p.N) * c08Sec, c08Sec - g.now%c08Sec}[rng.Intn(3)], "boundary history: tail move")
			if g.stopped {
				return
			}
		}
		call(res)
	}
}

// TestVerif_C08_RateBoundary: lock-step histories whose rates sit next to the threshold.
func TestVerif_C08_RateBoundary(t *testing.T) {
	r := kit.Start(t, "C08")
	defer r.Finish()
	c08InstallClock()
	r.Rule("target mix K of N results of one kind (N 2-12 systematic, 2-16 random; 1 <= K < N; optionally some results of the other non-success kind, whose threshold is 100) and threshold = the first whole percent above the exact rate 100K/N (must not open / trials must close) or the last whole percent at or below it (must open / trials must reopen); systematic over {failure rate, slow-call rate} x {count-based, time-based} x {rate evaluated on the CLOSED window with minimumNumberOfCalls = N, on N = permitted HALF_OPEN trials after opening with minimumNumberOfCalls failures} x {threshold above, at-or-below} x all (N,K), then random (minimumNumberOfCalls {0,1,1..N,N}, window larger than N, calls overlapped or one by one, sub-second and one-second clock moves that keep a time window intact, then a tail of up to N+3 further calls with the same mix and, for time windows, evicting clock moves); every AcquirePermission answer and State() is compared with the reference automaton, which compares bad*100 >= threshold*total exactly; distinct = (policy class, automaton event incl. boundary class)")
	r.Assume("same assumptions as TestVerif_C08_Sequential; 'rate at or above threshold' is the exact rational rate bad/total compared with threshold/100")
	n := r.N(3200, 60000)
	for i := 0; i < n; i++ {
		if !r.Mine(i) {
			continue
		}
		rng := r.CaseRand(i)
		c := c08GenBoundary(rng, i)
		r.Case(i, c)
		g := c08NewRig(r, c.Pol, rng)
		c08BndDrive(g, c, rng)
		r.Count("boundary_histories_judged", 1)
		if i < 2 {
			r.Sample(map[string]interface{}{"case": c, "steps": g.trace})
		}
	}
	// every boundary class must have been evaluated (and judged: one reference successor only)
	for _, w := range []string{"count", "time"} {
		for _, st := range []string{"CLOSED", "HALF_OPEN"} {
			for _, k := range []string{"failure", "slow"} {
				for _, cl := range []string{
					"just-below-threshold(frac=0)", "just-below-threshold(frac<.5)", "just-below-threshold(frac>=.5)",
					"just-above-threshold(frac<.5)", "just-above-threshold(frac>=.5)", "exactly-at-threshold",
				} {
					r.Require(fmt.Sprintf("boundary:%s:%s:%s-rate-%s", w, st, k, cl), 1)
				}
			}
		}
	}
	r.Require("boundary_histories_judged", 1)
}
