//go:build verif

package circuitbreaker

// Reference automaton, policy generator and virtual clock for the C08 monitors.
//
// The automaton is written from the sentence of property C08 and shares no code with
// circuitbreaker.go.  Where the sentence leaves a choice open the automaton is
// NONDETERMINISTIC (it returns every permitted successor) and the monitors follow whichever
// successor the real code took:
//   - whether HALF_OPEN begins when waitDurationInOpenState elapses or at the first call after
//     that (both instants are kept: halfLo / halfHi) and, likewise, when exactly a stalled
//     half-open breaker is reopened (openLo / openHi);
//   - maxWaitDurationInHalfOpenState: a verdict is only demanded when the breaker has been
//     half-open for strictly more than the duration by every reading AND all permitted trials
//     have been admitted; "exactly the duration" and "free trial slots left" are followed;
//   - HALF_OPEN decision point when minimumNumberOfCalls < permitted trials: the sentence does
//     not say after how many trial results the decision is taken, so after every trial result
//     but the last permitted one the model offers "still HALF_OPEN", "closed" and "reopened" and
//     the monitors follow what the implementation did (only unanimous trial results fix the
//     direction: no failed/slow trial so far cannot reopen, only failed or only slow trials so
//     far cannot close).  Everything else stays judged for these policies: the last permitted
//     trial result decides by the rates, and once HALF_OPEN has ended the results of trials
//     admitted in it belong to an earlier state and must have no effect on the new state.
// Time windows are at second granularity, as in the property's anchors: a result recorded in
// (absolute) second s is in the window at second S iff s > S - N.

import (
	"fmt"
	"math/rand"
	"sort"
	"strings"
	"sync/atomic"
	"time"
)

// ---------------------------------------------------------------- virtual clock

var (
	c08Base = time.Unix(1_700_000_000, 0) // whole second, no monotonic reading
	c08Now  int64                         // ns since c08Base
)

func c08InstallClock() {
	nowFunc = func() time.Time { return c08Base.Add(time.Duration(atomic.LoadInt64(&c08Now))) }
}

func c08SetNow(ns int64) { atomic.StoreInt64(&c08Now, ns) }

const c08Sec = int64(time.Second)

// ---------------------------------------------------------------- policies

type c08Policy struct {
	FailTh    uint8         `json:"failureRateThreshold"`
	SlowTh    uint8         `json:"slowCallRateThreshold"`
	TimeBased bool          `json:"timeBased"`
	N         uint32        `json:"slidingWindowSize"`
	Permitted uint32        `json:"permittedInHalfOpen"`
	MinCalls  uint32        `json:"minimumNumberOfCalls"`
	SlowDur   time.Duration `json:"slowCallDurationThreshold"`
	MaxWait   time.Duration `json:"maxWaitDurationInHalfOpen"`
	Wait      time.Duration `json:"waitDurationInOpen"`
}

// deciding: the property fixes the HALF_OPEN decision point (after all permitted trials).
// For the other policies the breaker may leave HALF_OPEN while admitted trials are in flight.
func (p *c08Policy) deciding() bool {
	eff := p.MinCalls
	if eff < 1 {
		eff = 1
	}
	return eff >= p.Permitted
}

func (p *c08Policy) realPolicy() *Policy {
	wt := uint8(CountBased)
	if p.TimeBased {
		wt = TimeBased
	}
	return NewPolicy(p.FailTh, p.SlowTh, wt, p.N, p.Permitted, p.MinCalls, p.SlowDur, p.MaxWait, p.Wait)
}

func (p *c08Policy) class() string {
	w := "C"
	if p.TimeBased {
		w = "T"
	}
	mc := "minN+1"
	switch {
	case p.MinCalls == 0:
		mc = "min0"
	case p.MinCalls == 1:
		mc = "min1"
	case p.MinCalls == p.N:
		mc = "minN"
	}
	mw := "mw0"
	if p.MaxWait > 0 {
		mw = "mw+"
	}
	return fmt.Sprintf("%s/f%d/s%d/%s/p%d/%s", w, p.FailTh, p.SlowTh, mc, p.Permitted, mw)
}

var (
	c08Thresholds = []uint8{1, 50, 99, 100}
	c08Permitted  = []uint32{1, 2, 5}
	c08SlowDurs   = []time.Duration{time.Millisecond, time.Second, time.Minute}
	c08Waits      = []time.Duration{0, 500 * time.Millisecond, time.Second, 2500 * time.Millisecond, time.Minute}
	c08MaxWaits   = []time.Duration{0, 0, 300 * time.Millisecond, time.Second, 5 * time.Second}
)

// c08GenPolicy: i selects a systematic prefix (all threshold x window type x min-calls kind x
// permitted combinations), the rest is random.  mode c08Deciding forces a policy whose half-open
// decision point is fixed by the property, c08EarlyExit one where it is not (minimumNumberOfCalls
// < permitted: HALF_OPEN can end while admitted trials are still in flight), c08AnyPolicy mixes.
const (
	c08AnyPolicy = iota
	c08Deciding
	c08EarlyExit
)

func c08GenPolicy(rng *rand.Rand, i int, mode int) *c08Policy {
	needDeciding := mode == c08Deciding
	for try := 0; ; try++ {
		p := &c08Policy{}
		var mcKind int
		if i >= 0 && i < 4*2*4*3 && try == 0 {
			p.FailTh = c08Thresholds[i%4]
			p.TimeBased = (i/4)%2 == 1
			mcKind = (i / 8) % 4
			p.Permitted = c08Permitted[(i/32)%3]
		} else {
			p.FailTh = c08Thresholds[rng.Intn(4)]
			p.TimeBased = rng.Intn(2) == 1
			mcKind = rng.Intn(4)
			p.Permitted = c08Permitted[rng.Intn(3)]
		}
		p.SlowTh = 100
		if rng.Intn(3) == 0 {
			p.SlowTh = c08Thresholds[rng.Intn(4)]
		}
		p.N = uint32(1 + rng.Intn(10))
		switch mcKind {
		case 0:
			p.MinCalls = 0
		case 1:
			p.MinCalls = 1
		case 2:
			p.MinCalls = p.N
		default:
			p.MinCalls = p.N + 1
		}
		p.SlowDur = c08SlowDurs[rng.Intn(len(c08SlowDurs))]
		p.Wait = c08Waits[rng.Intn(len(c08Waits))]
		if p.Wait == 0 && rng.Intn(3) != 0 { // keep the zero wait rare
			p.Wait = time.Second
		}
		p.MaxWait = c08MaxWaits[rng.Intn(len(c08MaxWaits))]
		if mode == c08EarlyExit {
			if p.Permitted == 1 {
				p.Permitted = c08Permitted[1+rng.Intn(2)]
			}
			if mcKind == 3 && p.Permitted == 2 {
				p.Permitted = 5
			}
			if p.Permitted > 2 && rng.Intn(3) == 0 {
				// 2 <= minimumNumberOfCalls < permitted with a window that can hold them: a result
				// wrongly kept in (or missing from) the window shifts the opening call count
				p.MinCalls = 2 + uint32(rng.Intn(int(p.Permitted)-2))
				if p.N < p.MinCalls {
					p.N = p.MinCalls + uint32(rng.Intn(4))
				}
			} else if mcKind >= 2 && p.N+uint32(mcKind-2) >= p.Permitted {
				// minimumNumberOfCalls in {N, N+1} below the permitted trials needs a small window
				p.N = uint32(1 + rng.Intn(int(p.Permitted)+1-mcKind))
				p.MinCalls = p.N + uint32(mcKind-2)
			}
			if p.deciding() {
				continue
			}
			return p
		}
		if p.deciding() {
			return p
		}
		if needDeciding {
			// systematic combination is not deciding: make it so by raising min calls / window
			if try == 0 && mcKind >= 2 {
				if p.N < p.Permitted {
					p.N = p.Permitted
				}
				if mcKind == 2 {
					p.MinCalls = p.N
				} else {
					p.MinCalls = p.N + 1
				}
				return p
			}
			if try == 0 {
				p.Permitted = 1
				return p
			}
			continue
		}
		// policies with an open decision point: a share of the mix
		if rng.Intn(100) < 30 || (i >= 0 && i < 96 && try == 0) {
			return p
		}
	}
}

// ---------------------------------------------------------------- reference automaton

const (
	c08Closed = iota
	c08Open
	c08Half
)

var c08StName = []string{"CLOSED", "OPEN", "HALF_OPEN"}

const (
	c08Success uint8 = iota
	c08Failure
	c08Slow
)

var c08ResName = []string{"success", "failure", "slow"}

type c08Entry struct {
	res uint8
	sec int64
}

// c08Model is an immutable value: every transition returns fresh copies.
type c08Model struct {
	pol       *c08Policy
	st        int
	epoch     int            // increases on every state change; a call belongs to the epoch it was admitted in
	win       []c08Entry     // CLOSED: the sliding window
	openLo    int64          // OPEN: earliest / latest instant the breaker can be said to have opened
	openHi    int64          //
	halfLo    int64          // HALF_OPEN: earliest / latest instant it can be said to have begun
	halfHi    int64          //
	admitted  int            // HALF_OPEN: trials admitted
	trials    []uint8        // HALF_OPEN: trial results recorded
	calls     map[int]int    // outstanding admitted call -> epoch of admission
	endedHalf int            // epoch of the most recent HALF_OPEN that ended (0: none); only names events
	inFlight  int            // admitted trials of that HALF_OPEN that had not reported when it ended
	k         string         // cached key(); models are not modified once a transition has returned them
}

type c08Alt struct {
	permitted bool
	next      *c08Model
	ev        string // what happened, for coverage / signatures
}

func c08NewModel(p *c08Policy) *c08Model {
	return &c08Model{pol: p, st: c08Closed, epoch: 1, calls: map[int]int{}}
}

func (m *c08Model) clone() *c08Model {
	n := *m
	n.k = ""
	n.win = append([]c08Entry(nil), m.win...)
	n.trials = append([]uint8(nil), m.trials...)
	n.calls = make(map[int]int, len(m.calls)+1)
	for k, v := range m.calls {
		n.calls[k] = v
	}
	return &n
}

// key identifies the behaviour of a state: the epoch numbers themselves are irrelevant, an
// outstanding call is either of the current epoch or of an earlier one.
func (m *c08Model) key() string {
	if m.k != "" {
		return m.k
	}
	var b strings.Builder
	fmt.Fprintf(&b, "%d|", m.st)
	switch m.st {
	case c08Closed:
		for _, e := range m.win {
			fmt.Fprintf(&b, "%d@%d,", e.res, e.sec)
		}
	case c08Open:
		fmt.Fprintf(&b, "%d-%d", m.openLo, m.openHi)
	case c08Half:
		fmt.Fprintf(&b, "%d-%d a%d %v", m.halfLo, m.halfHi, m.admitted, m.trials)
	}
	ids := make([]int, 0, len(m.calls))
	for k := range m.calls {
		ids = append(ids, k)
	}
	sort.Ints(ids)
	b.WriteString("|")
	for _, k := range ids {
		if m.calls[k] == m.epoch {
			fmt.Fprintf(&b, "%d,", k)
		} else {
			fmt.Fprintf(&b, "%d:old,", k)
		}
	}
	m.k = b.String()
	return m.k
}

func (m *c08Model) describe() map[string]interface{} {
	d := map[string]interface{}{"state": c08StName[m.st], "epoch": m.epoch, "outstanding": len(m.calls)}
	switch m.st {
	case c08Closed:
		w := []string{}
		for _, e := range m.win {
			w = append(w, fmt.Sprintf("%s@s%d", c08ResName[e.res], e.sec))
		}
		d["window"] = w
	case c08Open:
		d["openedAt_ns"] = []int64{m.openLo, m.openHi}
	case c08Half:
		d["halfOpenSince_ns"] = []int64{m.halfLo, m.halfHi}
		d["trialsAdmitted"] = m.admitted
		d["trialResults"] = fmt.Sprint(m.trials)
	}
	return d
}

// leaveHalf remembers a HALF_OPEN epoch that ends (for event names and required observations).
func (m *c08Model) leaveHalf() {
	if m.st != c08Half {
		return
	}
	m.endedHalf, m.inFlight = m.epoch, 0
	for _, ep := range m.calls {
		if ep == m.epoch {
			m.inFlight++
		}
	}
}

func (m *c08Model) toOpen(lo, hi int64) {
	m.leaveHalf()
	m.st, m.openLo, m.openHi = c08Open, lo, hi
	m.epoch++
	m.win, m.trials, m.admitted = nil, nil, 0
}

func (m *c08Model) toHalf(lo, hi int64) {
	m.st, m.halfLo, m.halfHi = c08Half, lo, hi
	m.epoch++
	m.win, m.trials, m.admitted = nil, nil, 0
}

func (m *c08Model) toClosed() {
	m.leaveHalf()
	m.st = c08Closed
	m.epoch++
	m.win, m.trials, m.admitted = nil, nil, 0
}

// rateTrips: "a failure rate or slow-call rate at or above its threshold".
func (m *c08Model) rateTrips(fail, slow, total int) (bool, string) {
	if total == 0 {
		return false, ""
	}
	if fail*100 >= int(m.pol.FailTh)*total {
		return true, "failure"
	}
	if slow*100 >= int(m.pol.SlowTh)*total {
		return true, "slow"
	}
	return false, ""
}

// boundary names a rate evaluation that sits right next to its threshold (it only names the
// event for coverage / required observations / signatures, the verdict is rateTrips' alone):
// the exact rate cnt*100/total and the threshold T are less than one percentage point apart.
//   just-below: T-1 <= rate < T and nothing tripped  ("only at or above": must NOT open)
//               (frac=0: the rate is exactly T-1)
//   just-above: T < rate < T+1 and this rate tripped ("at or above": must open)
//   exactly-at: rate == T and this rate tripped
// frac is the fractional part of the exact rate: 0, below one half, or at least one half - an
// implementation that truncates, rounds to nearest or rounds up a computed percentage differs
// from "at or above" on different ones of these classes.
func (m *c08Model) boundary(fail, slow, total int, tripped bool, why string) string {
	if total == 0 {
		return ""
	}
	out := ""
	for _, k := range []struct {
		name string
		cnt  int
		th   int
	}{{"failure", fail, int(m.pol.FailTh)}, {"slow", slow, int(m.pol.SlowTh)}} {
		if k.cnt == 0 || k.cnt == total {
			continue // 0% and 100% are no rounding boundaries; keeps the common events plain
		}
		q, rem := k.cnt*100/total, k.cnt*100%total
		frac := "frac=0"
		if rem != 0 {
			frac = "frac<.5"
			if rem*2 >= total {
				frac = "frac>=.5"
			}
		}
		switch {
		case !tripped && q+1 == k.th:
			out += "+" + k.name + "-rate-just-below-threshold(" + frac + ")"
		case tripped && why == k.name && rem != 0 && q == k.th:
			out += "+" + k.name + "-rate-just-above-threshold(" + frac + ")"
		case tripped && why == k.name && rem == 0 && q == k.th:
			out += "+" + k.name + "-rate-exactly-at-threshold"
		}
	}
	return out
}

// acquire: a caller asks for admission at virtual time t.
func (m *c08Model) acquire(t int64, call int) []c08Alt {
	p := m.pol
	wait, maxWait := int64(p.Wait), int64(p.MaxWait)
	switch m.st {
	case c08Closed: // "While CLOSED every call passes"
		n := m.clone()
		n.calls[call] = n.epoch
		return []c08Alt{{true, n, "admit-closed"}}
	case c08Open: // "short-circuits every call until waitDurationInOpenState has elapsed"
		var alts []c08Alt
		if t-m.openHi < wait {
			alts = append(alts, c08Alt{false, m, "reject-open"})
		}
		if t-m.openLo >= wait {
			n := m.clone()
			n.toHalf(m.openLo+wait, t)
			n.admitted = 1
			n.calls[call] = n.epoch
			alts = append(alts, c08Alt{true, n, "open-to-half"})
		}
		return alts
	default: // HALF_OPEN: "only the first permitted calls are admitted as trials and all others short-circuited"
		if m.admitted < int(p.Permitted) {
			n := m.clone()
			n.admitted++
			n.calls[call] = n.epoch
			alts := []c08Alt{{true, n, "admit-trial"}}
			if maxWait > 0 && t-m.halfLo >= maxWait {
				// stalled by some reading although trial slots are left: not fixed by the property
				o := m.clone()
				o.toOpen(m.halfLo+maxWait, t)
				alts = append(alts, c08Alt{false, o, "maxwait-reopen-free-slots(followed)"})
			}
			return alts
		}
		if maxWait > 0 && t-m.halfHi > maxWait { // stalled by every reading: must reopen
			o := m.clone()
			o.toOpen(m.halfLo+maxWait, t)
			return []c08Alt{{false, o, "maxwait-reopen"}}
		}
		alts := []c08Alt{{false, m, "reject-half"}}
		if maxWait > 0 && t-m.halfLo >= maxWait {
			o := m.clone()
			o.toOpen(m.halfLo+maxWait, t)
			alts = append(alts, c08Alt{false, o, "maxwait-reopen-boundary(followed)"})
		}
		return alts
	}
}

// record: the result of an admitted call arrives at virtual time t.
func (m *c08Model) record(t int64, call int, res uint8) []c08Alt {
	p := m.pol
	ep, ok := m.calls[call]
	n := m.clone()
	delete(n.calls, call)
	if !ok || ep != m.epoch { // "results of calls admitted in an earlier state are ignored"
		ev := "stale-ignored-in-" + c08StName[m.st]
		if ok && ep == m.endedHalf && m.st != c08Half {
			// a trial that was still in flight when its HALF_OPEN ended
			ev += "+late-trial-ignored-in-" + c08StName[m.st]
		}
		return []c08Alt{{false, n, ev}}
	}
	switch m.st {
	case c08Closed:
		sec := t / c08Sec
		n.win = append(n.win, c08Entry{res, sec})
		ev := "recorded"
		if p.TimeBased { // "the calls of the last N seconds"
			k := 0
			for _, e := range n.win {
				if e.sec > sec-int64(p.N) {
					n.win[k] = e
					k++
				}
			}
			if k < len(n.win) {
				ev = "recorded+time-eviction"
			}
			n.win = n.win[:k]
		} else if len(n.win) > int(p.N) { // "the last N calls"
			n.win = n.win[len(n.win)-int(p.N):]
			ev = "recorded+count-eviction"
		}
		if len(n.win) >= int(p.MinCalls) {
			fail, slow := 0, 0
			for _, e := range n.win {
				switch e.res {
				case c08Failure:
					fail++
				case c08Slow:
					slow++
				}
			}
			trip, why := n.rateTrips(fail, slow, len(n.win))
			bnd := n.boundary(fail, slow, len(n.win), trip, why)
			if trip {
				n.toOpen(t, t)
				ev = "closed-to-open-" + why
			}
			ev += bnd
		} else {
			ev += "+below-min-calls"
		}
		return []c08Alt{{false, n, ev}}
	case c08Half:
		var alts []c08Alt
		if maxWait := int64(p.MaxWait); maxWait > 0 && t-m.halfLo >= maxWait {
			// an implementation that reopens a stalled breaker eagerly has already done so
			o := m.clone()
			delete(o.calls, call)
			hi := m.halfHi + maxWait
			if t < hi {
				hi = t
			}
			o.toOpen(m.halfLo+maxWait, hi)
			alts = append(alts, c08Alt{false, o, "trial-result-after-maxwait(followed)"})
		}
		n.trials = append(n.trials, res)
		fail, slow := 0, 0
		for _, r := range n.trials {
			switch r {
			case c08Failure:
				fail++
			case c08Slow:
				slow++
			}
		}
		if len(n.trials) >= int(p.Permitted) { // "the trials' recorded results close the breaker or reopen it"
			ev := ""
			trip, why := n.rateTrips(fail, slow, len(n.trials))
			bnd := n.boundary(fail, slow, len(n.trials), trip, why)
			if trip {
				n.toOpen(t, t)
				ev = "half-to-open-" + why
			} else {
				n.toClosed()
				ev = "half-to-closed"
			}
			ev += bnd
			return append([]c08Alt{{false, n, ev}}, alts...)
		}
		alts = append([]c08Alt{{false, n, "trial-recorded"}}, alts...)
		if !p.deciding() {
			// decision point left open by the property: the breaker may already decide on the
			// trial results it has.  Followed, not judged, except for unanimous results.
			if fail < len(n.trials) && slow < len(n.trials) {
				c := n.clone()
				c.toClosed()
				ev := "half-to-closed-early(followed)"
				if c.inFlight > 0 {
					ev += "+closed-with-trials-in-flight"
				}
				alts = append(alts, c08Alt{false, c, ev})
			}
			if fail+slow > 0 {
				o := n.clone()
				o.toOpen(t, t)
				ev := "half-to-open-early(followed)"
				if o.inFlight > 0 {
					ev += "+reopened-with-trials-in-flight"
				}
				alts = append(alts, c08Alt{false, o, ev})
			}
		}
		return alts
	}
	// OPEN admits nobody, so no call can belong to an OPEN epoch
	return []c08Alt{{false, n, "impossible-result-in-open-epoch"}}
}

// allowedStates: values State() may show at virtual time t.
func (m *c08Model) allowedStates(t int64) []State {
	switch m.st {
	case c08Closed:
		return []State{StateClosed}
	case c08Open:
		if t-m.openLo >= int64(m.pol.Wait) {
			return []State{StateOpen, StateHalfOpen}
		}
		return []State{StateOpen}
	default:
		if mw := int64(m.pol.MaxWait); mw > 0 && t-m.halfLo >= mw {
			return []State{StateHalfOpen, StateOpen}
		}
		return []State{StateHalfOpen}
	}
}

func (m *c08Model) allows(s State, t int64) bool {
	for _, a := range m.allowedStates(t) {
		if a == s {
			return true
		}
	}
	return false
}

func c08Dedupe(ms []*c08Model) []*c08Model {
	seen := map[string]bool{}
	out := ms[:0:0]
	for _, m := range ms {
		k := m.key()
		if !seen[k] {
			seen[k] = true
			out = append(out, m)
		}
	}
	return out
}

// c08Durations returns the (hasErr, duration) pair handed to RecordResult for a result class.
// Exactly the threshold and "failed and slow" are not generated: the documentation says
// "greater than", the code ">=", and the property counts a call in one class only.
func c08Durations(rng *rand.Rand, p *c08Policy, res uint8) (bool, time.Duration) {
	switch res {
	case c08Failure:
		return true, []time.Duration{0, p.SlowDur / 2, p.SlowDur - 1}[rng.Intn(3)]
	case c08Slow:
		return false, []time.Duration{p.SlowDur + 1, 2 * p.SlowDur, p.SlowDur + time.Hour}[rng.Intn(3)]
	}
	return false, []time.Duration{0, p.SlowDur / 2, p.SlowDur - 1}[rng.Intn(3)]
}
