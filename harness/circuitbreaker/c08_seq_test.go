//go:build verif

package circuitbreaker

import (
	"fmt"
	"math/rand"
	"strings"
	"testing"
	"time"

	"verif.local/kit"
)

// c08Rig drives one real CircuitBreaker in lock-step with the set of reference-automaton
// states that are still compatible with everything observed so far.
type c08Pending struct {
	call int
	tag  uint32 // opaque: whatever AcquirePermission returned for that call
}

type c08Rig struct {
	r        *kit.Run
	pol      *c08Policy
	cb       *CircuitBreaker
	set      []*c08Model
	now      int64
	pending  []c08Pending
	nextCall int
	trace    []string
	stopped  bool // a violation was reported: no further comparison
	pFail    int // percent
	pSlow    int
	evSeen   map[string]bool
}

func c08NewRig(r *kit.Run, pol *c08Policy, rng *rand.Rand) *c08Rig {
	g := &c08Rig{r: r, pol: pol, evSeen: map[string]bool{}}
	// start somewhere inside a second, or exactly on a boundary
	g.now = []int64{0, 1, c08Sec - 1, 400_000_000, 999_000_000}[rng.Intn(5)] + int64(rng.Intn(3))*c08Sec
	c08SetNow(g.now)
	g.cb = New(pol.realPolicy())
	g.set = []*c08Model{c08NewModel(pol)}
	g.pFail = []int{10, 40, 70, 95}[rng.Intn(4)]
	g.pSlow = []int{0, 10, 50}[rng.Intn(3)]
	return g
}

func (g *c08Rig) detail(extra map[string]interface{}) map[string]interface{} {
	d := map[string]interface{}{"policy": g.pol, "now_ns": g.now, "steps": g.trace}
	ms := []interface{}{}
	for _, m := range g.set {
		ms = append(ms, m.describe())
	}
	d["reference_states_before_step"] = ms
	for k, v := range extra {
		d[k] = v
	}
	return d
}

func (g *c08Rig) note(ev string, cover bool) {
	g.evSeen[ev] = true
	g.r.Count("ev:"+ev, 1)
	if parts := strings.Split(ev, "+"); len(parts) > 1 {
		g.r.Count("ev:"+parts[0], 1)
		for _, p := range parts[1:] {
			g.r.Count("ev:"+p, 1)
			if cover && strings.Contains(p, "-rate-") {
				// a judged rate evaluation next to its threshold (see c08Model.boundary), per
				// window type and per state the rate was evaluated in
				w, st := "count", "CLOSED"
				if g.pol.TimeBased {
					w = "time"
				}
				if strings.HasPrefix(parts[0], "half-") {
					st = "HALF_OPEN"
				}
				g.r.Count("boundary:"+w+":"+st+":"+p, 1)
			}
		}
	}
	if cover {
		g.r.Cover(g.pol.class() + "/" + ev)
	}
}

// settle filters the successor set by the State() the real breaker shows (quiescent point).
func (g *c08Rig) settle(alts []c08Alt, what string) {
	real := g.cb.State()
	var keep []c08Alt
	for _, a := range alts {
		if a.next.allows(real, g.now) {
			keep = append(keep, a)
		}
	}
	if len(keep) == 0 {
		evs := map[string]bool{}
		sts := map[string]bool{}
		for _, a := range alts {
			evs[a.ev] = true
			sts[c08StName[a.next.st]] = true
		}
		g.r.Violation(fmt.Sprintf("seq:state:after=%s:%s:model=%s:real=%s", what, c08Keys(evs), c08Keys(sts), stateStrings[real]),
			g.detail(map[string]interface{}{"real_state": stateStrings[real]}))
		g.stopped = true
		if len(evs) == 1 && what != "clock-advance" {
			// the step was judged (and refuted): the reference event is still an observation made
			for e := range evs {
				g.note(e, true)
			}
		}
		return
	}
	next := make([]*c08Model, 0, len(keep))
	evs := map[string]bool{}
	for _, a := range keep {
		next = append(next, a.next)
		evs[a.ev] = true
	}
	g.set = c08Dedupe(next)
	if what == "clock-advance" {
		return
	}
	if len(evs) > 1 {
		g.r.Count("steps_following_the_implementation", 1)
	}
	for e := range evs {
		g.note(e, len(evs) == 1)
	}
}

func c08Keys(m map[string]bool) string {
	ks := make([]string, 0, len(m))
	for k := range m {
		ks = append(ks, k)
	}
	// tiny sets: insertion sort
	for i := 1; i < len(ks); i++ {
		for j := i; j > 0 && ks[j] < ks[j-1]; j-- {
			ks[j], ks[j-1] = ks[j-1], ks[j]
		}
	}
	s := ""
	for i, k := range ks {
		if i > 0 {
			s += "+"
		}
		s += k
	}
	return s
}

func (g *c08Rig) acquire() {
	call := g.nextCall
	g.nextCall++
	var permitted bool
	var tag uint32
	if g.r.Guard("seq:acquire", g.detail(nil), func() { permitted, tag = g.cb.AcquirePermission() }) {
		g.stopped = true
		return
	}
	g.r.Eval(1)
	if permitted {
		g.pending = append(g.pending, c08Pending{call, tag})
	}
	g.trace = append(g.trace, fmt.Sprintf("t=%dns acquire#%d -> permitted=%v", g.now, call, permitted))
	if g.stopped {
		return
	}
	var alts, all []c08Alt
	for _, m := range g.set {
		for _, a := range m.acquire(g.now, call) {
			all = append(all, a)
			if a.permitted == permitted {
				alts = append(alts, a)
			}
		}
	}
	if len(alts) == 0 {
		evs, sts := map[string]bool{}, map[string]bool{}
		for _, a := range all {
			evs[a.ev] = true
		}
		for _, m := range g.set {
			sts[c08StName[m.st]] = true
		}
		got := "rejected"
		if permitted {
			got = "admitted"
		}
		g.r.Violation(fmt.Sprintf("seq:admission:%s:expected=%s:real=%s", c08Keys(sts), c08Keys(evs), got),
			g.detail(map[string]interface{}{"call": call, "real_permitted": permitted}))
		g.stopped = true
		return
	}
	g.settle(alts, "acquire")
}

func (g *c08Rig) record(idx int, res uint8, rng *rand.Rand) {
	pc := g.pending[idx]
	g.pending = append(g.pending[:idx], g.pending[idx+1:]...)
	hasErr, d := c08Durations(rng, g.pol, res)
	if g.r.Guard("seq:record", g.detail(nil), func() { g.cb.RecordResult(pc.tag, hasErr, d) }) {
		g.stopped = true
		return
	}
	g.r.Eval(1)
	g.trace = append(g.trace, fmt.Sprintf("t=%dns complete#%d %s (hasErr=%v d=%s)", g.now, pc.call, c08ResName[res], hasErr, d))
	if g.stopped {
		return
	}
	var alts []c08Alt
	for _, m := range g.set {
		alts = append(alts, m.record(g.now, pc.call, res)...)
	}
	g.settle(alts, "complete-"+c08ResName[res])
}

func (g *c08Rig) advance(d int64, why string) {
	g.now += d
	c08SetNow(g.now)
	g.trace = append(g.trace, fmt.Sprintf("clock +%s (%s) -> t=%dns", time.Duration(d), why, g.now))
	if g.stopped {
		return
	}
	// State() after the clock moved
	alts := make([]c08Alt, 0, len(g.set))
	for _, m := range g.set {
		alts = append(alts, c08Alt{false, m, "clock"})
	}
	g.settle(alts, "clock-advance")
}

// pickAdvance: 0 / <1s / exactly 1s / to a second boundary (-1ns) / wait-1ns / wait / max-wait
// boundaries / whole windows / many windows.
func (g *c08Rig) pickAdvance(rng *rand.Rand) (int64, string) {
	m := g.set[0]
	p := g.pol
	type opt struct {
		d   int64
		why string
	}
	opts := []opt{
		{0, "zero"},
		{1 + rng.Int63n(c08Sec-1), "<1s"},
		{c08Sec, "exactly 1s"},
		{c08Sec - g.now%c08Sec, "to next second boundary"},
		{int64(p.N) * c08Sec, "exactly N seconds"},
		{int64(p.N)*c08Sec*int64(2+rng.Intn(5)) + rng.Int63n(c08Sec), "many windows"},
	}
	if r := c08Sec - g.now%c08Sec - 1; r > 0 {
		opts = append(opts, opt{r, "to 1ns before next second boundary"})
	}
	if p.N > 1 {
		opts = append(opts, opt{int64(p.N-1) * c08Sec, "N-1 seconds"})
	}
	if p.Wait > 0 {
		opts = append(opts, opt{int64(p.Wait), "wait"}, opt{int64(p.Wait) - 1, "wait-1ns"})
	}
	target := func(at int64, why string) {
		if at > g.now {
			// targeted boundaries get extra weight
			opts = append(opts, opt{at - g.now, why}, opt{at - g.now, why})
		}
	}
	switch m.st {
	case c08Open:
		target(m.openHi+int64(p.Wait)-1, "to 1ns before wait elapses")
		target(m.openHi+int64(p.Wait), "to exactly wait elapsed")
		target(m.openHi+int64(p.Wait)+1+rng.Int63n(c08Sec), "past wait")
	case c08Half:
		if p.MaxWait > 0 {
			target(m.halfHi+int64(p.MaxWait), "to exactly max-wait in half-open")
			target(m.halfHi+int64(p.MaxWait)+1, "to max-wait+1ns in half-open")
			target(m.halfLo+int64(p.MaxWait)-1, "to 1ns before max-wait by the earliest reading")
		}
	}
	o := opts[rng.Intn(len(opts))]
	return o.d, o.why
}

func (g *c08Rig) pickResult(rng *rand.Rand) uint8 {
	x := rng.Intn(100)
	switch {
	case x < g.pFail:
		return c08Failure
	case x < g.pFail+g.pSlow:
		return c08Slow
	}
	return c08Success
}

// step performs one random step of the history.
func (g *c08Rig) step(rng *rand.Rand) {
	x := rng.Intn(100)
	switch {
	case x < 38:
		g.acquire()
	case x < 78 && len(g.pending) > 0:
		idx := len(g.pending) - 1 // most recent admission ...
		switch rng.Intn(4) {
		case 0:
			idx = 0 // ... or the oldest outstanding one (often admitted in an earlier state)
		case 1:
			idx = rng.Intn(len(g.pending))
		}
		g.record(idx, g.pickResult(rng), rng)
	case x < 78:
		g.acquire()
	default:
		d, why := g.pickAdvance(rng)
		g.advance(d, why)
	}
}

// TestVerif_C08_Sequential: sequential lock-step histories under the virtual clock.
func TestVerif_C08_Sequential(t *testing.T) {
	r := kit.Start(t, "C08")
	defer r.Finish()
	c08InstallClock()
	r.Rule("policies: systematic prefix over thresholds {1,50,99,100} x window type x minimumNumberOfCalls {0,1,N,N+1} x permitted {1,2,5}, then random (window 1-10, slow threshold, three durations incl. zero/absent); per policy one history of 60 steps {acquire, complete(any outstanding call: latest / oldest / random, success|failure|slow), clock +0 / <1s / 1s / to second boundary (-1ns) / wait-1ns / wait / max-wait (+1ns) / N s / many windows}; after every step AcquirePermission's answer and State() are compared with the reference automaton; policies with minimumNumberOfCalls < permitted (about a third) are judged too: the moment HALF_OPEN ends is read from State() and followed, after it the results of the trials still in flight must be ignored and the new state must behave as freshly entered; distinct = (policy class, automaton event)")
	r.Assume("time windows have second granularity aligned to absolute seconds (a result of second s is in the window at second S iff s > S-N); a breaker that closes starts with an empty window; slow = successful call with duration strictly above the threshold (exactly-threshold and failed-and-slow are not generated); permitted trials >= 1 and window size >= 1")
	r.Assume("not fixed by the property and therefore followed, not judged: lazy vs eager start of HALF_OPEN / reopening, max-wait at exactly the duration or with free trial slots, the HALF_OPEN decision point when minimumNumberOfCalls < permitted (after any trial result but the last permitted one the breaker may stay half-open, close unless all results so far are failures / all are slow, or reopen if at least one is failed or slow; whatever it does is followed, and everything after it is judged)")
	n := r.N(12000, 240000)
	const steps = 60
	for i := 0; i < n; i++ {
		if !r.Mine(i) {
			continue
		}
		rng := r.CaseRand(i)
		pol := c08GenPolicy(rng, i, c08AnyPolicy)
		r.Case(i, pol)
		g := c08NewRig(r, pol, rng)
		for k := 0; k < steps; k++ {
			g.step(rng)
			if g.stopped {
				break
			}
		}
		r.Count("histories_judged", 1)
		if !pol.deciding() {
			r.Count("histories_judged_with_open_half_open_decision_point", 1)
		}
		if i < 2 {
			r.Sample(map[string]interface{}{"policy": pol, "steps": g.trace})
		}
	}
	for _, ev := range []string{
		"admit-closed", "reject-open", "open-to-half", "admit-trial", "reject-half", "maxwait-reopen",
		"closed-to-open-failure", "closed-to-open-slow", "half-to-closed", "half-to-open-failure", "half-to-open-slow",
		"stale-ignored-in-CLOSED", "stale-ignored-in-OPEN", "stale-ignored-in-HALF_OPEN",
		"time-eviction", "count-eviction", "below-min-calls",
		// open decision point: early exits observed, and trials that report after their HALF_OPEN ended
		"half-to-closed-early(followed)", "half-to-open-early(followed)", "closed-with-trials-in-flight",
		"late-trial-ignored-in-CLOSED", "late-trial-ignored-in-OPEN",
	} {
		r.Require("ev:"+ev, 1)
	}
	r.Require("histories_judged", 1)
	r.Require("histories_judged_with_open_half_open_decision_point", 1)
}
