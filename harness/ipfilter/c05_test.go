//go:build verif

package ipfilter

import (
	"fmt"
	"math/rand"
	"net"
	"testing"

	"github.com/megaease/easegress/pkg/logger"
	"verif.local/kit"
)

func init() { logger.InitNop() }

// c05RefNet parses an allow/block entry with the standard meaning: a bare address is a
// host route (/32 or /128), a CIDR is its network.
func c05RefNet(e string) *net.IPNet {
	if ip := net.ParseIP(e); ip != nil {
		if v4 := ip.To4(); v4 != nil {
			return &net.IPNet{IP: v4, Mask: net.CIDRMask(32, 32)}
		}
		return &net.IPNet{IP: ip, Mask: net.CIDRMask(128, 128)}
	}
	_, n, err := net.ParseCIDR(e)
	if err != nil {
		panic(err)
	}
	return n
}

func c05In(list []string, ip net.IP) bool {
	for _, e := range list {
		if c05RefNet(e).Contains(ip) {
			return true
		}
	}
	return false
}

// c05RefAllow is the decision table of the property.
func c05RefAllow(s *Spec, ipstr string) bool {
	ip := net.ParseIP(ipstr)
	allowed, blocked := c05In(s.AllowIPs, ip), c05In(s.BlockIPs, ip)
	switch {
	case blocked && !allowed:
		return false
	case allowed && !blocked:
		return true
	default:
		return !s.BlockByDefault
	}
}

var c05Bases4 = []string{"10.1.2.3", "10.1.2.0", "192.168.255.255", "172.16.5.128", "0.0.0.0", "255.255.255.255", "8.8.8.8", "127.0.0.1"}
var c05Bases6 = []string{"2001:db8::1", "2001:db8:ffff:ffff:ffff:ffff:ffff:ffff", "::1", "fe80::1:2:3:4", "::", "ffff:ffff:ffff:ffff:ffff:ffff:ffff:ffff", "2001:db8:0:1::"}

func c05Entry(rng *rand.Rand) string {
	if rng.Intn(3) == 0 { // IPv6
		b := c05Bases6[rng.Intn(len(c05Bases6))]
		if rng.Intn(4) == 0 {
			return b
		}
		return fmt.Sprintf("%s/%d", b, rng.Intn(129))
	}
	b := c05Bases4[rng.Intn(len(c05Bases4))]
	if rng.Intn(4) == 0 {
		return b
	}
	return fmt.Sprintf("%s/%d", b, rng.Intn(33))
}

func c05Add(ip net.IP, d int) net.IP {
	out := make(net.IP, len(ip))
	copy(out, ip)
	for i := len(out) - 1; i >= 0; i-- {
		v := int(out[i]) + d
		out[i] = byte(v & 0xff)
		if v >= 0 && v <= 255 {
			break
		}
		if v < 0 {
			d = -1
		} else {
			d = 1
		}
	}
	return out
}

// c05Probes returns first, last, one below, one above of the entry's network.
func c05Probes(e string) []string {
	n := c05RefNet(e)
	first := n.IP.Mask(n.Mask)
	last := make(net.IP, len(first))
	for i := range first {
		last[i] = first[i] | ^n.Mask[i]
	}
	return []string{first.String(), last.String(), c05Add(first, -1).String(), c05Add(last, 1).String()}
}

func c05Uniq(ss []string) []string {
	seen := map[string]bool{}
	var out []string
	for _, s := range ss {
		if !seen[s] {
			seen[s] = true
			out = append(out, s)
		}
	}
	return out
}

// TestVerif_C05_Filter: IPFilter.Allow against net.IPNet.Contains + the decision table.
func TestVerif_C05_Filter(t *testing.T) {
	r := kit.Start(t, "C05")
	defer r.Finish()
	r.Rule("part a: systematic single-entry filters for every prefix length 0-32 and 0-128 (as allow, as block, both) then seeded allow/block lists of 0-3 entries each (bare v4/v6 addresses and CIDRs of random prefix length over 15 base addresses, overlapping) x blockByDefault; probes = first/last/one-below/one-above address of every entry's network plus random addresses; IPFilter.Allow vs decision table over net.IPNet.Contains; distinct = (family of probe, allowed?, blocked?, blockByDefault, entry kinds)")
	r.Assume("client addresses are parsable IP literals; IPv4-mapped IPv6 probes are not generated (the property does not say which family they belong to)")
	check := func(spec *Spec, probes []string, tag string) {
		f := New(spec)
		for _, p := range probes {
			ip := net.ParseIP(p)
			if ip == nil {
				continue
			}
			want := c05RefAllow(spec, p)
			var got bool
			if r.Guard("C05:filter", map[string]interface{}{"spec": spec, "ip": p}, func() { got = f.Allow(p) }) {
				continue
			}
			r.Eval(1)
			fam := "v6"
			if ip.To4() != nil {
				fam = "v4"
			}
			a, b := c05In(spec.AllowIPs, ip), c05In(spec.BlockIPs, ip)
			r.Cover(fmt.Sprintf("filter/%s/%s/a=%v/b=%v/dflt=%v", tag, fam, a, b, spec.BlockByDefault))
			r.Count(fmt.Sprintf("decision_allowed=%v_blocked=%v", a, b), 1)
			if got != want {
				r.Violation(fmt.Sprintf("ipfilter-decision:%s:allowed=%v:blocked=%v:blockByDefault=%v:want-allow=%v", fam, a, b, spec.BlockByDefault, want),
					map[string]interface{}{"spec": spec, "ip": p, "real_allow": got, "reference_allow": want})
			}
		}
	}
	// systematic part: every prefix length
	ci := 0
	for _, fam := range []int{4, 6} {
		max := 32
		bases := c05Bases4
		if fam == 6 {
			max, bases = 128, c05Bases6
		}
		for pl := 0; pl <= max; pl++ {
			for bi, base := range bases {
				ci++
				if !r.Mine(ci) || bi > 3 {
					continue
				}
				e := fmt.Sprintf("%s/%d", base, pl)
				r.Case(ci, e)
				probes := append(c05Probes(e), base)
				for _, dflt := range []bool{false, true} {
					check(&Spec{BlockByDefault: dflt, AllowIPs: []string{e}}, probes, "sys-allow")
					check(&Spec{BlockByDefault: dflt, BlockIPs: []string{e}}, probes, "sys-block")
					check(&Spec{BlockByDefault: dflt, AllowIPs: []string{e}, BlockIPs: []string{base}}, probes, "sys-both")
				}
			}
		}
		for _, base := range bases { // bare addresses
			ci++
			if !r.Mine(ci) {
				continue
			}
			r.Case(ci, base)
			probes := append(c05Probes(base), base)
			for _, dflt := range []bool{false, true} {
				check(&Spec{BlockByDefault: dflt, AllowIPs: []string{base}}, probes, "bare-allow")
				check(&Spec{BlockByDefault: dflt, BlockIPs: []string{base}}, probes, "bare-block")
			}
		}
	}
	// random lists
	n := r.N(3000, 90000)
	for i := 0; i < n; i++ {
		c := 100000 + i
		if !r.Mine(c) {
			continue
		}
		rng := r.CaseRand(c)
		spec := &Spec{BlockByDefault: rng.Intn(2) == 0}
		for k := rng.Intn(4); k > 0; k-- {
			spec.AllowIPs = append(spec.AllowIPs, c05Entry(rng))
		}
		for k := rng.Intn(4); k > 0; k-- {
			spec.BlockIPs = append(spec.BlockIPs, c05Entry(rng))
		}
		spec.AllowIPs, spec.BlockIPs = c05Uniq(spec.AllowIPs), c05Uniq(spec.BlockIPs)
		r.Case(c, spec)
		var probes []string
		for _, e := range append(append([]string{}, spec.AllowIPs...), spec.BlockIPs...) {
			probes = append(probes, c05Probes(e)...)
		}
		for k := 0; k < 6; k++ {
			if rng.Intn(2) == 0 {
				probes = append(probes, c05Add(net.ParseIP(c05Bases4[rng.Intn(len(c05Bases4))]).To4(), rng.Intn(600)-300).String())
			} else {
				probes = append(probes, c05Add(net.ParseIP(c05Bases6[rng.Intn(len(c05Bases6))]), rng.Intn(600)-300).String())
			}
		}
		check(spec, probes, "rnd")
		if i < 3 {
			r.Sample(map[string]interface{}{"spec": spec, "probes": probes})
		}
	}
	r.Require("decision_allowed=true_blocked=true", 1)
	r.Require("decision_allowed=true_blocked=false", 1)
	r.Require("decision_allowed=false_blocked=true", 1)
	r.Require("decision_allowed=false_blocked=false", 1)
}
