//go:build verif

package mqttproxy

// C09, part 2: the MQTT proxy's Limiter (newLimiter(spec) / acquirePermission(bytes)),
// i.e. the object behind connectionLimit and clientPublishLimit, timeout 0.
//
// Property: per aligned period at most requestRate packets are admitted and the admitted
// bytes exceed bytesRate by less than one packet; a packet is rejected only when the
// period's packet or byte budget is used up.
//
// The clock of pkg/util/ratelimiter (its package variable nowFunc, the seam the
// property's anchors name) is reached from this package with go:linkname, so the periods
// are virtual: no sleeping and no wall-clock verdicts.  Self-contained: every identifier
// is prefixed c09.

import (
	"fmt"
	"math/rand"
	"sync"
	"sync/atomic"
	"testing"
	"time"
	_ "unsafe"

	"verif.local/kit"
)

//go:linkname c09RatelimiterNowFunc github.com/megaease/easegress/pkg/util/ratelimiter.nowFunc
var c09RatelimiterNowFunc func() time.Time

var c09Base = time.Date(2022, 3, 1, 12, 0, 0, 0, time.UTC)

type c09Clock struct{ ns atomic.Int64 }

func (c *c09Clock) Now() time.Time { return c09Base.Add(time.Duration(c.ns.Load())) }

type c09Book struct {
	start, period int64
	reqRate       int
	bytesRate     int
	pkts          map[int64]int
	bytes         map[int64]int
	reserved      map[int64]int // bytes incl. overshoot of oversize packets carried into later periods
}

type c09Pkt struct {
	Bytes int  `json:"bytes"`
	Ok    bool `json:"admitted"`
}

type c09Step struct {
	T    int64    `json:"t_ns"`
	Gap  string   `json:"gap"`
	Pkts []c09Pkt `json:"packets(concurrent if >1)"`
}

// judge checks one step (1 packet, or a concurrent burst at a frozen instant) and books it.
func (b *c09Book) judge(t int64, pk []c09Pkt) (bad []string, classes []string) {
	p := (t - b.start) / b.period
	bytesBefore := b.bytes[p]
	sum, max, adm := 0, 0, 0
	for _, x := range pk {
		if x.Ok {
			adm++
			sum += x.Bytes
			if x.Bytes > max {
				max = x.Bytes
			}
		}
	}
	if b.reqRate > 0 {
		b.pkts[p] += adm
		if b.pkts[p] > b.reqRate {
			bad = append(bad, "more-than-requestRate-packets-in-one-period")
		}
	}
	over := false
	if b.bytesRate > 0 && adm > 0 {
		// bytes admitted before the last admitted packet must be below the rate; the last
		// one of a concurrent burst is unknown, the largest gives the sound bound
		if bytesBefore+sum-max >= b.bytesRate {
			bad = append(bad, "bytes-overshoot-by-a-whole-packet-or-more")
		}
		over = bytesBefore+sum > b.bytesRate
		b.bytes[p] += sum
		rem := sum
		for j := p; rem > 0; j++ {
			room := b.bytesRate - b.reserved[j]
			if room <= 0 {
				continue
			}
			if room > rem {
				room = rem
			}
			b.reserved[j] += room
			rem -= room
		}
	}
	// budgets only shrink during a burst: spare after it means spare all the way through
	reqSpare := b.reqRate == 0 || b.pkts[p] < b.reqRate
	byteSpare := b.bytesRate == 0 || b.reserved[p] < b.bytesRate
	for _, x := range pk {
		switch {
		case x.Ok && over:
			classes = append(classes, "admitted-overshooting")
		case x.Ok:
			classes = append(classes, "admitted")
		default:
			if reqSpare && byteSpare {
				bad = append(bad, "rejected-while-period-has-spare-packets-and-bytes")
			}
			if reqSpare && !byteSpare && b.bytes[p] < b.bytesRate {
				classes = append(classes, "rejected-by-earlier-overshoot")
			} else {
				classes = append(classes, "rejected")
			}
		}
	}
	return
}

func c09Size(rng *rand.Rand, bytesRate int) int {
	if bytesRate == 0 {
		return 1 + rng.Intn(100)
	}
	switch rng.Intn(6) {
	case 0:
		return 1
	case 1:
		return bytesRate
	case 2:
		return bytesRate + 1 + rng.Intn(2*bytesRate)
	case 3:
		return bytesRate - 1 + 2*rng.Intn(2)
	}
	return 1 + rng.Intn(bytesRate/2+1)
}

var c09Gaps = []string{"zero", "zero", "zero", "zero", "zero", "tiny", "small", "small", "toBoundary", "boundary-1ns", "boundary+1ns", "onePeriod", "kPeriods", "huge"}

func c09Advance(rng *rand.Rand, kind string, now, start, P int64) int64 {
	next := start + ((now-start)/P+1)*P
	switch kind {
	case "zero":
		return 0
	case "tiny":
		return 1 + rng.Int63n(1000)
	case "small":
		return 1 + rng.Int63n(P-1)
	case "toBoundary":
		return next - now
	case "boundary-1ns":
		if next-1 > now {
			return next - 1 - now
		}
		return 0
	case "boundary+1ns":
		return next + 1 - now
	case "onePeriod":
		return P
	case "kPeriods":
		return int64(2+rng.Intn(4)) * P
	case "huge":
		return int64(1000+rng.Intn(100000))*P + rng.Int63n(P)
	}
	panic(kind)
}

func TestVerif_C09_MQTTLimiter(t *testing.T) {
	r := kit.Start(t, "C09")
	defer r.Finish()
	clk := &c09Clock{}
	old := c09RatelimiterNowFunc
	c09RatelimiterNowFunc = clk.Now
	defer func() { c09RatelimiterNowFunc = old }()
	r.Rule("RateLimit specs {requestRate only, bytesRate only, both} x requestRate 1-5 x bytesRate 1-200 x timePeriod {unset(=1s),1,2,3}; 60 steps per spec on the virtual clock (gaps 0, <period, exactly on / 1ns around period boundaries, k periods, thousands of periods); a step is one packet or (1 in 5) a burst of 2-8 goroutines calling Limiter.acquirePermission at a frozen instant; packet sizes {1, <=rate/2, rate-1, rate, rate+1, up to 3x rate}; the harness books admitted packets and bytes per aligned period; distinct = (mode, outcome class, gap kind, size class, single/burst)")
	r.Assume("periods are aligned to the limiter's creation instant; an oversize packet's overshoot may be forgiven at the period end or charged to the following periods: a rejection is judged wrongful only when both readings leave spare packets and bytes")
	n := r.N(3000, 60000)
	var inflight, maxInflight atomic.Int64
	for i := 0; i < n; i++ {
		if !r.Mine(i) {
			continue
		}
		rng := r.CaseRand(i)
		mode := []string{"req", "bytes", "multi"}[i%3]
		spec := &RateLimit{TimePeriod: rng.Intn(4)}
		if mode != "bytes" {
			spec.RequestRate = 1 + rng.Intn(5)
		}
		if mode != "req" {
			spec.BytesRate = []int{1, 2, 10, 50, 200}[rng.Intn(5)]
			if rng.Intn(2) == 0 {
				spec.BytesRate = 1 + rng.Intn(200)
			}
		}
		P := int64(time.Second)
		if spec.TimePeriod > 0 {
			P = int64(spec.TimePeriod) * int64(time.Second)
		}
		start := rng.Int63n(int64(time.Hour))
		desc := map[string]interface{}{"spec": spec, "start_ns": start}
		r.Case(i, desc)
		clk.ns.Store(start)
		lim := newLimiter(spec)
		book := &c09Book{start: start, period: P, reqRate: spec.RequestRate, bytesRate: spec.BytesRate,
			pkts: map[int64]int{}, bytes: map[int64]int{}, reserved: map[int64]int{}}
		var hist []c09Step
		for k := 0; k < 60; k++ {
			kind := c09Gaps[rng.Intn(len(c09Gaps))]
			now := clk.ns.Load()
			now += c09Advance(rng, kind, now, start, P)
			clk.ns.Store(now)
			N := 1
			if rng.Intn(5) == 0 {
				N = 2 + rng.Intn(7)
			}
			pk := make([]c09Pkt, N)
			for g := range pk {
				pk[g].Bytes = c09Size(rng, spec.BytesRate)
			}
			if N == 1 {
				if r.Guard("C09:mqtt:"+mode, map[string]interface{}{"case": desc, "history": hist}, func() { pk[0].Ok = lim.acquirePermission(pk[0].Bytes) }) {
					break
				}
			} else {
				var wg sync.WaitGroup
				var panics atomic.Int64
				gate := make(chan struct{})
				for g := 0; g < N; g++ {
					wg.Add(1)
					go func(g int) {
						defer wg.Done()
						defer func() {
							if e := recover(); e != nil {
								panics.Add(1)
							}
						}()
						<-gate
						c := inflight.Add(1)
						for {
							m := maxInflight.Load()
							if c <= m || maxInflight.CompareAndSwap(m, c) {
								break
							}
						}
						ok := lim.acquirePermission(pk[g].Bytes)
						inflight.Add(-1)
						pk[g].Ok = ok
					}(g)
				}
				close(gate)
				wg.Wait()
				if panics.Load() > 0 {
					r.Violation("mqtt:"+mode+":panic-in-concurrent-acquirePermission", map[string]interface{}{"case": desc, "history": hist})
					break
				}
				r.Count("concurrent_bursts", 1)
			}
			r.Eval(N)
			hist = append(hist, c09Step{T: now - start, Gap: kind, Pkts: pk})
			bad, classes := book.judge(now, pk)
			for g, c := range classes {
				sc := "small"
				if spec.BytesRate > 0 && pk[g].Bytes >= spec.BytesRate {
					sc = "ge-rate"
				}
				r.Cover(fmt.Sprintf("%s/%s/gap:%s/%s/burst=%v", mode, c, kind, sc, N > 1))
				r.Count(mode+"_"+c, 1)
			}
			for _, b := range bad {
				r.Violation("mqtt:"+mode+":"+b, map[string]interface{}{"case": desc, "history(t relative to start)": hist, "failing_step": k})
			}
		}
		if i < 3 {
			r.Sample(map[string]interface{}{"case": desc, "history": hist[:8]})
		}
	}
	if maxInflight.Load() >= 2 {
		r.Count("overlaps_observed", 1)
	}
	for _, k := range []string{"req_admitted", "req_rejected", "bytes_admitted", "bytes_admitted-overshooting", "bytes_rejected", "multi_admitted", "multi_admitted-overshooting", "multi_rejected", "concurrent_bursts", "overlaps_observed"} {
		r.Require(k, 1)
	}
}
