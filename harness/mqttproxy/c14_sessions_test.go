//go:build verif

package mqttproxy

// C14, histories that include session persistence.
//
// Clients that connect with cleanSession=false keep their session (filter -> qos) in the
// SessionManager / the store; at the next CONNECT (after a disconnect: session decoded from the
// store; by taking over its own connection: session object of the session map) Broker.handleConn
// re-inserts every filter of the session into the TopicManager.  The session is therefore a
// second source of trie content, and "any history of subscribe, unsubscribe and disconnect"
// includes the histories in which that source is used.  The oracle is the one of the other
// parts: after every step the routed set for all 119 topics equals the clients with a LIVE
// subscription matching the topic.  A session restore neither adds nor removes subscriptions.
//
// Left open by the property and therefore followed / not judged:
//   - the immediate effect of a packet that mixes well-formed and malformed filters on its
//     well-formed filters (whole packet rejected, or only the malformed filter): observed in the
//     trie right after the packet and adopted by the reference; everything AFTER that point is
//     judged (an unsubscribed filter must not come back through the stored session, a filter that
//     stayed must still be there after the restore);
//   - the row of a cleanSession=false client while it has no connection.

import (
	"fmt"
	"math/rand"
	"runtime"
	"sort"
	"strconv"
	"strings"
	"sync/atomic"
	"testing"
	"time"

	"github.com/eclipse/paho.mqtt.golang/packets"

	"verif.local/kit"
)

// ---------------------------------------------------------------- rig: CONNECT with a session flag

// connectAs does what Broker.handleConn does after a valid CONNECT (takeover of a registered
// connection of the same id, client table, setSession, updateEGName, re-subscription of the
// session's filters), without a socket.  When the id was still registered, the superseded
// connection's read loop ends (closeAndDelSession, removeClient) before (oldFirst) or after the
// new connection's re-subscription; both orders are schedules of the real broker.
func (rg *c14Rig) connectAs(cid string, clean bool, oldFirst bool) *Client {
	cp := packets.NewControlPacket(packets.Connect).(*packets.ConnectPacket)
	cp.ClientIdentifier = cid
	cp.CleanSession = clean
	cl := newClient(cp, rg.b, nil, nil)
	rg.b.Lock()
	old := rg.b.clients[cid]
	if old != nil {
		atomic.StoreInt32(&old.superseded, 1)
		old.close() // handleConn: go oldClient.close()
	}
	rg.b.clients[cid] = cl
	rg.b.setSession(cl, cp)
	rg.b.Unlock()
	endOld := func() {
		if old != nil {
			old.closeAndDelSession()
			rg.b.removeClient(cid)
			old = nil
		}
	}
	if oldFirst {
		endOld()
	}
	cl.session.updateEGName(rg.b.egName, rg.b.name)
	if topics, qoss, _ := cl.session.allSubscribes(); len(topics) > 0 {
		rg.b.topicMgr.subscribe(topics, qoss, cid)
	}
	endOld()
	return cl
}

// c14StoreHandovers returns the ids of the live goroutines created by Session.store (the
// asynchronous hand-over of a session to the SessionManager's store loop), started or not.
func c14StoreHandovers() map[int64]bool {
	buf := make([]byte, 1<<18)
	for {
		n := runtime.Stack(buf, true)
		if n < len(buf) {
			buf = buf[:n]
			break
		}
		buf = make([]byte, 2*len(buf))
	}
	out := map[int64]bool{}
	for _, blk := range strings.Split(string(buf), "\n\n") {
		lines := strings.Split(strings.TrimLeft(blk, "\n"), "\n")
		mine := false
		for _, l := range lines {
			if strings.HasPrefix(l, "created by ") && strings.Contains(l, "(*Session).store") {
				mine = true
				break
			}
		}
		if !mine || !strings.HasPrefix(lines[0], "goroutine ") {
			continue
		}
		h := strings.TrimPrefix(lines[0], "goroutine ")
		if sp := strings.IndexByte(h, ' '); sp > 0 {
			if id, err := strconv.ParseInt(h[:sp], 10, 64); err == nil {
				out[id] = true
			}
		}
	}
	return out
}

const c14Watchdog = 90 * time.Second

// settle returns once every Session.store() hand-over of this rig has been taken by the store
// loop and the loop has finished the put of the last one (two barrier values through the loop's
// own unbuffered channel: the loop is sequential).  It depends on nothing the code under test
// does with subscriptions.  Needed before a session is decoded from the store: the hand-overs
// are asynchronous, so a CONNECT that overtakes them sees an older copy (timing of the
// persistence, C16, not the subject here).  false = watchdog (inconclusive, never a verdict).
func (rg *c14Rig) settle() bool {
	deadline := time.Now().Add(c14Watchdog)
	for i := 0; ; i++ {
		n := 0
		for id := range c14StoreHandovers() {
			if !rg.foreign[id] {
				n++
			}
		}
		if n == 0 {
			break
		}
		if time.Now().After(deadline) {
			return false
		}
		if i < 20 {
			runtime.Gosched()
			time.Sleep(100 * time.Microsecond)
		} else {
			time.Sleep(2 * time.Millisecond)
		}
	}
	t := time.NewTimer(c14Watchdog)
	defer t.Stop()
	for i := 0; i < 2; i++ {
		select {
		case rg.b.sessMgr.storeCh <- SessionStore{key: "c14-barrier", value: ""}:
		case <-t.C:
			return false
		}
	}
	return true
}

// ---------------------------------------------------------------- executor

func c14NewSessExec(r *kit.Run, cache int, persistent []bool) *c14Exec {
	tb := c14Tab()
	rig := c14NewRig(cache)
	rig.foreign = c14StoreHandovers()
	x := &c14Exec{r: r, tb: tb, rig: rig, mgr: rig.b.topicMgr, cache: cache, ref: c14NewRef(), nClients: len(persistent), cover: map[string]bool{}, prefix: "sessions:"}
	for c, p := range persistent {
		x.conns = append(x.conns, &c14Conn{rg: rig, cid: c14Name(c), cl: rig.connectAs(c14Name(c), !p, false), persistent: p})
		x.dropped[c] = map[string]string{}
		x.fresh[c] = map[string]string{}
	}
	x.state = make([][c14MaxClients]uint8, len(tb.topics))
	x.cause = make([][c14MaxClients]string, len(tb.topics))
	x.viol0 = r.ViolationCount()
	return x
}

func c14IsRestore(kind string) bool {
	return kind == "p-reconn" || kind == "p-conn" || kind == "takeover"
}

// restoreCause names an "extra" that first shows right after a session restore: which kind of
// restore, and after which kind of operation the restored filter had stopped being live.
func (x *c14Exec) restoreCause(ti int, c int) string {
	if !c14IsRestore(x.kind) || x.dropped[c] == nil {
		return ""
	}
	suffix := "\x00" + c14Names[c]
	how := ""
	for k := range c14Snapshot(x.mgr).entries {
		if !strings.HasSuffix(k, suffix) {
			continue
		}
		f := strings.TrimSuffix(k, suffix)
		if _, live := x.ref.subs[c][f]; live || !x.tb.row(f)[ti] {
			continue
		}
		h := "never-live"
		if d, ok := x.dropped[c][f]; ok {
			h = "dropped-by-" + d
		}
		if how == "" || h < how {
			how = h
		}
	}
	if how == "" {
		return ""
	}
	return "restored-from-session-by-" + x.kind + ":filter-" + how
}

// track records which filters of client c stopped / started being live with the last operation.
func (x *c14Exec) track(c int, before map[string]byte, kind string) {
	if x.dropped[c] == nil {
		return
	}
	for f := range before {
		if _, ok := x.ref.subs[c][f]; !ok {
			x.dropped[c][f] = kind
			x.fresh[c][f] = kind + "-dropped-a-live-filter"
		}
	}
	for f := range x.ref.subs[c] {
		if _, ok := before[f]; !ok {
			delete(x.dropped[c], f)
			delete(x.fresh[c], f)
		}
	}
}

// sawPacket records a mixed packet of client c until its next session restore.
func (x *c14Exec) sawPacket(c int, label string) {
	if x.packets[c] == nil {
		x.packets[c] = map[string]bool{}
	}
	x.packets[c][label] = true
}

func (x *c14Exec) begin(op c14Op) {
	x.hist = append(x.hist, op)
	x.kind = op.K
	x.r.Eval(1)
}

// restore = one CONNECT of a cleanSession=false client (p-conn after an offline interval,
// p-reconn = disconnect + connect, takeover = CONNECT while the id is registered).
func (x *c14Exec) restore(op c14Op) bool {
	c := op.C
	conn := x.conns[c]
	viaStore := op.K != "takeover"
	if viaStore && !x.rig.settle() {
		x.r.Inconclusive("sessions: watchdog while waiting for the session store loop to finish the pending hand-overs")
		x.aborted = true
		return false
	}
	if x.guard(op.K, nil, func() { conn.cl = x.rig.connectAs(conn.cid, false, op.N == "old-teardown-first") }) {
		x.aborted = true
		return false
	}
	x.offline[c] = false
	kinds := map[string]bool{}
	for _, k := range x.fresh[c] {
		kinds[k] = true
	}
	for k := range x.packets[c] {
		kinds[k] = true
	}
	x.packets[c] = nil
	var ks []string
	for k := range kinds {
		ks = append(ks, k)
		x.r.Count("sess_restore_after:"+k, 1)
	}
	sort.Strings(ks)
	x.fresh[c] = map[string]string{}
	live := len(x.ref.subs[c])
	if live > 0 {
		x.r.Count("sess_restore_with_live_filters", 1)
	} else {
		x.r.Count("sess_restore_with_empty_session", 1)
	}
	if viaStore {
		x.r.Count("sess_restore_from_store", 1)
	} else {
		x.r.Count("sess_restore_by_takeover", 1)
	}
	if live > 3 {
		live = 3
	}
	x.cover[fmt.Sprintf("op:%s:%s:live=%d:dropped-since-last-restore=%s", op.K, op.N, live, strings.Join(ks, "+"))] = true
	return true
}

func (x *c14Exec) goOffline(c int) bool {
	conn := x.conns[c]
	if x.guard("p-disc", nil, func() { conn.shutdown() }) {
		x.aborted = true
		return false
	}
	x.offline[c] = true
	return true
}

// sessStep executes one operation of a persistent-session history.
func (x *c14Exec) sessStep(op c14Op) {
	if x.aborted {
		return
	}
	if x.r.ViolationCount() > x.viol0 {
		// The step that refuted the property has been reported completely.  From here on the stored
		// session and the reference differ, which cannot be repaired from outside: whatever
		// followed would be a consequence reported under a misleading signature.
		x.r.Count("sess_cases_ended_at_their_first_violating_step", 1)
		x.aborted = true
		return
	}
	c := op.C
	before := map[string]byte{}
	if op.K != "residue" && op.K != "teardown" {
		for f, q := range x.ref.subs[c] {
			before[f] = q
		}
	}
	switch op.K {
	case "p-disc":
		x.begin(op)
		if !x.goOffline(c) {
			return
		}
		x.r.Count("sess_offline_intervals", 1)
	case "p-conn", "takeover":
		x.begin(op)
		if !x.restore(op) {
			return
		}
	case "p-reconn":
		x.begin(op)
		if !x.goOffline(c) || !x.restore(op) {
			return
		}
	case "mixed-unsub":
		x.begin(op)
		if x.guard("unsubscribe", nil, func() { x.conns[c].unsubscribe(op.F) }) {
			return
		}
		snap := c14Snapshot(x.mgr)
		outcome := map[string]bool{}
		for _, f := range op.F {
			if !c14ValidFilter(f) {
				continue
			}
			q, in := snap.entries[f+"\x00"+c14Names[c]]
			pq, held := before[f]
			if held {
				x.sawPacket(c, "mixed-unsub-packet-with-a-held-filter")
			}
			switch {
			case in && !held:
				x.r.Violation(x.prefix+"mixed-packet:unsubscribe:created-a-subscription", x.detail(map[string]interface{}{"filter": f, "trie": c14EntriesText(snap.entries)}))
				x.ref.subs[c][f] = q
			case in && q != pq:
				x.r.Violation(x.prefix+"mixed-packet:unsubscribe:changed-the-qos-of-a-kept-filter", x.detail(map[string]interface{}{"filter": f, "qos_before": pq, "qos_after": q}))
				x.ref.subs[c][f] = q
			case in:
				outcome["held-filter-kept"] = true
			case held:
				outcome["held-filter-removed"] = true
				delete(x.ref.subs[c], f)
			default:
				outcome["unheld-filter-absent"] = true
			}
		}
		for o := range outcome {
			x.r.Count("sess_explore_mixed-unsub:"+o, 1)
			x.cover["op:mixed-unsub:"+op.N+":"+o+":persistent="+strconv.FormatBool(x.conns[c].persistent)] = true
		}
	case "mixed-sub":
		x.begin(op)
		var err error
		if x.guard("subscribe", nil, func() { err = x.conns[c].subscribe(op.F, c14Qos(op.Q)) }) {
			return
		}
		snap := c14Snapshot(x.mgr)
		outcome := map[string]bool{}
		x.sawPacket(c, "mixed-sub-packet")
		for i, f := range op.F {
			if !c14ValidFilter(f) {
				continue
			}
			q, in := snap.entries[f+"\x00"+c14Names[c]]
			pq, held := before[f]
			nq := byte(op.Q[i])
			switch {
			case in && q == nq && !(held && pq == nq):
				outcome["wellformed-filter-inserted"] = true
				x.ref.subs[c][f] = q
			case in && held && q == pq:
				outcome["wellformed-filter-unchanged"] = true
			case !in && !held:
				outcome["wellformed-filter-not-inserted"] = true
			case !in:
				x.r.Violation(x.prefix+"mixed-packet:subscribe:removed-a-subscription", x.detail(map[string]interface{}{"filter": f, "trie": c14EntriesText(snap.entries)}))
				delete(x.ref.subs[c], f)
			default:
				x.r.Violation(x.prefix+"mixed-packet:subscribe:qos-neither-old-nor-requested", x.detail(map[string]interface{}{"filter": f, "qos_before": pq, "held_before": held, "qos_requested": nq, "qos_after": q}))
				x.ref.subs[c][f] = q
			}
		}
		for o := range outcome {
			x.r.Count(fmt.Sprintf("sess_explore_mixed-sub:acknowledged=%v:%s", err == nil, o), 1)
			x.cover[fmt.Sprintf("op:mixed-sub:%s:acknowledged=%v:%s:persistent=%v", op.N, err == nil, o, x.conns[c].persistent)] = true
		}
	case "teardown":
		// everybody comes back and unsubscribes what the reference says is live (the reference has
		// followed the mixed packets, so this cannot be scripted in advance); then the residue check
		for c := 0; c < x.nClients && !x.aborted; c++ {
			if x.offline[c] {
				x.sessStep(c14Op{K: "p-conn", C: c, N: "after-offline"})
			}
			fs := x.ref.filtersOf(c)
			switch {
			case len(fs) == 0:
			case !x.conns[c].persistent && c%2 == 1:
				x.sessStep(c14EndOp(c, len(x.hist)+c, nil, fs))
			default:
				for len(fs) > 0 {
					if len(fs) >= 2 && len(fs)%2 == 0 {
						x.sessStep(c14Op{K: "multiunsub", C: c, F: fs[:2], N: "teardown"})
						fs = fs[2:]
					} else {
						x.sessStep(c14Op{K: "unsub", C: c, F: fs[:1], N: "teardown"})
						fs = fs[1:]
					}
				}
			}
		}
		if !x.aborted && x.r.ViolationCount() == x.viol0 {
			x.step(c14Op{K: "residue"})
		}
		return
	default:
		x.step(op) // compares
		x.track(c, before, op.K)
		if op.K == "unsub" || op.K == "multiunsub" || op.K == "unsub-never" {
			x.r.Count("sess_op_"+op.K, 1)
		}
		return
	}
	x.track(c, before, op.K)
	if c14IsRestore(op.K) {
		x.restoredContent(c)
	}
	x.compareAll(op)
}

// restoredContent: right after a session restore the filters the TopicManager holds for the
// client are exactly its live subscriptions.  (Routing alone does not show a restored filter
// that is not live while another live filter of the client matches the same topics.)
func (x *c14Exec) restoredContent(c int) {
	suffix := "\x00" + c14Names[c]
	got := map[string]byte{}
	for k, q := range c14Snapshot(x.mgr).entries {
		if strings.HasSuffix(k, suffix) {
			got[strings.TrimSuffix(k, suffix)] = q
		}
	}
	var fs []string
	for f := range got {
		fs = append(fs, f)
	}
	sort.Strings(fs)
	for _, f := range fs {
		q := got[f]
		want, live := x.ref.subs[c][f]
		switch {
		case !live:
			how := "never-live"
			if d, ok := x.dropped[c][f]; ok {
				how = "dropped-by-" + d
			}
			x.r.Violation(x.prefix+"restore:"+x.kind+":topic-manager-holds-filter-that-is-not-live:"+how, x.detail(map[string]interface{}{
				"client": c14Names[c], "filter": f, "qos": q, "live_filters": x.ref.subs[c], "held_by_topic_manager": got}))
		case q != want:
			x.r.Violation(x.prefix+"restore:"+x.kind+":qos-of-live-filter-changed", x.detail(map[string]interface{}{
				"client": c14Names[c], "filter": f, "qos_live": want, "qos_restored": q}))
		}
	}
	for _, f := range x.ref.filtersOf(c) {
		if _, ok := got[f]; !ok {
			x.r.Violation(x.prefix+"restore:"+x.kind+":live-filter-not-restored", x.detail(map[string]interface{}{
				"client": c14Names[c], "filter": f, "live_filters": x.ref.subs[c], "held_by_topic_manager": got}))
		}
	}
}

func (x *c14Exec) sessFinish() {
	for _, c := range x.conns {
		kit.Recover(c.shutdown)
	}
	// no hand-over may be left behind: it would be parked for ever once the store loop has ended
	if !x.rig.settle() && !x.aborted {
		x.r.Inconclusive("sessions: watchdog while waiting for the session store loop at the end of the case")
	}
	x.conns = nil
	x.finish()
}

// ---------------------------------------------------------------- generator

// c14MixedPacket builds a packet of 1-2 well-formed filters and one malformed filter; the
// class says where the malformed one stands.
func c14MixedPacket(rng *rand.Rand, wf []string, bad string) ([]string, string) {
	pos := rng.Intn(len(wf) + 1)
	out := append([]string{}, wf[:pos]...)
	out = append(out, bad)
	out = append(out, wf[pos:]...)
	switch {
	case pos == 0:
		return out, "malformed-first"
	case pos == len(wf):
		return out, "malformed-last"
	}
	return out, "malformed-in-the-middle"
}

// c14GenSessHistory: seeded history for clients of which some use cleanSession=false.  It is
// built against a reference that ASSUMES one reading of the mixed packets (a mixed UNSUBSCRIBE
// removes its well-formed filters, a mixed SUBSCRIBE is rejected as a whole); that reading is
// only used to pick plausible later operations, the executor's reference follows the real code.
func c14GenSessHistory(rng *rand.Rand, persistent []bool, nOps int) []c14Op {
	n := len(persistent)
	ref := c14NewRef()
	pool := c14GenPool(rng)
	var offline [c14MaxClients]bool
	var ops []c14Op
	pick := func() string {
		if rng.Intn(4) == 0 {
			return c14RandFilter(rng)
		}
		return pool[rng.Intn(len(pool))]
	}
	notHeld := func(c int) string {
		for {
			f := pick()
			if _, ok := ref.subs[c][f]; !ok {
				return f
			}
		}
	}
	takeoverClass := func() string { return []string{"old-teardown-first", "old-teardown-last"}[rng.Intn(2)] }
	emit := func(op c14Op) {
		ref.apply(op)
		ops = append(ops, op)
	}
	mid := -1
	if rng.Intn(100) < 30 {
		mid = nOps/3 + rng.Intn(nOps/3+1)
	}
	for k := 0; k < nOps; k++ {
		if k == mid {
			ops = append(ops, c14Op{K: "teardown"})
			ref = c14NewRef()
			offline = [c14MaxClients]bool{}
		}
		c := rng.Intn(n)
		if offline[c] {
			if rng.Intn(100) < 45 {
				offline[c] = false
				emit(c14Op{K: "p-conn", C: c, N: "after-offline"})
				continue
			}
			// somebody else acts while c is away
			c = -1
			for _, d := range rng.Perm(n) {
				if !offline[d] {
					c = d
					break
				}
			}
			if c < 0 {
				c = rng.Intn(n)
				offline[c] = false
				emit(c14Op{K: "p-conn", C: c, N: "after-offline"})
				continue
			}
		}
		held := ref.filtersOf(c)
		x := rng.Intn(100)
		if len(held) == 0 && x >= 22 && x < 80 && rng.Intn(3) > 0 {
			x = 0
		}
		switch {
		case x < 22:
			emit(c14Op{K: "sub", C: c, F: []string{pick()}, Q: []int{rng.Intn(2)}})
		case x < 27 && len(held) > 0:
			f := held[rng.Intn(len(held))]
			emit(c14Op{K: "resub", C: c, F: []string{f}, Q: []int{1 - int(ref.subs[c][f])}})
		case x < 38 && len(held) > 0:
			f := held[rng.Intn(len(held))]
			emit(c14Op{K: "unsub", C: c, F: []string{f}, N: c14UnsubClass(ref, c, f)})
		case x < 42:
			f := notHeld(c)
			emit(c14Op{K: "unsub-never", C: c, F: []string{f}, N: c14NeverClass(ref, c, f)})
		case x < 48:
			f, g := pick(), pick()
			if f == g {
				emit(c14Op{K: "sub", C: c, F: []string{f}, Q: []int{rng.Intn(2)}})
			} else {
				emit(c14Op{K: "multisub", C: c, F: []string{f, g}, Q: []int{rng.Intn(2), rng.Intn(2)}})
			}
		case x < 52 && len(held) >= 2:
			i := rng.Intn(len(held))
			j := (i + 1 + rng.Intn(len(held)-1)) % len(held)
			emit(c14Op{K: "multiunsub", C: c, F: []string{held[i], held[j]}})
		case x < 56:
			g, class := c14Malform(rng, pick())
			if rng.Intn(2) == 0 {
				emit(c14Op{K: "bad-sub", C: c, F: []string{g}, Q: []int{rng.Intn(2)}, N: class})
			} else {
				emit(c14Op{K: "bad-unsub", C: c, F: []string{g}, N: class})
			}
		case x < 70:
			// UNSUBSCRIBE mixing held (sometimes also a not held) well-formed filters with a malformed one
			var wf []string
			if len(held) > 0 {
				wf = append(wf, held[rng.Intn(len(held))])
				if len(held) >= 2 && rng.Intn(3) == 0 {
					if g := held[rng.Intn(len(held))]; g != wf[0] {
						wf = append(wf, g)
					}
				}
			}
			if len(wf) == 0 || len(wf) == 1 && rng.Intn(4) == 0 {
				wf = append(wf, notHeld(c))
			}
			bad, class := c14Malform(rng, pick())
			fs, order := c14MixedPacket(rng, wf, bad)
			op := c14Op{K: "mixed-unsub", C: c, F: fs, N: order + ":" + class}
			ops = append(ops, op)
			for _, f := range wf { // assumed reading
				delete(ref.subs[c], f)
			}
		case x < 78:
			// SUBSCRIBE mixing well-formed filters (new, or held with the other QoS) with a malformed one
			var wf []string
			var qs []int
			if len(held) > 0 && rng.Intn(3) == 0 {
				f := held[rng.Intn(len(held))]
				wf, qs = append(wf, f), append(qs, 1-int(ref.subs[c][f]))
			} else {
				wf, qs = append(wf, notHeld(c)), append(qs, rng.Intn(2))
			}
			if rng.Intn(3) == 0 {
				if g := notHeld(c); g != wf[0] {
					wf, qs = append(wf, g), append(qs, rng.Intn(2))
				}
			}
			bad, class := c14Malform(rng, pick())
			fs, order := c14MixedPacket(rng, wf, bad)
			q := make([]int, len(fs))
			for i, j := 0, 0; i < len(fs); i++ {
				if fs[i] == bad {
					q[i] = rng.Intn(2)
				} else {
					q[i] = qs[j]
					j++
				}
			}
			ops = append(ops, c14Op{K: "mixed-sub", C: c, F: fs, Q: q, N: order + ":" + class}) // assumed reading: rejected
		case !persistent[c]:
			if x < 90 {
				emit(c14EndOp(c, k+4*c+3*len(held)+len(pool), pool, held))
			} else {
				emit(c14Op{K: "sub", C: c, F: []string{pick()}, Q: []int{rng.Intn(2)}})
			}
		case x < 87:
			emit(c14Op{K: "p-reconn", C: c, N: "disconnect+connect"})
		case x < 93:
			emit(c14Op{K: "takeover", C: c, N: takeoverClass()})
		default:
			offline[c] = true
			emit(c14Op{K: "p-disc", C: c})
		}
	}
	// every persistent client goes through one more restore, so that every packet of the history
	// has been followed by one; then the teardown, and a last restore of the now empty sessions
	final := func() {
		for c := 0; c < n; c++ {
			if !persistent[c] {
				continue
			}
			switch {
			case offline[c]:
				offline[c] = false
				ops = append(ops, c14Op{K: "p-conn", C: c, N: "after-offline"})
			case rng.Intn(3) == 0:
				ops = append(ops, c14Op{K: "takeover", C: c, N: takeoverClass()})
			default:
				ops = append(ops, c14Op{K: "p-reconn", C: c, N: "disconnect+connect"})
			}
		}
	}
	final()
	ops = append(ops, c14Op{K: "teardown"})
	final()
	return append(ops, c14Op{K: "residue"})
}

// ---------------------------------------------------------------- part 5: persistent sessions

// TestVerif_C14_Sessions: histories with cleanSession=false clients.
func TestVerif_C14_Sessions(t *testing.T) {
	r := kit.Start(t, "C14")
	defer r.Finish()
	r.Rule("histories with session persistence: 3-4 clients of which 1-3 connect with cleanSession=false; operations of the seeded histories plus SUBSCRIBE / UNSUBSCRIBE packets mixing 1-2 well-formed filters (held / not held / held with the other QoS) with one malformed filter at any position, and session restores: disconnect+reconnect (session decoded from the store), offline interval during which the other clients go on, takeover of the own connection (session of the session map; superseded connection torn down before / after the re-subscription); the disconnects of the cleanSession=true clients cycle through the ways a connection ends (cleanSession=false clients: plain end only); " +
		"systematic prefix: every filter to depth 2 x {plain UNSUBSCRIBE, [w,m], [m,w]} x {reconnect, offline interval, takeover}; seeded: 22 operations + one restore per persistent client + teardown + restore of the empty sessions. " +
		"Oracle as in the other parts (after every step all 119 topics: routed set = clients with a live matching subscription, QoS of an own matching subscription); a restore changes no subscription; the effect of a mixed packet on its own well-formed filters is observed right after the packet and adopted (only 'UNSUBSCRIBE creates nothing / keeps the QoS, SUBSCRIBE removes nothing / sets the old or the requested QoS' is demanded there), everything later is judged; distinct = (operation kind x class x followed outcome x persistent) and (restore kind x live filters x kinds of operations that dropped a filter since the last restore). " + c14Rule)
	r.Assume("a client keeps its cleanSession flag for all its connections of a history; a session is decoded from the store only after every asynchronous Session.store() hand-over has been written (barrier through the store loop's channel + goroutine dump; the timing of the persistence belongs to C16); the routing row of a cleanSession=false client without a connection is not judged; QoS 0 and 1")
	tb := c14Tab()
	idx := 0
	run := func(desc interface{}, cache int, persistent []bool, script []c14Op) {
		i := idx
		idx++
		if !r.Mine(i) {
			return
		}
		r.Case(i, desc)
		x := c14NewSessExec(r, cache, persistent)
		for _, op := range script {
			x.sessStep(op)
		}
		x.sessFinish()
	}
	// (a) systematic: filter w of a persistent client is unsubscribed (alone / in a packet with a
	// malformed filter before or after it), then the session is restored; a second filter stays.
	small := append(append([]string{}, tb.byDepth[1]...), tb.byDepth[2]...)
	for fi, w := range small {
		keep := small[(fi+7)%len(small)]
		if keep == w {
			keep = small[(fi+8)%len(small)]
		}
		bad, class := c14Malform(r.Rand(fmt.Sprintf("sessions/systematic/%d", fi)), small[(fi+3)%len(small)])
		for ui, unsub := range []c14Op{
			{K: "unsub", C: 0, F: []string{w}, N: "plain"},
			{K: "mixed-unsub", C: 0, F: []string{w, bad}, N: "malformed-last:" + class},
			{K: "mixed-unsub", C: 0, F: []string{bad, w}, N: "malformed-first:" + class},
		} {
			for ri, restore := range [][]c14Op{
				{{K: "p-reconn", C: 0, N: "disconnect+connect"}},
				{{K: "p-disc", C: 0}, {K: "sub", C: 1, F: []string{w}, Q: []int{0}}, {K: "unsub", C: 1, F: []string{w}, N: "while-other-offline"}, {K: "p-conn", C: 0, N: "after-offline"}},
				{{K: "takeover", C: 0, N: []string{"old-teardown-first", "old-teardown-last"}[(fi+ui)%2]}},
			} {
				again := restore[len(restore)-1]
				if again.K == "p-conn" {
					again = c14Op{K: "p-reconn", C: 0, N: "disconnect+connect"}
				}
				script := []c14Op{
					{K: "multisub", C: 0, F: []string{w, keep}, Q: []int{1, 0}},
					{K: "sub", C: 1, F: []string{keep}, Q: []int{1}},
					unsub,
				}
				script = append(script, restore...)
				script = append(script,
					c14Op{K: "mixed-sub", C: 0, F: []string{w, bad}, Q: []int{0, 1}, N: "malformed-last:" + class},
					again,
					c14Op{K: "teardown"},
					c14Op{K: "p-reconn", C: 0, N: "disconnect+connect"},
					c14Op{K: "residue"})
				run(map[string]interface{}{"systematic": w, "keep": keep, "unsubscribe": unsub, "restore": ri, "ops": script}, 1+(fi+ui+ri)%4, []bool{true, false}, script)
			}
		}
	}
	nSys := idx
	// (b) seeded histories
	n := r.N(270, 10800)
	for k := 0; k < n; k++ {
		i := idx
		idx++
		if !r.Mine(i) {
			continue
		}
		rng := r.CaseRand(i)
		nClients := 3 + rng.Intn(2)
		persistent := make([]bool, nClients)
		persistent[0] = true
		for c := 1; c < nClients; c++ {
			persistent[c] = rng.Intn(2) == 0
		}
		if nClients == 4 && persistent[1] && persistent[2] && persistent[3] {
			persistent[3] = false
		}
		cache := 1 + rng.Intn(4)
		script := c14GenSessHistory(rng, persistent, 22)
		desc := map[string]interface{}{"clients": nClients, "persistent": persistent, "topicCacheSize": cache, "ops": script}
		r.Case(i, desc)
		x := c14NewSessExec(r, cache, persistent)
		for _, op := range script {
			x.sessStep(op)
		}
		x.sessFinish()
		if k < 2 {
			r.Sample(desc)
		}
	}
	r.Note("session histories: %d systematic + %d seeded", nSys, n)
	for _, k := range []string{
		"sess_restore_from_store", "sess_restore_by_takeover", "sess_restore_with_live_filters", "sess_restore_with_empty_session", "sess_offline_intervals",
		"sess_restore_after:unsub-dropped-a-live-filter", "sess_restore_after:multiunsub-dropped-a-live-filter",
		"sess_restore_after:mixed-unsub-packet-with-a-held-filter", "sess_restore_after:mixed-sub-packet",
		"sess_op_unsub", "sess_op_unsub-never", "residue_checks",
	} {
		r.Require(k, 1)
	}
}
