//go:build verif

package mqttproxy

// C15 — population churn part: "... independently of which other clients are subscribed".
//
// The Delivery part keeps a population fixed for the life of a broker instance.  Here the
// population CHANGES between delivery rounds: clients unsubscribe filters (held or not held),
// disconnect (DISCONNECT or connection loss), are replaced by a new connection with a clean
// session, subscribe further filters or come back; the filters of different clients are nested
// (F, F/x, F/+, F/#, F/x/y), equal or siblings, so every change of one client's subscriptions
// touches trie nodes next to / above / below nodes that carry other clients' subscriptions.
// After every change a full round of messages is injected and every client that is connected
// NOW is judged against the eligibility model applied to its CURRENT subscriptions.
//
// Every step is completed before the next round starts (UNSUBACK / SUBACK / CONNACK received,
// or the broker closed the connection after its teardown), and "not delivered" is decided as in
// the Delivery part (publish goroutines finished, then PINGREQ/PINGRESP on that connection).

import (
	"fmt"
	"math/rand"
	"sort"
	"strings"
	"testing"

	"github.com/eclipse/paho.mqtt.golang/packets"
	"verif.local/kit"
)

const (
	c15chUnsub        = "unsubscribe"          // UNSUBSCRIBE of filters the client holds
	c15chUnsubNotHeld = "unsubscribe-not-held" // UNSUBSCRIBE of a filter the client does not hold
	c15chDisconnect   = "disconnect"           // DISCONNECT + FIN, wait until the broker closed
	c15chDrop         = "drop"                 // FIN without DISCONNECT, wait until the broker closed
	c15chCleanRecon   = "clean-reconnect"      // new connection, same client id, clean session
	c15chSubscribe    = "subscribe"            // SUBSCRIBE of filters the client does not hold yet
	c15chConnect      = "connect"              // a client that had left connects again and subscribes
	// the client's session is deleted through the admin delete-session endpoint (storage delete ->
	// delete watch -> Broker.deleteSession) while its connection is open and idle; the harness keeps
	// that connection open and silent afterwards.  From then on the client is not judged (what a
	// client whose session the administrator deleted is owed is left open by the property); what
	// is judged is everybody else.  On the code under test the client id leaves Broker.clients at
	// once while its filters stay in the topic trie until the connection ends or the id connects
	// again: fan-outs then meet a subscriber id without a client entry (observed, see c15churnRun).
	c15chSessDel = "session-deleted"
)

type c15churnStep struct {
	Kind     string   `json:"kind"`
	CI       int      `json:"client"`
	Filters  []string `json:"filters,omitempty"`
	QoS      []byte   `json:"qos,omitempty"`
	Split    bool     `json:"one_packet_per_filter,omitempty"`
	OldStays bool     `json:"superseded_connection_left_open,omitempty"`
}

type c15churnCase struct {
	Pop     c15Pop           `json:"population"`
	Lead    []c15churnStep   `json:"-"`
	Scripts [][]c15churnStep `json:"scripts"`
}

// c15churnModel: who is connected and what each client is subscribed to NOW (reference model of
// MQTT 3.1.1 SUBSCRIBE / UNSUBSCRIBE / clean session, nothing else).
type c15churnModel struct {
	conn []bool
	subs [][]c15Sub
}

func c15churnNewModel(pop c15Pop) *c15churnModel {
	m := &c15churnModel{conn: make([]bool, len(pop.Clients)), subs: make([][]c15Sub, len(pop.Clients))}
	for i, c := range pop.Clients {
		m.conn[i] = true
		m.subs[i] = append([]c15Sub(nil), c.Subs...)
	}
	return m
}

func (m *c15churnModel) holds(ci int, f string) bool {
	for _, s := range m.subs[ci] {
		if s.Filter == f {
			return true
		}
	}
	return false
}

func (m *c15churnModel) apply(st c15churnStep) {
	switch st.Kind {
	case c15chUnsub, c15chUnsubNotHeld:
		var keep []c15Sub
		for _, s := range m.subs[st.CI] {
			gone := false
			for _, f := range st.Filters {
				gone = gone || f == s.Filter
			}
			if !gone {
				keep = append(keep, s)
			}
		}
		m.subs[st.CI] = keep
	case c15chDisconnect, c15chDrop, c15chSessDel:
		m.conn[st.CI] = false
		m.subs[st.CI] = nil
	case c15chCleanRecon:
		m.subs[st.CI] = nil
	case c15chSubscribe:
		for k, f := range st.Filters {
			m.subs[st.CI] = append(m.subs[st.CI], c15Sub{f, st.QoS[k]})
		}
	case c15chConnect:
		m.conn[st.CI] = true
		m.subs[st.CI] = nil
		for k, f := range st.Filters {
			m.subs[st.CI] = append(m.subs[st.CI], c15Sub{f, st.QoS[k]})
		}
	}
}

func (m *c15churnModel) connected() (out []int) {
	for i, c := range m.conn {
		if c {
			out = append(out, i)
		}
	}
	return
}

// touched: the filters whose trie nodes the step changes (removed or added subscriptions).
// Needs the model state BEFORE the step.
func (m *c15churnModel) touched(st c15churnStep) []string {
	switch st.Kind {
	case c15chDisconnect, c15chDrop, c15chCleanRecon, c15chSessDel:
		var fs []string
		for _, s := range m.subs[st.CI] {
			fs = append(fs, s.Filter)
		}
		return fs
	}
	return st.Filters
}

var c15churnFilters = []string{"d", "d/1", "d/1/s", "d/1/s/t", "d/1/+", "d/1/#", "d/1/u", "d/+", "d/#", "d/+/s", "d/2", "d/2/s", "+/1", "+/1/s", "#", "+"}
var c15churnTopics = []string{"d", "d/1", "d/1/s", "d/1/s/t", "d/1/u", "d/2", "d/2/s"}

func c15churnRandPop(rng *rand.Rand) c15Pop {
	p := c15Pop{Class: "churn-random", Topics: c15churnTopics}
	n := 3 + rng.Intn(4)
	for i := 0; i < n; i++ {
		c := c15ClientSpec{CID: fmt.Sprintf("k%d", i)}
		nf := 1 + rng.Intn(3)
		seen := map[string]bool{}
		for len(c.Subs) < nf {
			f := c15churnFilters[rng.Intn(len(c15churnFilters))]
			if seen[f] {
				continue
			}
			seen[f] = true
			c.Subs = append(c.Subs, c15Sub{f, byte(rng.Intn(2))})
		}
		p.Clients = append(p.Clients, c)
	}
	return p
}

// c15churnTopicOf: a concrete topic matched by the filter.
func c15churnTopicOf(filter string) string {
	ls := strings.Split(filter, "/")
	for i, l := range ls {
		if l == "+" || l == "#" {
			ls[i] = "s"
		}
	}
	return strings.Join(ls, "/")
}

func c15churnPopOf(class string, clients ...c15ClientSpec) c15Pop {
	p := c15Pop{Class: class, Clients: clients}
	seen := map[string]bool{}
	add := func(t string) {
		if !seen[t] {
			seen[t] = true
			p.Topics = append(p.Topics, t)
		}
	}
	for _, c := range clients {
		for _, s := range c.Subs {
			add(c15churnTopicOf(s.Filter))
		}
	}
	add("d/2")
	return p
}

// c15churnSys: the systematic scenarios.  Two clients whose filters are in a given trie relation
// (the staying client's filter is BELOW / EQUAL TO / ABOVE / a SIBLING of the filter the other
// client gives up) x the way the other client gives it up, plus optional bystanders.
func c15churnSys() []c15churnCase {
	var out []c15churnCase
	bases := []string{"d/1", "d"}
	bystander := func(j int, cs []c15ClientSpec) []c15ClientSpec {
		switch j % 3 {
		case 0:
			return append(cs, c15ClientSpec{CID: "w", Subs: []c15Sub{{"#", 0}}})
		case 1:
			return append(cs, c15ClientSpec{CID: "w", Subs: []c15Sub{{"d/2", 1}}})
		}
		return cs
	}
	leaveKinds := []string{c15chUnsub, c15chDisconnect, c15chDrop, c15chCleanRecon, c15chUnsubNotHeld}
	j := 0
	for _, ext := range []string{"/s", "/+", "/#", "/s/t"} {
		for _, kind := range leaveKinds {
			f := bases[j%2]
			e := f + ext
			qv, ql := byte((j/2)%2), byte((j/5)%2)
			if j%7 == 3 {
				qv = 1
			}
			leaver := c15ClientSpec{CID: "l", Subs: []c15Sub{{f, ql}}}
			if kind == c15chUnsubNotHeld {
				leaver.Subs = []c15Sub{{"d/2/s", ql}} // nobody holds f itself
			}
			cs := bystander(j, []c15ClientSpec{{CID: "v", Subs: []c15Sub{{e, qv}}}, leaver})
			lead := c15churnStep{Kind: kind, CI: 1, OldStays: kind == c15chCleanRecon && j%2 == 1}
			if kind == c15chUnsub || kind == c15chUnsubNotHeld {
				lead.Filters = []string{f}
			}
			out = append(out, c15churnCase{Pop: c15churnPopOf("churn-stayer-below-leaver", cs...), Lead: []c15churnStep{lead}})
			j++
		}
	}
	for _, rel := range []string{"equal", "above", "sibling"} {
		for _, kind := range []string{c15chUnsub, c15chDrop, c15chCleanRecon} {
			f := bases[j%2]
			var fv, fl string
			switch rel {
			case "equal":
				fv, fl = f, f
			case "above":
				fv, fl = f, f+"/s"
			default:
				fv, fl = f+"/s", f+"/u"
			}
			cs := bystander(j, []c15ClientSpec{{CID: "v", Subs: []c15Sub{{fv, byte(j % 2)}}}, {CID: "l", Subs: []c15Sub{{fl, byte((j / 2) % 2)}}}})
			lead := c15churnStep{Kind: kind, CI: 1, OldStays: kind == c15chCleanRecon && j%2 == 0}
			if kind == c15chUnsub {
				lead.Filters = []string{fl}
			}
			out = append(out, c15churnCase{Pop: c15churnPopOf("churn-stayer-"+rel+"-leaver", cs...), Lead: []c15churnStep{lead}})
			j++
		}
	}
	return out
}

// c15churnSysStale: the systematic fan-out-past-a-deleted-session scenarios.  N staying clients
// (N = 2..6, mixed QoS) whose filters match the same topics as the filters of 1-2 clients whose
// session the administrator deletes (same filter / overlapping wildcard filters / lower and higher
// subscription QoS than the message), optionally the deleted id comes back with a new connection.
func c15churnSysStale() []c15churnCase {
	var out []c15churnCase
	stay := func(filters []string, qs ...byte) []c15ClientSpec {
		var cs []c15ClientSpec
		for i, q := range qs {
			cs = append(cs, c15ClientSpec{CID: fmt.Sprintf("v%d", i), Subs: []c15Sub{{filters[i%len(filters)], q}}})
		}
		return cs
	}
	del := func(ci int) c15churnStep { return c15churnStep{Kind: c15chSessDel, CI: ci} }
	back := func(ci int, subs []c15Sub) c15churnStep {
		st := c15churnStep{Kind: c15chConnect, CI: ci}
		for _, s := range subs {
			st.Filters = append(st.Filters, s.Filter)
			st.QoS = append(st.QoS, s.QoS)
		}
		return st
	}
	add := func(class string, cs []c15ClientSpec, gone []c15ClientSpec, lead func(first int) []c15churnStep) {
		first := len(cs)
		out = append(out, c15churnCase{Pop: c15churnPopOf(class, append(cs, gone...)...), Lead: lead(first)})
	}
	// same filter, the deleted client could be visited anywhere among 4 / 6 / 2 staying ones
	add("churn-session-deleted-same-filter", stay([]string{"d/1"}, 1, 1, 0, 1), []c15ClientSpec{{CID: "z", Subs: []c15Sub{{"d/1", 1}}}},
		func(f int) []c15churnStep { return []c15churnStep{del(f)} })
	add("churn-session-deleted-same-filter", stay([]string{"d"}, 1, 0, 1, 1, 0, 1), []c15ClientSpec{{CID: "z", Subs: []c15Sub{{"d", 1}}}},
		func(f int) []c15churnStep { return []c15churnStep{del(f)} })
	add("churn-session-deleted-same-filter", stay([]string{"d/1"}, 1, 1), []c15ClientSpec{{CID: "z", Subs: []c15Sub{{"d/1", 0}}}},
		func(f int) []c15churnStep { return []c15churnStep{del(f)} })
	// overlapping wildcard filters of different clients
	add("churn-session-deleted-overlapping-filters", stay([]string{"d/1", "d/+", "d/#", "#"}, 1, 0, 1, 1), []c15ClientSpec{{CID: "z", Subs: []c15Sub{{"+/1", 1}}}},
		func(f int) []c15churnStep { return []c15churnStep{del(f)} })
	add("churn-session-deleted-overlapping-filters", stay([]string{"d/1/s", "d/1/+", "d/1/#"}, 1, 1, 0, 1, 1), []c15ClientSpec{{CID: "z", Subs: []c15Sub{{"d/+/s", 1}, {"d/1", 0}}}},
		func(f int) []c15churnStep { return []c15churnStep{del(f)} })
	// two deleted sessions, one after the other
	zz := []c15ClientSpec{{CID: "z", Subs: []c15Sub{{"d", 1}}}, {CID: "y", Subs: []c15Sub{{"#", 0}}}}
	add("churn-two-sessions-deleted", stay([]string{"d", "+"}, 1, 1, 0), zz,
		func(f int) []c15churnStep { return []c15churnStep{del(f), del(f + 1)} })
	// the deleted id comes back (clean session, new connection) while its old connection lingers
	zb := []c15ClientSpec{{CID: "z", Subs: []c15Sub{{"d/1", 1}}}}
	add("churn-session-deleted-then-back", stay([]string{"d/1", "d/#"}, 1, 0, 1), zb,
		func(f int) []c15churnStep { return []c15churnStep{del(f), back(f, zb[0].Subs)} })
	// a staying client leaves / unsubscribes while a deleted session's filters are still routed
	add("churn-session-deleted-then-peer-leaves", stay([]string{"d/1", "d/1", "d/+", "d/1"}, 1, 1, 1, 0), []c15ClientSpec{{CID: "z", Subs: []c15Sub{{"d/1", 1}}}},
		func(f int) []c15churnStep {
			return []c15churnStep{del(f), {Kind: c15chUnsub, CI: 0, Filters: []string{"d/1"}}, {Kind: c15chDrop, CI: 1}}
		})
	return out
}

func c15churnLevelsPrefix(short, long []string) bool {
	if len(short) >= len(long) {
		return false
	}
	for i := range short {
		if short[i] != long[i] {
			return false
		}
	}
	return true
}

// c15churnRelation: where the subscription `mine` sits in the topic trie relative to the
// changed filter `ch` (purely syntactic, by levels).
func c15churnRelation(mine, ch string) int {
	a, b := strings.Split(mine, "/"), strings.Split(ch, "/")
	switch {
	case c15churnLevelsPrefix(b, a):
		return 4
	case mine == ch:
		return 3
	case c15churnLevelsPrefix(a, b):
		return 2
	case len(a) == len(b) && strings.Join(a[:len(a)-1], "/") == strings.Join(b[:len(b)-1], "/"):
		return 1
	}
	return 0
}

var c15churnRelNames = []string{"subscription-unrelated-to-changed-filter", "subscription-sibling-of-changed-filter", "subscription-above-changed-filter", "subscription-equals-changed-filter", "subscription-below-changed-filter"}

// c15churnPrefixes: every strict level-prefix of the filters currently held by anybody (the
// interior trie nodes), without those ci holds itself.
func c15churnPrefixes(m *c15churnModel, ci int) []string {
	set := map[string]bool{}
	for _, ss := range m.subs {
		for _, s := range ss {
			ls := strings.Split(s.Filter, "/")
			for k := 1; k < len(ls); k++ {
				set[strings.Join(ls[:k], "/")] = true
			}
		}
	}
	var out []string
	for f := range set {
		if !m.holds(ci, f) {
			out = append(out, f)
		}
	}
	sort.Strings(out)
	return out
}

// c15churnGenStep draws one feasible step for the model state m.
func c15churnGenStep(rng *rand.Rand, pop c15Pop, m *c15churnModel) c15churnStep {
	for {
		ci := rng.Intn(len(pop.Clients))
		w := rng.Intn(18)
		switch {
		case w >= 16: // the session of a connected client is deleted by the administrator
			if !m.conn[ci] || len(m.connected()) < 2 {
				continue
			}
			return c15churnStep{Kind: c15chSessDel, CI: ci}
		case w < 5: // unsubscribe held filters
			if !m.conn[ci] || len(m.subs[ci]) == 0 {
				continue
			}
			st := c15churnStep{Kind: c15chUnsub, CI: ci, Split: rng.Intn(2) == 0}
			n := 1
			if rng.Intn(10) >= 7 {
				n = 1 + rng.Intn(len(m.subs[ci]))
			}
			for _, k := range rng.Perm(len(m.subs[ci]))[:n] {
				st.Filters = append(st.Filters, m.subs[ci][k].Filter)
			}
			return st
		case w < 7: // unsubscribe a filter this client does not hold
			if !m.conn[ci] {
				continue
			}
			cands := c15churnFilters
			if pf := c15churnPrefixes(m, ci); len(pf) > 0 && rng.Intn(2) == 0 {
				cands = pf
			}
			f := cands[rng.Intn(len(cands))]
			if m.holds(ci, f) {
				continue
			}
			return c15churnStep{Kind: c15chUnsubNotHeld, CI: ci, Filters: []string{f}}
		case w < 9: // leave
			if !m.conn[ci] || len(m.connected()) < 2 {
				continue
			}
			if rng.Intn(2) == 0 {
				return c15churnStep{Kind: c15chDisconnect, CI: ci}
			}
			return c15churnStep{Kind: c15chDrop, CI: ci}
		case w < 11:
			if !m.conn[ci] {
				continue
			}
			return c15churnStep{Kind: c15chCleanRecon, CI: ci, OldStays: rng.Intn(2) == 0}
		case w < 14:
			if !m.conn[ci] {
				continue
			}
			st := c15churnStep{Kind: c15chSubscribe, CI: ci}
			for k, n := 0, 1+rng.Intn(2); k < n; k++ {
				f := c15churnFilters[rng.Intn(len(c15churnFilters))]
				dup := m.holds(ci, f)
				for _, g := range st.Filters {
					dup = dup || g == f
				}
				if !dup {
					st.Filters = append(st.Filters, f)
					st.QoS = append(st.QoS, byte(rng.Intn(2)))
				}
			}
			if len(st.Filters) == 0 {
				continue
			}
			return st
		default:
			if m.conn[ci] {
				continue
			}
			st := c15churnStep{Kind: c15chConnect, CI: ci}
			for _, s := range pop.Clients[ci].Subs {
				st.Filters = append(st.Filters, s.Filter)
				st.QoS = append(st.QoS, s.QoS)
			}
			return st
		}
	}
}

func c15churnScript(rng *rand.Rand, pop c15Pop, lead []c15churnStep, tail int) []c15churnStep {
	m := c15churnNewModel(pop)
	script := append([]c15churnStep(nil), lead...)
	for _, st := range lead {
		m.apply(st)
	}
	for k := 0; k < tail; k++ {
		st := c15churnGenStep(rng, pop, m)
		m.apply(st)
		script = append(script, st)
	}
	return script
}

func TestVerif_C15_Churn(t *testing.T) {
	c15rigSkipForReplay(t)
	r := kit.Start(t, "C15")
	defer r.Finish()
	r.Rule("population churn between delivery rounds: 37 systematic populations (29: a staying client whose filter is BELOW (F/x, F/+, F/#, F/x/y) / EQUAL TO / ABOVE / a SIBLING of the filter F of a second client, F = d/1 or d, optional bystander on '#' or d/2) x the way the second client gives F up (UNSUBSCRIBE, DISCONNECT, connection loss, replacement by a new connection with a clean session, UNSUBSCRIBE of the prefix filter F that nobody holds) followed by 2 random steps; 8: fan-out past a deleted session: 2-6 staying clients with mixed QoS whose filters (the same filter, or overlapping F / F/+ / F/# / # / +/x) match the topics of 1-2 further clients whose SESSION IS DELETED through the admin delete-session endpoint (storage delete, delete-watch event delivered to the broker and completely processed) while their connection is idle and stays open and silent, optionally followed by that id connecting again, a second deleted session, or a staying client unsubscribing / losing its connection, then 2 random steps); then seeded random populations (3-6 clients x 1-3 filters with independent QoS 0/1 from a 16-filter alphabet dense in prefix relations) with 4-6 random steps; steps = UNSUBSCRIBE of 1..all held filters (one packet or one per filter), UNSUBSCRIBE of a filter not held (alphabet or an interior trie node), DISCONNECT, connection loss, clean-session take-over (old connection closed at once or left open), SUBSCRIBE of 1-2 further filters, a client that left (or whose session was deleted) connects again, admin delete of the session of a connected client (weight 2/18); after a session delete the harness reads from the broker (own locks) that the id has left the client table while its filters are still routed, and for every message which routed ids have no client entry: the staying clients are judged as always, the deleted client is not judged; 2 fresh brokers per population with shuffled connect/SUBSCRIBE order and their own random steps; before the first and after EVERY step all (topic, QoS 0/1) messages are injected through httpTopicsPublishHandler in bursts of 1-8 and every client connected now is judged against the eligibility model over its CURRENT subscriptions; payload content of every message from the classes of the Delivery part (ascii id alone, id|binary 0 B - 4 KB incl. all byte values and non-UTF-8 bytes, id|UTF-8 / printable / control text, at most one completely empty payload per broker), plain JSON string or base64 flag; a message is recognised by the id at the start of its payload, every received copy must have exactly the published bytes and nothing but published messages may arrive; distinct = (step kind, own/peer step, trie relation of the judged client's matching subscription to the changed filters, message QoS, the client's (minQ,maxQ) for the topic, delivered, delivered past a routed id without client entry)")
	r.Assume("every step is complete before the next round starts (UNSUBACK/SUBACK/CONNACK seen, or the broker closed the leaving connection, which it does after its teardown; for a session delete: the delete-watch event was taken by the broker's watch loop and every deleteSession goroutine has finished); the delete-watch events that the teardown of clean sessions produces are delivered to the broker right after the step that ended the session (a timely watch), so they only ever concern ids that are gone; what a client is owed after the administrator deleted its session is left open by the property: it is not judged until its id connects again; all sessions are clean sessions; a client never re-subscribes a filter it currently holds (replacement semantics are not part of the property sentence); copies that reach clients without an eligible current subscription are counted, not judged; a loss that was already reported for a client's subscription is not reported again in later rounds of the same broker instance")
	sys := append(c15churnSys(), c15churnSysStale()...)
	n := r.N(56, 2400)
	const instances = 2
	for i := 0; i < n; i++ {
		if !r.Mine(i) {
			continue
		}
		rng := r.CaseRand(i)
		var cc c15churnCase
		tail := 2
		if i < len(sys) {
			cc = sys[i]
		} else {
			cc = c15churnCase{Pop: c15churnRandPop(rng)}
			tail = 4 + rng.Intn(3)
		}
		for k := 0; k < instances; k++ {
			cc.Scripts = append(cc.Scripts, c15churnScript(rng, cc.Pop, cc.Lead, tail))
		}
		r.Case(i, cc)
		for k := range cc.Scripts {
			if !c15churnRun(r, rng, i, k, cc.Pop, cc.Scripts[k]) {
				break
			}
		}
		if i == 0 || i == len(sys) {
			r.Sample(cc)
		}
	}
	for _, k := range []string{c15chUnsub, c15chUnsubNotHeld, c15chDisconnect, c15chDrop, c15chCleanRecon, c15chSubscribe, c15chConnect, c15chSessDel} {
		r.Require("churn_steps:"+k, 1)
	}
	// the input class "fan-out meets a subscriber id that has no client entry" must really have
	// been established (observed on the broker, not assumed) and exercised with q0 and q1
	r.Require("churn_session_deleted:id_left_client_table_and_filters_still_routed", 1)
	r.Require("churn_session_deleted:id_connected_again_while_old_connection_lingers", 1)
	r.Require("churn_delivered_after_peer_session_deleted", 1)
	for q := 0; q <= 1; q++ {
		r.Require(fmt.Sprintf("churn_delivered_q%d_past_matching_subscriber_without_client_entry", q), 1)
		r.Require(fmt.Sprintf("churn_messages_q%d_owed_to_2+_clients_with_matching_subscriber_without_client_entry", q), 1)
	}
	for _, rel := range c15churnRelNames[1:] {
		r.Require("churn_delivered_after_peer_gave_up_filter:"+rel, 1)
	}
	r.Require("churn_delivered_after_own_step", 1)
	r.Require("churn_delivered_q0", 1)
	r.Require("churn_delivered_q1", 1)
	r.Require("churn_ping_barriers", 1)
	for _, g := range []string{"ascii-id", "empty", "text", "binary"} {
		r.Require("churn_delivered_identical_payload_kind:"+g, 1)
	}
}

func c15churnUnsubscribe(c *c15rigClient, filters []string) string {
	p := packets.NewControlPacket(packets.Unsubscribe).(*packets.UnsubscribePacket)
	c.wmu.Lock()
	id := c.nextID
	c.nextID++
	c.wmu.Unlock()
	p.MessageID = id
	p.Topics = append([]string(nil), filters...)
	if err := c.write(p); err != nil {
		return "write:" + err.Error()
	}
	got := false
	ok := c.waitFor(func(ev []c15rigEvt, eof bool) bool {
		for _, e := range ev {
			if e.Type == packets.Unsuback && e.MsgID == id {
				got = true
				return true
			}
		}
		return eof
	}, c15rigWatchdog)
	switch {
	case got:
		return "ok"
	case ok:
		return "eof"
	}
	return "watchdog"
}

// c15churnRun: one fresh broker; the population connects and subscribes in a shuffled order; a
// round of messages; then per step: execute it, wait for its completion, a round of messages.
// false = stop this case.
func c15churnRun(r *kit.Run, rng *rand.Rand, caseNo, inst int, pop c15Pop, script []c15churnStep) bool {
	rb, err := c15rigNewBroker(c15rigBrokerOpts{})
	if err != nil {
		r.Inconclusive("broker did not start: " + err.Error())
		return false
	}
	conns := make([]*c15rigClient, len(pop.Clients))
	var lingering []*c15rigClient // superseded connections the harness left open
	defer func() {
		for _, c := range lingering {
			c.close()
		}
		for _, c := range conns {
			if c != nil {
				c.shutdown()
			}
		}
		rb.storesQuiesced()
		rb.close()
	}()
	dial := func(ci int) *c15rigClient {
		c, err := c15rigDial(pop.Clients[ci].CID, rb.addr)
		if err != nil {
			r.Inconclusive("dial: " + err.Error())
			return nil
		}
		if rc, st := c.connect(true, 0); st != "ok" || rc != packets.Accepted {
			r.Inconclusive(fmt.Sprintf("connect %s: %s rc=%d", c.cid, st, rc))
			c.close()
			return nil
		}
		return c
	}
	for _, ci := range rng.Perm(len(pop.Clients)) {
		if conns[ci] = dial(ci); conns[ci] == nil {
			return false
		}
	}
	var steps []c15step
	for ci, cs := range pop.Clients {
		if len(cs.Subs) > 1 && rng.Intn(2) == 0 {
			st := c15step{ci: ci}
			for _, k := range rng.Perm(len(cs.Subs)) {
				st.filters = append(st.filters, cs.Subs[k].Filter)
				st.qoss = append(st.qoss, cs.Subs[k].QoS)
			}
			steps = append(steps, st)
		} else {
			for _, s := range cs.Subs {
				steps = append(steps, c15step{ci: ci, filters: []string{s.Filter}, qoss: []byte{s.QoS}})
			}
		}
	}
	rng.Shuffle(len(steps), func(a, b int) { steps[a], steps[b] = steps[b], steps[a] })
	var orderDesc []string
	for _, st := range steps {
		orderDesc = append(orderDesc, pop.Clients[st.ci].CID+":"+strings.Join(st.filters, ","))
		if s := conns[st.ci].subscribe(st.filters, st.qoss); s != "ok" {
			r.Inconclusive("subscribe: " + s)
			return false
		}
	}

	m := c15churnNewModel(pop)
	reported := make([]map[string]bool, len(pop.Clients)) // subscriptions whose loss has been reported
	for i := range reported {
		reported[i] = map[string]bool{}
	}
	seq := 0
	gone := map[int]bool{} // clients whose session was deleted and whose id has not connected again
	// clientless: ids of deleted sessions that the broker still routes (topic, qos) to although
	// they have no entry in its client table (both read through the broker's own locks)
	clientless := func(topic string, qos int) (out []string) {
		for ci := range pop.Clients {
			if !gone[ci] {
				continue
			}
			cid := pop.Clients[ci].CID
			if ok, q := rb.routes(topic, cid); ok && int(q) >= qos {
				if reg, _ := rb.registered(cid); reg == nil {
					out = append(out, cid)
				}
			}
		}
		return
	}
	strange := map[string]bool{}
	known := map[string]string{} // identity -> published bytes, of everything injected into this broker
	// at most one message per broker instance has the completely empty payload (it cannot carry an id)
	emptyAt := -1
	if plr := r.Rand(fmt.Sprintf("churn-empty/%d/%d", caseNo, inst)); plr.Intn(2) == 0 {
		emptyAt = plr.Intn((len(script) + 1) * 2 * len(pop.Topics))
	}
	// round injects every (topic, qos) and judges; last = the step executed just before (nil: none
	// yet), touched = the filters it changed.
	round := func(no int, last *c15churnStep, touched []string) bool {
		var msgs []c15msg
		for _, tp := range pop.Topics {
			for q := 0; q <= 1; q++ {
				class := ""
				if seq == emptyAt {
					class = c15plEmpty
				}
				mg := c15msg{Topic: tp, QoS: q, PL: c15mkPayload(r, fmt.Sprintf("ch%d.%d.%d.%d", caseNo, inst, no, seq), class), Dist: rng.Intn(2) == 0}
				known[mg.PL.ID] = mg.PL.Data
				msgs = append(msgs, mg)
				seq++
			}
		}
		rng.Shuffle(len(msgs), func(a, b int) { msgs[a], msgs[b] = msgs[b], msgs[a] })
		for len(msgs) > 0 {
			k := 1 + rng.Intn(8)
			if k > len(msgs) {
				k = len(msgs)
			}
			burst := msgs[:k]
			msgs = msgs[k:]
			for _, mg := range burst {
				if code := c15httpPublish(rb, mg.Topic, mg.QoS, mg.PL, mg.Dist); code != 200 {
					r.Violation(fmt.Sprintf("http-publish-rejected:%d%s", code, c15plSuffix(mg.PL)), map[string]interface{}{"msg": mg})
				}
			}
			if !rb.publishQuiesced() {
				r.Inconclusive("watchdog: publish goroutines did not finish")
				return false
			}
			for ci, c := range conns {
				if c == nil {
					continue
				}
				switch st := c.ping(); st {
				case "ok":
					r.Count("churn_ping_barriers", 1)
				case "watchdog":
					r.Inconclusive("watchdog: no PINGRESP for " + c.cid)
					return false
				default:
					r.Violation("subscriber-connection-ended-by-broker", map[string]interface{}{"population": pop, "client": pop.Clients[ci], "state": st, "subscribe_order": orderDesc, "steps_done": script[:no], "part": "churn"})
					return false
				}
			}
			got := make([]map[string][]c15rigEvt, len(conns))
			for ci, c := range conns {
				if c == nil {
					continue
				}
				got[ci] = map[string][]c15rigEvt{}
				for _, e := range c.pubs() {
					// by the identity the payload carries; the bytes are compared in the judge
					k := c15plKey(e.Payload)
					got[ci][k] = append(got[ci][k], e)
					if _, ok := known[k]; !ok && !strange[e.Payload] {
						strange[e.Payload] = true
						r.Violation("delivered-payload-of-no-published-message", map[string]interface{}{"population": pop, "client": pop.Clients[ci], "topic": e.Topic, "received": c15plShow(e.Payload), "steps_done": script[:no], "part": "churn"})
					}
				}
			}
			for _, mg := range burst {
				c15churnJudge(r, pop, m, got, mg, last, touched, reported, clientless(mg.Topic, mg.QoS), map[string]interface{}{"subscribe_order": orderDesc, "steps_done": script[:no], "round": no})
			}
		}
		return true
	}
	if !round(0, nil, nil) {
		return false
	}
	for k := range script {
		st := script[k]
		touched := m.touched(st)
		c := conns[st.CI]
		ack := func(s, what string) bool {
			switch s {
			case "ok":
				return true
			case "watchdog":
				r.Inconclusive("watchdog: " + what)
			default:
				r.Violation("subscriber-connection-ended-by-broker", map[string]interface{}{"population": pop, "client": pop.Clients[st.CI], "state": s, "during": what, "steps_done": script[:k+1], "part": "churn"})
			}
			return false
		}
		switch st.Kind {
		case c15chUnsub, c15chUnsubNotHeld:
			if st.Split {
				for _, f := range st.Filters {
					if !ack(c15churnUnsubscribe(c, []string{f}), "UNSUBACK") {
						return false
					}
				}
			} else if !ack(c15churnUnsubscribe(c, st.Filters), "UNSUBACK") {
				return false
			}
		case c15chDisconnect:
			conns[st.CI] = nil
			if !c.shutdown() {
				r.Inconclusive("watchdog: broker did not close the connection after DISCONNECT")
				return false
			}
		case c15chDrop:
			conns[st.CI] = nil
			c.halfClose()
			ok := c.waitEOF()
			c.close()
			if !ok {
				r.Inconclusive("watchdog: broker did not close the connection after FIN")
				return false
			}
		case c15chCleanRecon:
			nc := dial(st.CI)
			if nc == nil {
				lingering = append(lingering, c)
				conns[st.CI] = nil
				return false
			}
			conns[st.CI] = nc
			if st.OldStays {
				lingering = append(lingering, c)
			} else if !c.shutdown() {
				r.Inconclusive("watchdog: broker did not close the superseded connection")
				return false
			}
		case c15chSubscribe:
			if !ack(c.subscribe(st.Filters, st.QoS), "SUBACK") {
				return false
			}
		case c15chConnect:
			nc := dial(st.CI)
			if nc == nil {
				return false
			}
			conns[st.CI] = nc
			if !ack(nc.subscribe(st.Filters, st.QoS), "SUBACK") {
				return false
			}
			if gone[st.CI] {
				delete(gone, st.CI)
				r.Count("churn_session_deleted:id_connected_again_while_old_connection_lingers", 1)
			}
		case c15chSessDel:
			// make the connection idle first: the PINGRESP orders every PUBACK this client wrote
			// for the last round before the delete, so that nothing is in flight towards the broker
			if !ack(c.ping(), "PINGRESP before the session delete") {
				return false
			}
			cid := pop.Clients[st.CI].CID
			if code := rb.httpDeleteSession(cid); code != 200 {
				r.Inconclusive(fmt.Sprintf("admin delete-session endpoint answered %d", code))
				return false
			}
			if _, ok := rb.flushDeletes(); !ok {
				r.Inconclusive("watchdog: delete-watch event not processed")
				return false
			}
			// Client.close() is noticed by the read loop only between two reads: a read loop that
			// was still on its way back from the PINGREQ ends at once and runs its full teardown
			// (which deletes the stored session once more).  Wait until every read loop is parked
			// in a read or gone, and let a timely watch deliver that second event now, while the
			// id is gone, instead of after the id has connected again.
			if !c15rigReadLoopsParked() {
				r.Inconclusive("watchdog: read loops neither parked in a read nor gone after the session delete")
				return false
			}
			if rb.store.heldCount() > 0 {
				if _, ok := rb.flushDeletes(); !ok {
					r.Inconclusive("watchdog: delete-watch event not processed")
					return false
				}
				r.Count("churn_session_deleted:old_read_loop_ended_at_once_and_deleted_the_session_again", 1)
			}
			conns[st.CI] = nil
			lingering = append(lingering, c) // stays open and silent until the end of the instance
			gone[st.CI] = true
			// what the delete has made of the client on the broker: observed, not assumed
			reg, _ := rb.registered(cid)
			routed := false
			for _, f := range touched {
				ok, _ := rb.routes(c15churnTopicOf(f), cid)
				routed = routed || ok
			}
			switch {
			case reg == nil && routed:
				r.Count("churn_session_deleted:id_left_client_table_and_filters_still_routed", 1)
			case reg == nil:
				r.Count("churn_session_deleted:id_left_client_table_and_filters_unrouted", 1)
			default:
				r.Count("churn_session_deleted:id_still_in_client_table", 1)
			}
		}
		// the delete-watch events of the sessions that ended with this step (clean sessions are
		// deleted from the storage at teardown) reach the broker now, as a timely watch would
		// deliver them; they concern ids that are gone
		if st.Kind != c15chSessDel && rb.store.heldCount() > 0 {
			if _, ok := rb.flushDeletes(); !ok {
				r.Inconclusive("watchdog: delete-watch event not processed")
				return false
			}
			r.Count("churn_delete_watch_events_of_ended_clean_sessions_delivered", 1)
		}
		m.apply(st)
		if st.Kind == c15chSubscribe || st.Kind == c15chConnect {
			for _, f := range st.Filters {
				delete(reported[st.CI], f) // a new subscription: judged afresh
			}
		}
		r.Count("churn_steps:"+st.Kind, 1)
		if !round(k+1, &script[k], touched) {
			return false
		}
	}
	return true
}

func c15churnJudge(r *kit.Run, pop c15Pop, m *c15churnModel, got []map[string][]c15rigEvt, mg c15msg, last *c15churnStep, touched []string, reported []map[string]bool, clientless []string, ctx map[string]interface{}) {
	r.Eval(1)
	type st struct {
		CID    string   `json:"cid"`
		Subs   []c15Sub `json:"current_subscriptions"`
		MinQ   int      `json:"min_matching_sub_qos"`
		MaxQ   int      `json:"max_matching_sub_qos"`
		Owed   bool     `json:"owed"`
		Copies int      `json:"copies"`
	}
	var sts []st
	idx := map[int]int{}
	lowerStrict := 0
	for ci := range pop.Clients {
		if !m.conn[ci] || got[ci] == nil {
			continue
		}
		minQ, maxQ := c15elig(c15ClientSpec{Subs: m.subs[ci]}, mg.Topic)
		idx[ci] = len(sts)
		sts = append(sts, st{CID: pop.Clients[ci].CID, Subs: m.subs[ci], MinQ: minQ, MaxQ: maxQ, Owed: maxQ >= mg.QoS, Copies: len(got[ci][mg.PL.ID])})
		if maxQ >= 0 && maxQ < mg.QoS {
			lowerStrict++
		}
	}
	anyOwed := false
	if len(clientless) > 0 {
		owed := 0
		for _, s := range sts {
			if s.Owed {
				owed++
			}
		}
		if owed >= 2 {
			r.Count(fmt.Sprintf("churn_messages_q%d_owed_to_2+_clients_with_matching_subscriber_without_client_entry", mg.QoS), 1)
		}
	}
	for ci := range pop.Clients {
		k, ok := idx[ci]
		if !ok {
			continue
		}
		s := sts[k]
		if !s.Owed {
			if s.Copies > 0 {
				r.Count("churn_copies_to_clients_without_eligible_current_subscription(not judged)", 1)
			}
			continue
		}
		anyOwed = true
		// the subscriptions that make this client eligible and where they sit relative to what changed
		var eligible []string
		rel := 0
		for _, sub := range m.subs[ci] {
			if int(sub.QoS) >= mg.QoS && c15rigMatch(sub.Filter, mg.Topic) {
				eligible = append(eligible, sub.Filter)
				for _, t := range touched {
					if x := c15churnRelation(sub.Filter, t); x > rel {
						rel = x
					}
				}
			}
		}
		kind, who := "initial", "none"
		if last != nil {
			kind, who = last.Kind, "peer"
			if last.CI == ci {
				who = "own"
			}
		}
		if s.Copies > 0 {
			r.Count(fmt.Sprintf("churn_delivered_q%d", mg.QoS), 1)
			bad, altered := false, ""
			for _, e := range got[ci][mg.PL.ID] {
				bad = bad || e.Topic != mg.Topic || int(e.QoS) != mg.QoS
				if e.Payload != mg.PL.Data {
					altered = c15plShow(e.Payload)
				}
			}
			if bad {
				r.Violation("delivered-with-wrong-topic-or-qos", map[string]interface{}{"population": pop, "msg": mg, "client": s, "part": "churn"})
			}
			if altered != "" {
				r.Violation(fmt.Sprintf("delivered-payload-differs-from-published:q%d%s", mg.QoS, c15plSuffix(mg.PL)), map[string]interface{}{"population": pop, "msg": mg, "client": s, "received": altered, "part": "churn"})
			} else {
				r.Count("churn_delivered_identical_payload_kind:"+c15plGroup(mg.PL.Class), 1)
			}
			if last != nil {
				if who == "own" {
					r.Count("churn_delivered_after_own_step", 1)
				} else if kind == c15chSessDel {
					r.Count("churn_delivered_after_peer_session_deleted", 1)
				} else if kind != c15chSubscribe && kind != c15chConnect {
					r.Count("churn_delivered_after_peer_gave_up_filter:"+c15churnRelNames[rel], 1)
				}
			}
			past := ""
			if len(clientless) > 0 {
				past = "/past-subscriber-without-client-entry"
				r.Count(fmt.Sprintf("churn_delivered_q%d_past_matching_subscriber_without_client_entry", mg.QoS), 1)
			}
			r.Cover(fmt.Sprintf("churn:%s/%s/%s/q%d/subq=%d%d/delivered%s", kind, who, c15churnRelNames[rel], mg.QoS, s.MinQ+1, s.MaxQ+1, past))
			continue
		}
		// owed and absent from the log at the PINGRESP
		fresh := false
		for _, f := range eligible {
			fresh = fresh || !reported[ci][f]
		}
		if !fresh {
			r.Count("churn_repeated_miss_of_a_subscription_already_reported_lost", 1)
			continue
		}
		for _, f := range eligible {
			reported[ci][f] = true
		}
		note := ""
		switch {
		case s.MinQ < mg.QoS:
			note = ":same-client-mixed-qos-overlap"
		case lowerStrict > 0:
			note = ":lower-qos-subscriber-present"
		}
		if note == "" && last == nil {
			note = c15plSuffix(mg.PL) // neither churn nor the population explains the loss: name the payload kind
		}
		sig := fmt.Sprintf("delivery-missed:q%d:before-any-churn%s", mg.QoS, note)
		if last != nil {
			sig = fmt.Sprintf("delivery-missed-after-churn:q%d:%s-%s:%s%s", mg.QoS, who, kind, c15churnRelNames[rel], note)
		}
		if len(clientless) > 0 {
			// the broker's routing table names, for this topic and QoS, an id whose session was deleted
			// and that has no client entry: that state outlives the step that created it, so the loss
			// is named after it and not after whatever step happened to be the last one
			sig = fmt.Sprintf("delivery-missed-after-churn:q%d:deleted-session-still-routed-without-client-entry%s", mg.QoS, note)
		}
		det := map[string]interface{}{
			"population": pop, "msg": mg, "missed_by": s.CID, "eligible_through": eligible, "last_step": last, "filters_changed_by_last_step": touched, "connected_clients_now": sts,
			"ids_routed_for_this_message_without_client_entry(session deleted, connection lingering)": clientless,
			"how_decided": "the step was complete (UNSUBACK/SUBACK/CONNACK seen or connection closed by the broker) before the message was injected; publish goroutines finished, then PINGREQ/PINGRESP on this connection: the message is not in the receive log",
		}
		for k, v := range ctx {
			det[k] = v
		}
		r.Violation(sig, det)
	}
	if !anyOwed {
		r.Count("churn_messages_nobody_owed", 1)
	}
}
