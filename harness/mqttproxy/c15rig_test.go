//go:build verif

package mqttproxy

// Shared MQTT rig of the /verif monitors C15 and C16 (DESIGN.md section 3).
//
//   - c15rigBroker : a real Broker on a free loopback port, harness storage (the package's
//     mockStorage behind a wrapper that lets the harness decide WHEN delete-watch events
//     reach the broker), harness MuxMapper with a recording publish pipeline.
//   - c15rigClient : raw MQTT 3.1.1 client on the paho `packets` codec over TCP; the harness
//     decides when (and whether) PUBACK is sent; every received packet is logged.
//   - c15rigRelay  : controllable TCP relay; the harness decides when the broker's side of a
//     connection sees EOF and can observe when the broker has closed its side (= the
//     connection's handleConn/readLoop has completely returned).
//   - c15rigSpawnedBy / c15rigQuiesce : sound "has goroutine X finished" test built on
//     runtime.Stack ("created by" lines), used instead of sleeping.
//
// Everything here is prefixed c15rig so that it cannot clash with other monitors of this
// package.

import (
	"bytes"
	"encoding/json"
	"fmt"
	"io"
	"net"
	"net/http"
	"net/http/httptest"
	"os"
	"runtime"
	"strings"
	"sync"
	"sync/atomic"
	"testing"
	"time"

	"github.com/eclipse/paho.mqtt.golang/packets"
	"github.com/megaease/easegress/pkg/context"
	"github.com/megaease/easegress/pkg/logger"
	"github.com/megaease/easegress/pkg/protocols/mqttprot"
)

func init() {
	logger.InitNop()
}

const (
	c15rigPipeName = "c15rig-publish-pipeline"
	// generous outer watchdog for any single wait; its firing is INCONCLUSIVE, never a violation
	c15rigWatchdog = 60 * time.Second
)

// c15rigSkipForReplay: when ./check replays one recorded case (VERIF_ONLY=<part>:<case>), the
// other parts of the same test binary have nothing to do.
func c15rigSkipForReplay(t *testing.T) {
	if v := os.Getenv("VERIF_ONLY"); v != "" && !strings.HasPrefix(v, t.Name()+":") {
		t.Skip("replay of another part")
	}
}

// ------------------------------------------------------------------ recording pipeline

type c15rigPub struct {
	CID     string `json:"cid"`
	Topic   string `json:"topic"`
	Payload string `json:"payload"`
	QoS     byte   `json:"qos"`
	MsgID   uint16 `json:"id"`
	Dup     bool   `json:"dup"`
}

// c15rigPipe is the backend pipeline of the broker: it records every PUBLISH handed to it.
type c15rigPipe struct {
	mu    sync.Mutex
	pubs  []c15rigPub
	other int
}

func (p *c15rigPipe) Handle(ctx *context.Context) string {
	req, _ := ctx.GetRequest(context.DefaultNamespace).(*mqttprot.Request)
	p.mu.Lock()
	defer p.mu.Unlock()
	if req == nil || req.PacketType() != mqttprot.PublishType {
		p.other++
		return ""
	}
	pk := req.PublishPacket()
	p.pubs = append(p.pubs, c15rigPub{CID: req.Client().ClientID(), Topic: pk.TopicName, Payload: string(pk.Payload), QoS: pk.Qos, MsgID: pk.MessageID, Dup: pk.Dup})
	return ""
}

func (p *c15rigPipe) snapshot() []c15rigPub {
	p.mu.Lock()
	defer p.mu.Unlock()
	return append([]c15rigPub(nil), p.pubs...)
}

type c15rigMapper struct{ pipe *c15rigPipe }

func (m *c15rigMapper) GetHandler(name string) (context.Handler, bool) {
	if name == c15rigPipeName {
		return m.pipe, true
	}
	return nil, false
}

// ------------------------------------------------------------------ storage

// c15rigStore is the broker's storage: the package's own mockStorage for the data, but the
// delete-watch channel belongs to the harness.  Delete events are queued and handed to the
// broker's watch loop only by flush(), which returns after the loop has taken them AND is
// back at its select (barrier event), so that "the broker has reacted to the delete" becomes
// a logical point instead of a sleep.
type c15rigStore struct {
	inner *mockStorage
	mu    sync.Mutex
	held  []string
	ch    chan map[string]*string
	dels  int
	// putHook (optional; a func(key string) stored by a harness) is called at the start of every
	// put, before the data reaches the inner storage: a harness can hold a put there ("the storage
	// is slow right now").  Unset = no effect.
	putHook atomic.Value
}

var _ storage = (*c15rigStore)(nil)

func c15rigNewStore() *c15rigStore {
	return &c15rigStore{inner: newStorage(nil).(*mockStorage), ch: make(chan map[string]*string)}
}

func (s *c15rigStore) get(key string) (*string, error) { return s.inner.get(key) }
func (s *c15rigStore) getPrefix(prefix string, keysOnly bool) (map[string]string, error) {
	return s.inner.getPrefix(prefix, keysOnly)
}
func (s *c15rigStore) put(key, value string) error {
	if h, _ := s.putHook.Load().(func(string)); h != nil {
		h(key)
	}
	return s.inner.put(key, value)
}
func (s *c15rigStore) delete(key string) error {
	// inner.watchFlag is never set (nobody calls inner.watchDelete), so inner emits no event
	err := s.inner.delete(key)
	s.mu.Lock()
	s.held = append(s.held, key)
	s.dels++
	s.mu.Unlock()
	return err
}
func (s *c15rigStore) watchDelete(prefix string) (<-chan map[string]*string, func(), error) {
	return s.ch, func() {}, nil
}

func (s *c15rigStore) heldCount() int {
	s.mu.Lock()
	defer s.mu.Unlock()
	return len(s.held)
}

// flush delivers all queued delete events to the broker's watch loop, then a barrier event
// (non-nil value: ignored by the loop).  When it returns true the loop has spawned the
// deleteSession goroutine of every delivered event.  n = events delivered.
func (s *c15rigStore) flush(done <-chan struct{}) (n int, ok bool) {
	s.mu.Lock()
	keys := s.held
	s.held = nil
	s.mu.Unlock()
	send := func(m map[string]*string) bool {
		t := time.NewTimer(c15rigWatchdog)
		defer t.Stop()
		select {
		case s.ch <- m:
			return true
		case <-done:
			return false
		case <-t.C:
			return false
		}
	}
	for _, k := range keys {
		if !send(map[string]*string{k: nil}) {
			return n, false
		}
		n++
	}
	v := "barrier"
	if !send(map[string]*string{"c15rig-barrier": &v}) {
		return n, false
	}
	return n, true
}

// ------------------------------------------------------------------ broker

type c15rigBroker struct {
	b     *Broker
	store *c15rigStore
	pipe  *c15rigPipe
	addr  string
}

type c15rigBrokerOpts struct {
	publishLimit *RateLimit
}

func c15rigNewBroker(o c15rigBrokerOpts) (*c15rigBroker, error) {
	pipe := &c15rigPipe{}
	store := c15rigNewStore()
	spec := &Spec{
		Name:               "c15rig",
		EGName:             "c15rig-eg",
		Port:               0, // ":0" = free port chosen by the kernel
		ClientPublishLimit: o.publishLimit,
		Rules:              []*Rule{{When: &When{PacketType: Publish}, Pipeline: c15rigPipeName}},
	}
	// newBroker returns nil (before it has started anything) when the listener cannot be bound;
	// ":0" is a dual-stack wildcard bind and can collide with a loopback-only listener that
	// holds the chosen port, so try again a few times.
	var b *Broker
	for try := 0; try < 8 && b == nil; try++ {
		if try > 0 {
			time.Sleep(time.Duration(try) * 5 * time.Millisecond)
		}
		b = newBroker(spec, store, &c15rigMapper{pipe: pipe}, func(string, string) ([]string, error) { return nil, nil })
	}
	if b == nil {
		return nil, fmt.Errorf("newBroker returned nil 8 times (listener could not be bound)")
	}
	ta, ok := b.listener.Addr().(*net.TCPAddr)
	if !ok {
		b.close()
		return nil, fmt.Errorf("listener address %v", b.listener.Addr())
	}
	return &c15rigBroker{b: b, store: store, pipe: pipe, addr: fmt.Sprintf("127.0.0.1:%d", ta.Port)}, nil
}

// httpPublish injects a message through the real HTTP publish endpoint handler.
func (rb *c15rigBroker) httpPublish(topic string, qos int, payload string, distributed bool) int {
	body, _ := json.Marshal(HTTPJsonData{Topic: topic, QoS: qos, Payload: payload, Distributed: distributed})
	req := httptest.NewRequest(http.MethodPost, "/apis/v1"+rb.b.mqttAPIPrefix(mqttAPITopicPublishPrefix), bytes.NewReader(body))
	w := httptest.NewRecorder()
	rb.b.httpTopicsPublishHandler(w, req)
	return w.Code
}

// httpDeleteSession calls the real admin delete endpoint handler.
func (rb *c15rigBroker) httpDeleteSession(cids ...string) int {
	data := HTTPSessions{}
	for _, c := range cids {
		data.Sessions = append(data.Sessions, &HTTPSession{SessionID: c})
	}
	body, _ := json.Marshal(data)
	req := httptest.NewRequest(http.MethodDelete, "/apis/v1"+rb.b.mqttAPIPrefix(mqttAPISessionDeletePrefix), bytes.NewReader(body))
	w := httptest.NewRecorder()
	rb.b.httpDeleteSessionHandler(w, req)
	return w.Code
}

// publishQuiesced waits until every goroutine spawned by the HTTP publish handler
// (go b.sendMsgToClient) has finished: afterwards every copy the broker is ever going to
// enqueue for the messages injected so far (first transmission) is in some writeCh or
// further.  false = watchdog.
func (rb *c15rigBroker) publishQuiesced() bool {
	return c15rigQuiesce("(*Broker).httpTopicsPublishHandler")
}

// flushDeletes delivers the queued delete-watch events and waits until the broker has
// completely processed them (every deleteSession goroutine finished).
func (rb *c15rigBroker) flushDeletes() (n int, ok bool) {
	n, ok = rb.store.flush(rb.b.done)
	if !ok {
		return n, false
	}
	return n, c15rigQuiesce("(*Broker).watchDelete")
}

// storesQuiesced waits until no asynchronous Session.store() hand-over is pending and the
// session manager's store loop has finished the put of the last one (barrier value through
// the same channel: the loop is sequential, so it takes the barrier only after that put).
func (rb *c15rigBroker) storesQuiesced() bool {
	if !c15rigQuiesce("(*Session).store") {
		return false
	}
	t := time.NewTimer(c15rigWatchdog)
	defer t.Stop()
	for i := 0; i < 2; i++ { // second barrier: the put of the first barrier itself is done
		select {
		case rb.b.sessMgr.storeCh <- SessionStore{key: "c15rig-barrier", value: ""}:
		case <-rb.b.sessMgr.done:
			return false
		case <-t.C:
			return false
		}
	}
	return true
}

// registered returns the connection currently registered for cid and its session, read under
// the broker's own lock.
func (rb *c15rigBroker) registered(cid string) (c *Client, s *Session) {
	rb.b.RLock()
	defer rb.b.RUnlock()
	if rb.b.clients == nil {
		return nil, nil
	}
	c = rb.b.clients[cid]
	if c != nil {
		s = c.session
	}
	return
}

func (rb *c15rigBroker) sessionInMap(cid string) *Session {
	if v, ok := rb.b.sessMgr.sessionMap.Load(cid); ok {
		return v.(*Session)
	}
	return nil
}

func (rb *c15rigBroker) routes(topic, cid string) (bool, byte) {
	subs, _ := rb.b.topicMgr.findSubscribers(topic)
	q, ok := subs[cid]
	return ok, q
}

// persistedTopics decodes the stored copy of cid's session (nil = no stored copy).
func (rb *c15rigBroker) persistedTopics(cid string) (map[string]int, bool) {
	str, err := rb.store.get(sessionStoreKey(cid))
	if err != nil || str == nil {
		return nil, false
	}
	s := &Session{info: &SessionInfo{}}
	if s.decode(*str) != nil {
		return nil, false
	}
	if s.info.Topics == nil {
		s.info.Topics = map[string]int{}
	}
	return s.info.Topics, true
}

func (rb *c15rigBroker) close() {
	rb.b.close()
}

// ------------------------------------------------------------------ goroutine quiescence

// c15rigSpawnedBy counts live goroutines (in any state, including not yet started) whose
// "created by" line names a function containing creator.
func c15rigSpawnedBy(creator string) int {
	buf := make([]byte, 1<<20)
	for {
		n := runtime.Stack(buf, true)
		if n < len(buf) {
			buf = buf[:n]
			break
		}
		buf = make([]byte, 2*len(buf))
	}
	cnt := 0
	for _, l := range strings.Split(string(buf), "\n") {
		if strings.HasPrefix(l, "created by ") && strings.Contains(l, creator) {
			cnt++
		}
	}
	return cnt
}

// c15rigQuiesce polls until no live goroutine was created by `creator`.  false = watchdog.
func c15rigQuiesce(creator string) bool {
	deadline := time.Now().Add(c15rigWatchdog)
	for i := 0; ; i++ {
		if c15rigSpawnedBy(creator) == 0 {
			return true
		}
		if time.Now().After(deadline) {
			return false
		}
		if i < 20 {
			runtime.Gosched()
			time.Sleep(200 * time.Microsecond)
		} else {
			time.Sleep(2 * time.Millisecond)
		}
	}
}

// c15rigReadLoopsParked waits until every goroutine that is inside (*Client).readLoop is blocked in
// a socket read (goroutine state "IO wait" under packets.ReadPacket) or no such goroutine is
// left; a read loop in any other state is on its way to one of the two.  false = watchdog.
func c15rigReadLoopsParked() bool {
	deadline := time.Now().Add(c15rigWatchdog)
	for i := 0; ; i++ {
		buf := make([]byte, 1<<20)
		for {
			n := runtime.Stack(buf, true)
			if n < len(buf) {
				buf = buf[:n]
				break
			}
			buf = make([]byte, 2*len(buf))
		}
		moving := 0
		for _, g := range strings.Split(string(buf), "\n\n") {
			if !strings.Contains(g, "mqttproxy.(*Client).readLoop") {
				continue
			}
			head := g
			if k := strings.IndexByte(g, '\n'); k >= 0 {
				head = g[:k]
			}
			if !(strings.Contains(head, "[IO wait") && strings.Contains(g, "packets.ReadPacket")) {
				moving++
			}
		}
		if moving == 0 {
			return true
		}
		if time.Now().After(deadline) {
			return false
		}
		if i < 20 {
			runtime.Gosched()
			time.Sleep(200 * time.Microsecond)
		} else {
			time.Sleep(2 * time.Millisecond)
		}
	}
}

// ------------------------------------------------------------------ resend-period ticks

// c15rigTicks calls f after every tick of a harness-owned 200 ms ticker (the same period and the
// same runtime timer machinery as Session.backgroundResendPending) until f returns true or
// max ticks have been consumed.  The bound is therefore relative to the resend period as this
// process experiences it, not to wall-clock time: a starved process starves both tickers.
func c15rigTicks(max int, f func(tick int) bool) bool {
	tk := time.NewTicker(200 * time.Millisecond)
	defer tk.Stop()
	for i := 1; i <= max; i++ {
		<-tk.C
		if f(i) {
			return true
		}
	}
	return false
}

const c15rigMaxTicks = 60

// ------------------------------------------------------------------ raw client

type c15rigEvt struct {
	Seq     int       `json:"seq"`
	At      time.Time `json:"-"`
	Type    byte      `json:"type"` // packets.Publish, Puback, Suback, ...
	Topic   string    `json:"topic,omitempty"`
	Payload string    `json:"payload,omitempty"`
	QoS     byte      `json:"qos,omitempty"`
	MsgID   uint16    `json:"id,omitempty"`
	Dup     bool      `json:"dup,omitempty"`
	RC      byte      `json:"rc,omitempty"`
	SP      bool      `json:"sp,omitempty"`
}

type c15rigClient struct {
	cid     string
	conn    net.Conn
	wmu     sync.Mutex
	mu      sync.Mutex
	evts    []c15rigEvt
	eof     bool
	rerr    string
	wake    chan struct{}
	autoAck atomic.Bool
	nextID  uint16
	rdone   chan struct{}
}

// c15rigDial opens a TCP connection to addr (broker or relay) and starts the reader.
func c15rigDial(cid, addr string) (*c15rigClient, error) {
	var conn net.Conn
	var err error
	for try := 0; try < 5; try++ {
		conn, err = net.DialTimeout("tcp", addr, 20*time.Second)
		if err == nil {
			break
		}
		time.Sleep(50 * time.Millisecond)
	}
	if err != nil {
		return nil, err
	}
	c := &c15rigClient{cid: cid, conn: conn, wake: make(chan struct{}), nextID: 1, rdone: make(chan struct{})}
	c.autoAck.Store(true)
	go c.readLoop()
	return c, nil
}

func (c *c15rigClient) readLoop() {
	defer close(c.rdone)
	for {
		p, err := packets.ReadPacket(c.conn)
		if err != nil {
			c.mu.Lock()
			c.eof = true
			c.rerr = err.Error()
			close(c.wake)
			c.wake = make(chan struct{})
			c.mu.Unlock()
			return
		}
		e := c15rigEvt{At: time.Now()}
		ack := uint16(0)
		doAck := false
		switch v := p.(type) {
		case *packets.PublishPacket:
			e.Type, e.Topic, e.Payload, e.QoS, e.MsgID, e.Dup = packets.Publish, v.TopicName, string(v.Payload), v.Qos, v.MessageID, v.Dup
			if v.Qos == 1 && c.autoAck.Load() {
				ack, doAck = v.MessageID, true
			}
		case *packets.PubackPacket:
			e.Type, e.MsgID = packets.Puback, v.MessageID
		case *packets.SubackPacket:
			e.Type, e.MsgID = packets.Suback, v.MessageID
		case *packets.UnsubackPacket:
			e.Type, e.MsgID = packets.Unsuback, v.MessageID
		case *packets.ConnackPacket:
			e.Type, e.RC, e.SP = packets.Connack, v.ReturnCode, v.SessionPresent
		case *packets.PingrespPacket:
			e.Type = packets.Pingresp
		default:
			e.Type = 0xff
		}
		c.mu.Lock()
		e.Seq = len(c.evts)
		c.evts = append(c.evts, e)
		close(c.wake)
		c.wake = make(chan struct{})
		c.mu.Unlock()
		if doAck {
			c.puback(ack)
		}
	}
}

func (c *c15rigClient) write(p packets.ControlPacket) error {
	c.wmu.Lock()
	defer c.wmu.Unlock()
	c.conn.SetWriteDeadline(time.Now().Add(c15rigWatchdog))
	return p.Write(c.conn)
}

// waitFor blocks until pred (evaluated under the log lock) holds; false = watchdog or, when
// stopAtEOF, connection ended without pred becoming true.
func (c *c15rigClient) waitFor(pred func(evts []c15rigEvt, eof bool) bool, watchdog time.Duration) bool {
	t := time.NewTimer(watchdog)
	defer t.Stop()
	for {
		c.mu.Lock()
		ok := pred(c.evts, c.eof)
		w := c.wake
		c.mu.Unlock()
		if ok {
			return true
		}
		select {
		case <-w:
		case <-t.C:
			return false
		}
	}
}

func (c *c15rigClient) events() []c15rigEvt {
	c.mu.Lock()
	defer c.mu.Unlock()
	return append([]c15rigEvt(nil), c.evts...)
}

func (c *c15rigClient) sawEOF() bool {
	c.mu.Lock()
	defer c.mu.Unlock()
	return c.eof
}

// pubs returns the PUBLISH packets received so far.
func (c *c15rigClient) pubs() []c15rigEvt {
	var out []c15rigEvt
	for _, e := range c.events() {
		if e.Type == packets.Publish {
			out = append(out, e)
		}
	}
	return out
}

// copies counts received PUBLISH packets carrying payload.
func (c *c15rigClient) copies(payload string) (n int, ids []uint16) {
	for _, e := range c.events() {
		if e.Type == packets.Publish && e.Payload == payload {
			n++
			ids = append(ids, e.MsgID)
		}
	}
	return
}

func (c *c15rigClient) count(typ byte) int {
	n := 0
	for _, e := range c.events() {
		if e.Type == typ {
			n++
		}
	}
	return n
}

// connect sends CONNECT and waits for CONNACK.  st: "ok", "eof", "watchdog", "write:<err>"
func (c *c15rigClient) connect(clean bool, keepalive uint16) (rc byte, st string) {
	p := packets.NewControlPacket(packets.Connect).(*packets.ConnectPacket)
	p.ProtocolName, p.ProtocolVersion = "MQTT", 4
	p.CleanSession = clean
	p.Keepalive = keepalive
	p.ClientIdentifier = c.cid
	if err := c.write(p); err != nil {
		return 0, "write:" + err.Error()
	}
	got := false
	ok := c.waitFor(func(ev []c15rigEvt, eof bool) bool {
		for _, e := range ev {
			if e.Type == packets.Connack {
				rc, got = e.RC, true
				return true
			}
		}
		return eof
	}, c15rigWatchdog)
	switch {
	case got:
		return rc, "ok"
	case ok:
		return 0, "eof"
	}
	return 0, "watchdog"
}

// subscribe sends one SUBSCRIBE with the given filters and waits for its SUBACK.
func (c *c15rigClient) subscribe(filters []string, qoss []byte) string {
	p := packets.NewControlPacket(packets.Subscribe).(*packets.SubscribePacket)
	c.wmu.Lock()
	id := c.nextID
	c.nextID++
	c.wmu.Unlock()
	p.MessageID = id
	p.Topics = append([]string(nil), filters...)
	p.Qoss = append([]byte(nil), qoss...)
	if err := c.write(p); err != nil {
		return "write:" + err.Error()
	}
	got := false
	ok := c.waitFor(func(ev []c15rigEvt, eof bool) bool {
		for _, e := range ev {
			if e.Type == packets.Suback && e.MsgID == id {
				got = true
				return true
			}
		}
		return eof
	}, c15rigWatchdog)
	switch {
	case got:
		return "ok"
	case ok:
		return "eof"
	}
	return "watchdog"
}

// publish writes one PUBLISH packet (id is used as is for QoS1).
func (c *c15rigClient) publish(topic string, qos byte, id uint16, payload string, dup bool) error {
	p := packets.NewControlPacket(packets.Publish).(*packets.PublishPacket)
	p.Qos, p.TopicName, p.Payload, p.MessageID, p.Dup = qos, topic, []byte(payload), id, dup
	return c.write(p)
}

func (c *c15rigClient) puback(id uint16) error {
	p := packets.NewControlPacket(packets.Puback).(*packets.PubackPacket)
	p.MessageID = id
	return c.write(p)
}

// ping sends PINGREQ and waits for one more PINGRESP than seen before.  Because the broker
// handles the packets of one connection in order and has one FIFO write queue per
// connection, everything the broker enqueued for this connection before it processed the
// PINGREQ has been received when ping returns "ok".
func (c *c15rigClient) ping() string {
	before := c.count(packets.Pingresp)
	if err := c.write(packets.NewControlPacket(packets.Pingreq)); err != nil {
		return "write:" + err.Error()
	}
	got := false
	ok := c.waitFor(func(ev []c15rigEvt, eof bool) bool {
		n := 0
		for _, e := range ev {
			if e.Type == packets.Pingresp {
				n++
			}
		}
		if n > before {
			got = true
			return true
		}
		return eof
	}, c15rigWatchdog)
	switch {
	case got:
		return "ok"
	case ok:
		return "eof"
	}
	return "watchdog"
}

func (c *c15rigClient) sendDisconnect() error {
	return c.write(packets.NewControlPacket(packets.Disconnect))
}

// halfClose sends FIN (the peer's read sees EOF) but keeps reading.
func (c *c15rigClient) halfClose() {
	if tc, ok := c.conn.(*net.TCPConn); ok {
		tc.CloseWrite()
	}
}

// waitEOF waits until the peer has closed the connection.
func (c *c15rigClient) waitEOF() bool {
	return c.waitFor(func(_ []c15rigEvt, eof bool) bool { return eof }, c15rigWatchdog)
}

func (c *c15rigClient) close() {
	c.conn.Close()
	<-c.rdone
}

// shutdown ends the connection politely and waits until the broker has torn it down
// (the broker closes its side only after readLoop's deferred cleanup has run).
func (c *c15rigClient) shutdown() bool {
	if c.sawEOF() {
		c.close()
		return true
	}
	c.sendDisconnect()
	c.halfClose()
	ok := c.waitEOF()
	c.close()
	return ok
}

// ------------------------------------------------------------------ relay

// c15rigRelay forwards TCP connections to target.  Closing of the client side is NOT
// propagated to the broker unless the harness says so.
type c15rigRelay struct {
	ln     net.Listener
	target string
	links  chan *c15rigLink
	mu     sync.Mutex
	all    []*c15rigLink
	closed bool
}

type c15rigLink struct {
	down      net.Conn      // client side
	up        *net.TCPConn  // broker side
	upClosed  chan struct{} // closed when the broker closed (or reset) its side
	dnClosed  chan struct{} // closed when the client side ended
	propagate atomic.Bool   // forward a client-side end to the broker as FIN
	cutOnce   sync.Once
}

func c15rigNewRelay(target string) (*c15rigRelay, error) {
	ln, err := net.Listen("tcp", "127.0.0.1:0")
	if err != nil {
		return nil, err
	}
	r := &c15rigRelay{ln: ln, target: target, links: make(chan *c15rigLink, 16)}
	go r.run()
	return r, nil
}

func (r *c15rigRelay) addr() string { return r.ln.Addr().String() }

func (r *c15rigRelay) run() {
	for {
		down, err := r.ln.Accept()
		if err != nil {
			return
		}
		upc, err := net.DialTimeout("tcp", r.target, 20*time.Second)
		if err != nil {
			down.Close()
			continue
		}
		l := &c15rigLink{down: down, up: upc.(*net.TCPConn), upClosed: make(chan struct{}), dnClosed: make(chan struct{})}
		r.mu.Lock()
		r.all = append(r.all, l)
		r.mu.Unlock()
		go func() { // client -> broker
			io.Copy(l.up, l.down)
			close(l.dnClosed)
			if l.propagate.Load() {
				l.cutBrokerSide()
			}
		}()
		go func() { // broker -> client
			io.Copy(l.down, l.up)
			close(l.upClosed)
			l.down.Close()
		}()
		r.links <- l
	}
}

// dial connects a new raw client through the relay and returns it with its link.
func (r *c15rigRelay) dial(cid string) (*c15rigClient, *c15rigLink, error) {
	c, err := c15rigDial(cid, r.addr())
	if err != nil {
		return nil, nil, err
	}
	// The link is identified by the client's own address (what the relay saw as the peer of
	// the accepted connection), not by arrival order: a link that was queued for a dial which
	// gave up must never be paired with a later client.
	me := c.conn.LocalAddr().String()
	wd := time.After(c15rigWatchdog)
	for {
		select {
		case l := <-r.links:
			if l.down.RemoteAddr().String() == me {
				return c, l, nil
			}
			atomic.AddInt64(&c15rigStaleLinks, 1)
		case <-wd:
			c.close()
			return nil, nil, fmt.Errorf("relay: no link")
		}
	}
}

// c15rigStaleLinks counts relay links that belonged to no pending dial (evidence only).
var c15rigStaleLinks int64

// cutBrokerSide makes the broker's read on this connection see EOF (FIN), now.
func (l *c15rigLink) cutBrokerSide() {
	l.cutOnce.Do(func() { l.up.CloseWrite() })
}

// brokerClosed waits until the broker has closed its side of this connection, which it does
// only when handleConn returns, i.e. after readLoop's deferred teardown has completed.
func (l *c15rigLink) brokerClosed() bool {
	select {
	case <-l.upClosed:
		return true
	case <-time.After(c15rigWatchdog):
		return false
	}
}

// brokerSideLocalAddr identifies this connection inside the broker (Client.conn.RemoteAddr).
func (l *c15rigLink) brokerSideLocalAddr() string { return l.up.LocalAddr().String() }

func (r *c15rigRelay) close() {
	r.ln.Close()
	r.mu.Lock()
	all := r.all
	r.mu.Unlock()
	for _, l := range all {
		l.up.Close()
		l.down.Close()
	}
}

// ------------------------------------------------------------------ reference topic matcher

// c15rigMatch is the textbook MQTT 3.1.1 filter matcher (4.7): '+' exactly one level, a
// trailing '#' the rest including the parent level.  Written from the specification, shares
// no code with topic.go.  Only used with well-formed filters and topics without '$'.
func c15rigMatch(filter, topic string) bool {
	f := strings.Split(filter, "/")
	t := strings.Split(topic, "/")
	for i := 0; i < len(f); i++ {
		if f[i] == "#" {
			return i == len(f)-1
		}
		if i >= len(t) {
			return false
		}
		if f[i] != "+" && f[i] != t[i] {
			return false
		}
	}
	return len(f) == len(t)
}
