//go:build verif

package mqttproxy

// C15 — MQTT delivery: every eligible subscriber gets each message; QoS1 at-least-once.
//
// History monitor over the receive logs of raw MQTT clients connected to a real Broker.
// All "not delivered" verdicts are logical, never timed: after the publish handler's
// goroutines have finished (c15rigQuiesce) every first transmission is in the per-connection
// FIFO write queue; a PINGREQ sent afterwards is answered behind it, so a message that is
// absent from a client's log when its PINGRESP arrives was never sent to that client.

import (
	"bytes"
	"encoding/base64"
	"encoding/hex"
	"encoding/json"
	"fmt"
	"math/rand"
	"net"
	"net/http"
	"net/http/httptest"
	"sort"
	"strings"
	"sync"
	"testing"
	"time"
	"unicode/utf8"

	"github.com/eclipse/paho.mqtt.golang/packets"
	"verif.local/kit"
)

type c15Sub struct {
	Filter string `json:"f"`
	QoS    byte   `json:"q"`
}

type c15ClientSpec struct {
	CID  string   `json:"cid"`
	Subs []c15Sub `json:"subs"`
}

type c15Pop struct {
	Class   string          `json:"class"`
	Clients []c15ClientSpec `json:"clients"`
	Topics  []string        `json:"topics"`
}

// c15elig is the reference model, straight from the property sentence: client c is owed a
// message on topic T at QoS q iff it has a matching subscription with QoS >= q.
// min/max are taken over c's matching subscriptions (-1 = none matches).
func c15elig(c c15ClientSpec, topic string) (minQ, maxQ int) {
	minQ, maxQ = -1, -1
	for _, s := range c.Subs {
		if c15rigMatch(s.Filter, topic) {
			if minQ < 0 || int(s.QoS) < minQ {
				minQ = int(s.QoS)
			}
			if int(s.QoS) > maxQ {
				maxQ = int(s.QoS)
			}
		}
	}
	return
}

func c15sysPops() []c15Pop {
	same := func(qs ...byte) c15Pop {
		p := c15Pop{Class: "same-filter", Topics: []string{"x/y", "x/z"}}
		for i, q := range qs {
			p.Clients = append(p.Clients, c15ClientSpec{CID: fmt.Sprintf("s%d", i), Subs: []c15Sub{{"x/y", q}}})
		}
		return p
	}
	return []c15Pop{
		same(0, 1),
		same(1, 0),
		same(1, 1),
		same(0, 0),
		same(0, 1, 1),
		same(1, 0, 1),
		same(0, 1, 0, 1, 1),
		{Class: "cross-overlap", Topics: []string{"x/y", "x", "x/z"}, Clients: []c15ClientSpec{
			{CID: "a", Subs: []c15Sub{{"x/+", 0}}},
			{CID: "b", Subs: []c15Sub{{"x/y", 1}}},
			{CID: "c", Subs: []c15Sub{{"x/#", 1}}},
		}},
		{Class: "cross-overlap", Topics: []string{"x/y", "y"}, Clients: []c15ClientSpec{
			{CID: "a", Subs: []c15Sub{{"#", 0}}},
			{CID: "b", Subs: []c15Sub{{"x/y", 1}}},
		}},
		{Class: "cross-overlap", Topics: []string{"x/y/z", "x/y"}, Clients: []c15ClientSpec{
			{CID: "a", Subs: []c15Sub{{"x/y/#", 1}}},
			{CID: "b", Subs: []c15Sub{{"+/+/z", 0}}},
			{CID: "c", Subs: []c15Sub{{"x/+/z", 1}, {"x/y", 1}}},
		}},
		// one client with overlapping filters of different QoS; nobody else matches t/...
		{Class: "same-client-overlap", Topics: []string{"t/x/y", "o/1"}, Clients: []c15ClientSpec{
			{CID: "x", Subs: []c15Sub{{"t/x/#", 1}, {"t/x/y", 0}}},
			{CID: "o", Subs: []c15Sub{{"o/1", 1}}},
		}},
		{Class: "same-client-overlap", Topics: []string{"t/x/y", "o/1"}, Clients: []c15ClientSpec{
			{CID: "x", Subs: []c15Sub{{"t/+/y", 0}, {"t/x/y", 1}}},
			{CID: "o", Subs: []c15Sub{{"o/1", 0}}},
		}},
		{Class: "same-client-overlap", Topics: []string{"t/x/y", "o/1"}, Clients: []c15ClientSpec{
			{CID: "x", Subs: []c15Sub{{"t/+/y", 1}, {"t/x/+", 0}}},
			{CID: "o", Subs: []c15Sub{{"o/1", 1}}},
		}},
	}
}

var c15filters = []string{"x", "x/y", "x/+", "x/#", "+/y", "#", "y", "x/y/z", "x/+/z", "+/+", "x/y/#", "+"}
var c15topics = []string{"x", "x/y", "x/y/z", "y", "x/z"}

func c15randPop(rng *rand.Rand) c15Pop {
	p := c15Pop{Class: "random", Topics: c15topics}
	n := 2 + rng.Intn(4)
	for i := 0; i < n; i++ {
		q := byte(rng.Intn(2)) // one QoS per client: overlapping filters of ONE client never differ in QoS here
		c := c15ClientSpec{CID: fmt.Sprintf("r%d", i)}
		nf := 1 + rng.Intn(2)
		seen := map[string]bool{}
		for len(c.Subs) < nf {
			f := c15filters[rng.Intn(len(c15filters))]
			if seen[f] {
				continue
			}
			seen[f] = true
			c.Subs = append(c.Subs, c15Sub{f, q})
		}
		p.Clients = append(p.Clients, c)
	}
	return p
}

type c15msg struct {
	Topic string `json:"topic"`
	QoS   int    `json:"qos"`
	PL    c15pl  `json:"payload"`
	Dist  bool   `json:"distributed"`
}

// ------------------------------------------------------------------ payload content
//
// The property speaks about "a message": what is inside the payload must not matter.  Every part
// therefore draws the payload CONTENT from the classes below.  A message keeps its identity
// through a unique ASCII id at the start of the payload (id, or id + '|' + body; ids never
// contain '|'), so the per-client receive logs still tell which message a PUBLISH carries, and
// the received bytes are compared with the published bytes on EVERY copy (first transmission and
// retransmissions).  The one payload that cannot carry an id, the completely empty one, is used
// at most once per receive log and recognised by being empty.

const (
	c15plAsciiID   = "ascii-id"        // the id alone (the only class of the earlier workload)
	c15plEmpty     = "empty"           // zero-length payload
	c15plEmptyBody = "empty-body"      // id + '|' and nothing behind it
	c15plBinShort  = "binary-short"    // 1-8 random bytes (all values)
	c15plBin       = "binary"          // 9-300 random bytes
	c15plBinKB     = "binary-kb"       // 1-4 KB random bytes
	c15plAllBytes  = "all-byte-values" // each of the 256 byte values once, seeded order
	c15plNonUTF8   = "non-utf8-bytes"  // 1-24 bytes >= 0x80 (lone continuation bytes, 0xf8-0xff, ...)
	c15plUTF8      = "utf8-text"       // 1-40 runes from Latin-1 / Greek / CJK / emoji ranges
	c15plPunct     = "ascii-printable" // 1-40 printable ASCII characters incl. quotes, \ < > & ? ~ + / =
	c15plControl   = "control-bytes"   // 1-16 bytes from NUL, TAB, LF, CR, ESC, DEL, space
)

// all classes that carry an id; c15plEmpty is handed out separately (at most one per receive log)
var c15plClasses = []string{c15plAsciiID, c15plEmptyBody, c15plBinShort, c15plBin, c15plBinKB, c15plAllBytes, c15plNonUTF8, c15plUTF8, c15plPunct, c15plControl}

type c15pl struct {
	ID    string `json:"id"`
	Class string `json:"class"`
	Len   int    `json:"len"`
	Head  string `json:"body_head_hex,omitempty"`
	B64   bool   `json:"http_base64_flag"` // how the HTTP publish endpoint gets it: "base64":true + std base64, or the plain JSON string
	Data  string `json:"-"`                // the published bytes
}

// c15plGroup is the coarse content kind used in signatures and Require counters.
func c15plGroup(class string) string {
	switch class {
	case c15plAsciiID:
		return "ascii-id"
	case c15plEmpty, c15plEmptyBody:
		return "empty"
	case c15plUTF8, c15plPunct, c15plControl:
		return "text"
	}
	return "binary"
}

// c15plSuffix: signature suffix naming the content kind; the plain ascii id (the workload the
// earlier signatures were defined on) has none.
func c15plSuffix(m c15pl) string {
	if g := c15plGroup(m.Class); g != "ascii-id" {
		return ":" + g + "-payload"
	}
	return ""
}

// c15mkPayload builds the payload of the message `id`; class "" = seeded choice.  The content is
// a pure function of (seed, part, id, class), independent of the case PRNG.
func c15mkPayload(r *kit.Run, id, class string) c15pl {
	rng := r.Rand("payload/" + id)
	if class == "" {
		if rng.Intn(10) < 3 {
			class = c15plAsciiID
		} else {
			class = c15plClasses[rng.Intn(len(c15plClasses))]
		}
	}
	pick := func(n int, alphabet []byte) []byte {
		b := make([]byte, n)
		for i := range b {
			b[i] = alphabet[rng.Intn(len(alphabet))]
		}
		return b
	}
	random := func(n int) []byte {
		b := make([]byte, n)
		rng.Read(b)
		return b
	}
	var body []byte
	switch class {
	case c15plEmpty:
		return c15pl{Class: class, B64: rng.Intn(2) == 0}
	case c15plAsciiID:
		return c15pl{ID: id, Class: class, Len: len(id), Data: id, B64: rng.Intn(4) == 0}
	case c15plEmptyBody:
	case c15plBinShort:
		body = random(1 + rng.Intn(8))
	case c15plBin:
		body = random(9 + rng.Intn(292))
	case c15plBinKB:
		body = random(1024 + rng.Intn(3*1024+1))
	case c15plAllBytes:
		start, stride := rng.Intn(256), 2*rng.Intn(128)+1
		body = make([]byte, 256)
		for i := range body {
			body[i] = byte(start + i*stride)
		}
	case c15plNonUTF8:
		body = make([]byte, 1+rng.Intn(24))
		for i := range body {
			body[i] = byte(0x80 + rng.Intn(0x80))
		}
	case c15plUTF8:
		ranges := [][2]rune{{0xa1, 0xff}, {0x391, 0x3c9}, {0x4e00, 0x9fa5}, {0x1f600, 0x1f64f}, {0x20, 0x7e}}
		var sb strings.Builder
		for i, n := 0, 1+rng.Intn(40); i < n; i++ {
			rg := ranges[rng.Intn(len(ranges))]
			sb.WriteRune(rg[0] + rune(rng.Intn(int(rg[1]-rg[0])+1)))
		}
		body = []byte(sb.String())
	case c15plPunct:
		body = make([]byte, 1+rng.Intn(40))
		for i := range body {
			body[i] = byte(0x20 + rng.Intn(0x7f-0x20))
		}
	case c15plControl:
		body = pick(1+rng.Intn(16), []byte{0x00, 0x09, 0x0a, 0x0d, 0x1b, 0x7f, 0x20})
	}
	m := c15pl{ID: id, Class: class, Data: id + "|" + string(body)}
	m.Len = len(m.Data)
	if h := body; len(h) > 0 {
		if len(h) > 24 {
			h = h[:24]
		}
		m.Head = hex.EncodeToString(h)
	}
	// a JSON string cannot carry bytes that are not UTF-8: those need the endpoint's base64 flag
	m.B64 = !utf8.ValidString(m.Data) || rng.Intn(2) == 0
	return m
}

// c15plIs: does a received payload carry the identity of message m?
func c15plIs(got string, m c15pl) bool {
	if m.ID == "" {
		return got == ""
	}
	n := len(m.ID)
	return len(got) >= n && got[:n] == m.ID && (len(got) == n || got[n] == '|')
}

// c15plKey: the identity a received payload carries ("" for the empty payload).
func c15plKey(got string) string {
	if k := strings.IndexByte(got, '|'); k >= 0 {
		return got[:k]
	}
	return got
}

// c15plShow renders arbitrary payload bytes for evidence (JSON cannot hold them literally).
func c15plShow(p string) string {
	printable := utf8.ValidString(p)
	for i := 0; printable && i < len(p); i++ {
		printable = p[i] >= 0x20 && p[i] != 0x7f
	}
	if printable && len(p) <= 80 {
		return p
	}
	id := c15plKey(p)
	if len(id) > 40 || id == p {
		id = ""
	}
	h := p[len(id):]
	if len(h) > 32 {
		h = h[:32]
	}
	return fmt.Sprintf("%s<%d bytes, hex after id: %s...>", id, len(p), hex.EncodeToString([]byte(h)))
}

// c15plBase64Shape: which features the standard base64 text of the payload has (the session
// keeps unacknowledged QoS1 payloads as base64 text: Message.B64Payload).
func c15plBase64Shape(p string) (plusOrSlash, padded bool) {
	s := base64.StdEncoding.EncodeToString([]byte(p))
	return strings.ContainsAny(s, "+/"), strings.HasSuffix(s, "=")
}

// c15httpPublish injects payload m through the real HTTP publish endpoint handler, either as the
// plain JSON string or base64-encoded with "base64":true (the endpoint's way to take binary).
func c15httpPublish(rb *c15rigBroker, topic string, qos int, m c15pl, distributed bool) int {
	data := HTTPJsonData{Topic: topic, QoS: qos, Payload: m.Data, Distributed: distributed}
	if m.B64 {
		data.Base64, data.Payload = true, base64.StdEncoding.EncodeToString([]byte(m.Data))
	}
	body, _ := json.Marshal(data)
	req := httptest.NewRequest(http.MethodPost, "/apis/v1"+rb.b.mqttAPIPrefix(mqttAPITopicPublishPrefix), bytes.NewReader(body))
	w := httptest.NewRecorder()
	rb.b.httpTopicsPublishHandler(w, req)
	return w.Code
}

// c15logView: a receive log with payloads rendered by c15plShow.
func c15logView(evts []c15rigEvt) []c15rigEvt {
	out := append([]c15rigEvt(nil), evts...)
	for i := range out {
		out[i].Payload = c15plShow(out[i].Payload)
	}
	return out
}

// c15unknownPayloads: PUBLISH packets in c's log that carry the identity of none of the messages
// published to it (known: identity -> published bytes).
func c15unknownPayloads(c *c15rigClient, known map[string]string) (out []string) {
	for _, e := range c.pubs() {
		if _, ok := known[c15plKey(e.Payload)]; !ok {
			out = append(out, e.Topic+" <- "+c15plShow(e.Payload))
		}
	}
	return
}

// c15subscribeStep is one SUBSCRIBE packet of one client.
type c15step struct {
	ci      int
	filters []string
	qoss    []byte
}

func TestVerif_C15_Delivery(t *testing.T) {
	c15rigSkipForReplay(t)
	r := kit.Start(t, "C15")
	defer r.Finish()
	r.Rule("subscriber populations (13 systematic: same filter with QoS patterns 01/10/11/00/011/101/01011, cross-client overlapping filters with +/#, one client with overlapping filters of different QoS; then seeded random: 2-5 clients x 1-2 filters from a 12-filter alphabet, one QoS per client) x 4 fresh broker instances per population with shuffled connect/SUBSCRIBE order (insertion order of the subscriber maps) x 5 rounds x every (topic, QoS 0/1) injected through httpTopicsPublishHandler in bursts of 1-8; each (population,message) is therefore repeated >= 20 times because the visiting order is a Go map iteration; payload content of every message drawn from the classes {unique ascii id alone; id|<nothing>; id|1-8 / 9-300 / 1-4 KB random bytes; id|all 256 byte values; id|bytes >= 0x80 that are not UTF-8; id|UTF-8 text (Latin-1, Greek, CJK, emoji); id|printable ASCII incl. quotes \\ < > & ? ~ + / =; id|NUL/TAB/LF/CR/ESC/DEL} plus the completely empty payload (at most once per receive log), injected either as the plain JSON string or with the endpoint's base64 flag (always for bytes that are not UTF-8); a message is recognised in a receive log by the id at the start of its payload and the received bytes of EVERY copy must equal the published bytes; distinct = (class, per-client (minQ,maxQ) pattern for the topic, message QoS, set of eligible clients that received it)")
	r.Assume("filters are well-formed, topics contain no '$' and no wildcard; bursts stay far below the 50-packet write queue so a QoS0 drop is never legitimate; clients acknowledge QoS1 immediately in this part; delivery to clients whose subscription QoS is below the message QoS is counted but not judged (the property sentence only says who MUST receive); 'the message is delivered' = a PUBLISH with its topic, its QoS and exactly its payload bytes arrives (payload sizes 0 B - 4.2 KB; a zero-length payload is a legal MQTT message); the id at the start of the payload is how the harness tells messages apart, a copy whose identity is unreadable is reported as a payload of no published message")
	sys := c15sysPops()
	nPops := r.N(60, 3000)
	const orders, rounds = 4, 5
	for i := 0; i < nPops; i++ {
		if !r.Mine(i) {
			continue
		}
		rng := r.CaseRand(i)
		var pop c15Pop
		if i < len(sys) {
			pop = sys[i]
		} else {
			pop = c15randPop(rng)
		}
		r.Case(i, pop)
		firsts := map[string]map[string]bool{} // topic/q -> first receivers seen
		for o := 0; o < orders; o++ {
			if !c15runInstance(r, rng, i, o, rounds, pop, firsts) {
				break
			}
		}
		multi := 0
		for _, s := range firsts {
			if len(s) > multi {
				multi = len(s)
			}
		}
		r.Max("max:distinct_first_receivers_of_one_message_kind", int64(multi))
		if multi >= 2 {
			r.Count("populations_with_several_distinct_first_receivers", 1)
		}
		if i < 2 {
			r.Sample(pop)
		}
	}
	r.Require("delivered_q0", 1)
	r.Require("delivered_q1", 1)
	r.Require("ping_barriers", 1)
	r.Require("messages_with_lower_qos_subscriber_present", 1)
	r.Require("populations_with_several_distinct_first_receivers", 1)
	for _, g := range []string{"ascii-id", "empty", "text", "binary"} {
		r.Require("delivered_identical_payload_kind:"+g, 1)
	}
}

// c15runInstance: one fresh broker, the population connected and subscribed in a shuffled
// order, `rounds` rounds of all (topic,qos) messages.  false = stop this population.
func c15runInstance(r *kit.Run, rng *rand.Rand, caseNo, ord, rounds int, pop c15Pop, firsts map[string]map[string]bool) bool {
	rb, err := c15rigNewBroker(c15rigBrokerOpts{})
	if err != nil {
		r.Inconclusive("broker did not start: " + err.Error())
		return false
	}
	clients := make([]*c15rigClient, len(pop.Clients))
	defer func() {
		for _, c := range clients {
			if c != nil {
				c.shutdown()
			}
		}
		rb.storesQuiesced()
		rb.close()
	}()
	// connect in shuffled order
	for _, ci := range rng.Perm(len(pop.Clients)) {
		c, err := c15rigDial(pop.Clients[ci].CID, rb.addr)
		if err != nil {
			r.Inconclusive("dial: " + err.Error())
			return false
		}
		clients[ci] = c
		if rc, st := c.connect(true, 0); st != "ok" || rc != packets.Accepted {
			r.Inconclusive(fmt.Sprintf("connect %s: %s rc=%d", c.cid, st, rc))
			return false
		}
	}
	// SUBSCRIBE steps: each client either one packet with all filters or one packet per filter
	var steps []c15step
	for ci, cs := range pop.Clients {
		if len(cs.Subs) > 1 && rng.Intn(2) == 0 {
			st := c15step{ci: ci}
			for _, k := range rng.Perm(len(cs.Subs)) {
				st.filters = append(st.filters, cs.Subs[k].Filter)
				st.qoss = append(st.qoss, cs.Subs[k].QoS)
			}
			steps = append(steps, st)
		} else {
			for _, s := range cs.Subs {
				steps = append(steps, c15step{ci: ci, filters: []string{s.Filter}, qoss: []byte{s.QoS}})
			}
		}
	}
	rng.Shuffle(len(steps), func(a, b int) { steps[a], steps[b] = steps[b], steps[a] })
	var orderDesc []string
	for _, st := range steps {
		orderDesc = append(orderDesc, pop.Clients[st.ci].CID+":"+strings.Join(st.filters, ","))
		if s := clients[st.ci].subscribe(st.filters, st.qoss); s != "ok" {
			r.Inconclusive("subscribe: " + s)
			return false
		}
	}
	seq := 0
	known := map[string]string{} // identity -> published bytes, of everything injected into this broker
	// at most one message per broker instance has the completely empty payload (it cannot carry an id)
	plr := r.Rand(fmt.Sprintf("delivery-empty/%d/%d", caseNo, ord))
	emptyAt := -1
	if plr.Intn(2) == 0 {
		emptyAt = plr.Intn(rounds * 2 * len(pop.Topics))
	}
	for round := 0; round < rounds; round++ {
		var msgs []c15msg
		for _, tp := range pop.Topics {
			for q := 0; q <= 1; q++ {
				class := ""
				if seq == emptyAt {
					class = c15plEmpty
				}
				m := c15msg{Topic: tp, QoS: q, PL: c15mkPayload(r, fmt.Sprintf("m%d.%d.%d.%d", caseNo, ord, round, seq), class), Dist: rng.Intn(2) == 0}
				known[m.PL.ID] = m.PL.Data
				msgs = append(msgs, m)
				seq++
			}
		}
		rng.Shuffle(len(msgs), func(a, b int) { msgs[a], msgs[b] = msgs[b], msgs[a] })
		for len(msgs) > 0 {
			n := 1 + rng.Intn(8)
			if n > len(msgs) {
				n = len(msgs)
			}
			burst := msgs[:n]
			msgs = msgs[n:]
			for _, m := range burst {
				if code := c15httpPublish(rb, m.Topic, m.QoS, m.PL, m.Dist); code != 200 {
					r.Violation(fmt.Sprintf("http-publish-rejected:%d%s", code, c15plSuffix(m.PL)), map[string]interface{}{"msg": m})
				}
			}
			if !rb.publishQuiesced() {
				r.Inconclusive("watchdog: publish goroutines did not finish")
				return false
			}
			for ci, c := range clients {
				switch st := c.ping(); st {
				case "ok":
					r.Count("ping_barriers", 1)
				case "watchdog":
					r.Inconclusive("watchdog: no PINGRESP for " + c.cid)
					return false
				default:
					r.Violation("subscriber-connection-ended-by-broker", map[string]interface{}{"population": pop, "client": pop.Clients[ci], "state": st, "subscribe_order": orderDesc})
					return false
				}
			}
			for _, m := range burst {
				c15judge(r, pop, clients, m, orderDesc, firsts, known)
			}
		}
	}
	// nothing but the published messages may have arrived
	for ci, c := range clients {
		if unk := c15unknownPayloads(c, known); len(unk) > 0 {
			r.Violation("delivered-payload-of-no-published-message", map[string]interface{}{"population": pop, "client": pop.Clients[ci], "received": unk})
		}
	}
	return true
}

func c15judge(r *kit.Run, pop c15Pop, clients []*c15rigClient, m c15msg, orderDesc []string, firsts map[string]map[string]bool, known map[string]string) {
	r.Eval(1)
	type st struct {
		CID         string `json:"cid"`
		MinQ        int    `json:"min_matching_sub_qos"`
		MaxQ        int    `json:"max_matching_sub_qos"`
		Owed        bool   `json:"owed"`
		Copies      int    `json:"copies"`
		at          time.Time
		BadTopicQoS bool   `json:"bad_topic_or_qos,omitempty"`
		BadPayload  string `json:"received_bytes_differ,omitempty"`
		Strange     string `json:"unidentifiable_publish_on_this_topic,omitempty"`
	}
	sts := make([]st, len(clients))
	lowerStrict, lowerMaybe := 0, 0 // other subscribers certainly / possibly reported below the message QoS
	for ci, cs := range pop.Clients {
		minQ, maxQ := c15elig(cs, m.Topic)
		s := st{CID: cs.CID, MinQ: minQ, MaxQ: maxQ, Owed: maxQ >= m.QoS}
		for _, e := range clients[ci].pubs() {
			if c15plIs(e.Payload, m.PL) {
				if s.Copies == 0 {
					s.at = e.At
				}
				s.Copies++
				if e.Topic != m.Topic || int(e.QoS) != m.QoS {
					s.BadTopicQoS = true
				}
				if e.Payload != m.PL.Data {
					s.BadPayload = c15plShow(e.Payload)
				}
			} else if _, ok := known[c15plKey(e.Payload)]; !ok && e.Topic == m.Topic && int(e.QoS) == m.QoS {
				s.Strange = c15plShow(e.Payload)
			}
		}
		if maxQ >= 0 && maxQ < m.QoS {
			lowerStrict++
		}
		if minQ >= 0 && minQ < m.QoS {
			lowerMaybe++
		}
		sts[ci] = s
	}
	if lowerStrict > 0 {
		r.Count("messages_with_lower_qos_subscriber_present", 1)
	}
	var pat, got []string
	owed, delivered := 0, 0
	var first string
	var firstAt time.Time
	for _, s := range sts {
		pat = append(pat, fmt.Sprintf("%d%d", s.MinQ+1, s.MaxQ+1))
		if s.Copies > 0 && (first == "" || s.at.Before(firstAt)) {
			first, firstAt = s.CID, s.at
		}
		switch {
		case s.Owed && s.Copies > 0:
			owed++
			delivered++
			got = append(got, s.CID)
			r.Count(fmt.Sprintf("delivered_q%d", m.QoS), 1)
			if s.BadTopicQoS {
				r.Violation("delivered-with-wrong-topic-or-qos", map[string]interface{}{"population": pop, "msg": m, "client": s})
			}
			if s.BadPayload != "" {
				r.Violation(fmt.Sprintf("delivered-payload-differs-from-published:q%d%s", m.QoS, c15plSuffix(m.PL)), map[string]interface{}{"population": pop, "msg": m, "client": s})
			} else {
				r.Count("delivered_identical_payload_kind:"+c15plGroup(m.PL.Class), 1)
			}
			if s.Copies > 1 {
				r.Count("duplicate_copies_seen", 1)
			}
		case s.Owed && s.Strange != "":
			// nothing with the identity of m arrived, but a PUBLISH of this topic and QoS whose payload
			// belongs to no published message did: the message was delivered with damaged content
			owed++
			r.Violation(fmt.Sprintf("delivered-payload-differs-from-published:q%d%s:identity-lost", m.QoS, c15plSuffix(m.PL)), map[string]interface{}{"population": pop, "subscribe_order": orderDesc, "msg": m, "client": s})
		case s.Owed:
			owed++
			self := s.MinQ < m.QoS // this client itself may be reported with its lower QoS
			others := lowerMaybe
			othersStrict := lowerStrict
			if self {
				others--
			}
			why := "all-matching-subscribers-eligible"
			switch {
			case othersStrict > 0 && !self:
				why = "lower-qos-subscriber-present"
			case self && others == 0:
				why = "same-client-mixed-qos-overlap"
			case self || others > 0:
				why = "mixed-qos-overlap-and-lower-qos-subscriber"
			}
			if why == "all-matching-subscribers-eligible" {
				why += c15plSuffix(m.PL) // the population does not explain the loss: name the payload kind
			}
			r.Violation(fmt.Sprintf("delivery-missed:q%d:%s", m.QoS, why), map[string]interface{}{
				"population": pop, "subscribe_order": orderDesc, "msg": m, "missed_by": s.CID, "clients": sts,
				"how_decided": "publish goroutines finished, then PINGREQ/PINGRESP on this connection: the message is not in the receive log",
			})
		case s.Copies > 0 && s.MaxQ >= 0:
			r.Count("copies_to_subscribers_below_message_qos(not judged)", 1)
		case s.Copies > 0:
			r.Count("copies_to_non_matching_clients(not judged, C14)", 1)
		}
	}
	if lowerStrict > 0 && m.QoS == 1 && owed > 0 {
		// inference of the visiting order from the delivery pattern (evidence only)
		if delivered == 0 {
			r.Count("first_visited_inferred:lower_qos_subscriber", 1)
		} else {
			r.Count("first_visited_inferred:eligible_subscriber", 1)
		}
	}
	if first != "" {
		k := fmt.Sprintf("%s/q%d", m.Topic, m.QoS)
		if firsts[k] == nil {
			firsts[k] = map[string]bool{}
		}
		firsts[k][first] = true
	}
	sort.Strings(got)
	if owed > 0 {
		r.Cover(fmt.Sprintf("delivery:%s/n%d/%s/q%d/got=%s", pop.Class, len(pop.Clients), strings.Join(pat, "."), m.QoS, strings.Join(got, "+")))
	} else {
		r.Count("messages_nobody_owed", 1)
	}
}

// ------------------------------------------------------------------ retransmission

type c15lane struct {
	Lane         int      `json:"lane"`
	Topic        string   `json:"topic"`
	K            int      `json:"messages"`
	AckDelay     []int    `json:"ack_after_extra_copies"`
	WrongAck     []bool   `json:"foreign_puback_first"`
	AutoSub      bool     `json:"second_subscriber_acking"`
	NeverSub     bool     `json:"third_subscriber_never_acking"`
	DoublePuback bool     `json:"puback_sent_twice"`
	Classes      []string `json:"payload_classes"`
}

// the payload kinds of the retransmission lanes, handed out in rotation so that every case
// (24 message slots) has each of them at least twice, at varying positions of the pending queue
var c15laneClasses = append([]string{c15plEmpty}, c15plClasses...)

func TestVerif_C15_Retransmit(t *testing.T) {
	c15rigSkipForReplay(t)
	r := kit.Start(t, "C15")
	defer r.Finish()
	r.Rule("per case one broker and 6 concurrent lanes; a lane = own topic, a primary QoS1 subscriber whose PUBACKs the harness controls (1-3 messages + a pacer message, acked in order after 1-3 retransmissions, optionally preceded by a PUBACK for a foreign id, optionally sent twice), optionally a second subscriber that acks at once and a third that never acks; the payload kinds (11 classes: completely empty, ascii id alone, id|nothing, id|random bytes 1-8 / 9-300 / 1-4 KB, id|all 256 byte values, id|non-UTF-8 bytes, id|UTF-8 text, id|printable ASCII, id|control bytes) are handed out in rotation so that every case has each kind at least twice at varying positions of the pending queue, injected as plain JSON string or with the endpoint's base64 flag; checks: same packet id/topic and byte-identical payload on every copy (first transmission and every retransmission, also for the never-acking subscriber), nothing received that is not a published message, >=1 spontaneous retransmission while unacked, no copy after PUBACK+PINGRESP while the next message is seen retransmitted >= 4 times (last message: 6 harness ticks), never-acking subscriber keeps being served; required observations: byte-identical retransmissions seen for every payload class, for payloads whose standard base64 text (the form Session.pending keeps them in) contains '+' or '/', is padded with '=' and is unpadded; distinct = (messages, ack delays, foreign-ack flags, population of the lane, payload class)")
	r.Assume("only the oldest unacknowledged message of a session is retransmitted (head of line), so retransmission of message i is demanded only once messages < i are acknowledged")
	n := r.N(8, 400)
	const lanes = 6
	for i := 0; i < n; i++ {
		if !r.Mine(i) {
			continue
		}
		rng := r.CaseRand(i)
		var ls []c15lane
		for l := 0; l < lanes; l++ {
			k := 1 + rng.Intn(3)
			ln := c15lane{Lane: l, Topic: fmt.Sprintf("r/%d", l), K: k, AutoSub: rng.Intn(2) == 0, NeverSub: rng.Intn(3) == 0, DoublePuback: rng.Intn(3) == 0}
			for j := 0; j <= k; j++ {
				ln.AckDelay = append(ln.AckDelay, 1+rng.Intn(3))
				ln.WrongAck = append(ln.WrongAck, rng.Intn(3) == 0)
				ln.Classes = append(ln.Classes, c15laneClasses[(i*lanes*4+l*4+j)%len(c15laneClasses)])
			}
			ls = append(ls, ln)
		}
		r.Case(i, ls)
		rb, err := c15rigNewBroker(c15rigBrokerOpts{})
		if err != nil {
			r.Inconclusive("broker did not start: " + err.Error())
			continue
		}
		var wg sync.WaitGroup
		for _, ln := range ls {
			wg.Add(1)
			go func(ln c15lane) {
				defer wg.Done()
				c15runLane(r, rb, i, ln)
			}(ln)
		}
		wg.Wait()
		rb.storesQuiesced()
		rb.close()
		if i == 0 {
			r.Sample(ls[0])
		}
	}
	r.Require("retransmissions_seen", 1)
	r.Require("acked_then_silent_windows", 1)
	r.Require("window_ticks_evidenced_by_next_message", 1)
	r.Require("never_acking_subscriber_still_served", 1)
	// payload content: a run that did not see retransmissions of these kinds says nothing about them
	for _, g := range []string{"ascii-id", "empty", "text", "binary"} {
		r.Require("retx_identical_payload_kind:"+g, 1)
	}
	for _, c := range c15laneClasses {
		r.Require("retx_identical_payload_class:"+c, 1)
	}
	r.Require("retx_identical_payload_whose_std_base64_has_plus_or_slash", 1)
	r.Require("retx_identical_payload_whose_std_base64_is_padded", 1)
	r.Require("retx_identical_payload_whose_std_base64_is_unpadded", 1)
}

func c15runLane(r *kit.Run, rb *c15rigBroker, caseNo int, ln c15lane) {
	r.Eval(1)
	pfx := fmt.Sprintf("c%d.l%d", caseNo, ln.Lane)
	mk := func(role string, auto bool) *c15rigClient {
		c, err := c15rigDial(pfx+"."+role, rb.addr)
		if err != nil {
			r.Inconclusive("dial: " + err.Error())
			return nil
		}
		c.autoAck.Store(auto)
		if rc, st := c.connect(true, 0); st != "ok" || rc != 0 {
			r.Inconclusive("connect: " + st)
			c.close()
			return nil
		}
		if st := c.subscribe([]string{ln.Topic}, []byte{1}); st != "ok" {
			r.Inconclusive("subscribe: " + st)
			c.close()
			return nil
		}
		return c
	}
	p := mk("p", false)
	if p == nil {
		return
	}
	defer p.shutdown()
	var never *c15rigClient
	if ln.AutoSub {
		if a := mk("a", true); a != nil {
			defer a.shutdown()
		}
	}
	if ln.NeverSub {
		if never = mk("n", false); never != nil {
			defer never.shutdown()
		}
	}
	viol := func(sig string, extra map[string]interface{}) {
		extra["lane"] = ln
		extra["primary_log"] = c15logView(p.events())
		r.Violation(sig, extra)
	}
	// inject K+1 messages one after the other (so the session's pending order is the publish order)
	msgs := make([]c15pl, ln.K+1)
	known := map[string]string{}
	for j := range msgs {
		msgs[j] = c15mkPayload(r, fmt.Sprintf("%s.m%d", pfx, j), ln.Classes[j])
		known[msgs[j].ID] = msgs[j].Data
		if code := c15httpPublish(rb, ln.Topic, 1, msgs[j], true); code != 200 {
			viol(fmt.Sprintf("http-publish-rejected:%d%s", code, c15plSuffix(msgs[j])), map[string]interface{}{"msg": msgs[j]})
			return
		}
		if !rb.publishQuiesced() {
			r.Inconclusive("watchdog: publish goroutines did not finish")
			return
		}
	}
	barrier := func(c *c15rigClient) bool {
		switch st := c.ping(); st {
		case "ok":
			return true
		case "watchdog":
			r.Inconclusive("watchdog: no PINGRESP")
		default:
			viol("subscriber-connection-ended-by-broker", map[string]interface{}{"state": st, "client": c.cid})
		}
		return false
	}
	// copies: the PUBLISH packets in c's log that carry the identity of m
	copies := func(c *c15rigClient, m c15pl) (n int, ids []uint16) {
		for _, e := range c.pubs() {
			if c15plIs(e.Payload, m) {
				n++
				ids = append(ids, e.MsgID)
			}
		}
		return
	}
	// strangers: a copy whose identity got lost shows up as a payload of no published message
	strangers := func(c *c15rigClient) bool {
		if unk := c15unknownPayloads(c, known); len(unk) > 0 {
			viol("delivered-payload-of-no-published-message", map[string]interface{}{"client": c.cid, "received": unk})
			return true
		}
		return false
	}
	if !barrier(p) {
		return
	}
	if strangers(p) {
		return
	}
	ids := make([]uint16, len(msgs))
	for j, m := range msgs {
		n, got := copies(p, m)
		if n == 0 {
			viol("delivery-missed:q1:all-matching-subscribers-eligible"+c15plSuffix(m), map[string]interface{}{"msg": m})
			return
		}
		ids[j] = got[0]
		for k := 0; k < j; k++ {
			if ids[k] == ids[j] {
				viol("qos1-packet-id-reused-while-pending", map[string]interface{}{"msgs": []c15pl{msgs[k], m}, "id": ids[j]})
				return
			}
		}
	}
	// waitCopies: until m has at least `want` copies; bound = harness ticks, each followed by a PING round trip
	waitCopies := func(m c15pl, want int) (bool, bool) {
		alive := true
		ok := c15rigTicks(c15rigMaxTicks, func(int) bool {
			if !barrier(p) {
				alive = false
				return true
			}
			n, _ := copies(p, m)
			return n >= want
		})
		return ok && alive, alive
	}
	// sameAll: every copy of m so far (first transmission and retransmissions) has the packet id,
	// topic, QoS of the first one and exactly the published bytes; "" = yes, else what differs
	sameAll := func(c *c15rigClient, m c15pl, id uint16) string {
		first := true
		for _, e := range c.pubs() {
			if !c15plIs(e.Payload, m) {
				continue
			}
			which := "retransmission-differs-from-original"
			if first {
				which = "delivered-payload-differs-from-published:q1"
			}
			if e.Payload != m.Data {
				if first {
					return which + c15plSuffix(m)
				}
				return which + ":payload-bytes" + c15plSuffix(m)
			}
			if e.MsgID != id || e.Topic != ln.Topic || e.QoS != 1 {
				if first {
					return "delivered-with-wrong-topic-or-qos"
				}
				return which
			}
			first = false
		}
		return ""
	}
	for j, m := range msgs {
		want := 1 + ln.AckDelay[j]
		ok, alive := waitCopies(m, want)
		if !alive {
			return
		}
		if strangers(p) {
			return
		}
		if !ok {
			n, _ := copies(p, m)
			plusSlash, padded := c15plBase64Shape(m.Data)
			viol("qos1-not-retransmitted-while-unacked"+c15plSuffix(m), map[string]interface{}{"msg": m, "copies": n, "wanted": want, "harness_ticks_of_200ms_each_followed_by_ping": c15rigMaxTicks, "position_in_pending_queue": j,
				"std_base64_of_payload_has_plus_or_slash": plusSlash, "std_base64_of_payload_is_padded": padded})
			return
		}
		if what := sameAll(p, m, ids[j]); what != "" {
			viol(what, map[string]interface{}{"msg": m, "id": ids[j]})
			return
		}
		if nNow, _ := copies(p, m); nNow > 1 {
			r.Count("retransmissions_seen", int64(nNow-1))
			// the retransmitted copies were byte-identical to what was published: which content kinds
			r.Count("retx_identical_payload_kind:"+c15plGroup(m.Class), 1)
			r.Count("retx_identical_payload_class:"+m.Class, 1)
			plusSlash, padded := c15plBase64Shape(m.Data)
			if plusSlash {
				r.Count("retx_identical_payload_whose_std_base64_has_plus_or_slash", 1)
			}
			if padded {
				r.Count("retx_identical_payload_whose_std_base64_is_padded", 1)
			} else {
				r.Count("retx_identical_payload_whose_std_base64_is_unpadded", 1)
			}
		}
		if ln.WrongAck[j] {
			foreign := ids[j] ^ 0x4000
			p.puback(foreign)
			if !barrier(p) {
				return
			}
			n0, _ := copies(p, m)
			ok, alive := waitCopies(m, n0+1)
			if !alive {
				return
			}
			if !ok {
				viol("qos1-retransmission-stopped-by-foreign-puback", map[string]interface{}{"msg": m, "id": ids[j], "foreign_id": foreign})
				return
			}
			r.Count("foreign_puback_ignored", 1)
		}
		p.puback(ids[j])
		if ln.DoublePuback {
			p.puback(ids[j])
		}
		if !barrier(p) {
			return
		}
		n0, _ := copies(p, m)
		// silent window: no copy of m any more
		if j+1 < len(msgs) {
			// the next message is now the oldest unacknowledged one: wait until it has been
			// retransmitted 4 more times = 4 resend ticks have certainly happened
			nx := msgs[j+1]
			b0, _ := copies(p, nx)
			alive, again := true, false
			ok := c15rigTicks(c15rigMaxTicks, func(int) bool {
				if !barrier(p) {
					alive = false
					return true
				}
				if n, _ := copies(p, m); n > n0 { // the acknowledged message came again: no need to wait further
					again = true
					return true
				}
				n, _ := copies(p, nx)
				return n >= b0+4
			})
			if !alive {
				return
			}
			if strangers(p) {
				return
			}
			if !ok && !again {
				n, _ := copies(p, nx)
				plusSlash, padded := c15plBase64Shape(nx.Data)
				viol("qos1-not-retransmitted-while-unacked"+c15plSuffix(nx), map[string]interface{}{"msg": nx, "copies": n, "wanted": b0 + 4, "position_in_pending_queue": j + 1, "after_ack_of": m,
					"std_base64_of_payload_has_plus_or_slash": plusSlash, "std_base64_of_payload_is_padded": padded})
				return
			}
			r.Count("window_ticks_evidenced_by_next_message", 1)
		} else {
			alive := true
			c15rigTicks(6, func(int) bool {
				alive = barrier(p)
				return !alive
			})
			if !alive {
				return
			}
		}
		n1, _ := copies(p, m)
		if n1 > n0 {
			viol("qos1-retransmitted-after-puback", map[string]interface{}{"msg": m, "id": ids[j], "copies_at_pingresp_after_puback": n0, "copies_later": n1})
			return
		}
		if what := sameAll(p, m, ids[j]); what != "" {
			viol(what, map[string]interface{}{"msg": m, "id": ids[j]})
			return
		}
		r.Count("acked_then_silent_windows", 1)
		r.Cover(fmt.Sprintf("retx:k%d/pos%d/delay%d/foreign%v/double%v/auto%v/never%v/%s", ln.K, j, ln.AckDelay[j], ln.WrongAck[j], ln.DoublePuback, ln.AutoSub, ln.NeverSub, m.Class))
	}
	if never != nil {
		// it never acknowledged anything: its oldest message must still be retransmitted
		if st := never.ping(); st == "ok" {
			n, _ := copies(never, msgs[0])
			if n < 2 {
				c15rigTicks(c15rigMaxTicks, func(int) bool {
					if never.ping() != "ok" {
						return true
					}
					n, _ = copies(never, msgs[0])
					return n >= 2
				})
			}
			_, nids := copies(never, msgs[0])
			switch {
			case n < 2 && len(c15unknownPayloads(never, known)) > 0:
				viol("delivered-payload-of-no-published-message", map[string]interface{}{"client": never.cid, "received": c15unknownPayloads(never, known)})
			case n < 2:
				viol("qos1-not-retransmitted-while-unacked"+c15plSuffix(msgs[0]), map[string]interface{}{"msg": msgs[0], "copies": n, "client": never.cid, "position_in_pending_queue": 0})
			default:
				if what := sameAll(never, msgs[0], nids[0]); what != "" {
					viol(what, map[string]interface{}{"msg": msgs[0], "client": never.cid, "log": c15logView(never.events())})
				} else {
					r.Count("never_acking_subscriber_still_served", 1)
				}
			}
		}
	}
}

// ------------------------------------------------------------------ client -> broker

type c15pubPlan struct {
	Limiter bool       `json:"publish_limiter"`
	Clients [][]c15out `json:"clients"`
}

type c15out struct {
	Topic   string `json:"topic"`
	QoS     byte   `json:"qos"`
	ID      uint16 `json:"id"`
	Payload string `json:"-"`       // the bytes sent
	Show    string `json:"payload"` // c15plShow(Payload)
	Class   string `json:"payload_class"`
	Dup     bool   `json:"dup"`
}

// c15mkOut fills the payload fields of a client PUBLISH from the payload classes; empty = the
// completely empty payload (at most one per publishing client: the pipeline record of it is
// recognised by being empty).
func c15mkOut(r *kit.Run, o c15out, id string, empty bool) c15out {
	class := ""
	if empty {
		class = c15plEmpty
	}
	m := c15mkPayload(r, id, class)
	o.Payload, o.Show, o.Class = m.Data, c15plShow(m.Data), m.Class
	return o
}

func TestVerif_C15_ClientPublish(t *testing.T) {
	c15rigSkipForReplay(t)
	r := kit.Start(t, "C15")
	defer r.Finish()
	r.Rule("3 raw clients publish 12-40 packets each concurrently and back to back (QoS0/QoS1 mix, unique payloads from the payload content classes of the Delivery part: ascii id alone, id|binary of 0 B - 4 KB incl. all byte values and non-UTF-8 bytes, id|UTF-8 / printable / control text, at most one completely empty payload per client; some packets re-sent with the same id and DUP), then PINGREQ/PINGRESP; the bytes the pipeline is handed must be the bytes of a packet that client sent; without limiter: recording pipeline calls per packet == packets sent, PUBACKs per id == QoS1 packets sent with that id, nothing else acknowledged; with a clientPublishLimit: for every QoS1 id #PUBACK == #pipeline calls <= #sent; distinct = (limiter, qos, dup, outcome)")
	r.Assume("the recording pipeline never drops or disconnects")
	n := r.N(12, 400)
	for i := 0; i < n; i++ {
		if !r.Mine(i) {
			continue
		}
		rng := r.CaseRand(i)
		plan := c15pubPlan{Limiter: i%3 == 2}
		for c := 0; c < 3; c++ {
			var outs []c15out
			cnt := 12 + rng.Intn(29)
			id := uint16(1 + rng.Intn(60000))
			emptyAt := r.Rand(fmt.Sprintf("clientpublish-empty/%d/%d", i, c)).Intn(2 * cnt) // >= cnt: none
			for k := 0; k < cnt; k++ {
				o := c15mkOut(r, c15out{Topic: fmt.Sprintf("up/%d/%d", c, rng.Intn(3)), QoS: byte(rng.Intn(2))}, fmt.Sprintf("u%d.%d.%d", i, c, k), k == emptyAt)
				if o.QoS == 1 {
					id++
					if id == 0 {
						id = 1
					}
					o.ID = id
				}
				outs = append(outs, o)
				if o.QoS == 1 && rng.Intn(6) == 0 { // re-send of the same packet (client did not see the PUBACK in time)
					d := o
					d.Dup = true
					outs = append(outs, d)
					k++
				}
			}
			plan.Clients = append(plan.Clients, outs)
		}
		r.Case(i, plan)
		opts := c15rigBrokerOpts{}
		if plan.Limiter {
			opts.publishLimit = &RateLimit{RequestRate: 7, TimePeriod: 1000}
		}
		rb, err := c15rigNewBroker(opts)
		if err != nil {
			r.Inconclusive("broker did not start: " + err.Error())
			continue
		}
		var wg sync.WaitGroup
		for c := range plan.Clients {
			wg.Add(1)
			go func(c int) {
				defer wg.Done()
				c15runPublisher(r, rb, fmt.Sprintf("pub%d.%d", i, c), plan.Limiter, plan.Clients[c])
			}(c)
		}
		wg.Wait()
		rb.storesQuiesced()
		rb.close()
		if i == 0 {
			r.Sample(map[string]interface{}{"limiter": plan.Limiter, "first_client_first_packets": plan.Clients[0][:4]})
		}
	}
	r.Require("qos1_publishes_acked", 1)
	r.Require("qos0_publishes_recorded", 1)
	r.Require("dup_resends", 1)
	r.Require("limiter_dropped", 1)
	r.Require("limiter_passed", 1)
	for _, g := range []string{"ascii-id", "empty", "text", "binary"} {
		r.Require("client_publish_payload_identical_in_pipeline:"+g, 1)
	}
}

func c15runPublisher(r *kit.Run, rb *c15rigBroker, cid string, limiter bool, outs []c15out) {
	c, err := c15rigDial(cid, rb.addr)
	if err != nil {
		r.Inconclusive("dial: " + err.Error())
		return
	}
	defer c.shutdown()
	if rc, st := c.connect(true, 0); st != "ok" || rc != 0 {
		r.Inconclusive("connect: " + st)
		return
	}
	for _, o := range outs {
		if err := c.publish(o.Topic, o.QoS, o.ID, o.Payload, o.Dup); err != nil {
			r.Inconclusive("write: " + err.Error())
			return
		}
	}
	switch st := c.ping(); st {
	case "ok":
	case "watchdog":
		r.Inconclusive("watchdog: no PINGRESP for publisher")
		return
	default:
		r.Violation("publisher-connection-ended-by-broker", map[string]interface{}{"cid": cid, "state": st, "sent": outs})
		return
	}
	c15judgePublisher(r, rb, c, cid, limiter, outs, nil)
}

// c15judgePublisher compares what client c sent (outs) with the calls the recording pipeline
// saw for it and with the PUBACKs in c's receive log.  Precondition: a PINGREQ/PINGRESP round
// trip on c after the last packet of outs.  ctx (may be nil) names the situation a packet was
// sent in; it becomes part of the signature of a PUBACK verdict about that packet.
func c15judgePublisher(r *kit.Run, rb *c15rigBroker, c *c15rigClient, cid string, limiter bool, outs []c15out, ctx func(o c15out) string) {
	r.Eval(len(outs))
	sent := map[string]int{}   // payload -> packets sent
	sentID := map[uint16]int{} // id -> QoS1 packets sent
	byPayload := map[string]c15out{}
	for _, o := range outs {
		sent[o.Payload]++
		byPayload[o.Payload] = o
		if o.QoS == 1 {
			sentID[o.ID]++
		}
		if o.Dup {
			r.Count("dup_resends", 1)
		}
	}
	calls := map[string]int{}
	callsID := map[uint16]int{}
	for _, pc := range rb.pipe.snapshot() {
		if pc.CID != cid {
			continue
		}
		o, ok := byPayload[pc.Payload]
		if !ok || o.Topic != pc.Topic || o.QoS != pc.QoS || (o.QoS == 1 && o.ID != pc.MsgID) {
			sig := "client-publish:pipeline-saw-different-packet"
			if !ok {
				sig += ":payload-of-no-packet-sent" // the bytes handed to the pipeline are not the bytes of any PUBLISH of this client
			}
			pc.Payload = c15plShow(pc.Payload)
			r.Violation(sig, map[string]interface{}{"cid": cid, "pipeline": pc, "sent": o})
			continue
		}
		calls[pc.Payload]++
		r.Count("client_publish_payload_identical_in_pipeline:"+c15plGroup(o.Class), 1)
		if pc.QoS == 1 {
			callsID[pc.MsgID]++
		}
	}
	acks := map[uint16]int{}
	for _, e := range c.events() {
		if e.Type == packets.Puback {
			acks[e.MsgID]++
		}
	}
	detail := func(extra map[string]interface{}) map[string]interface{} {
		extra["cid"], extra["limiter"], extra["sent"] = cid, limiter, outs
		return extra
	}
	for id := range acks {
		if sentID[id] == 0 {
			r.Violation("client-publish:puback-with-id-never-sent", detail(map[string]interface{}{"id": id}))
		}
	}
	for pl, n := range sent {
		o := byPayload[pl]
		got := calls[pl]
		if limiter {
			if got > n {
				r.Violation(fmt.Sprintf("client-publish:limited:pipeline-calls-more-than-packets:q%d", o.QoS), detail(map[string]interface{}{"payload": pl, "sent": n, "pipeline_calls": got}))
			}
			if got < n {
				r.Count("limiter_dropped", int64(n-got))
			}
			if got > 0 {
				r.Count("limiter_passed", int64(got))
			}
		} else if got != n {
			k := "fewer"
			if got > n {
				k = "more"
			}
			r.Violation(fmt.Sprintf("client-publish:pipeline-calls-%s-than-packets:q%d", k, o.QoS), detail(map[string]interface{}{"payload": pl, "packets_sent": n, "pipeline_calls": got}))
		}
		if o.QoS == 0 && got > 0 {
			r.Count("qos0_publishes_recorded", int64(got))
		}
		r.Cover(fmt.Sprintf("clientpublish:limiter=%v/q%d/dup=%v/calls=%d/of=%d", limiter, o.QoS, n > 1, got, n))
	}
	byID := map[uint16]c15out{}
	for _, o := range outs {
		if o.QoS == 1 && !o.Dup {
			byID[o.ID] = o
		}
	}
	for id, n := range sentID {
		a, want := acks[id], n
		if limiter {
			want = callsID[id]
		}
		where := ""
		if ctx != nil {
			where = ctx(byID[id])
		}
		if a != want {
			k := "missing"
			if a > want {
				k = "extra"
			}
			r.Violation(fmt.Sprintf("client-publish:puback-%s:limiter=%v%s", k, limiter, where), detail(map[string]interface{}{"id": id, "qos1_packets_sent_with_id": n, "pipeline_calls": callsID[id], "pubacks": a}))
		} else {
			r.Count("qos1_publishes_acked"+where, int64(a))
		}
	}
}

// ------------------------------------------------------------------ back-pressure

// c15gate lets the harness stop and resume the socket reads of one raw client (a client that
// does not read makes the broker's write loop block on the socket, so the connection's
// 50-packet outbound queue fills).
type c15gate struct {
	mu   sync.Mutex
	open bool
	ch   chan struct{}
}

func c15newGate() *c15gate { return &c15gate{open: true} }

func (g *c15gate) set(open bool) {
	g.mu.Lock()
	defer g.mu.Unlock()
	if open == g.open {
		return
	}
	g.open = open
	if open {
		close(g.ch)
	} else {
		g.ch = make(chan struct{})
	}
}

func (g *c15gate) wait() {
	for {
		g.mu.Lock()
		if g.open {
			g.mu.Unlock()
			return
		}
		ch := g.ch
		g.mu.Unlock()
		<-ch
	}
}

type c15gatedConn struct {
	net.Conn
	g *c15gate
}

func (c *c15gatedConn) Read(b []byte) (int, error) {
	c.g.wait()
	return c.Conn.Read(b)
}

func (c *c15gatedConn) Close() error {
	err := c.Conn.Close()
	c.g.set(true) // never leave the reader goroutine parked at the gate
	return err
}

// c15dialGated is c15rigDial with a read gate and a fixed (not auto-tuned) receive buffer, so
// that the amount of data needed to stall the broker's write loop stays bounded.
func c15dialGated(cid, addr string, rcvbuf int) (*c15rigClient, *c15gate, error) {
	var conn net.Conn
	var err error
	for try := 0; try < 5; try++ {
		conn, err = net.DialTimeout("tcp", addr, 20*time.Second)
		if err == nil {
			break
		}
		time.Sleep(50 * time.Millisecond)
	}
	if err != nil {
		return nil, nil, err
	}
	if tc, ok := conn.(*net.TCPConn); ok && rcvbuf > 0 {
		tc.SetReadBuffer(rcvbuf)
	}
	g := c15newGate()
	c := &c15rigClient{cid: cid, conn: &c15gatedConn{Conn: conn, g: g}, wake: make(chan struct{}), nextID: 1, rdone: make(chan struct{})}
	c.autoAck.Store(true)
	go c.readLoop()
	return c, g, nil
}

type c15bpRound struct {
	OwnPubs     []c15out `json:"slow_client_publishes_while_its_queue_is_full"`
	FastPubs    []c15out `json:"fast_client_publishes_during_flood"`
	Q1Inject    int      `json:"qos1_injected_while_queue_full"`
	InjectFirst bool     `json:"qos1_injected_before_own_publishes"`
}

type c15bpPlan struct {
	SlowSubQoS byte         `json:"slow_client_sub_qos"`
	FastSubQoS byte         `json:"fast_client_sub_qos"`
	PayloadKB  int          `json:"flood_payload_kb"`
	RcvBufKB   int          `json:"slow_client_rcvbuf_kb"`
	SndBufKB   int          `json:"broker_side_sndbuf_kb_of_slow_client_connection"`
	Rounds     []c15bpRound `json:"rounds"`
	BinFlood   bool         `json:"flood_payload_is_random_bytes"`
}

const (
	c15bpTopic    = "bp/flood"
	c15bpMaxFlood = 1200 // bound of one QoS0 burst (messages)
	c15bpBatch    = 10
)

func TestVerif_C15_BackPressure(t *testing.T) {
	c15rigSkipForReplay(t)
	r := kit.Start(t, "C15")
	defer r.Finish()
	r.Rule("back-pressure: per case one broker, a SLOW client (subscribed to the burst topic with QoS 0/1, also a publisher; fixed 256/1024 KB receive buffer, fixed 128/512 KB kernel send buffer on the broker's side of its connection) and a FAST client (subscribed to the same topic with QoS 0/1, also a publisher); 1-2 rounds of: the slow client stops reading its socket, a bounded QoS0 burst (batches of 10 messages of 16/64 KB, 'x' padding or random bytes sent with the endpoint's base64 flag, through httpTopicsPublishHandler, at most 1200) is injected until the slow client's outbound queue (writeCh, 50 slots) is observed full and stays full while nothing is injected, the fast client publishes 2-6 packets during the burst, then while the queue is full the slow client sends 2-8 PUBLISH packets (QoS0/QoS1 mix, >= 1 QoS1, some re-sent with DUP) and 0-4 QoS1 messages are injected for the burst topic (before or after the client's own packets), then the slow client reads again; verdicts only after it resumed: publish goroutines finished + two PINGREQ/PINGRESP round trips per client, then every QoS1 PUBLISH of either client has exactly one PUBACK per packet and one pipeline call per packet, and every QoS1 message injected while the queue was full (and one injected after the drain) is in the log of every client subscribed with QoS1 (a copy that only comes with a retransmission within 60 resend ticks is accepted) with exactly the published bytes; payloads of the clients' own packets and of the injected QoS1 messages rotate through the payload content classes of the Delivery part (binary incl. all byte values / non-UTF-8, text, empty body, ascii id); QoS0 copies of the burst are counted and their absence is never judged (the queue IS full), a copy that does arrive must have the published bytes; distinct = (sub QoS of both clients, payload size, own QoS1/QoS0 packets, injected QoS1, order, round, queue observed full)")
	r.Assume("a client that stops reading resumes later (the unchanged broker blocks the connection's read loop, the resend ticker and the delivering goroutine on the full queue until then); every wait has a 60 s watchdog whose firing is inconclusive; fixed socket buffers are an environment knob (like net.ipv4.tcp_rmem/wmem) that keeps the burst needed to stall the write loop bounded; 'queue full when the PUBLISH was processed' is an observation (len(writeCh)==cap before the packet was sent, with no injection in progress, and again after the pipeline recorded the packet): it labels the signature and feeds Require, it is not part of a verdict")
	n := r.N(8, 240)
	for i := 0; i < n; i++ {
		if !r.Mine(i) {
			continue
		}
		rng := r.CaseRand(i)
		plan := c15bpPlan{SlowSubQoS: byte(i % 2), FastSubQoS: byte((i / 2) % 2), PayloadKB: []int{16, 64}[rng.Intn(2)], RcvBufKB: []int{256, 1024}[rng.Intn(2)], SndBufKB: []int{128, 512}[rng.Intn(2)]}
		id := uint16(1 + rng.Intn(50000))
		mkPubs := func(who string, round, cnt int, needQ1 bool) []c15out {
			var outs []c15out
			for k := 0; k < cnt; k++ {
				o := c15mkOut(r, c15out{Topic: fmt.Sprintf("up/%s/%d", who, rng.Intn(3)), QoS: byte(rng.Intn(2))}, fmt.Sprintf("bp%d.%s.%d.%d", i, who, round, k), false)
				if needQ1 && k == cnt-1 {
					has := false
					for _, p := range outs {
						has = has || p.QoS == 1
					}
					if !has {
						o.QoS = 1
					}
				}
				if o.QoS == 1 {
					id++
					o.ID = id
				}
				outs = append(outs, o)
				if o.QoS == 1 && rng.Intn(4) == 0 {
					d := o
					d.Dup = true
					outs = append(outs, d)
				}
			}
			return outs
		}
		for round, nr := 0, 1+rng.Intn(2); round < nr; round++ {
			plan.Rounds = append(plan.Rounds, c15bpRound{
				OwnPubs:     mkPubs("slow", round, 2+rng.Intn(7), true),
				FastPubs:    mkPubs("fast", round, 2+rng.Intn(5), true),
				Q1Inject:    rng.Intn(5),
				InjectFirst: rng.Intn(2) == 0,
			})
		}
		plan.BinFlood = r.Rand(fmt.Sprintf("bp-flood/%d", i)).Intn(2) == 0
		r.Case(i, plan)
		c15runBackPressure(r, i, plan)
		if i == 0 {
			r.Sample(plan)
		}
	}
	r.Require("bp_rounds_outbound_queue_full", 1)
	r.Require("bp_own_qos1_publish_processed_while_queue_full", 1)
	r.Require("bp_own_qos1_publishes_judged", 1)
	r.Require("bp_qos1_deliveries_to_slow_client_judged", 1)
	r.Require("bp_qos1_deliveries_to_fast_client_judged", 1)
	r.Require("bp_qos1_delivered_identical_payload_kind:binary", 1)
	r.Require("bp_qos1_delivered_identical_payload_kind:text", 1)
}

func c15runBackPressure(r *kit.Run, caseNo int, plan c15bpPlan) {
	rb, err := c15rigNewBroker(c15rigBrokerOpts{})
	if err != nil {
		r.Inconclusive("broker did not start: " + err.Error())
		return
	}
	defer func() {
		rb.storesQuiesced()
		rb.close()
	}()
	slowCID, fastCID := fmt.Sprintf("bp%d.slow", caseNo), fmt.Sprintf("bp%d.fast", caseNo)
	slow, gate, err := c15dialGated(slowCID, rb.addr, plan.RcvBufKB*1024)
	if err != nil {
		r.Inconclusive("dial: " + err.Error())
		return
	}
	defer func() {
		gate.set(true)
		slow.shutdown()
	}()
	fast, err := c15rigDial(fastCID, rb.addr)
	if err != nil {
		r.Inconclusive("dial: " + err.Error())
		return
	}
	defer fast.shutdown()
	for _, x := range []struct {
		c *c15rigClient
		q byte
	}{{slow, plan.SlowSubQoS}, {fast, plan.FastSubQoS}} {
		if rc, st := x.c.connect(true, 0); st != "ok" || rc != packets.Accepted {
			r.Inconclusive(fmt.Sprintf("connect %s: %s rc=%d", x.c.cid, st, rc))
			return
		}
		if st := x.c.subscribe([]string{c15bpTopic}, []byte{x.q}); st != "ok" {
			r.Inconclusive("subscribe: " + st)
			return
		}
	}
	cl, sess := rb.registered(slowCID)
	if cl == nil || sess == nil {
		r.Inconclusive("slow client not registered")
		return
	}
	if tc, ok := cl.conn.(*net.TCPConn); ok && plan.SndBufKB > 0 {
		// environment knob (like net.ipv4.tcp_wmem): a fixed kernel send buffer on the broker's side
		// of this connection, so that a bounded burst is enough to stall the write loop
		tc.SetWriteBuffer(plan.SndBufKB * 1024)
	}
	full := func() bool { return len(cl.writeCh) == cap(cl.writeCh) }
	pendingOfSlow := func() int {
		sess.Lock()
		defer sess.Unlock()
		return len(sess.pending)
	}
	// barrier: two PING round trips; after the second one the broker has also processed every
	// PUBACK the client wrote for what it had received before the first PINGRESP.
	barrier := func(c *c15rigClient) bool {
		for k := 0; k < 2; k++ {
			switch st := c.ping(); st {
			case "ok":
				r.Count("ping_barriers", 1)
			case "watchdog":
				r.Inconclusive("watchdog: no PINGRESP for " + c.cid)
				return false
			default:
				r.Violation("subscriber-connection-ended-by-broker", map[string]interface{}{"plan": plan, "client": c.cid, "state": st, "part": "back-pressure"})
				return false
			}
		}
		return true
	}
	pad := strings.Repeat("x", plan.PayloadKB*1024)
	if plan.BinFlood {
		b := make([]byte, plan.PayloadKB*1024)
		r.Rand(fmt.Sprintf("bp-flood-bytes/%d", caseNo)).Read(b)
		pad = string(b)
	}
	where := map[uint16]string{} // packet id of an own QoS1 PUBLISH -> situation it was sent in
	var slowOuts, fastOuts []c15out
	type inj struct {
		pl  c15pl
		sig string
	}
	known := map[string]string{} // identity -> published bytes of the QoS1 messages injected for the burst topic
	judgeDeliveries := func(msgs []inj) {
		for _, m := range msgs {
			for _, x := range []struct {
				c    *c15rigClient
				q    byte
				slow bool
			}{{slow, plan.SlowSubQoS, true}, {fast, plan.FastSubQoS, false}} {
				if x.q < 1 {
					continue
				}
				r.Eval(1)
				who := "fast"
				if x.slow {
					who = "slow"
				}
				r.Count("bp_qos1_deliveries_to_"+who+"_client_judged", 1)
				n, bad, altered := 0, false, ""
				look := func() {
					n, bad, altered = 0, false, ""
					for _, e := range x.c.pubs() {
						if c15plIs(e.Payload, m.pl) {
							n++
							bad = bad || e.Topic != c15bpTopic || e.QoS != 1
							if e.Payload != m.pl.Data {
								altered = c15plShow(e.Payload)
							}
						}
					}
				}
				look()
				if n == 0 {
					// not in the first transmission: the property is also satisfied by a copy that
					// comes with the session's retransmission (this client acknowledges at once, so
					// the head of its pending queue advances); bound = harness resend ticks
					c15rigTicks(c15rigMaxTicks, func(int) bool {
						if x.c.ping() != "ok" {
							return true
						}
						look()
						return n > 0
					})
					if n > 0 {
						r.Count("bp_qos1_delivered_only_by_retransmission", 1)
					}
				}
				sig := m.sig
				if !x.slow && strings.HasSuffix(sig, "subscriber-outbound-queue-full") {
					sig = strings.TrimSuffix(sig, "subscriber-outbound-queue-full") + "other-subscriber-outbound-queue-full"
				}
				switch {
				case n == 0:
					r.Violation(sig+c15plSuffix(m.pl), map[string]interface{}{"plan": plan, "msg": m.pl, "missed_by": x.c.cid,
						"how_decided": "slow client reading again, publish goroutines finished, two PINGREQ/PINGRESP round trips on this connection, then 60 harness resend ticks each followed by a PING round trip: the message is not in the receive log"})
				case bad:
					r.Violation("delivered-with-wrong-topic-or-qos", map[string]interface{}{"plan": plan, "msg": m.pl, "client": x.c.cid})
				case altered != "":
					r.Violation("delivered-payload-differs-from-published:q1"+c15plSuffix(m.pl)+":back-pressure", map[string]interface{}{"plan": plan, "msg": m.pl, "client": x.c.cid, "received": altered})
				default:
					r.Count("delivered_q1_under_back_pressure", 1)
					r.Count("bp_qos1_delivered_identical_payload_kind:"+c15plGroup(m.pl.Class), 1)
					if n > 1 {
						r.Count("duplicate_copies_seen", 1)
					}
				}
			}
		}
	}
	floodSeq := 0
	for round, rd := range plan.Rounds {
		if p := pendingOfSlow(); p != 0 {
			r.Inconclusive(fmt.Sprintf("slow client's session still has %d unacknowledged messages before the burst", p))
			return
		}
		gate.set(false) // the slow client stops reading
		var wg sync.WaitGroup
		wg.Add(1)
		go func() { // the fast client publishes during the burst
			defer wg.Done()
			for _, o := range rd.FastPubs {
				if err := fast.publish(o.Topic, o.QoS, o.ID, o.Payload, o.Dup); err != nil {
					r.Inconclusive("write: " + err.Error())
					return
				}
				time.Sleep(time.Millisecond)
			}
		}()
		fastOuts = append(fastOuts, rd.FastPubs...)
		pfx := fmt.Sprintf("f%d.%d.", caseNo, round)
		filled, injected := false, 0
		for injected < c15bpMaxFlood && !filled {
			for k := 0; k < c15bpBatch; k++ {
				if code := c15httpPublish(rb, c15bpTopic, 0, c15pl{Data: fmt.Sprintf("%s%d|%s", pfx, floodSeq, pad), B64: plan.BinFlood}, true); code != 200 {
					r.Violation(fmt.Sprintf("http-publish-rejected:%d", code), map[string]interface{}{"plan": plan})
				}
				floodSeq++
				injected++
			}
			if !rb.publishQuiesced() {
				r.Inconclusive("watchdog: publish goroutines of the QoS0 burst did not finish")
				return
			}
			if full() {
				// nothing is being injected now: a queue that stays full is not being drained,
				// i.e. the write loop is stuck on the socket
				filled = true
				for k := 0; k < 3 && filled; k++ {
					time.Sleep(5 * time.Millisecond)
					filled = full()
				}
			}
		}
		wg.Wait()
		r.Max("max:burst_messages_until_queue_full", int64(injected))
		if filled {
			r.Count("bp_rounds_outbound_queue_full", 1)
		} else {
			r.Count("bp_rounds_queue_not_filled_by_bounded_burst", 1)
		}
		var q1msgs []inj
		inject := func() {
			for k := 0; k < rd.Q1Inject; k++ {
				m := inj{pl: c15mkPayload(r, fmt.Sprintf("bpq1.%d.%d.%d", caseNo, round, k), c15plClasses[(caseNo*3+round*5+k)%len(c15plClasses)]), sig: "delivery-missed:q1:subscriber-outbound-queue-full"}
				if !filled {
					m.sig = "delivery-missed:q1:subscriber-not-reading"
				}
				known[m.pl.ID] = m.pl.Data
				if code := c15httpPublish(rb, c15bpTopic, 1, m.pl, true); code != 200 {
					r.Violation(fmt.Sprintf("http-publish-rejected:%d", code), map[string]interface{}{"plan": plan})
				}
				q1msgs = append(q1msgs, m)
			}
		}
		if rd.InjectFirst {
			inject()
		}
		// the slow client's own packets; the broker's read loop of this connection takes them
		// in order and (unchanged code) blocks at the first QoS1 one until there is room
		firstQ1 := ""
		fullBefore := filled && full()
		for _, o := range rd.OwnPubs {
			if err := slow.publish(o.Topic, o.QoS, o.ID, o.Payload, o.Dup); err != nil {
				r.Inconclusive("write: " + err.Error())
				return
			}
			if o.QoS == 1 && firstQ1 == "" {
				firstQ1 = o.Payload
			}
		}
		slowOuts = append(slowOuts, rd.OwnPubs...)
		seen := false
		for deadline := time.Now().Add(c15rigWatchdog); !seen && time.Now().Before(deadline); {
			for _, pc := range rb.pipe.snapshot() {
				if pc.CID == slowCID && c15plKey(pc.Payload) == c15plKey(firstQ1) {
					seen = true
				}
			}
			if !seen {
				time.Sleep(time.Millisecond)
			}
		}
		if !seen {
			r.Inconclusive("watchdog: the pipeline never saw the slow client's QoS1 PUBLISH")
			return
		}
		situation := ":publisher-not-reading"
		if fullBefore && full() {
			situation = ":own-outbound-queue-full"
			r.Count("bp_own_qos1_publish_processed_while_queue_full", 1)
		}
		for _, o := range rd.OwnPubs {
			if o.QoS == 1 {
				where[o.ID] = situation
			}
		}
		if !rd.InjectFirst {
			inject()
		}
		gate.set(true) // the slow client reads again
		if !rb.publishQuiesced() {
			r.Inconclusive("watchdog: publish goroutines did not finish after the slow client resumed")
			return
		}
		if !barrier(slow) || !barrier(fast) {
			return
		}
		judgeDeliveries(q1msgs)
		// QoS0 copies of the burst: evidence only
		for _, c := range []*c15rigClient{slow, fast} {
			got := 0
			for _, e := range c.pubs() {
				if strings.HasPrefix(e.Payload, pfx) {
					got++
					// a copy that did arrive must be the published bytes: <pfx><seq>|<pad>
					if k := strings.IndexByte(e.Payload, '|'); k < 0 || e.Payload[k+1:] != pad || strings.Trim(e.Payload[len(pfx):k], "0123456789") != "" || e.QoS != 0 || e.Topic != c15bpTopic {
						r.Violation("delivered-payload-differs-from-published:q0:burst-copy:back-pressure", map[string]interface{}{"plan": plan, "client": c.cid, "received": c15plShow(e.Payload), "received_len": len(e.Payload), "published_len_after_id": len(pad)})
					}
				} else if _, ok := known[c15plKey(e.Payload)]; !ok && !strings.HasPrefix(e.Payload, fmt.Sprintf("f%d.", caseNo)) {
					r.Violation("delivered-payload-of-no-published-message", map[string]interface{}{"plan": plan, "client": c.cid, "received": c15plShow(e.Payload), "part": "back-pressure"})
				}
			}
			if c == slow && got < injected {
				r.Count("bp_qos0_copies_dropped_on_full_queue(not judged)", int64(injected-got))
			}
			r.Count("bp_qos0_burst_copies_received(not judged)", int64(got))
		}
		q1own := 0
		for _, o := range rd.OwnPubs {
			if o.QoS == 1 {
				q1own++
			}
		}
		r.Cover(fmt.Sprintf("backpressure:slowq%d/fastq%d/kb%d/ownq1=%d/ownq0=%d/injq1=%d/injfirst=%v/round%d/full=%v", plan.SlowSubQoS, plan.FastSubQoS, plan.PayloadKB, q1own, len(rd.OwnPubs)-q1own, rd.Q1Inject, rd.InjectFirst, round, situation == ":own-outbound-queue-full"))
	}
	// after the drain: ordinary delivery works again
	post := inj{pl: c15mkPayload(r, fmt.Sprintf("bppost.%d", caseNo), c15plClasses[(caseNo+1)%len(c15plClasses)]), sig: "delivery-missed:q1:after-back-pressure"}
	known[post.pl.ID] = post.pl.Data
	if code := c15httpPublish(rb, c15bpTopic, 1, post.pl, true); code != 200 {
		r.Violation(fmt.Sprintf("http-publish-rejected:%d", code), map[string]interface{}{"plan": plan})
	}
	if !rb.publishQuiesced() {
		r.Inconclusive("watchdog: publish goroutines did not finish")
		return
	}
	if !barrier(slow) || !barrier(fast) {
		return
	}
	judgeDeliveries([]inj{post})
	for _, o := range slowOuts {
		if o.QoS == 1 && !o.Dup {
			r.Count("bp_own_qos1_publishes_judged", 1)
		}
	}
	c15judgePublisher(r, rb, slow, slowCID, false, slowOuts, func(o c15out) string { return where[o.ID] })
	c15judgePublisher(r, rb, fast, fastCID, false, fastOuts, func(c15out) string { return ":publisher-subscribed-to-burst" })
}
