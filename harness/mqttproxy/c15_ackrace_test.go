//go:build verif

package mqttproxy

// C15, part AckRace — "a QoS1 message ... is not retransmitted afterwards", for PUBACKs that race
// with the broker's own bookkeeping of the message they acknowledge.
//
// Workload: concurrent HTTP publishes (several injector goroutines calling the real
// httpTopicsPublishHandler) of QoS1 messages to the SAME subscribers in bursts that are larger than
// a client's 50-slot outbound queue, so that delivering goroutines are parked in the queue / the
// session while the write loop already has their packet on the wire, with subscribers that
// acknowledge AT ONCE (from their read loop, before doing anything else).
//
// Oracle (logical, no timing): the broker handles the packets of one connection in order and has
// one FIFO write queue per connection.  A PINGRESP that answers a PINGREQ written after the PUBACK
// of message M therefore proves that the broker has processed that PUBACK, and everything the
// broker had enqueued for this client before is in front of that PINGRESP.  Any PUBLISH carrying M
// that arrives BEHIND such a PINGRESP was sent after the client's acknowledgement had been
// processed: a retransmission after the acknowledgement.  Resend cycles (the session's 200 ms
// ticker) are used only as a LOWER bound: after the last burst, when every message has been
// acknowledged and every acknowledgement is confirmed by a PINGRESP, one more QoS1 message (the
// pacer) is injected and left unacknowledged until two further PUBLISH packets have arrived.  Only
// the oldest unacknowledged message of a session is retransmitted per cycle, so these two packets
// are two observed resend cycles; they must both be copies of the pacer.

import (
	"fmt"
	"net"
	"sync"
	"sync/atomic"
	"testing"
	"time"

	"github.com/eclipse/paho.mqtt.golang/packets"
	"verif.local/kit"
)

const (
	c15arAckEvery = "acks-every-copy"      // PUBACK for every PUBLISH with QoS1, duplicates included
	c15arAckFirst = "acks-first-copy-only" // one PUBACK per message, further copies get no answer
)

type c15arSub struct {
	CID    string `json:"cid"`
	Filter string `json:"filter"`
	Policy string `json:"puback_policy"`
}

type c15arPlan struct {
	Subs      []c15arSub `json:"subscribers"`
	Topics    []string   `json:"topics"`
	Rounds    int        `json:"rounds"`
	Burst     int        `json:"burst"`
	Injectors int        `json:"concurrent_http_publishers"`
	Classes   []string   `json:"payload_classes"`
}

type c15arLate struct {
	Msg           string `json:"message"`
	PacketID      uint16 `json:"packet_id"`
	Dup           bool   `json:"dup_flag"`
	CopyNo        int    `json:"copy_number"`
	AckSeq        int64  `json:"its_puback_was_puback_number"`
	ConfirmedUpTo int64  `json:"pubacks_confirmed_by_pingresp_before_this_copy"`
	PublishNo     int    `json:"position_among_received_publish_packets"`
	AfterPacer    bool   `json:"after_everything_was_acknowledged"`
}

type c15arMsg struct {
	copies int
	acked  bool
	ackSeq int64
	lastID uint16
}

// c15arClient: raw MQTT subscriber that acknowledges from its read loop and judges every arriving
// PUBLISH inline (O(1) per packet, so that bursts of thousands of messages stay cheap).
type c15arClient struct {
	cid    string
	policy string
	conn   net.Conn

	wmu         sync.Mutex
	acksWritten int64   // PUBACK packets written so far
	pingMarks   []int64 // acksWritten at the moment each outstanding PINGREQ was written (FIFO)
	pingsSent   int

	mu        sync.Mutex
	expect    map[string]string // identity -> published bytes
	msgs      map[string]*c15arMsg
	noAck     map[string]bool // identities that are not acknowledged automatically (pacer)
	distinct  int
	pubTotal  int
	pingresp  int
	confirmed int64 // every PUBACK numbered <= confirmed has been processed by the broker
	pacerOn   bool
	late      []c15arLate
	lateN     int
	lateAfter int
	retxLegit int // copies beyond the first that arrived before their PUBACK was confirmed
	unknown   []string
	differ    []string
	eof       bool
	rerr      string
	rdone     chan struct{}
}

func c15arDial(sub c15arSub, addr string) (*c15arClient, string) {
	var conn net.Conn
	var err error
	for try := 0; try < 5; try++ {
		if conn, err = net.DialTimeout("tcp", addr, 20*time.Second); err == nil {
			break
		}
		time.Sleep(50 * time.Millisecond)
	}
	if err != nil {
		return nil, "dial: " + err.Error()
	}
	c := &c15arClient{cid: sub.CID, policy: sub.Policy, conn: conn, expect: map[string]string{}, msgs: map[string]*c15arMsg{}, noAck: map[string]bool{}, rdone: make(chan struct{})}
	conn.SetDeadline(time.Now().Add(c15rigWatchdog))
	cp := packets.NewControlPacket(packets.Connect).(*packets.ConnectPacket)
	cp.ProtocolName, cp.ProtocolVersion, cp.CleanSession, cp.ClientIdentifier = "MQTT", 4, true, sub.CID
	if err := cp.Write(conn); err != nil {
		conn.Close()
		return nil, "connect: " + err.Error()
	}
	if p, err := packets.ReadPacket(conn); err != nil {
		conn.Close()
		return nil, "connack: " + err.Error()
	} else if a, ok := p.(*packets.ConnackPacket); !ok || a.ReturnCode != packets.Accepted {
		conn.Close()
		return nil, "connack: " + p.String()
	}
	sp := packets.NewControlPacket(packets.Subscribe).(*packets.SubscribePacket)
	sp.MessageID, sp.Topics, sp.Qoss = 1, []string{sub.Filter}, []byte{1}
	if err := sp.Write(conn); err != nil {
		conn.Close()
		return nil, "subscribe: " + err.Error()
	}
	if p, err := packets.ReadPacket(conn); err != nil {
		conn.Close()
		return nil, "suback: " + err.Error()
	} else if _, ok := p.(*packets.SubackPacket); !ok {
		conn.Close()
		return nil, "suback: " + p.String()
	}
	conn.SetDeadline(time.Time{})
	go c.readLoop()
	return c, ""
}

func (c *c15arClient) readLoop() {
	defer close(c.rdone)
	for {
		p, err := packets.ReadPacket(c.conn)
		if err != nil {
			c.mu.Lock()
			c.eof, c.rerr = true, err.Error()
			c.mu.Unlock()
			return
		}
		switch v := p.(type) {
		case *packets.PublishPacket:
			c.onPublish(v)
		case *packets.PingrespPacket:
			c.wmu.Lock()
			mark := int64(-1)
			if len(c.pingMarks) > 0 {
				mark = c.pingMarks[0]
				c.pingMarks = c.pingMarks[1:]
			}
			c.wmu.Unlock()
			c.mu.Lock()
			c.pingresp++
			if mark > c.confirmed {
				c.confirmed = mark
			}
			c.mu.Unlock()
		}
	}
}

func (c *c15arClient) onPublish(v *packets.PublishPacket) {
	pl := string(v.Payload)
	key := c15plKey(pl)
	c.mu.Lock()
	c.pubTotal++
	want, known := c.expect[key]
	if !known {
		if len(c.unknown) < 8 {
			c.unknown = append(c.unknown, v.TopicName+" <- "+c15plShow(pl))
		}
		c.mu.Unlock()
		return
	}
	if pl != want && len(c.differ) < 8 {
		c.differ = append(c.differ, key)
	}
	st := c.msgs[key]
	if st == nil {
		st = &c15arMsg{}
		c.msgs[key] = st
		c.distinct++
	}
	st.copies++
	st.lastID = v.MessageID
	if st.copies > 1 && st.acked {
		if st.ackSeq <= c.confirmed {
			// behind a PINGRESP that proves the broker had processed the PUBACK of this message
			c.lateN++
			if c.pacerOn {
				c.lateAfter++
			}
			if len(c.late) < 12 {
				c.late = append(c.late, c15arLate{Msg: c15plShow(pl), PacketID: v.MessageID, Dup: v.Dup, CopyNo: st.copies, AckSeq: st.ackSeq, ConfirmedUpTo: c.confirmed, PublishNo: c.pubTotal, AfterPacer: c.pacerOn})
			}
		} else {
			c.retxLegit++
		}
	}
	doAck := v.Qos == 1 && !c.noAck[key] && (c.policy == c15arAckEvery || st.copies == 1)
	c.mu.Unlock()
	if !doAck {
		return
	}
	seq, err := c.puback(v.MessageID)
	if err != nil {
		return
	}
	c.mu.Lock()
	if !st.acked {
		st.acked, st.ackSeq = true, seq
	}
	c.mu.Unlock()
}

// puback writes one PUBACK and returns its number in this connection's sequence of PUBACKs.
func (c *c15arClient) puback(id uint16) (int64, error) {
	a := packets.NewControlPacket(packets.Puback).(*packets.PubackPacket)
	a.MessageID = id
	c.wmu.Lock()
	defer c.wmu.Unlock()
	c.conn.SetWriteDeadline(time.Now().Add(c15rigWatchdog))
	if err := a.Write(c.conn); err != nil {
		return 0, err
	}
	c.acksWritten++
	return c.acksWritten, nil
}

// pingAsync writes a PINGREQ and returns its ordinal; its PINGRESP confirms every PUBACK written
// before it.
func (c *c15arClient) pingAsync() (int, error) {
	c.wmu.Lock()
	defer c.wmu.Unlock()
	c.conn.SetWriteDeadline(time.Now().Add(c15rigWatchdog))
	if err := packets.NewControlPacket(packets.Pingreq).Write(c.conn); err != nil {
		return 0, err
	}
	c.pingMarks = append(c.pingMarks, c.acksWritten)
	c.pingsSent++
	return c.pingsSent, nil
}

// waitUntil polls pred (under the log lock).  "ok" | "eof" | "watchdog"
func (c *c15arClient) waitUntil(pred func() bool) string {
	deadline := time.Now().Add(c15rigWatchdog)
	for i := 0; ; i++ {
		c.mu.Lock()
		ok, eof := pred(), c.eof
		c.mu.Unlock()
		switch {
		case ok:
			return "ok"
		case eof:
			return "eof"
		case time.Now().After(deadline):
			return "watchdog"
		}
		if i < 50 {
			time.Sleep(200 * time.Microsecond)
		} else {
			time.Sleep(time.Millisecond)
		}
	}
}

// ping: PINGREQ/PINGRESP round trip.
func (c *c15arClient) ping() string {
	n, err := c.pingAsync()
	if err != nil {
		return "write:" + err.Error()
	}
	return c.waitUntil(func() bool { return c.pingresp >= n })
}

func (c *c15arClient) shutdown() {
	c.wmu.Lock()
	packets.NewControlPacket(packets.Disconnect).Write(c.conn)
	if tc, ok := c.conn.(*net.TCPConn); ok {
		tc.CloseWrite()
	}
	c.wmu.Unlock()
	select {
	case <-c.rdone:
	case <-time.After(c15rigWatchdog):
	}
	c.conn.Close()
	<-c.rdone
}

func TestVerif_C15_AckRace(t *testing.T) {
	c15rigSkipForReplay(t)
	r := kit.Start(t, "C15")
	defer r.Finish()
	r.Rule("PUBACKs that race with the broker's bookkeeping of the message they acknowledge: per case one broker, 1-3 subscribers (QoS1, filters k/# / k/+ / #) that acknowledge from their read loop AT ONCE (policy per subscriber: a PUBACK for every copy, or one PUBACK per message and no answer to further copies), 3-5 rounds of a burst of 200/400/800/1500 QoS1 messages (4-30 times the 50-slot outbound queue of a client, unique payloads from the content classes ascii id / id|binary / id|text / id|nothing, 7 topics) injected CONCURRENTLY by 4/8/12 goroutines through httpTopicsPublishHandler, so that delivering goroutines queue up behind one subscriber's outbound queue and session while the write loop is already sending; each subscriber sends PINGREQs all the time: a PINGRESP answering a PINGREQ written after the PUBACK of M proves that the broker has processed that PUBACK (per-connection in-order processing, FIFO write queue); checks per subscriber: every message of a round has arrived when all delivering goroutines have finished and a PING round trip is over, every copy has the published bytes, nothing else arrives, and NO copy of M arrives behind a PINGRESP that confirms M's PUBACK (neither during later bursts nor at the end); at the end, with every message acknowledged and confirmed, a pacer message is injected and left unacknowledged until 2 more PUBLISH packets have arrived = 2 observed resend cycles (only the oldest pending message is retransmitted per cycle): both must be the pacer; distinct = (subscribers, policies, burst, injectors, rounds)")
	r.Assume("a retransmission that was enqueued before the broker processed the PUBACK (it arrives in front of the confirming PINGRESP) is legitimate and only counted; resend cycles are a lower bound (two observed), never an upper bound on time; fewer than 65536 messages per session and case, so no packet id is reused while it could still be pending; subscribers stay connected")
	n := r.N(8, 200)
	for i := 0; i < n; i++ {
		if !r.Mine(i) {
			continue
		}
		rng := r.CaseRand(i)
		plan := c15arPlan{
			Rounds:    3 + rng.Intn(3),
			Burst:     []int{200, 400, 800, 1500}[rng.Intn(4)],
			Injectors: []int{4, 8, 12}[rng.Intn(3)],
			Classes:   []string{c15plAsciiID, c15plAsciiID, c15plBinShort, c15plUTF8, c15plEmptyBody, c15plBin, c15plPunct},
		}
		for k := 0; k < 7; k++ {
			plan.Topics = append(plan.Topics, fmt.Sprintf("k/%d", k))
		}
		ns := 1 + rng.Intn(3)
		for s := 0; s < ns; s++ {
			pol := c15arAckEvery
			if (i+s)%2 == 1 {
				pol = c15arAckFirst
			}
			plan.Subs = append(plan.Subs, c15arSub{CID: fmt.Sprintf("ar%d.s%d", i, s), Filter: []string{"k/#", "k/+", "#"}[rng.Intn(3)], Policy: pol})
		}
		r.Case(i, plan)
		c15runAckRace(r, i, plan)
		if i == 0 {
			r.Sample(plan)
		}
	}
	r.Require("ackrace_bursts_larger_than_outbound_queue", 1)
	r.Require("ackrace_outbound_queue_seen_full_during_burst", 1)
	r.Require("ackrace_messages_acked_at_once_and_puback_confirmed", 1)
	r.Require("ackrace_pingresp_confirmations_during_bursts", 1)
	r.Require("ackrace_resend_cycles_observed_after_everything_acked", 2)
	r.Require("ackrace_subscribers_judged:"+c15arAckEvery, 1)
	r.Require("ackrace_subscribers_judged:"+c15arAckFirst, 1)
}

func c15runAckRace(r *kit.Run, caseNo int, plan c15arPlan) {
	rb, err := c15rigNewBroker(c15rigBrokerOpts{})
	if err != nil {
		r.Inconclusive("broker did not start: " + err.Error())
		return
	}
	defer func() {
		rb.storesQuiesced()
		rb.close()
	}()
	var subs []*c15arClient
	defer func() {
		for _, c := range subs {
			c.shutdown()
		}
	}()
	var queues []*Client
	for _, s := range plan.Subs {
		c, st := c15arDial(s, rb.addr)
		if c == nil {
			r.Inconclusive("ackrace " + st)
			return
		}
		subs = append(subs, c)
		cl, _ := rb.registered(s.CID)
		if cl == nil {
			r.Inconclusive("ackrace: subscriber not registered")
			return
		}
		queues = append(queues, cl)
	}
	viol := func(c *c15arClient, sig string, extra map[string]interface{}) {
		extra["plan"] = plan
		extra["subscriber"] = c.cid
		extra["puback_policy"] = c.policy
		r.Violation(sig, extra)
	}
	// judge: what the inline oracle of c has recorded so far; false = stop the case
	judge := func(c *c15arClient) bool {
		c.mu.Lock()
		late, lateN, lateAfter, unknown, differ, eof, rerr := append([]c15arLate(nil), c.late...), c.lateN, c.lateAfter, c.unknown, c.differ, c.eof, c.rerr
		c.mu.Unlock()
		switch {
		case eof:
			viol(c, "subscriber-connection-ended-by-broker", map[string]interface{}{"read_error": rerr})
		case len(unknown) > 0:
			viol(c, "delivered-payload-of-no-published-message", map[string]interface{}{"received": unknown})
		case len(differ) > 0:
			viol(c, "delivered-payload-differs-from-published:q1:concurrent-publish-burst", map[string]interface{}{"messages": differ})
		case lateN > 0:
			viol(c, "qos1-retransmitted-after-puback:prompt-puback-during-concurrent-publish-burst", map[string]interface{}{
				"copies_behind_a_pingresp_that_confirms_their_puback": lateN, "of_these_after_everything_was_acknowledged": lateAfter, "first_ones": late})
		default:
			return true
		}
		return false
	}
	// pingers: PINGREQs all the time, so that PUBACKs are confirmed while the bursts go on
	stopPing := make(chan struct{})
	var pingWG sync.WaitGroup
	for _, c := range subs {
		pingWG.Add(1)
		go func(c *c15arClient) {
			defer pingWG.Done()
			for {
				select {
				case <-stopPing:
					return
				case <-time.After(3 * time.Millisecond):
				}
				if st := c.ping(); st != "ok" {
					return
				}
			}
		}(c)
	}
	pingersStopped := false
	stopPingers := func() {
		if !pingersStopped {
			pingersStopped = true
			close(stopPing)
			pingWG.Wait()
		}
	}
	defer stopPingers()

	sent := 0
	for round := 0; round < plan.Rounds; round++ {
		msgs := make([]c15pl, plan.Burst)
		for k := range msgs {
			msgs[k] = c15mkPayload(r, fmt.Sprintf("ar%d.r%d.m%d", caseNo, round, k), plan.Classes[(k+round)%len(plan.Classes)])
		}
		for _, c := range subs {
			c.mu.Lock()
			for _, m := range msgs {
				c.expect[m.ID] = m.Data
			}
			c.mu.Unlock()
		}
		confirmedBefore := make([]int, len(subs))
		for j, c := range subs {
			c.mu.Lock()
			confirmedBefore[j] = c.pingresp
			c.mu.Unlock()
		}
		var wg sync.WaitGroup
		var rejected, sawFull atomic.Int64
		for g := 0; g < plan.Injectors; g++ {
			wg.Add(1)
			go func(g int) {
				defer wg.Done()
				for k := g; k < len(msgs); k += plan.Injectors {
					if code := c15httpPublish(rb, plan.Topics[k%len(plan.Topics)], 1, msgs[k], true); code != 200 {
						rejected.Add(1)
					}
					for _, q := range queues {
						if len(q.writeCh) == cap(q.writeCh) {
							sawFull.Add(1)
							break
						}
					}
				}
			}(g)
		}
		wg.Wait()
		sent += len(msgs)
		r.Eval(len(msgs) * len(subs))
		if rejected.Load() > 0 {
			r.Violation("http-publish-rejected", map[string]interface{}{"plan": plan, "rejected": rejected.Load()})
			return
		}
		if plan.Burst > cap(queues[0].writeCh) {
			r.Count("ackrace_bursts_larger_than_outbound_queue", 1)
		}
		if sawFull.Load() > 0 {
			r.Count("ackrace_outbound_queue_seen_full_during_burst", 1)
		}
		// everything of this round has arrived?  Fast path: wait for it; the verdict itself is
		// logical: delivering goroutines finished + PING round trip.
		for _, c := range subs {
			st := c.waitUntil(func() bool { return c.distinct >= sent })
			if st == "ok" {
				continue
			}
			if st == "eof" {
				judge(c)
				return
			}
			if !rb.publishQuiesced() {
				r.Inconclusive("ackrace watchdog: delivering goroutines did not finish")
				return
			}
			if st := c.ping(); st != "ok" {
				if st == "eof" {
					judge(c)
				} else {
					r.Inconclusive("ackrace watchdog: no PINGRESP")
				}
				return
			}
			c.mu.Lock()
			var missing []string
			for _, m := range msgs {
				if c.msgs[m.ID] == nil && len(missing) < 8 {
					missing = append(missing, m.ID)
				}
			}
			distinct := c.distinct
			c.mu.Unlock()
			if distinct < sent {
				viol(c, "delivery-missed:q1:concurrent-publish-burst", map[string]interface{}{"round": round, "received_distinct": distinct, "published": sent, "first_missing": missing})
				return
			}
		}
		for j, c := range subs {
			c.mu.Lock()
			d := c.pingresp - confirmedBefore[j]
			c.mu.Unlock()
			if d > 0 {
				r.Count("ackrace_pingresp_confirmations_during_bursts", int64(d))
			}
			if !judge(c) {
				return
			}
		}
	}
	stopPingers()
	// end: every message acknowledged, every PUBACK confirmed
	for _, c := range subs {
		for k := 0; k < 2; k++ {
			if st := c.ping(); st != "ok" {
				if st == "eof" {
					judge(c)
				} else {
					r.Inconclusive("ackrace watchdog: no PINGRESP")
				}
				return
			}
		}
		c.mu.Lock()
		allConfirmed := true
		for _, st := range c.msgs {
			allConfirmed = allConfirmed && st.acked && st.ackSeq <= c.confirmed
		}
		nmsgs := len(c.msgs)
		c.mu.Unlock()
		if !allConfirmed || nmsgs != sent {
			r.Inconclusive("ackrace: not every message acknowledged and confirmed at the end")
			return
		}
		r.Count("ackrace_messages_acked_at_once_and_puback_confirmed", int64(nmsgs))
	}
	// pacer: one more QoS1 message per subscriber set, not acknowledged until 2 resend cycles were seen
	pacer := c15mkPayload(r, fmt.Sprintf("ar%d.pacer", caseNo), c15plAsciiID)
	base := make([]int, len(subs))
	for j, c := range subs {
		c.mu.Lock()
		c.expect[pacer.ID] = pacer.Data
		c.noAck[pacer.ID] = true
		c.pacerOn = true
		base[j] = c.pubTotal
		c.mu.Unlock()
	}
	if code := c15httpPublish(rb, plan.Topics[0], 1, pacer, true); code != 200 {
		r.Violation("http-publish-rejected", map[string]interface{}{"plan": plan, "code": code})
		return
	}
	for j, c := range subs {
		st := c.waitUntil(func() bool { return c.pubTotal >= base[j]+3 || c.lateN > 0 })
		if st == "watchdog" {
			r.Inconclusive("ackrace watchdog: no two resend cycles observed")
			return
		}
		if !judge(c) {
			return
		}
		c.mu.Lock()
		pc, legit := 0, c.retxLegit
		var pid uint16
		if ps := c.msgs[pacer.ID]; ps != nil {
			pc, pid = ps.copies, ps.lastID
		}
		c.mu.Unlock()
		if pc < 3 {
			r.Inconclusive("ackrace: pacer copies do not account for the observed packets")
			return
		}
		// release the pacer
		c.puback(pid)
		if st := c.ping(); st != "ok" {
			r.Inconclusive("ackrace: no PINGRESP after the pacer was acknowledged: " + st)
			return
		}
		r.Count("ackrace_resend_cycles_observed_after_everything_acked", int64(pc-1))
		r.Count("ackrace_retransmissions_in_front_of_confirming_pingresp", int64(legit))
		r.Count("ackrace_subscribers_judged:"+c.policy, 1)
	}
	r.Cover(fmt.Sprintf("ackrace:subs%d/burst%d/inj%d/rounds%d/%s", len(plan.Subs), plan.Burst, plan.Injectors, plan.Rounds, plan.Subs[0].Policy))
}
