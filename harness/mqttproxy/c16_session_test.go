//go:build verif

package mqttproxy

// C16 — MQTT sessions survive reconnect and client-id takeover as cleanSession dictates.
//
// Scripted schedules on the shared rig (c15rig_test.go): one client id, an OLD connection and
// a NEW one, both through a controllable TCP relay, so that the harness decides at which step
// of the new connection the broker's read on the old connection ends (FIN, DISCONNECT packet
// or the broker's own keep-alive deadline) and can observe that the old connection's
// teardown has completed (the broker closes its side only when handleConn returns).  Watch
// events of session deletes reach the broker only when the harness flushes them, and the
// flush returns after the broker has completely reacted.  All negative verdicts ("did not
// receive") use the goroutine-quiescence + PINGREQ/PINGRESP barrier of the rig.

import (
	"fmt"
	"math/rand"
	"net"
	"runtime"
	"strconv"
	"strings"
	"sync"
	"sync/atomic"
	"testing"
	"time"

	"github.com/eclipse/paho.mqtt.golang/packets"
	"github.com/megaease/easegress/pkg/context"
	"verif.local/kit"
)

type c16Scn struct {
	Kind       string `json:"kind"` // reconnect | takeover | stale-delete-event | admin-delete | broker-closed-predecessor | slow-disconnect-pipeline | reconnect-during-teardown | slow-store-put | resubscribe-other-qos | chain
	OldClean   bool   `json:"old_clean_session"`
	NewClean   bool   `json:"new_clean_session"`
	End        string `json:"old_connection_ends_by"` // disconnect | drop | keepalive
	Point      int    `json:"old_teardown_point"`     // 0 before new CONNECT, 1 after CONNACK, 2 after SUBSCRIBE, 3 after first delivery, 4 never, 5 broker keep-alive deadline (kind reconnect-during-teardown: the teardown STARTS before the new CONNECT and is held; 1..3 = where it is released and completes)
	SameFilter bool   `json:"new_subscription_equals_old"`
	M1QoS      int    `json:"qos_of_probe_on_old_filter"`
	Admin      bool   `json:"admin_delete_at_end"`
	Jitter     bool   `json:"jitter"`
	// Kind "slow-disconnect-pipeline" only: how the BROKER ends the old connection while its
	// Disconnect pipeline is held open by the harness: "admin-delete" | "takeover"
	// Kind "slow-store-put": which put of the session storage is held by the harness while the
	// client goes on: "connect-store" (the store request made by the CONNECT handling) |
	// "subscribe-store" (the one of the old connection's first SUBSCRIBE)
	// Kind "resubscribe-other-qos": how the next connection follows: "reconnect" | "takeover"
	Via string `json:"old_connection_closed_by_broker_via,omitempty"`
	// Kind "slow-store-put" only: behind the held put the old connection also UNSUBSCRIBEs its
	// first filter (UNSUBACK received) before it ends
	PendingUnsub bool `json:"unsubscribe_acknowledged_while_put_held,omitempty"`
	// Kind "resubscribe-other-qos" only: the old connection subscribes its filter with QoSFirst and
	// then the SAME filter again with QoSLast (both SUBACKs received)
	QoSFirst int `json:"filter_first_subscribed_with_qos,omitempty"`
	QoSLast  int `json:"then_subscribed_again_with_qos,omitempty"`
	// Kind "resubscribe-other-qos" only: the second SUBSCRIBE packet also carries a filter the
	// session does not hold yet (drawn in the repeats)
	WithNew bool `json:"second_subscribe_also_carries_a_new_filter,omitempty"`
	// Kind "chain" only: a history of 3 or more connections of the one client id (see c16runChain)
	Chain []c16Conn `json:"chain,omitempty"`
}

// c16Conn is one connection of a "chain" history.
type c16Conn struct {
	Clean bool `json:"clean_session"`
	// how this connection is followed by the next one (unused for the last connection):
	// "disconnect" / "drop": it ends (DISCONNECT packet / FIN through the relay) and its teardown
	// has completed before the next CONNECT; "takeover": it is still open when the next CONNECT comes
	Next string `json:"then,omitempty"`
	// takeover only: where the superseded connection's end is placed relative to the steps of
	// the connection that took over: 1 after its CONNACK, 2 after its SUBSCRIBE, 3 after its
	// first judgement (it is judged again afterwards), 4 never (until the history has been judged),
	// 5 only after the successor's own end (right after the successor's teardown has completed,
	// before the next CONNECT), 6 after the successor's end AND after the next connection has
	// been established (that one is judged again afterwards)
	Point int `json:"superseded_teardown_point,omitempty"`
	// takeover only: "disconnect" (late DISCONNECT packet) or "drop" (device vanished, FIN later)
	End string `json:"superseded_ends_by,omitempty"`
	// after the SUBSCRIBE of its own filter the connection UNSUBSCRIBEs the oldest filter of an
	// earlier connection that the model says its session still holds (nothing if there is none):
	// the session it leaves behind differs from the one it got by a removal as well
	Unsub bool `json:"unsubscribes_oldest_inherited_filter,omitempty"`
}

var c16pointName = []string{"before-connect", "after-connack", "after-subscribe", "after-delivery", "never", "keepalive-deadline"}

func c16cp(clean bool) string {
	if clean {
		return "c"
	}
	return "p"
}

// phase is the coarse position of the old connection's teardown relative to the new CONNECT.
func (s c16Scn) phase() string {
	if s.Kind == "reconnect-during-teardown" {
		return "old-teardown-in-progress-at-new-connect"
	}
	switch s.Point {
	case 0:
		return "old-torn-down-before-new-connect"
	case 4:
		return "old-not-torn-down"
	}
	return "old-torn-down-after-new-connect"
}

// sig = kind of schedule + kind of failure.  The exact teardown point and the individual
// symptoms are in the violation detail.
func (s c16Scn) sig(failure string) string {
	kind := s.Kind
	if kind == "takeover" {
		kind = "superseded-teardown"
	}
	if kind == "slow-disconnect-pipeline" {
		kind += "(" + s.Via + ")"
	}
	if kind == "slow-store-put" {
		kind += "(held=" + s.Via
		if s.PendingUnsub {
			kind += ",unsubscribe-behind-it"
		}
		kind += ")"
	}
	if kind == "resubscribe-other-qos" {
		kind += fmt.Sprintf("(%d->%d,%s)", s.QoSFirst, s.QoSLast, s.Via)
	}
	return fmt.Sprintf("%s:old=%s,new=%s,%s:%s", kind, c16cp(s.OldClean), c16cp(s.NewClean), s.phase(), failure)
}

// Symptom families.  A schedule reports ONE violation per family (all symptoms in the detail),
// every other symptom is a violation of its own.
var c16famDeregistered = map[string]bool{"survivor-not-registered": true, "survivor-connection-closed": true}
var c16famSessionGone = map[string]bool{
	"session-missing-from-session-map": true, "survivor-session-closed": true, "qos1-redelivery-stopped": true,
	"new-subscription-unrouted": true, "previous-subscription-unrouted": true,
	"new-subscription-delivery-missed": true, "previous-subscription-delivery-missed": true,
}

func c16scenarios() []c16Scn {
	var out []c16Scn
	bools := []bool{false, true}
	for _, oc := range bools {
		for _, nc := range bools {
			for _, same := range bools {
				for _, end := range []string{"disconnect", "drop"} {
					out = append(out, c16Scn{Kind: "reconnect", OldClean: oc, NewClean: nc, End: end, Point: 0, SameFilter: same})
					for pt := 1; pt <= 3; pt++ {
						out = append(out, c16Scn{Kind: "takeover", OldClean: oc, NewClean: nc, End: end, Point: pt, SameFilter: same})
					}
				}
				out = append(out, c16Scn{Kind: "takeover", OldClean: oc, NewClean: nc, End: "drop", Point: 4, SameFilter: same})
			}
			out = append(out, c16Scn{Kind: "takeover", OldClean: oc, NewClean: nc, End: "keepalive", Point: 5})
			out = append(out, c16Scn{Kind: "admin-delete", OldClean: oc, NewClean: nc, End: "disconnect", Point: 0, Admin: true})
			out = append(out, c16Scn{Kind: "admin-delete", OldClean: oc, NewClean: nc, End: "drop", Point: 4, Admin: true})
		}
	}
	for _, nc := range bools {
		for _, end := range []string{"disconnect", "drop"} {
			out = append(out, c16Scn{Kind: "stale-delete-event", OldClean: true, NewClean: nc, End: end, Point: 0})
		}
	}
	// The old connection is ended BY THE BROKER (admin delete of its session: closed and
	// deregistered) while its socket stays open, so its read loop lingers and the next CONNECT of
	// the id finds no registered connection; the old socket ends only at a later step of the new
	// connection.  (new filter = old filter or not: drawn per case)
	for _, oc := range bools {
		for _, nc := range bools {
			for _, end := range []string{"disconnect", "drop"} {
				for pt := 1; pt <= 3; pt++ {
					out = append(out, c16Scn{Kind: "broker-closed-predecessor", OldClean: oc, NewClean: nc, End: end, Point: pt})
				}
			}
		}
	}
	// The broker ends the old connection itself (admin delete of its session / takeover by the
	// new CONNECT) and the Disconnect PIPELINE that Client.close() runs is slow: the harness holds
	// it open while the same client id (re)connects and subscribes, releases it afterwards, and
	// only then lets the old socket end.  (new filter = old filter or not, FIN or DISCONNECT packet
	// on the old socket: drawn per case)
	for _, oc := range bools {
		for _, nc := range bools {
			for _, via := range []string{"admin-delete", "takeover"} {
				out = append(out, c16Scn{Kind: "slow-disconnect-pipeline", OldClean: oc, NewClean: nc, Via: via, Point: 2})
			}
		}
	}
	// The old connection ends BY ITSELF (DISCONNECT packet / EOF) and its own teardown is still in
	// progress when the same client id connects again: the teardown is held inside the Disconnect
	// pipeline that Client.close() runs (the stage of the teardown at which the broker runs it is
	// observed from the books) and is released after the new CONNACK / SUBSCRIBE / first delivery.
	// (new filter = old filter or not: different in the first pass, drawn in the repeats)
	for _, oc := range bools {
		for _, nc := range bools {
			for _, end := range []string{"disconnect", "drop"} {
				for pt := 1; pt <= 3; pt++ {
					out = append(out, c16Scn{Kind: "reconnect-during-teardown", OldClean: oc, NewClean: nc, End: end, Point: pt})
				}
			}
		}
	}
	// SLOW SESSION STORAGE: a put of the session storage is held by the harness (the store request of
	// the CONNECT handling, or the one of the first SUBSCRIBE) while the client subscribes (and
	// unsubscribes) further and ENDS ITS CONNECTION; the put is released only after the teardown has
	// completed, the store hand-overs are awaited (finished or proven stuck), and the client
	// reconnects with cleanSession=false (no takeover: the session is rebuilt from the stored copy).
	for _, via := range []string{"connect-store", "subscribe-store"} {
		for _, end := range []string{"disconnect", "drop"} {
			for _, un := range bools {
				out = append(out, c16Scn{Kind: "slow-store-put", Via: via, End: end, Point: 0, PendingUnsub: un})
			}
		}
	}
	// RE-SUBSCRIPTION WITH ANOTHER QoS: the old connection subscribes a filter and then the same
	// filter again with another QoS (0->1, 1->0); reconnect (DISCONNECT / drop) or takeover with
	// cleanSession=false, then once more a reconnect that is rebuilt from the stored copy.
	for _, q := range [][2]int{{0, 1}, {1, 0}} {
		for _, end := range []string{"disconnect", "drop"} {
			out = append(out, c16Scn{Kind: "resubscribe-other-qos", Via: "reconnect", End: end, Point: 0, QoSFirst: q[0], QoSLast: q[1]})
		}
		out = append(out, c16Scn{Kind: "resubscribe-other-qos", Via: "takeover", End: "drop", Point: 2, QoSFirst: q[0], QoSLast: q[1]})
	}
	return out
}

// c16chains: every history of three connections {cleanSession}^3 x {disconnect, drop, takeover}^2;
// where the first connection is taken over, additionally with its teardown placed after the end
// of its successor (points 5 and 6).  The other teardown points of superseded connections and
// an optional fourth connection are drawn per case.
func c16chains() []c16Scn {
	var out []c16Scn
	bools := []bool{false, true}
	nexts := []string{"disconnect", "drop", "takeover"}
	for _, c0 := range bools {
		for _, c1 := range bools {
			for _, c2 := range bools {
				for _, t01 := range nexts {
					for _, t12 := range nexts {
						out = append(out, c16Scn{Kind: "chain", Chain: []c16Conn{{Clean: c0, Next: t01}, {Clean: c1, Next: t12}, {Clean: c2}}})
						if t01 == "takeover" {
							// the late teardown points of the first connection, enumerated (not drawn)
							for _, pt := range []int{5, 6} {
								out = append(out, c16Scn{Kind: "chain", Chain: []c16Conn{{Clean: c0, Next: t01, Point: pt}, {Clean: c1, Next: t12}, {Clean: c2}}})
							}
						}
						if !c0 && !c1 {
							// both persistent: the middle connection also UNSUBSCRIBEs the first one's filter, so
							// that the session it leaves behind differs from what the first connection stored by
							// an addition and a removal (after disconnect/drop its session comes from the storage)
							out = append(out, c16Scn{Kind: "chain", Chain: []c16Conn{{Clean: c0, Next: t01}, {Clean: c1, Next: t12, Unsub: true}, {Clean: c2}}})
						}
					}
				}
			}
		}
	}
	return out
}

// c16chainDraw fills in what the enumeration leaves open.  extend: insert a fourth connection.
func c16chainDraw(rng *rand.Rand, s c16Scn, extend bool) c16Scn {
	ch := append([]c16Conn(nil), s.Chain...)
	if extend {
		at := rng.Intn(len(ch) + 1)
		extra := c16Conn{Clean: rng.Intn(2) == 0, Next: []string{"disconnect", "drop", "takeover"}[rng.Intn(3)]}
		ch = append(ch[:at], append([]c16Conn{extra}, ch[at:]...)...)
	}
	if s.Jitter {
		// in the repeats any later connection may unsubscribe an inherited filter
		for k := 1; k < len(ch); k++ {
			if rng.Intn(3) == 0 {
				ch[k].Unsub = true
			}
		}
	}
	for k := range ch {
		ch[k].End = ""
		if ch[k].Point < 5 || ch[k].Next != "takeover" || k+2 >= len(ch) {
			ch[k].Point = 0
		}
		if k == len(ch)-1 {
			ch[k].Next = ""
		} else if ch[k].Next == "" {
			ch[k].Next = []string{"disconnect", "drop", "takeover"}[rng.Intn(3)]
		}
		if ch[k].Next == "takeover" {
			if ch[k].Point == 0 {
				ch[k].Point = 1 + rng.Intn(4)
				if extend && k+2 < len(ch) {
					ch[k].Point = 1 + rng.Intn(6)
				}
			}
			ch[k].End = []string{"disconnect", "drop"}[rng.Intn(2)]
		}
	}
	// an UNSUBSCRIBE is kept only where the model says the connection inherits a filter (so that the
	// history's name, and with it the signature, shows it only where it happens)
	held := make([]bool, len(ch))
	for k := range ch {
		if ch[k].Clean || (k > 0 && ch[k-1].Clean) {
			for j := range held {
				held[j] = false // discarded, or left open by the property: not "inherited" for the model
			}
		}
		did := false
		if ch[k].Unsub {
			for j := 0; j < k && !did; j++ {
				if held[j] {
					held[j], did = false, true
				}
			}
		}
		ch[k].Unsub = did
		held[k] = true
	}
	s.Chain = ch
	return s
}

// c16chainShape names the history up to and including connection k, limited to the last three
// connections: e.g. "c-takeover-p-drop-p" (c = cleanSession=true, p = cleanSession=false).
func c16chainShape(ch []c16Conn, k int) string {
	from := k - 2
	if from < 0 {
		from = 0
	}
	var sb strings.Builder
	for i := from; i <= k; i++ {
		sb.WriteString(c16cp(ch[i].Clean))
		if ch[i].Unsub && i > 0 {
			sb.WriteString("(unsub)")
		}
		if i < k {
			sb.WriteString("-" + ch[i].Next + "-")
		}
	}
	return sb.String()
}


func TestVerif_C16_Sessions(t *testing.T) {
	c15rigSkipForReplay(t)
	r := kit.Start(t, "C16")
	defer r.Finish()
	defer func() {
		r.Count("relay_links_that_belonged_to_no_pending_dial(ignored)", atomic.LoadInt64(&c15rigStaleLinks))
	}()
	scns := c16scenarios()
	nPair := len(scns)
	scns = append(scns, c16chains()...)
	r.Rule(fmt.Sprintf("%d scripted schedules for one client id. (a) %d two-connection schedules: {cleanSession old} x {cleanSession new} x {new filter = old filter or not} x {plain reconnect after DISCONNECT / after a silent drop; takeover with the old connection's end (FIN through the relay, or DISCONNECT packet) placed after the new CONNACK / after the new SUBSCRIBE / after the first delivery / never; takeover with the old connection ended by the broker's keep-alive deadline; admin delete; session-delete watch event delayed past the reconnect; predecessor ended BY THE BROKER: its session is deleted through the admin endpoint (delete event delivered and processed, connection closed and deregistered, socket still open so that its read loop lingers), then the new CONNECT (not a takeover for the broker) and the old socket's end (FIN or DISCONNECT packet) placed after the new CONNACK / SUBSCRIBE / first delivery; SLOW DISCONNECT PIPELINE: a broker whose Connect and Disconnect pipelines are handlers the harness can hold open; the old connection is ended BY THE BROKER (admin delete of its session: delete event handed to the watch loop / takeover by the new CONNECT) and the Disconnect pipeline that Client.close() runs is held open while the same client id connects (admin delete: the new CONNECT is sent and its Connect pipeline has been entered while the old Disconnect pipeline is still running; if the broker's registry lock is free meanwhile the CONNACK and the SUBSCRIBE are completed before the release, otherwise the CONNECT is serialised behind the pipeline) and subscribes (takeover: SUBSCRIBE and first delivery while the superseded connection's Disconnect pipeline runs), then the pipeline is released, the broker's handling finishes, the old socket ends (FIN or DISCONNECT packet, drawn) and the survivor is judged as in every schedule; RECONNECT WHILE THE OLD CONNECTION'S OWN TEARDOWN IS IN PROGRESS: on the same gated broker the old connection ends by itself (DISCONNECT packet or EOF through the relay), the deferred teardown of its read loop runs up to the Disconnect pipeline that Client.close() runs and is held there by the harness (the stage of the teardown is observed from the books: session gone from the session map, old filter gone from the topic manager, connection still registered), a delete event that teardown issued (cleanSession=true) is delivered while it is held, the same client id sends its CONNECT and gets its CONNACK while the teardown is still held, and the pipeline is released (the teardown then completes: broker closes its side) after the new CONNACK / after the new SUBSCRIBE / after the first delivery, {cleanSession old} x {cleanSession new} x {DISCONNECT, drop} x {3 release points}, new filter different from the old one in the first pass (drawn 1/3 equal in the repeats), survivor judged as in every schedule; SLOW SESSION STORAGE AT THE END OF THE CONNECTION: the rig's storage wrapper lets the harness hold one put of the session storage (the one of the store request made by the CONNECT handling / the one of the first SUBSCRIBE; the session manager's sequential store loop is inside it) while the cleanSession=false client subscribes a further filter (SUBACK received), optionally unsubscribes its first one (UNSUBACK received), is still served (QoS1 delivery observed) and ends its connection by DISCONNECT or silent drop; the teardown is observed complete while the put is STILL held (so none of the later store requests can have been taken), the put is released, every store hand-over is awaited (finished, or proven stuck for ever) and the client reconnects with cleanSession=false (not a takeover: the session is rebuilt from the stored copy) and is judged: every filter whose SUBACK it received is routed and delivered, the filter whose UNSUBACK it received is neither, {held put} x {DISCONNECT, drop} x {with/without the UNSUBSCRIBE}; RE-SUBSCRIPTION WITH ANOTHER QoS: the cleanSession=false client subscribes a filter with QoS a and then the same filter again with QoS b (0->1 and 1->0, both SUBACKs received; in the repeats the second SUBSCRIBE packet also carries a new filter in half of the cases, before or after the repeated one), the live subscription is observed to have QoS b (a QoS-b message delivered), then reconnect after DISCONNECT / after a drop, or takeover (old connection's end after the new CONNACK / SUBSCRIBE / first judgement), always cleanSession=false, judged, and then once more a DISCONNECT/drop and a reconnect rebuilt from the stored copy, judged: the filter is routed with the QoS of the LAST acknowledged SUBSCRIBE and a message of that QoS is delivered (a QoS1 message on a subscription whose last QoS is 0 is only counted)}, a random QoS for the probe on the old filter; after the old teardown has completed a fresh message per filter is published. (b) %d longer session histories (chains): every sequence of three connections {cleanSession}^3 x {ends by DISCONNECT, ends by silent drop, is taken over while open}^2, each connection subscribing a filter of its own; the end of a superseded connection is placed at a drawn point (after the successor's CONNACK / SUBSCRIBE / first judgement / never), and for a taken-over first connection additionally, enumerated, only after the successor's own end (before the next CONNECT) and after the successor's end plus the next connection's SUBSCRIBE; after such a late teardown the stored session of the latest cleanSession=false connection must still hold its subscriptions; additionally, where the first two connections are both cleanSession=false, every such history with the middle connection also UNSUBSCRIBING the first connection's filter after subscribing its own (after a DISCONNECT/drop of the first connection the middle one's session is rebuilt from the stored copy, is changed by an addition and a removal, and is rebuilt from the stored copy again by the third connection, whose expected set differs from what the first connection stored); in the repeats a fourth connection with drawn parameters is inserted at a drawn position in half of the cases and every later connection unsubscribes the oldest inherited filter with probability 1/3; EVERY connection of a chain is judged (books + one fresh message per filter of the history, PINGRESP barrier) against a model of the property sentence: cleanSession=true discards everything earlier, cleanSession=false keeps what the previous session held and what the connection subscribed itself and does not get back what a previous cleanSession=false connection unsubscribed, filters held by a cleanSession=true predecessor of a cleanSession=false connection are left open. All repeated (quick 3x, thorough 200x) with seeded jitter between the steps; distinct = (schedule, symptoms)", len(scns), nPair, len(scns)-nPair))
	r.Assume("one client id, keepalive 0 except in the keep-alive schedules, no will; delete-watch events are delivered promptly (right after the teardown that caused them, before the next step) except in the stale-delete-event schedules; old cleanSession=true followed by new cleanSession=false: whether the old subscription comes back is left open (counted, not judged); new cleanSession=true while the superseded connection has not been torn down yet: delivery on the old filter is counted, not judged; predecessor ended by an admin delete: whether a cleanSession=false successor gets the deleted session's filter is left open (counted), the same holds after the admin delete in the slow-Disconnect-pipeline schedules; a pipeline of the harness is held only between two observed steps and is always released (also when the case ends early); while the Disconnect pipeline is held the harness does not call anything that needs the broker's registry lock (it only probes it with TryRLock to decide whether the CONNACK can be awaited before the release; not a verdict); in the reconnect-during-teardown schedules the registry is read while the pipeline is held only through TryRLock (a teardown that held the registry lock there would make the case skipped and counted, the run inconclusive, never a violation), and the stage at which the teardown is held is whatever stage the broker runs its Disconnect pipeline at (observed and Required, not forced: other stages of a teardown cannot be held with the means the broker offers); the broker's other own closes are not generated (the keep-alive deadline ends the read loop itself so nothing lingers; a failed socket write and the watcher re-sync leave the connection registered, which is the takeover schedule); chains: a connection ends only after every Session.store() hand-over has finished or has been PROVEN unable to finish ever (a goroutine created by Session.store still parked in its channel send after a barrier value, sent later through the store loop's channel, has been taken: blocked senders are served FIFO, so it waits on a channel the store loop does not read; no clock involved) - in that case the stored copy is not judged any more, the history simply goes on and the next cleanSession=false reconnect is judged as the property says (signature suffix session-never-persisted-again); an unsubscribed filter must stay silent at later connections only once every earlier connection has been torn down, in the unsubscribing connection itself it is only counted; a superseded connection whose teardown point is 'never' is torn down only after the history has been judged; a discarded filter must stay silent only once every earlier connection has been torn down")
	reps := r.N(3, 200)
	n := len(scns) * reps
	for i := 0; i < n; i++ {
		if !r.Mine(i) {
			continue
		}
		rng := r.CaseRand(i)
		// every repeat runs every schedule once; the order is rotated by one per repeat so that the
		// few long schedules (keep-alive deadline: 3 s) do not land in the same shard every time
		s := scns[(i+i/len(scns))%len(scns)]
		s.Jitter = i >= len(scns)
		if s.Kind == "chain" {
			s = c16chainDraw(rng, s, s.Jitter && rng.Intn(2) == 0)
			r.Case(i, s)
			c16runChain(r, rng, s, i < len(scns))
			continue
		}
		s.M1QoS = rng.Intn(2)
		if s.Kind == "broker-closed-predecessor" {
			s.SameFilter = rng.Intn(2) == 0
		}
		if s.Kind == "slow-disconnect-pipeline" {
			s.SameFilter = rng.Intn(2) == 0
			s.End = []string{"disconnect", "drop"}[rng.Intn(2)]
			s.Admin = rng.Intn(3) == 0
		}
		if s.Kind == "takeover" || s.Kind == "reconnect" {
			s.Admin = rng.Intn(4) == 0
		}
		if s.Kind == "reconnect-during-teardown" {
			s.SameFilter = s.Jitter && rng.Intn(3) == 0
			s.Admin = rng.Intn(4) == 0
		}
		if s.Kind == "slow-store-put" || s.Kind == "resubscribe-other-qos" {
			if s.Kind == "resubscribe-other-qos" && s.Jitter {
				s.WithNew = rng.Intn(2) == 0
				if s.Via == "takeover" {
					s.Point = 1 + rng.Intn(3)
					s.End = []string{"disconnect", "drop"}[rng.Intn(2)]
				}
			}
			r.Case(i, s)
			c16runStored(r, rng, s, i < len(scns))
			continue
		}
		r.Case(i, s)
		c16run(r, rng, s, i < len(scns))
	}
	// slow session storage: a put held while the connection ends, hand-overs waiting behind it
	r.Require("slow_store_put:connection_torn_down_while_the_put_was_held_and_acknowledged_changes_not_yet_handed_to_storage", 1)
	r.Require("slow_store_put:held=connect-store:reconnect_rebuilt_from_stored_copy_judged", 1)
	r.Require("slow_store_put:held=subscribe-store:reconnect_rebuilt_from_stored_copy_judged", 1)
	r.Require("slow_store_put:subscription_acknowledged_while_put_held_restored_after_reconnect", 1)
	r.Require("slow_store_put:filter_unsubscribed_while_put_held_silent_after_reconnect", 1)
	// re-subscription of a held filter with another QoS
	r.Require("resubscribe_other_qos:0->1:live_subscription_delivered_qos1_before_the_end", 1)
	r.Require("resubscribe_other_qos:0->1:restored_with_last_qos_and_qos1_delivered_after_reconnect", 1)
	r.Require("resubscribe_other_qos:1->0:restored_with_last_qos_after_reconnect", 1)
	r.Require("resubscribe_other_qos:0->1:restored_with_last_qos_and_qos1_delivered_after_takeover", 1)
	r.Require("resubscribe_other_qos:1->0:restored_with_last_qos_after_takeover", 1)
	r.Require("resubscribe_other_qos:restored_with_last_qos_when_rebuilt_from_stored_copy_once_more", 1)
	r.Require("old_teardown_observed_complete", 1)
	r.Require("sanity_delivery_to_old_connection", 1)
	r.Require("survivor_received_on_new_filter", 1)
	r.Require("survivor_qos1_redelivery_seen", 1)
	r.Require("previous_subscription_restored", 1)
	r.Require("clean_session_old_filter_silent", 1)
	r.Require("admin_delete_disconnected_client", 1)
	r.Require("keepalive_teardown_observed", 1)
	// predecessor ended by the broker (admin delete), lingering read loop, old socket ends after the new connection's steps
	r.Require("broker_closed_predecessor_deregistered_and_lingering", 1)
	r.Require("broker_closed_predecessor_survivor_judged_after_old_teardown", 1)
	r.Require("broker_closed_predecessor_survivor_delivery_and_qos1_redelivery_seen_after_old_teardown", 1)
	// broker-initiated end of the predecessor (admin delete / takeover) with a slow Disconnect pipeline
	r.Require("slow_disconnect_pipeline:reconnect_CONNECT_handled_while_predecessors_disconnect_pipeline_was_running", 1)
	r.Require("slow_disconnect_pipeline:takeover_connection_subscribed_while_predecessors_disconnect_pipeline_was_running", 1)
	r.Require("slow_disconnect_pipeline:survivor_judged_after_release_and_old_teardown", 1)
	r.Require("slow_disconnect_pipeline:survivor_delivery_and_qos1_redelivery_seen_after_release_and_old_teardown", 1)
	// reconnect while the old connection's own teardown is in progress (held in its Disconnect pipeline)
	r.Require("reconnect_during_teardown:old_teardown_held_after_local_session_and_topic_cleanup_before_deregistration", 1)
	r.Require("reconnect_during_teardown:reconnected_while_old_teardown_in_progress", 1)
	r.Require("reconnect_during_teardown:survivor_judged_after_release_and_old_teardown", 1)
	r.Require("reconnect_during_teardown:survivor_judged:old=p,new=p", 1)
	r.Require("reconnect_during_teardown:survivor_judged:old=p,new=c", 1)
	r.Require("reconnect_during_teardown:survivor_judged:old=c,new=p", 1)
	r.Require("reconnect_during_teardown:survivor_judged:old=c,new=c", 1)
	r.Require("reconnect_during_teardown:previous_subscription_given_back_to_persistent_reconnect", 1)
	r.Require("reconnect_during_teardown:clean_session_reconnect_old_filter_silent", 1)
	r.Require("reconnect_during_teardown:survivor_delivery_and_qos1_redelivery_seen_after_release_and_old_teardown", 1)
	// chains: the monitor must have judged reconnects deep in a history, for every kind of clause
	r.Require("chain_connections_judged", 1)
	r.Require("chain_third_or_later_connection_judged", 1)
	r.Require("chain_earlier_subscription_restored_at_third_or_later_connection", 1)
	r.Require("chain_subscription_of_a_connection_that_took_over_restored_after_its_own_end", 1)
	r.Require("chain_subscription_made_after_a_clean_predecessor_restored_at_next_persistent_reconnect", 1)
	r.Require("chain_earlier_subscription_restored_in_history_mixing_cleansession_values_and_takeover", 1)
	r.Require("chain_discarded_filter_silent", 1)
	r.Require("chain_superseded_teardown_observed_complete", 1)
	r.Require("chain_superseded_torn_down_after_successors_end", 1)
	r.Require("chain_superseded_torn_down_after_successors_end_and_next_reconnect", 1)
	r.Require("chain_stored_session_intact_after_late_superseded_teardown", 1)
	// chains: a session REBUILT FROM THE STORED COPY (predecessor torn down before the CONNECT) is
	// changed (own filter subscribed, inherited filter unsubscribed), the connection ends, and the
	// next cleanSession=false connection, rebuilt from the stored copy again, is judged
	r.Require("chain_session_rebuilt_from_storage", 1)
	r.Require("chain_session_rebuilt_from_storage_changed_by_subscribe_and_unsubscribe", 1)
	r.Require("chain_subscription_made_on_session_rebuilt_from_storage_restored_when_rebuilt_from_storage_again", 1)
	r.Require("chain_unsubscribed_filter_silent_after_persistent_reconnect", 1)
	r.Require("chain_filter_unsubscribed_on_session_rebuilt_from_storage_silent_when_rebuilt_from_storage_again", 1)
}

func c16run(r *kit.Run, rng *rand.Rand, s c16Scn, first bool) {
	const cid = "dev"
	f1, t1 := "s/old/+", "s/old/1"
	f2, t2 := "s/new", "s/new"
	if s.SameFilter {
		f2, t2 = f1, t1
	}
	var rb *c15rigBroker
	var conGate, disGate *c16gate // only with the gated pipelines
	var err error
	if s.Kind == "slow-disconnect-pipeline" || s.Kind == "reconnect-during-teardown" {
		rb, conGate, disGate, err = c16newGatedBroker()
	} else {
		rb, err = c15rigNewBroker(c15rigBrokerOpts{})
	}
	if err != nil {
		r.Inconclusive("broker did not start: " + err.Error())
		return
	}
	relay, err := c15rigNewRelay(rb.addr)
	if err != nil {
		rb.close()
		r.Inconclusive("relay did not start: " + err.Error())
		return
	}
	st := c16newStores(rb)
	var a, b *c15rigClient
	var la, lb *c15rigLink
	oldDown := false
	symptoms := []string{}
	steps := []string{}
	step := func(f string, x ...interface{}) { steps = append(steps, fmt.Sprintf(f, x...)) }
	jit := func() {
		if s.Jitter {
			time.Sleep(time.Duration(rng.Intn(4000)) * time.Microsecond)
		}
	}
	inconclusive := false
	inc := func(why string) {
		if !inconclusive {
			r.Inconclusive(why + " in " + s.sig("-"))
		}
		inconclusive = true
	}
	details := map[string]interface{}{}
	bad := func(symptom string, extra map[string]interface{}) {
		symptoms = append(symptoms, symptom)
		if extra == nil {
			extra = map[string]interface{}{}
		}
		extra["after_steps"] = len(steps)
		details[symptom] = extra
	}
	emit := func() {
		if len(symptoms) == 0 {
			return
		}
		base := func() map[string]interface{} {
			m := map[string]interface{}{"scenario": s, "teardown_point": c16pointName[s.Point], "steps": steps, "symptoms": symptoms, "symptom_details": details}
			if len(st.stuck) > 0 {
				m["store_hand_overs_proven_stuck_for_ever(goroutine states)"] = st.stuck
			}
			if s.Kind == "reconnect-during-teardown" {
				m["teardown_point"] = "started before the new CONNECT (held in the Disconnect pipeline), released and completed " + c16pointName[s.Point]
			}
			if b != nil {
				m["new_connection_log"] = b.events()
			}
			return m
		}
		dereg, gone := false, false
		for _, sy := range symptoms {
			dereg = dereg || c16famDeregistered[sy]
			gone = gone || c16famSessionGone[sy]
		}
		onlyPrev := gone
		for _, sy := range symptoms {
			if c16famSessionGone[sy] && !strings.HasPrefix(sy, "previous-subscription-") {
				onlyPrev = false
			}
		}
		switch {
		case dereg:
			r.Violation(s.sig("survivor-deregistered-or-disconnected"), base())
		case gone && onlyPrev && s.Kind == "reconnect-during-teardown":
			// the survivor's session, its own subscription and its registration are all right; only the
			// subscriptions of the previous session were not given back (routing and/or delivery)
			r.Violation(s.sig("previous-subscription-not-given-back"), base())
		case gone:
			r.Violation(s.sig("survivor-session-or-subscriptions-removed"), base())
		}
		seen := map[string]bool{}
		for _, sy := range symptoms {
			if !c16famDeregistered[sy] && !c16famSessionGone[sy] && !seen[sy] {
				seen[sy] = true
				if strings.HasPrefix(sy, "admin-delete") || strings.HasPrefix(sy, "persisted-") || strings.HasPrefix(sy, "old-connection-") || strings.HasPrefix(sy, "http-publish-") {
					// failures that do not depend on the reconnect/takeover schedule they were seen in
					r.Violation("any-schedule:"+sy, base())
				} else {
					r.Violation(s.sig(sy), base())
				}
			}
		}
	}
	seq := 0
	// inject publishes one message through the HTTP endpoint and waits for the handler's goroutine
	inject := func(topic string, qos int) (string, bool) {
		seq++
		pl := fmt.Sprintf("c16.%d", seq)
		if code := rb.httpPublish(topic, qos, pl, true); code != 200 {
			bad(fmt.Sprintf("http-publish-rejected-%d", code), nil)
			return pl, false
		}
		if !rb.publishQuiesced() {
			inc("watchdog: publish goroutine")
			return pl, false
		}
		return pl, true
	}
	// has: after a PING barrier, does c's log contain pl?  st: "ok" | "eof" | "watchdog"
	has := func(c *c15rigClient, pl string) (bool, string) {
		st := c.ping()
		switch st {
		case "ok":
		case "watchdog":
			inc("watchdog: PINGRESP")
		default: // connection ended (EOF, reset, write error)
			st = "eof"
		}
		n, _ := c.copies(pl)
		return n > 0, st
	}
	defer func() {
		if disGate != nil {
			// whatever happened: nothing of the broker stays parked in a pipeline of the harness
			conGate.release()
			disGate.release()
		}
		emit()
		r.Cover(fmt.Sprintf("schedule:%s/at=%s/%s/same=%v/admin=%v/inconclusive=%v/symptoms=%v", s.sig(""), c16pointName[s.Point], s.End, s.SameFilter, s.Admin, inconclusive, symptoms))
		if len(symptoms) > 0 {
			r.Count("schedules_with_symptoms", 1)
		} else if !inconclusive {
			r.Count("schedules_clean", 1)
		}
		if la != nil && !oldDown {
			la.cutBrokerSide()
			la.brokerClosed()
		}
		if a != nil {
			a.close()
		}
		if b != nil {
			b.shutdown()
		}
		rb.flushDeletes()
		st.settle()
		relay.close()
		rb.close()
	}()

	// ---- old connection
	a, la, err = relay.dial(cid)
	if err != nil {
		inc("dial: " + err.Error())
		return
	}
	ka := uint16(0)
	if s.End == "keepalive" {
		ka = 2 // the broker's read deadline is 1.5 x keepalive = 3 s after the old connection's last packet
	}
	// In the keep-alive schedules the broker may legitimately end the old connection at any
	// moment once 3 s have passed since its last packet.  If this machine is so slow that this
	// happens before the new connection is up, the schedule was not established: the case is
	// skipped and counted, never judged.
	kaEarly := func() bool {
		if s.End == "keepalive" {
			r.Count("keepalive_deadline_fired_before_the_new_connect(case skipped)", 1)
			return true
		}
		return false
	}
	if rc, st := a.connect(s.OldClean, ka); st != "ok" || rc != 0 {
		bad("old-connection-refused", map[string]interface{}{"state": st, "rc": rc})
		return
	}
	if st := a.subscribe([]string{f1}, []byte{1}); st != "ok" {
		if st == "watchdog" || !kaEarly() {
			inc("old subscribe: " + st)
		}
		return
	}
	step("old: CONNECT clean=%v, SUBSCRIBE %s", s.OldClean, f1)
	if pl, ok := inject(t1, 1); !ok {
		return
	} else if got, st := has(a, pl); st != "ok" {
		if !inconclusive && !kaEarly() {
			bad("old-connection-closed-by-broker", nil)
		}
		return
	} else if !got {
		bad("old-connection-delivery-missed", nil)
		return
	}
	r.Count("sanity_delivery_to_old_connection", 1)
	// Second barrier: the raw client wrote its PUBACK for that message before it read the PINGRESP
	// above, so the PUBACK is ahead of this PINGREQ on the wire and the broker has PROCESSED it when
	// the PINGRESP is back.  Without it a PUBACK still in flight wakes the old read loop at an
	// arbitrary later step: after a broker-initiated close (admin delete) the loop then ends at once
	// instead of lingering, and the teardown it runs (and the session delete it may issue) lands at
	// a point of the schedule the harness did not choose.
	if st := a.ping(); st != "ok" {
		if st == "watchdog" {
			inc("watchdog: PINGRESP")
		} else if !kaEarly() {
			bad("old-connection-closed-by-broker", nil)
		}
		return
	}
	nStuck, settled := st.settle()
	if !settled {
		inc("watchdog: session store")
		return
	}
	if nStuck > 0 {
		// hand-overs that can never complete: "every hand-over has finished" will never be true, so
		// the stored copy is not judged here; the schedule goes on and the reconnect is judged
		r.Count("store_hand_over_proven_stuck_for_ever", int64(nStuck))
		step("old: %d Session.store() hand-over(s) can never complete (parked in a send on a channel the store loop does not read): %v", nStuck, st.stuck)
	}
	if !s.OldClean && nStuck == 0 {
		// The persisted copy must have the subscription once every store hand-over has finished
		// (it is what a later cleanSession=false reconnect is restored from).  The hand-over is
		// one goroutine per Session.store() call, so snapshots can be written out of order; this
		// monitor cannot steer that race, it can only observe its result.  The rest of the
		// schedule is not run on a broken precondition.
		if tp, ok := rb.persistedTopics(cid); !ok || tp[f1] != 1 {
			r.Count("persisted_copy_stale_after_all_stores_finished", 1)
			bad("persisted-session-stale-after-all-stores-finished", map[string]interface{}{"persisted_topics": tp, "persisted_copy_exists": ok, "live_session_has": f1})
			return
		}
	}
	if s.Kind == "broker-closed-predecessor" {
		// the broker ends the old connection itself: admin delete of the session, the delete event
		// is delivered and completely processed BEFORE the new connection is started (otherwise
		// this would be the stale-delete-event schedule)
		jit()
		if code := rb.httpDeleteSession(cid); code != 200 {
			bad(fmt.Sprintf("admin-delete-rejected-%d", code), nil)
			return
		}
		if _, ok := rb.flushDeletes(); !ok {
			inc("watchdog: delete-watch flush")
			return
		}
		step("admin: DELETE session %s, watch event delivered and processed (before the new CONNECT)", cid)
		if reg, _ := rb.registered(cid); reg != nil {
			bad("admin-delete:client-still-registered", nil)
			return
		}
		// Whether the old read loop lingers is the broker's own race: Client.close() only closes
		// a channel that the read loop looks at BETWEEN two reads.  A read loop that was still on
		// its way back from the last packet (the PINGREQ of the barrier) when the broker closed
		// the client ends at once and tears its session down before the new CONNECT, which is
		// the plain-reconnect schedule, not this one.  So the state is observed, not assumed:
		// wait until every read loop is parked in a socket read or gone, then look at the books
		// (a full teardown removes the session from the session map, a lingering one has not).
		if !c15rigReadLoopsParked() {
			inc("watchdog: read loops neither parked in a read nor gone")
			return
		}
		_, sessionStillLocal := rb.b.sessMgr.sessionMap.Load(cid)
		closedAlready := false
		select {
		case <-la.upClosed:
			closedAlready = true
		default:
		}
		if closedAlready || !sessionStillLocal {
			// the broker has ended the old connection at once: nothing lingers, this class is not established
			r.Count("broker_closed_predecessor:old_read_loop_ended_at_once(case skipped)", 1)
			oldDown = true
			return
		}
		r.Count("broker_closed_predecessor_deregistered_and_lingering", 1)
		step("old: closed and deregistered by the broker, its socket is still open and its read loop lingers")
	}
	endOld := func() bool {
		jit()
		switch s.End {
		case "disconnect":
			a.sendDisconnect()
			step("old: DISCONNECT packet reaches the broker")
		case "drop":
			la.cutBrokerSide()
			step("old: broker's read on the old connection sees EOF")
		case "keepalive":
			step("old: waiting for the broker's keep-alive deadline on the old connection")
		}
		if !la.brokerClosed() {
			inc("watchdog: old connection teardown")
			return false
		}
		oldDown = true
		r.Count("old_teardown_observed_complete", 1)
		if s.End == "keepalive" {
			r.Count("keepalive_teardown_observed", 1)
		}
		step("old: teardown complete (broker closed its side)")
		if s.Kind != "stale-delete-event" {
			n, ok := rb.flushDeletes()
			if !ok {
				inc("watchdog: delete-watch flush")
				return false
			}
			if n > 0 {
				step("delete-watch: %d event(s) delivered and processed", n)
				r.Count("delete_watch_events_delivered_promptly", int64(n))
			}
		}
		jit()
		return true
	}
	if s.End == "drop" || s.End == "keepalive" {
		// the device vanishes: its socket is gone, the broker is not told
		a.close()
		step("old: client vanished silently")
	}
	if s.Point == 0 && !endOld() {
		return
	}

	dead := false
	// ---- slow Disconnect pipeline: the broker itself ends the old connection (admin delete of its
	// session / takeover) and the Disconnect pipeline run by Client.close() is held open by the
	// harness while the same client id connects again and subscribes; it is released afterwards and
	// only then the old socket ends.  The survivor is judged like in every other schedule.
	subscribeNew := func() bool {
		if st := b.subscribe([]string{f2}, []byte{1}); st != "ok" {
			if st == "watchdog" {
				inc("watchdog: new SUBACK")
			} else {
				bad("survivor-connection-closed", map[string]interface{}{"at": "SUBSCRIBE", "state": st})
			}
			return false
		}
		step("new: SUBSCRIBE %s", f2)
		return true
	}
	firstDelivery := func() bool {
		pl, ok := inject(t2, 1)
		if !ok {
			return false
		}
		got, st := has(b, pl)
		switch {
		case st == "watchdog":
			return false
		case st != "ok":
			dead = true
		case !got:
			bad("new-subscription-delivery-missed", map[string]interface{}{"at": "first delivery", "payload": pl})
		default:
			step("new: first delivery on %s received", t2)
		}
		return true
	}
	slowPipeline := func() bool {
		var err error
		jit()
		disGate.arm()
		switch s.Via {
		case "takeover":
			b, lb, err = relay.dial(cid)
			if err != nil {
				inc("dial: " + err.Error())
				return false
			}
			if rc, st := b.connect(s.NewClean, 0); st != "ok" || rc != 0 {
				bad("new-connection-refused", map[string]interface{}{"state": st, "rc": rc})
				return false
			}
			step("new: CONNECT clean=%v accepted (takeover: the broker closes the old connection)", s.NewClean)
			if !disGate.wait(func(e, _ int) bool { return e >= 1 }) {
				inc("watchdog: Disconnect pipeline of the superseded connection not entered")
				return false
			}
			step("old: being closed by the broker; its Disconnect pipeline is running and is held open")
			jit()
			if !subscribeNew() {
				return false
			}
			r.Count("slow_disconnect_pipeline:takeover_connection_subscribed_while_predecessors_disconnect_pipeline_was_running", 1)
			if !firstDelivery() {
				return false
			}
			jit()
			disGate.release()
			if !disGate.wait(func(e, x int) bool { return x >= e }) {
				inc("watchdog: Disconnect pipeline did not return")
				return false
			}
			step("old: Disconnect pipeline released and finished")
		case "admin-delete":
			if code := rb.httpDeleteSession(cid); code != 200 {
				bad(fmt.Sprintf("admin-delete-rejected-%d", code), nil)
				return false
			}
			// hand the delete event to the broker's watch loop WITHOUT waiting for its handling to finish
			if _, ok := rb.store.flush(rb.b.done); !ok {
				inc("watchdog: delete-watch hand-over")
				return false
			}
			if !disGate.wait(func(e, _ int) bool { return e >= 1 }) {
				inc("watchdog: Disconnect pipeline not entered after the admin delete")
				return false
			}
			step("admin: DELETE session %s, watch event delivered; the broker is closing the old connection, its Disconnect pipeline is running and is held open", cid)
			jit()
			conGate.arm()
			b, lb, err = relay.dial(cid)
			if err != nil {
				inc("dial: " + err.Error())
				return false
			}
			if err := c16sendConnect(b, s.NewClean); err != nil {
				inc("write CONNECT: " + err.Error())
				return false
			}
			if !conGate.wait(func(e, _ int) bool { return e >= 1 }) {
				inc("watchdog: Connect pipeline of the new connection not entered")
				return false
			}
			r.Count("slow_disconnect_pipeline:reconnect_CONNECT_handled_while_predecessors_disconnect_pipeline_was_running", 1)
			step("new: CONNECT clean=%v is being handled by the broker (its Connect pipeline has been entered) while the old connection's Disconnect pipeline is still running", s.NewClean)
			conGate.release()
			// Is the broker's registry lock held for as long as the Disconnect pipeline runs?  Then the
			// CONNECT cannot be answered before the release (it is serialised behind the pipeline) and
			// waiting for the CONNACK here would never end; otherwise the CONNACK is due now.
			free := false
			for i := 0; i < 50 && !free; i++ {
				if rb.b.TryRLock() {
					rb.b.RUnlock()
					free = true
				} else {
					time.Sleep(200 * time.Microsecond)
				}
			}
			connacked := false
			waitConnack := func() bool {
				rc, st := c16waitConnack(b)
				if st == "watchdog" {
					inc("watchdog: CONNACK")
					return false
				}
				if st != "ok" || rc != 0 {
					bad("new-connection-refused", map[string]interface{}{"state": st, "rc": rc})
					return false
				}
				connacked = true
				step("new: CONNECT accepted")
				return true
			}
			if free {
				if !waitConnack() || !subscribeNew() {
					return false
				}
				r.Count("slow_disconnect_pipeline:reconnect_completed_and_subscribed_while_predecessors_disconnect_pipeline_was_running", 1)
				step("new: connected and subscribed while the old connection's Disconnect pipeline was still running")
			} else {
				r.Count("slow_disconnect_pipeline:reconnect_serialised_behind_predecessors_disconnect_pipeline(broker lock held by its runner)", 1)
				step("new: the broker's registry lock is held while the Disconnect pipeline runs, the CONNECT waits for it")
			}
			jit()
			disGate.release()
			if !disGate.wait(func(e, x int) bool { return x >= e }) || !c15rigQuiesce("(*Broker).watchDelete") {
				inc("watchdog: handling of the delete event did not finish")
				return false
			}
			step("old: Disconnect pipeline released; the broker has finished handling the delete event")
			if !connacked && (!waitConnack() || !subscribeNew()) {
				return false
			}
			if !firstDelivery() {
				return false
			}
		}
		// only now the old socket ends
		return endOld()
	}
	// ---- reconnect WHILE the old connection's own teardown is in progress: the old connection ends
	// by itself (DISCONNECT packet / EOF), its read loop's deferred teardown runs and is held inside
	// the Disconnect pipeline that Client.close() runs (gated handler), i.e. at whatever stage of the
	// teardown the broker runs that pipeline; the stage is OBSERVED from the books (session map,
	// topic manager, registry), not assumed.  The same client id connects meanwhile; the pipeline is
	// released after the new CONNACK / SUBSCRIBE / first delivery, the teardown is observed complete,
	// and the survivor is judged like in every other schedule.
	duringTeardown := func() bool {
		var err error
		jit()
		disGate.arm()
		switch s.End {
		case "disconnect":
			a.sendDisconnect()
			step("old: DISCONNECT packet reaches the broker")
		case "drop":
			la.cutBrokerSide()
			step("old: broker's read on the old connection sees EOF")
		}
		if !disGate.wait(func(e, _ int) bool { return e >= 1 }) {
			inc("watchdog: Disconnect pipeline not entered by the old connection's teardown")
			return false
		}
		select {
		case <-la.upClosed:
			// cannot be: the teardown is parked in the harness' handler
			inc("old connection closed by the broker although its teardown is held")
			return false
		default:
		}
		// which stage of the teardown is this?  (books only; the registry is read only if its lock is free)
		sessGone := rb.sessionInMap(cid) == nil
		routed, _ := rb.routes(t1, cid)
		regState := "registry-lock-held"
		for i := 0; i < 50 && regState == "registry-lock-held"; i++ {
			if rb.b.TryRLock() {
				if c := rb.b.clients[cid]; c != nil {
					regState = "still-registered"
				} else {
					regState = "deregistered"
				}
				rb.b.RUnlock()
			} else {
				time.Sleep(200 * time.Microsecond)
			}
		}
		stage := fmt.Sprintf("session-in-map=%v,old-filter-routed=%v,%s", !sessGone, routed, regState)
		r.Count("reconnect_during_teardown:teardown_held_at_stage:"+stage, 1)
		if sessGone && !routed && regState == "still-registered" {
			r.Count("reconnect_during_teardown:old_teardown_held_after_local_session_and_topic_cleanup_before_deregistration", 1)
		}
		step("old: its own teardown is in progress and is held inside the Disconnect pipeline (stage by the books: %s)", stage)
		if regState == "registry-lock-held" {
			// the CONNECT could not be answered before the release: this class is not established here
			r.Count("reconnect_during_teardown:registry_lock_held_by_the_teardown(case skipped)", 1)
			return false
		}
		if rb.store.heldCount() > 0 {
			// the session delete the teardown issued (cleanSession=true): its watch event is delivered
			// promptly, as in every schedule but stale-delete-event, i.e. while the teardown is still held
			n, ok := rb.flushDeletes()
			if !ok {
				inc("watchdog: delete-watch flush")
				return false
			}
			step("delete-watch: %d event(s) delivered and processed while the old teardown is held", n)
			r.Count("delete_watch_events_delivered_promptly", int64(n))
		}
		release := func() bool {
			jit()
			disGate.release()
			if !disGate.wait(func(e, x int) bool { return x >= e }) {
				inc("watchdog: Disconnect pipeline did not return")
				return false
			}
			step("old: Disconnect pipeline released")
			if !la.brokerClosed() {
				inc("watchdog: old connection teardown")
				return false
			}
			oldDown = true
			r.Count("old_teardown_observed_complete", 1)
			step("old: teardown complete (broker closed its side)")
			n, ok := rb.flushDeletes()
			if !ok {
				inc("watchdog: delete-watch flush")
				return false
			}
			if n > 0 {
				step("delete-watch: %d event(s) delivered and processed", n)
				r.Count("delete_watch_events_delivered_promptly", int64(n))
			}
			jit()
			return true
		}
		jit()
		b, lb, err = relay.dial(cid)
		if err != nil {
			inc("dial: " + err.Error())
			return false
		}
		if rc, st := b.connect(s.NewClean, 0); st == "watchdog" {
			inc("watchdog: CONNACK while the old teardown is held")
			return false
		} else if st != "ok" || rc != 0 {
			bad("new-connection-refused", map[string]interface{}{"state": st, "rc": rc})
			return false
		}
		step("new: CONNECT clean=%v accepted while the old connection's teardown is still in progress", s.NewClean)
		r.Count("reconnect_during_teardown:reconnected_while_old_teardown_in_progress", 1)
		if s.Point == 1 && !release() {
			return false
		}
		if !subscribeNew() {
			return false
		}
		if s.Point == 2 && !release() {
			return false
		}
		if !firstDelivery() {
			return false
		}
		if s.Point == 3 && !release() {
			return false
		}
		return true
	}
	if s.Kind == "slow-disconnect-pipeline" {
		if !slowPipeline() {
			return
		}
	} else if s.Kind == "reconnect-during-teardown" {
		if !duringTeardown() {
			return
		}
	} else {
		// ---- new connection
		jit()
		b, lb, err = relay.dial(cid)
		if err != nil {
			inc("dial: " + err.Error())
			return
		}
		if rc, st := b.connect(s.NewClean, 0); st != "ok" || rc != 0 {
			bad("new-connection-refused", map[string]interface{}{"state": st, "rc": rc})
			return
		}
		step("new: CONNECT clean=%v accepted", s.NewClean)
		if s.End == "keepalive" {
			tornDown := false
			select {
			case <-la.upClosed:
				tornDown = true
			default:
			}
			if tornDown || rb.store.heldCount() > 0 {
				// the old connection's teardown was already under way when the new CONNECT was answered
				kaEarly()
				return
			}
		}
		if s.Point == 1 && !endOld() {
			return
		}
		if st := b.subscribe([]string{f2}, []byte{1}); st != "ok" {
			if st == "watchdog" {
				inc("watchdog: new SUBACK")
			} else {
				bad("survivor-connection-closed", map[string]interface{}{"at": "SUBSCRIBE", "state": st})
			}
			return
		}
		step("new: SUBSCRIBE %s", f2)
		if s.Point == 2 && !endOld() {
			return
		}
		if pl, ok := inject(t2, 1); !ok {
			return
		} else if got, st := has(b, pl); st == "watchdog" {
			return
		} else if st != "ok" {
			dead = true
		} else if !got {
			bad("new-subscription-delivery-missed", map[string]interface{}{"at": "first delivery", "payload": pl})
		} else {
			step("new: first delivery on %s received", t2)
		}
		if s.Point == 3 && !endOld() {
			return
		}
		if s.Point == 5 && !endOld() {
			return
		}
	}
	if s.Kind == "stale-delete-event" {
		jit()
		n, ok := rb.flushDeletes()
		if !ok {
			inc("watchdog: delete-watch flush")
			return
		}
		step("delete-watch: %d event(s) of the OLD session's deletion delivered after the reconnect", n)
		r.Count("stale_delete_events_delivered_after_reconnect", int64(n))
	}

	// ---- judgement: the surviving connection and the broker's books
	adminDeleted := s.Kind == "broker-closed-predecessor" || (s.Kind == "slow-disconnect-pipeline" && s.Via == "admin-delete")
	expectPrev := !s.OldClean && !s.NewClean && !adminDeleted // after an admin delete of the session the property does not say
	if s.Kind == "broker-closed-predecessor" && oldDown {
		r.Count("broker_closed_predecessor_survivor_judged_after_old_teardown", 1)
	}
	if s.Kind == "slow-disconnect-pipeline" && oldDown {
		r.Count("slow_disconnect_pipeline:survivor_judged_after_release_and_old_teardown", 1)
	}
	if s.Kind == "reconnect-during-teardown" && oldDown {
		r.Count("reconnect_during_teardown:survivor_judged_after_release_and_old_teardown", 1)
		r.Count(fmt.Sprintf("reconnect_during_teardown:survivor_judged:old=%s,new=%s", c16cp(s.OldClean), c16cp(s.NewClean)), 1)
	}
	reg, sess := rb.registered(cid)
	switch {
	case reg == nil:
		bad("survivor-not-registered", nil)
	case reg.conn.RemoteAddr().String() != lb.brokerSideLocalAddr():
		bad("registered-connection-is-not-the-new-one", map[string]interface{}{"registered": reg.conn.RemoteAddr().String(), "new": lb.brokerSideLocalAddr()})
	}
	if reg != nil {
		switch inMap := rb.sessionInMap(cid); {
		case inMap == nil:
			bad("session-missing-from-session-map", nil)
		case inMap != sess:
			bad("session-map-holds-a-different-session", nil)
		}
	}
	sessClosed := false
	if sess != nil {
		select {
		case <-sess.done: // closed: its background resend loop has been told to stop
			sessClosed = true
			bad("survivor-session-closed", nil)
		default:
		}
	}
	if ok, _ := rb.routes(t2, cid); !ok {
		bad("new-subscription-unrouted", map[string]interface{}{"topic": t2})
	}
	if expectPrev {
		if ok, _ := rb.routes(t1, cid); !ok {
			bad("previous-subscription-unrouted", map[string]interface{}{"topic": t1})
		}
	}
	if dead || b.sawEOF() {
		bad("survivor-connection-closed", map[string]interface{}{"at": "after old teardown"})
		dead = true
	}
	if !dead {
		// fresh QoS1 message on the new filter, PUBACK withheld: delivery, then redelivery
		b.autoAck.Store(false)
		pl, ok := inject(t2, 1)
		if !ok {
			return
		}
		got, st := has(b, pl)
		switch {
		case st == "watchdog":
			return
		case st != "ok":
			bad("survivor-connection-closed", map[string]interface{}{"at": "fresh message"})
			dead = true
		case !got:
			bad("new-subscription-delivery-missed", map[string]interface{}{"at": "fresh message after old teardown", "payload": pl})
		default:
			r.Count("survivor_received_on_new_filter", 1)
			if sessClosed {
				// already reported; the resend loop of a closed session cannot retransmit, no need to wait for it
				r.Count("redelivery_wait_skipped_session_closed", 1)
				break
			}
			n := 0
			alive := true
			ok := c15rigTicks(c15rigMaxTicks, func(int) bool {
				if st := b.ping(); st != "ok" {
					alive = false
					return true
				}
				n, _ = b.copies(pl)
				return n >= 2
			})
			switch {
			case !alive && !b.sawEOF():
				inc("watchdog: PINGRESP during redelivery wait")
				return
			case !alive:
				bad("survivor-connection-closed", map[string]interface{}{"at": "redelivery wait"})
				dead = true
			case !ok:
				bad("qos1-redelivery-stopped", map[string]interface{}{"payload": pl, "copies": n, "harness_ticks": c15rigMaxTicks})
			default:
				r.Count("survivor_qos1_redelivery_seen", 1)
				if s.Kind == "broker-closed-predecessor" && oldDown {
					r.Count("broker_closed_predecessor_survivor_delivery_and_qos1_redelivery_seen_after_old_teardown", 1)
				}
				if s.Kind == "slow-disconnect-pipeline" && oldDown {
					r.Count("slow_disconnect_pipeline:survivor_delivery_and_qos1_redelivery_seen_after_release_and_old_teardown", 1)
				}
				if s.Kind == "reconnect-during-teardown" && oldDown {
					r.Count("reconnect_during_teardown:survivor_delivery_and_qos1_redelivery_seen_after_release_and_old_teardown", 1)
				}
			}
			_, ids := b.copies(pl)
			if len(ids) > 0 {
				b.puback(ids[0])
			}
		}
		b.autoAck.Store(true)
	}
	if !dead && !s.SameFilter {
		pl, ok := inject(t1, s.M1QoS)
		if !ok {
			return
		}
		got, st := has(b, pl)
		switch {
		case st == "watchdog":
			return
		case st != "ok":
			bad("survivor-connection-closed", map[string]interface{}{"at": "probe on old filter"})
			dead = true
		case expectPrev && !got:
			bad("previous-subscription-delivery-missed", map[string]interface{}{"payload": pl, "qos": s.M1QoS})
		case expectPrev:
			r.Count("previous_subscription_restored", 1)
			if s.Kind == "reconnect-during-teardown" && oldDown {
				r.Count("reconnect_during_teardown:previous_subscription_given_back_to_persistent_reconnect", 1)
			}
		case s.NewClean && got && oldDown:
			bad("clean-session-still-gets-previous-subscription", map[string]interface{}{"payload": pl})
		case s.NewClean && got:
			r.Count("clean_session_got_old_filter_while_superseded_connection_not_torn_down(not judged)", 1)
		case s.NewClean:
			r.Count("clean_session_old_filter_silent", 1)
			if s.Kind == "reconnect-during-teardown" && oldDown {
				r.Count("reconnect_during_teardown:clean_session_reconnect_old_filter_silent", 1)
			}
		case s.Kind == "broker-closed-predecessor" && got:
			r.Count("broker_closed_predecessor:persistent_successor_got_old_filter_of_admin_deleted_session(not judged)", 1)
		case s.Kind == "broker-closed-predecessor":
			r.Count("broker_closed_predecessor:persistent_successor_old_filter_silent(not judged)", 1)
		case adminDeleted && got:
			r.Count("slow_disconnect_pipeline:persistent_successor_got_old_filter_of_admin_deleted_session(not judged)", 1)
		case adminDeleted:
			r.Count("slow_disconnect_pipeline:persistent_successor_old_filter_silent(not judged)", 1)
		case got:
			r.Count("old_clean_new_persistent:old_filter_delivered(not judged)", 1)
		default:
			r.Count("old_clean_new_persistent:old_filter_silent(not judged)", 1)
		}
	}
	if !dead && !s.NewClean {
		if nStuck, settled := st.settle(); settled && nStuck > 0 {
			r.Count("store_hand_over_proven_stuck_for_ever", int64(nStuck))
			r.Count("persisted_copy_of_survivor_can_never_catch_up(not judged here: judged by the chains at the next reconnect)", 1)
		} else if settled {
			if tp, ok := rb.persistedTopics(cid); !ok {
				r.Count("persisted_copy_absent_for_persistent_survivor(not judged)", 1)
			} else if _, has2 := tp[f2]; !has2 {
				r.Count("persisted_copy_lacks_new_filter(not judged)", 1)
			} else {
				r.Count("persisted_copy_has_new_filter", 1)
			}
		}
	}
	// ---- admin delete: the session is deleted through the endpoint, the client must be cut off
	if s.Admin && !dead && len(symptoms) == 0 {
		jit()
		if code := rb.httpDeleteSession(cid); code != 200 {
			bad(fmt.Sprintf("admin-delete-rejected-%d", code), nil)
		} else if _, ok := rb.flushDeletes(); !ok {
			inc("watchdog: delete-watch flush")
			return
		} else {
			step("admin: DELETE session %s, watch event delivered and processed", cid)
			if reg, _ := rb.registered(cid); reg != nil {
				bad("admin-delete:client-still-registered", nil)
			}
			pl, ok := inject(t2, 0)
			if !ok {
				return
			}
			// the broker notices on the connection's next packet: the PINGREQ must end in EOF
			got, st := has(b, pl)
			switch {
			case st == "watchdog":
				return
			case st == "ok" || got:
				bad("admin-delete:client-still-served", map[string]interface{}{"ping": st, "message_after_delete_received": got})
			default:
				r.Count("admin_delete_disconnected_client", 1)
			}
		}
	}
	if first && len(symptoms) == 0 && s.Kind == "takeover" && s.Point == 2 && !s.OldClean && !s.NewClean && !s.SameFilter {
		r.Sample(map[string]interface{}{"scenario": s, "steps": steps})
	}
}

// ---------------------------------------------------------------------------- stored copy
//
// c16runStored executes the two schedule kinds whose subject is the COPY of the session that a
// later cleanSession=false connection is given back:
//
//   - "slow-store-put": the storage is slow at the moment.  The harness holds one put of the session
//     storage (rig storage wrapper, putHook) - the store loop of the session manager is inside it -
//     while the client makes further acknowledged changes to its session (SUBSCRIBE with SUBACK,
//     optionally UNSUBSCRIBE with UNSUBACK) and ends its connection; the teardown is observed
//     complete while the put is STILL held (the sequential store loop cannot have taken anything
//     meanwhile: logical, no clock), then the put is released, the hand-overs are awaited (finished
//     or proven stuck for ever) and the client reconnects with cleanSession=false.
//   - "resubscribe-other-qos": the client subscribes a filter it already holds again with another
//     QoS; after the reconnect / takeover the subscription it gets back must be the one it had.
//
// Oracle (property sentence): a subscription whose SUBACK the client has received belongs to its
// session; the cleanSession=false reconnect gets it back (routed with the QoS of the last
// SUBSCRIBE, a message of that QoS delivered); a filter whose UNSUBACK it has received does not
// come back.  Nothing is demanded about the stored copy at any particular moment.
func c16runStored(r *kit.Run, rng *rand.Rand, s c16Scn, first bool) {
	const cid = "dev"
	type exp struct {
		Filter string `json:"filter"`
		Topic  string `json:"topic"`
		Held   bool   `json:"session_holds_it"` // false: unsubscribed (UNSUBACK received)
		QoS    int    `json:"qos_of_last_acknowledged_subscribe"`
		By     string `json:"by"`
		Resub  bool   `json:"subscribed_twice_with_different_qos,omitempty"`
		own    bool
	}
	rb, err := c15rigNewBroker(c15rigBrokerOpts{})
	if err != nil {
		r.Inconclusive("broker did not start: " + err.Error())
		return
	}
	relay, err := c15rigNewRelay(rb.addr)
	if err != nil {
		rb.close()
		r.Inconclusive("relay did not start: " + err.Error())
		return
	}
	st := c16newStores(rb)
	gate := c16newGate()
	rb.store.putHook.Store(func(string) { gate.Handle(nil) })
	var conns []*c15rigClient
	var links []*c15rigLink
	var down []bool
	var model []*exp
	stuckSeen := false
	steps := []string{}
	step := func(f string, x ...interface{}) { steps = append(steps, fmt.Sprintf(f, x...)) }
	jit := func() {
		if s.Jitter {
			time.Sleep(time.Duration(rng.Intn(4000)) * time.Microsecond)
		}
	}
	inconclusive := false
	inc := func(why string) {
		if !inconclusive {
			r.Inconclusive(why + " in " + s.sig("-"))
		}
		inconclusive = true
	}
	type sympt struct {
		Family  string                 `json:"family"`
		Symptom string                 `json:"symptom"`
		Extra   map[string]interface{} `json:"detail,omitempty"`
	}
	var symptoms []sympt
	bad := func(family, symptom string, extra map[string]interface{}) {
		symptoms = append(symptoms, sympt{family, symptom, extra})
	}
	extraDetail := map[string]interface{}{}
	emit := func(k int, when string) {
		seen := map[string]bool{}
		for _, sy := range symptoms {
			if seen[sy.Family] {
				continue
			}
			seen[sy.Family] = true
			d := map[string]interface{}{"scenario": s, "judged_connection": k, "judged": when, "steps": steps, "symptoms": symptoms, "session_model(from the acknowledged SUBSCRIBEs/UNSUBSCRIBEs)": model}
			for key, v := range extraDetail {
				d[key] = v
			}
			if len(st.stuck) > 0 {
				d["store_hand_overs_proven_stuck_for_ever(goroutine states)"] = st.stuck
			}
			if k >= 0 && k < len(conns) {
				d["judged_connection_log"] = conns[k].events()
			}
			fam := sy.Family
			if strings.HasPrefix(fam, "http-publish-") {
				r.Violation("any-schedule:"+fam, d)
				continue
			}
			if stuckSeen && (fam == "previous-subscription-not-restored" || fam == "unsubscribed-filter-back-after-reconnect" || fam == "previous-subscription-restored-with-another-qos") {
				fam += ":session-never-persisted-again(store-hand-over-stuck-for-ever)"
			}
			r.Violation(s.sig(fam), d)
		}
	}
	defer func() {
		gate.release() // whatever happened: the store loop does not stay parked in the harness
		syms := []string{}
		for _, sy := range symptoms {
			syms = append(syms, sy.Family+"/"+sy.Symptom)
		}
		r.Cover(fmt.Sprintf("schedule:%s/at=%s/%s/with-new=%v/inconclusive=%v/symptoms=%v", s.sig(""), c16pointName[s.Point], s.End, s.WithNew, inconclusive, syms))
		if len(symptoms) > 0 {
			r.Count("schedules_with_symptoms", 1)
		} else if !inconclusive {
			r.Count("schedules_clean", 1)
		}
		for k := range conns {
			if !down[k] && k != len(conns)-1 {
				links[k].cutBrokerSide()
				links[k].brokerClosed()
			}
		}
		if k := len(conns) - 1; k >= 0 && !down[k] {
			conns[k].shutdown()
		}
		for k := range conns {
			conns[k].close()
		}
		rb.flushDeletes()
		st.settle()
		relay.close()
		rb.close()
	}()
	settle := func() bool {
		nStuck, ok := st.settle()
		if !ok {
			inc("watchdog: session store")
			return false
		}
		if nStuck > 0 {
			stuckSeen = true
			r.Count("store_hand_over_proven_stuck_for_ever", int64(nStuck))
			step("%d Session.store() hand-over(s) can never complete (parked in a send on a channel the store loop does not read: %v); the history goes on", nStuck, st.stuck)
		}
		return true
	}
	dial := func(clean bool) (int, bool) {
		c, l, err := relay.dial(cid)
		if err != nil {
			inc("dial: " + err.Error())
			return -1, false
		}
		conns, links, down = append(conns, c), append(links, l), append(down, false)
		k := len(conns) - 1
		if rc, cst := c.connect(clean, 0); cst == "watchdog" {
			inc("watchdog: CONNACK")
			return k, false
		} else if cst != "ok" || rc != 0 {
			bad("connection-refused", "connect", map[string]interface{}{"state": cst, "rc": rc})
			emit(k, "CONNECT")
			return k, false
		}
		return k, true
	}
	sub := func(k int, filters []string, qoss []byte) bool {
		switch sst := conns[k].subscribe(filters, qoss); sst {
		case "ok":
			step("#%d: SUBSCRIBE %v qos %v, SUBACK received", k, filters, qoss)
			return true
		case "watchdog":
			inc("watchdog: SUBACK")
		default:
			bad("current-connection-deregistered-or-disconnected", "connection-closed-by-broker", map[string]interface{}{"at": "SUBSCRIBE", "state": sst})
			emit(k, "SUBSCRIBE")
		}
		return false
	}
	endConn := func(k int, how string) bool {
		jit()
		switch how {
		case "disconnect":
			conns[k].sendDisconnect()
			step("#%d: DISCONNECT packet reaches the broker", k)
		default:
			conns[k].close()
			links[k].cutBrokerSide()
			step("#%d: client vanished, broker's read on the connection sees EOF", k)
		}
		if !links[k].brokerClosed() {
			inc("watchdog: connection teardown")
			return false
		}
		down[k] = true
		r.Count("old_teardown_observed_complete", 1)
		step("#%d: teardown complete (broker closed its side)", k)
		if _, ok := rb.flushDeletes(); !ok {
			inc("watchdog: delete-watch flush")
			return false
		}
		return true
	}
	seq := 0
	inject := func(k int, tp string, qos int) (string, bool) {
		seq++
		pl := fmt.Sprintf("c16stored.%d", seq)
		if code := rb.httpPublish(tp, qos, pl, true); code != 200 {
			bad(fmt.Sprintf("http-publish-rejected-%d", code), "", nil)
			emit(k, "publish")
			return pl, false
		}
		if !rb.publishQuiesced() {
			inc("watchdog: publish goroutine")
			return pl, false
		}
		return pl, true
	}
	famOf := func(e *exp) string {
		if e.own {
			return "own-subscription-lost"
		}
		return "previous-subscription-not-restored"
	}
	// judge connection k (the current one) against the model.  false = the history ends here.
	judge := func(k int, when string) bool {
		c, l := conns[k], links[k]
		r.Eval(1)
		reg, sess := rb.registered(cid)
		switch {
		case reg == nil:
			bad("current-connection-deregistered-or-disconnected", "not-registered", nil)
		case reg.conn.RemoteAddr().String() != l.brokerSideLocalAddr():
			bad("current-connection-deregistered-or-disconnected", "registered-connection-is-not-the-current-one", nil)
		}
		if reg != nil {
			switch inMap := rb.sessionInMap(cid); {
			case inMap == nil:
				bad("current-session-removed", "session-missing-from-session-map", nil)
			case inMap != sess:
				bad("current-session-removed", "session-map-holds-a-different-session", nil)
			}
		}
		allEarlierDown := true
		for i := 0; i < k; i++ {
			allEarlierDown = allEarlierDown && down[i]
		}
		for _, e := range model {
			ok, q := rb.routes(e.Topic, cid)
			switch {
			case e.Held && !ok:
				bad(famOf(e), "unrouted", map[string]interface{}{"filter": e.Filter, "by": e.By})
			case e.Held && int(q) != e.QoS:
				bad("previous-subscription-restored-with-another-qos", "routed-with-another-qos", map[string]interface{}{"filter": e.Filter, "by": e.By, "qos_of_last_acknowledged_subscribe": e.QoS, "routed_with_qos": int(q)})
			case !e.Held && ok && allEarlierDown:
				bad("unsubscribed-filter-back-after-reconnect", "routed", map[string]interface{}{"filter": e.Filter, "by": e.By})
			}
		}
		if c.sawEOF() {
			bad("current-connection-deregistered-or-disconnected", "connection-closed-by-broker", nil)
		} else {
			pls := make([]string, len(model))
			hi := make([]string, len(model)) // QoS1 probe on a subscription whose last QoS is 0: counted only
			for j, e := range model {
				q := e.QoS
				if !e.Held {
					q = rng.Intn(2)
				}
				pl, ok := inject(k, e.Topic, q)
				if !ok {
					return false
				}
				pls[j] = pl
				if e.Held && e.Resub && e.QoS == 0 {
					if hi[j], ok = inject(k, e.Topic, 1); !ok {
						return false
					}
				}
			}
			switch pst := c.ping(); pst {
			case "ok":
				for j, e := range model {
					cnt, _ := c.copies(pls[j])
					got := cnt > 0
					switch {
					case e.Held && !got:
						fam := famOf(e)
						if okr, _ := rb.routes(e.Topic, cid); okr && e.Resub {
							// the filter is routed but a message with the QoS of the last SUBSCRIBE does not arrive
							fam = "previous-subscription-restored-with-another-qos"
						}
						bad(fam, "delivery-missed", map[string]interface{}{"filter": e.Filter, "by": e.By, "payload": pls[j], "qos": e.QoS})
					case !e.Held && got && allEarlierDown:
						bad("unsubscribed-filter-back-after-reconnect", "delivered", map[string]interface{}{"filter": e.Filter, "by": e.By, "payload": pls[j]})
					}
					if hi[j] != "" {
						if cnt, _ := c.copies(hi[j]); cnt > 0 {
							r.Count("resubscribe_other_qos:qos1_message_delivered_on_subscription_whose_last_qos_is_0(not judged)", 1)
						} else {
							r.Count("resubscribe_other_qos:qos1_message_not_delivered_on_subscription_whose_last_qos_is_0", 1)
						}
					}
				}
			case "watchdog":
				inc("watchdog: PINGRESP")
				return false
			default:
				bad("current-connection-deregistered-or-disconnected", "connection-closed-by-broker", map[string]interface{}{"at": "PINGREQ barrier", "state": pst})
			}
		}
		if len(symptoms) > 0 {
			emit(k, when)
			return false
		}
		step("#%d: judged (%s): books and deliveries as the property demands", k, when)
		return true
	}
	// rebuilt: the next CONNECT finds no live session and a stored copy
	rebuilt := func() bool {
		if rb.sessionInMap(cid) != nil {
			return false
		}
		tp, stored := rb.persistedTopics(cid)
		extraDetail["stored_copy_before_the_latest_connect"] = tp
		return stored
	}
	own := 0
	subOwn := func(k int) bool {
		own++
		e := &exp{Filter: fmt.Sprintf("s/own%d", own), Topic: fmt.Sprintf("s/own%d", own), Held: true, QoS: 1, By: fmt.Sprintf("connection #%d", k), own: true}
		if !sub(k, []string{e.Filter}, []byte{1}) {
			return false
		}
		model = append(model, e)
		return true
	}
	disown := func() {
		for _, e := range model {
			e.own = false
		}
	}

	if s.Kind == "slow-store-put" {
		fa := &exp{Filter: "s/a/+", Topic: "s/a/1", Held: true, QoS: 1, By: "connection #0, first SUBSCRIBE"}
		fb := &exp{Filter: "s/b/+", Topic: "s/b/1", Held: true, QoS: 1, By: "connection #0, SUBSCRIBE acknowledged while a storage put was held"}
		if s.Via == "connect-store" {
			gate.arm()
		}
		a, ok := dial(false)
		if !ok {
			return
		}
		step("#0: CONNECT clean=false accepted")
		if s.Via == "connect-store" {
			if !gate.wait(func(en, ex int) bool { return en >= 1 }) {
				inc("watchdog: the CONNECT's session store did not reach the storage")
				return
			}
			step("storage: the put of the store request made by the CONNECT handling is held (slow storage)")
		} else {
			if !settle() {
				return
			}
			gate.arm()
		}
		jit()
		if !sub(a, []string{fa.Filter}, []byte{1}) {
			return
		}
		model = append(model, fa)
		if s.Via == "subscribe-store" {
			if !gate.wait(func(en, ex int) bool { return en >= 1 }) {
				inc("watchdog: the SUBSCRIBE's session store did not reach the storage")
				return
			}
			step("storage: the put of the store request made by the first SUBSCRIBE is held (slow storage)")
		}
		jit()
		if !sub(a, []string{fb.Filter}, []byte{1}) {
			return
		}
		model = append(model, fb)
		if s.PendingUnsub {
			jit()
			if ust := c16unsubscribe(conns[a], []string{fa.Filter}); ust == "watchdog" {
				inc("watchdog: UNSUBACK")
				return
			} else if ust != "ok" {
				bad("current-connection-deregistered-or-disconnected", "connection-closed-by-broker", map[string]interface{}{"at": "UNSUBSCRIBE", "state": ust})
				emit(a, "UNSUBSCRIBE")
				return
			}
			fa.Held, fa.By = false, "connection #0, UNSUBSCRIBE acknowledged while a storage put was held"
			step("#0: UNSUBSCRIBE %s, UNSUBACK received", fa.Filter)
		}
		// the live connection is served while the storage is slow (sanity; PUBACK processed: second barrier)
		if pl, ok := inject(a, fb.Topic, 1); !ok {
			return
		} else if pst := conns[a].ping(); pst != "ok" {
			inc("old connection: PINGRESP " + pst)
			return
		} else if cnt, _ := conns[a].copies(pl); cnt == 0 {
			r.Count("slow_store_put:live_delivery_missed_while_put_held(schedule not established, not judged)", 1)
			return
		}
		if pst := conns[a].ping(); pst != "ok" {
			inc("old connection: PINGRESP " + pst)
			return
		}
		r.Count("sanity_delivery_to_old_connection", 1)
		waiting := st.live()
		extraDetail["store_hand_over_goroutines_when_the_connection_ended"] = fmt.Sprintf("%v", waiting)
		if !endConn(a, s.End) {
			return
		}
		held := false
		gate.wait(func(en, ex int) bool { held = en == 1 && ex == 0; return true })
		if !held {
			r.Count("slow_store_put:put_not_held_any_more_at_connection_end(schedule not established, not judged)", 1)
			return
		}
		// the store loop is sequential and has been inside the held put since before the later
		// SUBSCRIBE/UNSUBSCRIBE were sent: nothing they handed over can have been taken yet
		r.Count("slow_store_put:connection_torn_down_while_the_put_was_held_and_acknowledged_changes_not_yet_handed_to_storage", 1)
		r.Count("slow_store_put:store_hand_over_goroutines_alive_at_connection_end", int64(len(waiting)))
		jit()
		gate.release()
		step("storage: the held put is released (teardown of #0 had completed before)")
		if !settle() {
			return
		}
		step("storage: every store hand-over has finished or is proven stuck for ever")
		jit()
		wasRebuilt := rebuilt()
		b, ok := dial(false)
		if !ok {
			return
		}
		step("#1: CONNECT clean=false accepted (no live session, stored copy present: %v)", wasRebuilt)
		if !subOwn(b) {
			return
		}
		if !judge(b, "reconnect with cleanSession=false after the slow put was released and the store hand-overs were awaited") {
			return
		}
		if wasRebuilt {
			r.Count("slow_store_put:held="+s.Via+":reconnect_rebuilt_from_stored_copy_judged", 1)
			r.Count("slow_store_put:subscription_acknowledged_while_put_held_restored_after_reconnect", 1)
			r.Count("previous_subscription_restored", 1)
			if s.PendingUnsub {
				r.Count("slow_store_put:filter_unsubscribed_while_put_held_silent_after_reconnect", 1)
			}
		}
		if first && s.Via == "connect-store" && s.End == "drop" && s.PendingUnsub {
			r.Sample(map[string]interface{}{"scenario": s, "steps": steps})
		}
		return
	}

	// ---- resubscribe-other-qos
	dir := fmt.Sprintf("%d->%d", s.QoSFirst, s.QoSLast)
	fq := &exp{Filter: "s/q/+", Topic: "s/q/1", Held: true, QoS: s.QoSLast, Resub: true, By: fmt.Sprintf("connection #0: SUBSCRIBE qos %d, then SUBSCRIBE qos %d (both acknowledged)", s.QoSFirst, s.QoSLast)}
	a, ok := dial(false)
	if !ok {
		return
	}
	step("#0: CONNECT clean=false accepted")
	if !sub(a, []string{fq.Filter}, []byte{byte(s.QoSFirst)}) {
		return
	}
	jit()
	f2, q2 := []string{fq.Filter}, []byte{byte(s.QoSLast)}
	var fx *exp
	if s.WithNew {
		fx = &exp{Filter: "s/x/+", Topic: "s/x/1", Held: true, QoS: 1, By: "connection #0, in the same SUBSCRIBE packet as the re-subscription"}
		if rng.Intn(2) == 0 {
			f2, q2 = append(f2, fx.Filter), append(q2, 1)
		} else {
			f2, q2 = []string{fx.Filter, fq.Filter}, []byte{1, byte(s.QoSLast)}
		}
	}
	if !sub(a, f2, q2) {
		return
	}
	model = append(model, fq)
	if fx != nil {
		model = append(model, fx)
	}
	// the live subscription must have taken the last QoS (topic manager: not this property; a
	// case where it has not is not judged)
	if okr, q := rb.routes(fq.Topic, cid); !okr || int(q) != s.QoSLast {
		r.Count("resubscribe_other_qos:live_subscription_has_not_the_last_qos(schedule not established, not judged)", 1)
		return
	}
	if pl, ok := inject(a, fq.Topic, s.QoSLast); !ok {
		return
	} else if pst := conns[a].ping(); pst != "ok" {
		inc("old connection: PINGRESP " + pst)
		return
	} else if cnt, _ := conns[a].copies(pl); cnt == 0 {
		r.Count("resubscribe_other_qos:live_delivery_with_the_last_qos_missed(schedule not established, not judged)", 1)
		return
	}
	if pst := conns[a].ping(); pst != "ok" { // PUBACK processed
		inc("old connection: PINGRESP " + pst)
		return
	}
	r.Count("sanity_delivery_to_old_connection", 1)
	if s.QoSLast == 1 {
		r.Count("resubscribe_other_qos:0->1:live_subscription_delivered_qos1_before_the_end", 1)
	}
	if !settle() {
		return
	}
	if tp, okp := rb.persistedTopics(cid); okp {
		extraDetail["stored_copy_after_all_hand_overs_of_connection_0(not judged)"] = tp
	}
	var b int
	if s.Via == "reconnect" {
		if !endConn(a, s.End) {
			return
		}
		jit()
		wasRebuilt := rebuilt()
		if b, ok = dial(false); !ok {
			return
		}
		step("#1: CONNECT clean=false accepted (no live session, stored copy present: %v)", wasRebuilt)
		if !subOwn(b) {
			return
		}
		if !judge(b, "reconnect with cleanSession=false") {
			return
		}
		if s.QoSLast == 1 {
			r.Count("resubscribe_other_qos:0->1:restored_with_last_qos_and_qos1_delivered_after_reconnect", 1)
		} else {
			r.Count("resubscribe_other_qos:1->0:restored_with_last_qos_after_reconnect", 1)
		}
		r.Count("previous_subscription_restored", 1)
	} else {
		if s.End == "drop" {
			conns[a].close()
			step("#0: client vanished silently, the broker is not told")
		}
		step("#0: still open for the broker when the next CONNECT arrives")
		jit()
		if b, ok = dial(false); !ok {
			return
		}
		step("#1: CONNECT clean=false accepted (takeover)")
		if s.Point == 1 && !endConn(a, s.End) {
			return
		}
		if !subOwn(b) {
			return
		}
		if s.Point == 2 && !endConn(a, s.End) {
			return
		}
		if !judge(b, "takeover with cleanSession=false") {
			return
		}
		if s.Point == 3 {
			if !endConn(a, s.End) {
				return
			}
			if !judge(b, "after the teardown of the connection it superseded") {
				return
			}
		}
		r.Count("resubscribe_other_qos:"+dir+":restored_with_last_qos_"+map[bool]string{true: "and_qos1_delivered_", false: ""}[s.QoSLast == 1]+"after_takeover", 1)
	}
	// once more: this connection ends too and the next one is rebuilt from the stored copy
	disown()
	if !settle() {
		return
	}
	if !endConn(b, []string{"disconnect", "drop"}[rng.Intn(2)]) {
		return
	}
	jit()
	wasRebuilt := rebuilt()
	c, ok := dial(false)
	if !ok {
		return
	}
	step("#2: CONNECT clean=false accepted (no live session, stored copy present: %v)", wasRebuilt)
	if !subOwn(c) {
		return
	}
	if !judge(c, "second reconnect with cleanSession=false") {
		return
	}
	if wasRebuilt {
		r.Count("resubscribe_other_qos:restored_with_last_qos_when_rebuilt_from_stored_copy_once_more", 1)
	}
	if first && s.Via == "takeover" && s.QoSFirst == 0 {
		r.Sample(map[string]interface{}{"scenario": s, "steps": steps})
	}
}

// ---------------------------------------------------------------------------- chains
//
// c16runChain executes one longer session history: connections 0..n-1 of one client id with
// mixed cleanSession values, each subscribing a filter of its own ("s/k<i>/+"), each followed by
// the next one after a DISCONNECT, after a silent drop, or by takeover while still open.  EVERY
// connection is judged once it is established (and again after a late teardown of the
// connection it superseded) against a model written from the property sentence:
//
//	state of filter j at connection k:  present (must be delivered and routed)
//	                                    absent  (must stay silent, once all earlier connections are torn down)
//	                                    open    (the property does not say; counted)
//	CONNECT cleanSession=true          : every filter -> absent       ("the previous session is discarded")
//	CONNECT cleanSession=false         : after a cleanSession=false predecessor nothing changes
//	                                     ("gets its previous subscriptions back");
//	                                     after a cleanSession=true predecessor what that one held -> open
//	SUBSCRIBE by connection k          : filter k -> present
//
// A failing judgement ends the history (the model is no longer meaningful afterwards).
func c16runChain(r *kit.Run, rng *rand.Rand, s c16Scn, first bool) {
	const cid = "dev"
	const (
		absent = iota
		present
		open
		unsubd // removed from the session by an UNSUBSCRIBE of connection unsubAt[j]
	)
	ch := s.Chain
	n := len(ch)
	filt := func(k int) string { return fmt.Sprintf("s/k%d/+", k) }
	topic := func(k int) string { return fmt.Sprintf("s/k%d/1", k) }
	rb, err := c15rigNewBroker(c15rigBrokerOpts{})
	if err != nil {
		r.Inconclusive("broker did not start: " + err.Error())
		return
	}
	relay, err := c15rigNewRelay(rb.addr)
	if err != nil {
		rb.close()
		r.Inconclusive("relay did not start: " + err.Error())
		return
	}
	conns := make([]*c15rigClient, n)
	links := make([]*c15rigLink, n)
	down := make([]bool, n)
	state := make([]int, n)
	unsubAt := make([]int, n)
	restored := make([]bool, n) // connection k's session was rebuilt from the stored copy (no live session, predecessor torn down)
	stuckSeen := false          // a Session.store() hand-over of this history has been proven unable to complete
	st := c16newStores(rb)
	cur := -1
	full := func() string {
		var sb strings.Builder
		for i := range ch {
			sb.WriteString(c16cp(ch[i].Clean))
			if ch[i].Unsub && i > 0 {
				sb.WriteString("(unsub)")
			}
			if i < n-1 {
				sb.WriteString("-" + ch[i].Next)
				if ch[i].Next == "takeover" {
					sb.WriteString(fmt.Sprintf("(%s@%d)", ch[i].End, ch[i].Point))
				}
				sb.WriteString("-")
			}
		}
		return sb.String()
	}()
	steps := []string{}
	step := func(f string, x ...interface{}) { steps = append(steps, fmt.Sprintf(f, x...)) }
	jit := func() {
		if s.Jitter {
			time.Sleep(time.Duration(rng.Intn(4000)) * time.Microsecond)
		}
	}
	inconclusive := false
	inc := func(why string) {
		if !inconclusive {
			r.Inconclusive(why + " in session-chain:" + full)
		}
		inconclusive = true
	}
	type sympt struct {
		Family  string                 `json:"family"`
		Symptom string                 `json:"symptom"`
		Extra   map[string]interface{} `json:"detail,omitempty"`
	}
	var symptoms []sympt
	bad := func(family, symptom string, extra map[string]interface{}) {
		symptoms = append(symptoms, sympt{family, symptom, extra})
	}
	// emit reports one violation per symptom family seen at the judgement of connection k
	sigShape := "" // overrides the history shape of the signature when set
	emit := func(k int, when string) {
		seen := map[string]bool{}
		for _, sy := range symptoms {
			if seen[sy.Family] {
				continue
			}
			seen[sy.Family] = true
			d := map[string]interface{}{"scenario": s, "history": full, "judged_connection": k, "judged": when, "steps": steps, "symptoms": symptoms, "sessions_rebuilt_from_storage": restored}
			if len(st.stuck) > 0 {
				d["store_hand_overs_proven_stuck_for_ever(goroutine states)"] = st.stuck
			}
			if k >= 0 && conns[k] != nil {
				d["judged_connection_log"] = conns[k].events()
			}
			if strings.HasPrefix(sy.Family, "persisted-") || strings.HasPrefix(sy.Family, "http-publish-") {
				r.Violation("any-schedule:"+sy.Family, d)
			} else {
				shape := c16chainShape(ch, k)
				if sigShape != "" {
					shape = sigShape
				}
				fam := sy.Family
				if stuckSeen && (fam == "previous-subscription-not-restored" || fam == "unsubscribed-filter-back-after-reconnect") {
					// the session the reconnect was restored from could not be up to date: hand-overs of
					// an earlier connection of this history were proven stuck before that connection ended
					fam += ":session-never-persisted-again(store-hand-over-stuck-for-ever)"
				}
				r.Violation(fmt.Sprintf("session-chain:%s:%s", shape, fam), d)
			}
		}
	}
	defer func() {
		syms := []string{}
		for _, sy := range symptoms {
			syms = append(syms, sy.Family+"/"+sy.Symptom)
		}
		r.Cover(fmt.Sprintf("chain:%s/inconclusive=%v/symptoms=%v", full, inconclusive, syms))
		if len(symptoms) > 0 {
			r.Count("schedules_with_symptoms", 1)
		} else if !inconclusive {
			r.Count("schedules_clean", 1)
			r.Count("chain_histories_clean", 1)
		}
		for k := 0; k < n; k++ {
			if conns[k] == nil {
				continue
			}
			if !down[k] && k != cur {
				links[k].cutBrokerSide()
				links[k].brokerClosed()
			}
		}
		if cur >= 0 && conns[cur] != nil && !down[cur] {
			conns[cur].shutdown()
		}
		for k := 0; k < n; k++ {
			if conns[k] != nil {
				conns[k].close()
			}
		}
		rb.flushDeletes()
		st.settle()
		relay.close()
		rb.close()
	}()
	// settle: every hand-over to the storage has been written, or has been proven unable to
	// complete ever (recorded; the history goes on and the reconnect is judged).  false = watchdog
	settle := func(k int) bool {
		nStuck, ok := st.settle()
		if !ok {
			inc("watchdog: session store")
			return false
		}
		if nStuck > 0 {
			stuckSeen = true
			r.Count("store_hand_over_proven_stuck_for_ever", int64(nStuck))
			r.Count("chain_store_hand_over_proven_stuck_for_ever_history_continued", 1)
			step("#%d: %d Session.store() hand-over(s) can never complete (parked in a send on a channel the store loop does not read: %v); the stored copy is not judged any more, the history goes on", k, nStuck, st.stuck)
		}
		return true
	}
	seq := 0
	inject := func(k int, tp string, qos int) (string, bool) {
		seq++
		pl := fmt.Sprintf("c16chain.%d", seq)
		if code := rb.httpPublish(tp, qos, pl, true); code != 200 {
			bad(fmt.Sprintf("http-publish-rejected-%d", code), "", nil)
			emit(k, "publish")
			return pl, false
		}
		if !rb.publishQuiesced() {
			inc("watchdog: publish goroutine")
			return pl, false
		}
		return pl, true
	}
	// teardown ends connection k (how: "disconnect" | "drop") and waits until the broker has
	// completely torn it down; the delete-watch events it caused are delivered right away.
	// lateCheck: after a superseded connection has been torn down later than the end of its
	// successor, the stored session of the latest connection (if that one asked for a persistent
	// session) must still hold every subscription the model says it has: it is what the next
	// cleanSession=false reconnect is restored from.
	//
	// The same check runs right BEFORE the late teardown (after=false), so that a stored copy that
	// was already lost when the latest connection itself ended is not blamed on the late teardown.
	lateCheck := func(after bool) bool {
		if cur < 0 || ch[cur].Clean {
			return true
		}
		if !settle(cur) {
			return false
		}
		if stuckSeen {
			// "every hand-over has finished" will never be true in this history
			return true
		}
		tp, ok := rb.persistedTopics(cid)
		for j := 0; j <= cur; j++ {
			if state[j] == present && (!ok || tp[filt(j)] != 1) {
				fam, when := "late-superseded-teardown-removed-successors-stored-session", "stored session after the late teardown of a superseded connection"
				if !after {
					fam, when = "stored-session-of-persistent-connection-lost-before-any-later-teardown", "stored session of the latest connection, before the late teardown of a superseded connection"
				}
				bad(fam, "stored-copy-lost-a-subscription", map[string]interface{}{"persisted_topics": tp, "persisted_copy_exists": ok, "missing_filter": filt(j), "subscribed_by_connection": j, "latest_connection": cur, "latest_connection_ended": down[cur]})
				sigShape = c16chainShape(ch, cur)
				if down[cur] {
					sigShape += "-" + ch[cur].Next
				}
				emit(cur, when)
				return false
			}
		}
		if after {
			r.Count("chain_stored_session_intact_after_late_superseded_teardown", 1)
		}
		return true
	}
	var teardown func(k int, how string, superseded bool) bool
	teardown = func(k int, how string, superseded bool) bool {
		jit()
		switch how {
		case "disconnect":
			conns[k].sendDisconnect()
			step("#%d: DISCONNECT packet reaches the broker", k)
		case "drop":
			links[k].cutBrokerSide()
			step("#%d: broker's read on the connection sees EOF", k)
		}
		if !links[k].brokerClosed() {
			inc("watchdog: connection teardown")
			return false
		}
		down[k] = true
		r.Count("chain_teardown_observed_complete", 1)
		if superseded {
			r.Count("chain_superseded_teardown_observed_complete", 1)
		}
		step("#%d: teardown complete (broker closed its side)", k)
		nd, ok := rb.flushDeletes()
		if !ok {
			inc("watchdog: delete-watch flush")
			return false
		}
		if nd > 0 {
			step("delete-watch: %d event(s) delivered and processed", nd)
			r.Count("delete_watch_events_delivered_promptly", int64(nd))
		}
		jit()
		// point 5: the connection that THIS one had superseded has been waiting for this end
		if k > 0 && ch[k-1].Next == "takeover" && ch[k-1].Point == 5 && !down[k-1] {
			step("#%d: superseded long ago, its end comes only now, after the end of its successor #%d", k-1, k)
			if !lateCheck(false) || !teardown(k-1, ch[k-1].End, true) {
				return false
			}
			r.Count("chain_superseded_torn_down_after_successors_end", 1)
			if !lateCheck(true) {
				return false
			}
		}
		return true
	}
	famOf := func(j, k int) string {
		if j == k {
			return "own-subscription-lost"
		}
		return "previous-subscription-not-restored"
	}
	// judge connection k, the current one.  false = the history ends here.
	judge := func(k int, when string) bool {
		c, l := conns[k], links[k]
		r.Eval(1)
		reg, sess := rb.registered(cid)
		switch {
		case reg == nil:
			bad("current-connection-deregistered-or-disconnected", "not-registered", nil)
		case reg.conn.RemoteAddr().String() != l.brokerSideLocalAddr():
			bad("current-connection-deregistered-or-disconnected", "registered-connection-is-not-the-current-one", map[string]interface{}{"registered": reg.conn.RemoteAddr().String(), "current": l.brokerSideLocalAddr()})
		}
		if reg != nil {
			switch inMap := rb.sessionInMap(cid); {
			case inMap == nil:
				bad("current-session-removed", "session-missing-from-session-map", nil)
			case inMap != sess:
				bad("current-session-removed", "session-map-holds-a-different-session", nil)
			}
		}
		if sess != nil {
			select {
			case <-sess.done:
				bad("current-session-removed", "session-closed", nil)
			default:
			}
		}
		allEarlierDown := true
		for i := 0; i < k; i++ {
			allEarlierDown = allEarlierDown && down[i]
		}
		for j := 0; j <= k; j++ {
			if state[j] == present {
				if ok, _ := rb.routes(topic(j), cid); !ok {
					bad(famOf(j, k), "unrouted", map[string]interface{}{"filter": filt(j), "subscribed_by_connection": j})
				}
			}
			if state[j] == unsubd && k > unsubAt[j] && allEarlierDown {
				if ok, _ := rb.routes(topic(j), cid); ok {
					bad("unsubscribed-filter-back-after-reconnect", "routed", map[string]interface{}{"filter": filt(j), "subscribed_by_connection": j, "unsubscribed_by_connection": unsubAt[j]})
				}
			}
		}
		if c.sawEOF() {
			bad("current-connection-deregistered-or-disconnected", "connection-closed-by-broker", nil)
		} else {
			pls := make([]string, k+1)
			for j := 0; j <= k; j++ {
				pl, ok := inject(k, topic(j), rng.Intn(2))
				if !ok {
					return false
				}
				pls[j] = pl
			}
			switch st := c.ping(); st {
			case "ok":
				for j := 0; j <= k; j++ {
					cnt, _ := c.copies(pls[j])
					got := cnt > 0
					switch {
					case state[j] == present && !got:
						bad(famOf(j, k), "delivery-missed", map[string]interface{}{"filter": filt(j), "subscribed_by_connection": j, "payload": pls[j]})
					case state[j] == present:
						if j < k {
							if k >= 2 {
								r.Count("chain_earlier_subscription_restored_at_third_or_later_connection", 1)
								mixC, mixP, mixT := false, false, false
								for i := 0; i <= k; i++ {
									mixC = mixC || ch[i].Clean
									mixP = mixP || !ch[i].Clean
									mixT = mixT || (i < k && ch[i].Next == "takeover")
								}
								if mixC && mixP && mixT {
									r.Count("chain_earlier_subscription_restored_in_history_mixing_cleansession_values_and_takeover", 1)
								}
							}
							if j >= 1 && ch[j-1].Next == "takeover" && down[j] {
								r.Count("chain_subscription_of_a_connection_that_took_over_restored_after_its_own_end", 1)
							}
							if j >= 1 && ch[j-1].Clean && !ch[j].Clean {
								r.Count("chain_subscription_made_after_a_clean_predecessor_restored_at_next_persistent_reconnect", 1)
							}
							if restored[j] && restored[k] {
								r.Count("chain_subscription_made_on_session_rebuilt_from_storage_restored_when_rebuilt_from_storage_again", 1)
							}
						}
					case state[j] == unsubd && k == unsubAt[j] && got:
						// UNSUBACK received and still delivered: not this property (topic manager); the filter is left open
						r.Count("chain_unsubscribed_filter_still_delivered_to_the_unsubscribing_connection(not judged)", 1)
						state[j] = open
					case state[j] == unsubd && k == unsubAt[j]:
						r.Count("chain_unsubscribed_filter_silent_for_the_unsubscribing_connection", 1)
					case state[j] == unsubd && got && allEarlierDown:
						bad("unsubscribed-filter-back-after-reconnect", "delivered", map[string]interface{}{"filter": filt(j), "subscribed_by_connection": j, "unsubscribed_by_connection": unsubAt[j], "payload": pls[j]})
					case state[j] == unsubd && got:
						r.Count("chain_unsubscribed_filter_delivered_while_an_earlier_connection_is_not_torn_down(not judged)", 1)
					case state[j] == unsubd:
						r.Count("chain_unsubscribed_filter_silent_after_persistent_reconnect", 1)
						if restored[unsubAt[j]] && restored[k] {
							r.Count("chain_filter_unsubscribed_on_session_rebuilt_from_storage_silent_when_rebuilt_from_storage_again", 1)
						}
					case state[j] == absent && got && allEarlierDown:
						bad("discarded-subscription-still-delivered", "delivered", map[string]interface{}{"filter": filt(j), "subscribed_by_connection": j, "payload": pls[j]})
					case state[j] == absent && got:
						r.Count("chain_discarded_filter_delivered_while_an_earlier_connection_is_not_torn_down(not judged)", 1)
					case state[j] == absent && allEarlierDown:
						r.Count("chain_discarded_filter_silent", 1)
					case state[j] == absent:
						r.Count("chain_discarded_filter_silent_while_an_earlier_connection_is_not_torn_down", 1)
					case got:
						r.Count("chain_filter_of_clean_predecessor_delivered_to_persistent_successor(not judged)", 1)
					default:
						r.Count("chain_filter_of_clean_predecessor_silent_for_persistent_successor(not judged)", 1)
					}
				}
			case "watchdog":
				inc("watchdog: PINGRESP")
				return false
			default:
				bad("current-connection-deregistered-or-disconnected", "connection-closed-by-broker", map[string]interface{}{"at": "PINGREQ barrier", "state": st})
			}
		}
		if len(symptoms) > 0 {
			emit(k, when)
			return false
		}
		r.Count("chain_connections_judged", 1)
		if k >= 2 {
			r.Count("chain_third_or_later_connection_judged", 1)
		}
		step("#%d: judged (%s): books and deliveries as the property demands", k, when)
		return true
	}

	for k := 0; k < n; k++ {
		jit()
		if !ch[k].Clean && k > 0 && !ch[k-1].Clean && down[k-1] && rb.sessionInMap(cid) == nil {
			if _, stored := rb.persistedTopics(cid); stored {
				// no live session and the predecessor is gone: this CONNECT rebuilds the session from the stored copy
				restored[k] = true
				r.Count("chain_session_rebuilt_from_storage", 1)
			}
		}
		c, l, err := relay.dial(cid)
		if err != nil {
			inc("dial: " + err.Error())
			return
		}
		conns[k], links[k] = c, l
		cur = k
		if rc, st := c.connect(ch[k].Clean, 0); st == "watchdog" {
			inc("watchdog: CONNACK")
			return
		} else if st != "ok" || rc != 0 {
			bad("connection-refused", "connect", map[string]interface{}{"state": st, "rc": rc})
			emit(k, "CONNECT")
			return
		}
		switch {
		case ch[k].Clean:
			for j := range state {
				state[j] = absent
			}
		case k > 0 && ch[k-1].Clean:
			for j := range state {
				if state[j] == present {
					state[j] = open
				}
			}
		}
		step("#%d: CONNECT clean=%v accepted (session rebuilt from the stored copy: %v)", k, ch[k].Clean, restored[k])
		sup := k > 0 && ch[k-1].Next == "takeover"
		if sup && ch[k-1].Point == 1 && !teardown(k-1, ch[k-1].End, true) {
			return
		}
		if st := c.subscribe([]string{filt(k)}, []byte{1}); st == "watchdog" {
			inc("watchdog: SUBACK")
			return
		} else if st != "ok" {
			bad("current-connection-deregistered-or-disconnected", "connection-closed-by-broker", map[string]interface{}{"at": "SUBSCRIBE", "state": st})
			emit(k, "SUBSCRIBE")
			return
		}
		state[k] = present
		step("#%d: SUBSCRIBE %s", k, filt(k))
		if sup && ch[k-1].Point == 2 && !teardown(k-1, ch[k-1].End, true) {
			return
		}
		if ch[k].Unsub {
			for j := 0; j < k; j++ {
				if state[j] != present {
					continue
				}
				if ust := c16unsubscribe(c, []string{filt(j)}); ust == "watchdog" {
					inc("watchdog: UNSUBACK")
					return
				} else if ust != "ok" {
					bad("current-connection-deregistered-or-disconnected", "connection-closed-by-broker", map[string]interface{}{"at": "UNSUBSCRIBE", "state": ust})
					emit(k, "UNSUBSCRIBE")
					return
				}
				state[j], unsubAt[j] = unsubd, k
				step("#%d: UNSUBSCRIBE %s (held since connection #%d)", k, filt(j), j)
				r.Count("chain_inherited_filter_unsubscribed", 1)
				if restored[k] {
					r.Count("chain_session_rebuilt_from_storage_changed_by_subscribe_and_unsubscribe", 1)
				}
				break
			}
		}
		if !judge(k, "established") {
			return
		}
		if sup && ch[k-1].Point == 3 {
			if !teardown(k-1, ch[k-1].End, true) {
				return
			}
			if !judge(k, "after the teardown of the connection it superseded") {
				return
			}
		}
		if k >= 2 && ch[k-2].Next == "takeover" && ch[k-2].Point == 6 && !down[k-2] && down[k-1] {
			step("#%d: superseded long ago, its end comes only now, after the end of its successor #%d and the reconnect #%d", k-2, k-1, k)
			if !lateCheck(false) || !teardown(k-2, ch[k-2].End, true) {
				return
			}
			r.Count("chain_superseded_torn_down_after_successors_end_and_next_reconnect", 1)
			if !lateCheck(true) {
				return
			}
			if !judge(k, "after the late teardown of the connection superseded by its predecessor") {
				return
			}
		}
		if k == n-1 {
			break
		}
		// the connection ends (or is taken over) only after its session has been handed to storage
		// (a hand-over proven unable to complete ever is recorded and the history goes on: what the
		// property says about it is judged at the next cleanSession=false reconnect)
		if !settle(k) {
			return
		}
		if !ch[k].Clean && ch[k].Next != "takeover" && !stuckSeen {
			tp, ok := rb.persistedTopics(cid)
			for j := 0; j <= k; j++ {
				if state[j] == present && (!ok || tp[filt(j)] != 1) {
					r.Count("persisted_copy_stale_after_all_stores_finished", 1)
					bad("persisted-session-stale-after-all-stores-finished", "", map[string]interface{}{"persisted_topics": tp, "persisted_copy_exists": ok, "live_session_has": filt(j)})
					emit(k, "before its end")
					return
				}
				if _, still := tp[filt(j)]; state[j] == unsubd && ok && still {
					r.Count("persisted_copy_stale_after_all_stores_finished", 1)
					bad("persisted-session-stale-after-all-stores-finished", "unsubscribed-filter-still-stored", map[string]interface{}{"persisted_topics": tp, "live_session_dropped": filt(j), "unsubscribed_by_connection": unsubAt[j]})
					emit(k, "before its end")
					return
				}
			}
		}
		switch ch[k].Next {
		case "disconnect":
			if !teardown(k, "disconnect", false) {
				return
			}
		case "drop":
			c.close()
			step("#%d: client vanished silently", k)
			if !teardown(k, "drop", false) {
				return
			}
		case "takeover":
			if ch[k].End == "drop" {
				c.close()
				step("#%d: client vanished silently, the broker is not told", k)
			}
			step("#%d: still open for the broker when the next CONNECT arrives", k)
		}
	}
	if first && n == 3 && ch[0].Clean && !ch[1].Clean && !ch[2].Clean && ch[0].Next == "takeover" && ch[1].Next == "drop" {
		r.Sample(map[string]interface{}{"scenario": s, "steps": steps})
	}
}

// ---------------------------------------------------------------------------- store hand-overs
//
// Every Session.store() hands the session to the session manager's store loop from a goroutine
// of its own.  The monitor wants a quiescent point ("every hand-over of this history has been
// written") before it ends a connection, but that wait must not depend on the code under test
// making the very progress the property is about: a hand-over that can NEVER complete (its
// goroutine sends on a channel the store loop does not read, e.g. a nil one) is a fact to be
// recorded, after which the history goes on and the reconnect is judged as the property says.
//
// "can never complete" is decided logically, without any clock: blocked senders of a Go channel
// are served in FIFO order.  If goroutine g (created by Session.store, which does exactly one
// send) is seen parked in a channel send, and a barrier value that the harness sends AFTERWARDS
// through the store loop's channel has been taken by the loop, then g, had it been waiting on
// that channel, would have been served first.  g still parked in its send after the barrier is
// therefore waiting on some other channel: no store loop will ever take its session.
//
// Goroutines created by Session.store that already existed when the case's broker was created
// belong to earlier cases of this process and are ignored.

type c16gor struct {
	id    int64
	state string
}

// c16storeGoroutines lists the live goroutines created by Session.store with their scheduler state.
func c16storeGoroutines() []c16gor {
	buf := make([]byte, 1<<20)
	for {
		n := runtime.Stack(buf, true)
		if n < len(buf) {
			buf = buf[:n]
			break
		}
		buf = make([]byte, 2*len(buf))
	}
	var out []c16gor
	for _, blk := range strings.Split(string(buf), "\n\n") {
		lines := strings.Split(strings.TrimLeft(blk, "\n"), "\n")
		mine := false
		for _, l := range lines {
			if strings.HasPrefix(l, "created by ") && strings.Contains(l, "(*Session).store") {
				mine = true
				break
			}
		}
		if !mine || !strings.HasPrefix(lines[0], "goroutine ") {
			continue
		}
		h := strings.TrimPrefix(lines[0], "goroutine ")
		sp := strings.IndexByte(h, ' ')
		lb, rb := strings.IndexByte(h, '['), strings.LastIndexByte(h, ']')
		if sp < 0 || lb < 0 || rb < lb {
			continue
		}
		id, err := strconv.ParseInt(h[:sp], 10, 64)
		if err != nil {
			continue
		}
		out = append(out, c16gor{id: id, state: h[lb+1 : rb]})
	}
	return out
}

// goroutine ids are never reused within a process: hand-overs proven stuck by an earlier case
var c16stuckEver = struct {
	sync.Mutex
	ids map[int64]bool
}{ids: map[int64]bool{}}

type c16stores struct {
	rb      *c15rigBroker
	foreign map[int64]bool
	stuck   []string // scheduler states of the hand-overs of this case proven stuck for ever
}

func c16newStores(rb *c15rigBroker) *c16stores {
	st := &c16stores{rb: rb, foreign: map[int64]bool{}}
	for _, g := range c16storeGoroutines() {
		st.foreign[g.id] = true
	}
	return st
}

func (st *c16stores) live() []c16gor {
	var out []c16gor
	c16stuckEver.Lock()
	defer c16stuckEver.Unlock()
	for _, g := range c16storeGoroutines() {
		if !st.foreign[g.id] && !c16stuckEver.ids[g.id] {
			out = append(out, g)
		}
	}
	return out
}

// barrier: two values through the store loop's channel; the loop is sequential, so when the
// second one has been taken the put of everything handed over before the first one is done.
func (st *c16stores) barrier() bool {
	t := time.NewTimer(c15rigWatchdog)
	defer t.Stop()
	for i := 0; i < 2; i++ {
		select {
		case st.rb.b.sessMgr.storeCh <- SessionStore{key: "c15rig-barrier", value: ""}:
		case <-st.rb.b.sessMgr.done:
			return false
		case <-t.C:
			return false
		}
	}
	return true
}

// settle waits until every Session.store() hand-over of this case has either been written by the
// store loop or has been proven unable to complete ever.  stuck = number of hand-overs newly
// proven stuck by this call; ok=false = watchdog (a hand-over neither finished nor parked, or
// the store loop does not take the barrier).
func (st *c16stores) settle() (stuck int, ok bool) {
	deadline := time.Now().Add(c15rigWatchdog)
	for i := 0; ; i++ {
		gs := st.live()
		if len(gs) == 0 {
			return stuck, st.barrier()
		}
		var parked []int64
		for _, g := range gs {
			if strings.HasPrefix(g.state, "chan send") {
				parked = append(parked, g.id)
			}
		}
		if len(parked) > 0 {
			if !st.barrier() {
				return stuck, false
			}
			after := map[int64]string{}
			for _, g := range st.live() {
				after[g.id] = g.state
			}
			c16stuckEver.Lock()
			for _, id := range parked {
				if state, still := after[id]; still && strings.HasPrefix(state, "chan send") {
					c16stuckEver.ids[id] = true
					st.stuck = append(st.stuck, state)
					stuck++
				}
			}
			c16stuckEver.Unlock()
			continue
		}
		if time.Now().After(deadline) {
			return stuck, false
		}
		if i < 20 {
			runtime.Gosched()
			time.Sleep(200 * time.Microsecond)
		} else {
			time.Sleep(2 * time.Millisecond)
		}
	}
}

// c16unsubscribe sends one UNSUBSCRIBE and waits for its UNSUBACK.
func c16unsubscribe(c *c15rigClient, filters []string) string {
	p := packets.NewControlPacket(packets.Unsubscribe).(*packets.UnsubscribePacket)
	c.wmu.Lock()
	id := c.nextID
	c.nextID++
	c.wmu.Unlock()
	p.MessageID = id
	p.Topics = append([]string(nil), filters...)
	if err := c.write(p); err != nil {
		return "write:" + err.Error()
	}
	got := false
	ok := c.waitFor(func(ev []c15rigEvt, eof bool) bool {
		for _, e := range ev {
			if e.Type == packets.Unsuback && e.MsgID == id {
				got = true
				return true
			}
		}
		return eof
	}, c15rigWatchdog)
	switch {
	case got:
		return "ok"
	case ok:
		return "eof"
	}
	return "watchdog"
}

// ---------------------------------------------------------------------------- gated pipelines
//
// A broker whose Connect and Disconnect pipelines are handlers of the harness that can be held
// open ("a slow pipeline"): Client.close() runs the Disconnect pipeline, so holding it stretches
// the broker-initiated end of a connection (admin delete, takeover) for as long as the harness
// wants, and the Connect pipeline tells the harness that the broker is handling a CONNECT.

type c16gate struct {
	mu      sync.Mutex
	hold    bool
	entered int // handler invocations that found the gate held
	exited  int // of those, the ones that have returned
	wake    chan struct{}
}

func c16newGate() *c16gate { return &c16gate{wake: make(chan struct{})} }

func (g *c16gate) signal() {
	close(g.wake)
	g.wake = make(chan struct{})
}

func (g *c16gate) Handle(ctx *context.Context) string {
	g.mu.Lock()
	if g.hold {
		g.entered++
		g.signal()
		for g.hold {
			w := g.wake
			g.mu.Unlock()
			<-w
			g.mu.Lock()
		}
		g.exited++
		g.signal()
	}
	g.mu.Unlock()
	return ""
}

func (g *c16gate) arm() {
	g.mu.Lock()
	g.hold = true
	g.mu.Unlock()
}

func (g *c16gate) release() {
	g.mu.Lock()
	if g.hold {
		g.hold = false
		g.signal()
	}
	g.mu.Unlock()
}

// wait blocks until pred(entered, exited) holds; false = watchdog
func (g *c16gate) wait(pred func(entered, exited int) bool) bool {
	t := time.NewTimer(c15rigWatchdog)
	defer t.Stop()
	for {
		g.mu.Lock()
		ok := pred(g.entered, g.exited)
		w := g.wake
		g.mu.Unlock()
		if ok {
			return true
		}
		select {
		case <-w:
		case <-t.C:
			return false
		}
	}
}

const (
	c16connectGateName    = "c16-connect-pipeline"
	c16disconnectGateName = "c16-disconnect-pipeline"
)

type c16mapper struct {
	pipe     *c15rigPipe
	handlers map[string]context.Handler
}

func (m *c16mapper) GetHandler(name string) (context.Handler, bool) {
	if name == c15rigPipeName {
		return m.pipe, true
	}
	h, ok := m.handlers[name]
	return h, ok
}

// c16newGatedBroker: the rig's broker (same storage wrapper, same recording publish pipeline) plus
// gated Connect and Disconnect pipelines.
func c16newGatedBroker() (rb *c15rigBroker, connectGate, disconnectGate *c16gate, err error) {
	pipe := &c15rigPipe{}
	store := c15rigNewStore()
	connectGate, disconnectGate = c16newGate(), c16newGate()
	spec := &Spec{
		Name:   "c15rig",
		EGName: "c15rig-eg",
		Port:   0,
		Rules: []*Rule{
			{When: &When{PacketType: Publish}, Pipeline: c15rigPipeName},
			{When: &When{PacketType: Connect}, Pipeline: c16connectGateName},
			{When: &When{PacketType: Disconnect}, Pipeline: c16disconnectGateName},
		},
	}
	mapper := &c16mapper{pipe: pipe, handlers: map[string]context.Handler{c16connectGateName: connectGate, c16disconnectGateName: disconnectGate}}
	var b *Broker
	for try := 0; try < 8 && b == nil; try++ {
		if try > 0 {
			time.Sleep(time.Duration(try) * 5 * time.Millisecond)
		}
		b = newBroker(spec, store, mapper, func(string, string) ([]string, error) { return nil, nil })
	}
	if b == nil {
		return nil, nil, nil, fmt.Errorf("newBroker returned nil 8 times (listener could not be bound)")
	}
	ta, ok := b.listener.Addr().(*net.TCPAddr)
	if !ok {
		b.close()
		return nil, nil, nil, fmt.Errorf("listener address %v", b.listener.Addr())
	}
	return &c15rigBroker{b: b, store: store, pipe: pipe, addr: fmt.Sprintf("127.0.0.1:%d", ta.Port)}, connectGate, disconnectGate, nil
}

// c16sendConnect writes the CONNECT packet only; c16waitConnack waits for the answer.
func c16sendConnect(c *c15rigClient, clean bool) error {
	p := packets.NewControlPacket(packets.Connect).(*packets.ConnectPacket)
	p.ProtocolName, p.ProtocolVersion = "MQTT", 4
	p.CleanSession = clean
	p.Keepalive = 0
	p.ClientIdentifier = c.cid
	return c.write(p)
}

func c16waitConnack(c *c15rigClient) (rc byte, st string) {
	got := false
	ok := c.waitFor(func(ev []c15rigEvt, eof bool) bool {
		for _, e := range ev {
			if e.Type == packets.Connack {
				rc, got = e.RC, true
				return true
			}
		}
		return eof
	}, c15rigWatchdog)
	switch {
	case got:
		return rc, "ok"
	case ok:
		return 0, "eof"
	}
	return 0, "watchdog"
}
