//go:build verif

package mqttproxy

// C14: MQTT topic routing equals MQTT 3.1.1 filter matching over any subscribe history.
//
// The real TopicManager (plus a real Session per connection, driven with the same call
// sequences as client.go: processSubscribe / processUnsubscribe / closeAndDelSession) runs in
// lock-step with the reference of c14_model_test.go.  After EVERY operation
// findSubscribers(T) is called for all 119 topic names over {a,b,""} to depth 4 and compared
// with the reference (client set; QoS within the QoS set of that client's own matching
// subscriptions).

import (
	"fmt"
	"runtime"
	"sort"
	"strings"
	"sync"
	"sync/atomic"
	"testing"

	"verif.local/kit"
)

var (
	c14Names   [c14MaxClients]string
	c14NameIdx = map[string]int{}
)

func init() {
	for c := range c14Names {
		c14Names[c] = c14Name(c)
		c14NameIdx[c14Names[c]] = c
	}
}

// ---------------------------------------------------------------- real side

// c14Conn mimics what client.go does with the TopicManager and the Session.
type c14Conn struct {
	cid  string
	sess *Session
	ch   chan SessionStore
}

func c14NewSession(cid string, ch chan SessionStore) *Session {
	return &Session{
		storeCh:      ch,
		info:         &SessionInfo{ClientID: cid, CleanFlag: true, Topics: map[string]int{}},
		done:         make(chan struct{}),
		pending:      map[uint16]*Message{},
		pendingQueue: []uint16{},
	}
}

// subscribe = processSubscribe: the session records the filters only if the topic manager
// accepted the packet.
func (c *c14Conn) subscribe(mgr *TopicManager, fs []string, qs []byte) error {
	if err := mgr.subscribe(fs, qs, c.cid); err != nil {
		return err
	}
	c.sess.subscribe(fs, qs)
	return nil
}

// unsubscribe = processUnsubscribe.
func (c *c14Conn) unsubscribe(mgr *TopicManager, fs []string) error {
	err := mgr.unsubscribe(fs, c.cid)
	c.sess.unsubscribe(fs)
	return err
}

// disconnect = closeAndDelSession for a clean session; the next connection of the same
// client id starts with a fresh session.
func (c *c14Conn) disconnect(mgr *TopicManager) error {
	topics, _, _ := c.sess.allSubscribes()
	err := mgr.unsubscribe(topics, c.cid)
	c.sess = c14NewSession(c.cid, c.ch)
	return err
}

type c14Snap struct {
	entries map[string]byte // "filter\x00client" -> qos
	nodes   int             // nodes below the root
	empty   int             // nodes without clients and without children
}

// c14Snapshot walks the trie under the manager's own read lock (quiescent or not).
func c14Snapshot(mgr *TopicManager) c14Snap {
	mgr.RLock()
	defer mgr.RUnlock()
	s := c14Snap{entries: map[string]byte{}}
	for c, q := range mgr.root.clients {
		s.entries["<root>\x00"+c] = q
	}
	var walk func(n *topicNode, path string, top bool)
	walk = func(n *topicNode, path string, top bool) {
		for l, ch := range n.nodes {
			p := l
			if !top {
				p = path + "/" + l
			}
			s.nodes++
			if len(ch.clients) == 0 && len(ch.nodes) == 0 {
				s.empty++
			}
			for c, q := range ch.clients {
				s.entries[p+"\x00"+c] = q
			}
			walk(ch, p, false)
		}
	}
	walk(mgr.root, "", true)
	return s
}

func c14SameEntries(a, b map[string]byte) bool {
	if len(a) != len(b) {
		return false
	}
	for k, v := range a {
		if w, ok := b[k]; !ok || w != v {
			return false
		}
	}
	return true
}

func c14EntriesText(m map[string]byte) []string {
	var out []string
	for k, v := range m {
		out = append(out, fmt.Sprintf("%s=%d", strings.Replace(k, "\x00", " @", 1), v))
	}
	sort.Strings(out)
	return out
}

// ---------------------------------------------------------------- lock-step executor

const (
	c14StNA = iota
	c14StOK
	c14StMissing
	c14StExtra
)

type c14Exec struct {
	r        *kit.Run
	tb       *c14Tables
	mgr      *TopicManager
	cache    int
	ref      *c14Ref
	conns    []*c14Conn
	nClients int
	prefix   string // signature prefix ("" for lock-step, "concurrent-final:" …)
	hist     []c14Op
	kind     string
	state    [][c14MaxClients]uint8  // per topic, per client: last verdict
	cause    [][c14MaxClients]string // per topic, per client: op kind that first showed the discrepancy
	cover    map[string]bool
	lruFull  bool
}

func c14NewExec(r *kit.Run, cache, nClients int, ch chan SessionStore) *c14Exec {
	tb := c14Tab()
	x := &c14Exec{r: r, tb: tb, mgr: newTopicManager(cache), cache: cache, ref: c14NewRef(), nClients: nClients, cover: map[string]bool{}}
	for c := 0; c < nClients; c++ {
		x.conns = append(x.conns, &c14Conn{cid: c14Name(c), ch: ch, sess: c14NewSession(c14Name(c), ch)})
	}
	x.state = make([][c14MaxClients]uint8, len(tb.topics))
	x.cause = make([][c14MaxClients]string, len(tb.topics))
	return x
}

func (x *c14Exec) detail(extra map[string]interface{}) map[string]interface{} {
	h := x.hist
	if len(h) > 80 {
		h = h[len(h)-80:]
	}
	d := map[string]interface{}{"topicCacheSize": x.cache, "history_up_to_here": append([]c14Op{}, h...), "reference": c14EntriesText(x.ref.entries())}
	for k, v := range extra {
		d[k] = v
	}
	return d
}

// guard runs f; a panic of the code under test is a violation "<prefix><what>:panic:<site>:<class>".
// The detail is built only when needed.
func (x *c14Exec) guard(what string, extra func() map[string]interface{}, f func()) bool {
	msg, site, panicked := kit.Recover(f)
	if panicked {
		var e map[string]interface{}
		if extra != nil {
			e = extra()
		}
		d := x.detail(e)
		d["panic"] = msg
		x.r.Violation(x.prefix+what+":panic:"+site+":"+kit.MsgClass(msg), d)
	}
	return panicked
}

func c14Qos(q []int) []byte {
	out := make([]byte, len(q))
	for i, v := range q {
		out[i] = byte(v)
	}
	return out
}

// step executes one operation on the real code and on the reference and compares routing
// for all topics.
func (x *c14Exec) step(op c14Op) {
	x.hist = append(x.hist, op)
	x.kind = op.K
	x.r.Eval(1)
	switch op.K {
	case "sub", "resub", "multisub":
		var err error
		if x.guard("subscribe", nil, func() { err = x.conns[op.C].subscribe(x.mgr, op.F, c14Qos(op.Q)) }) {
			return
		}
		if err != nil {
			x.r.Violation(x.prefix+"valid-filter-rejected:subscribe:"+c14Wild(op.F...), x.detail(map[string]interface{}{"error": err.Error()}))
		} else {
			x.ref.apply(op)
		}
		for _, f := range op.F {
			x.cover["op:"+op.K+":"+c14Shape(f)] = true
		}
	case "unsub", "multiunsub", "unsub-never":
		var err error
		if x.guard("unsubscribe", nil, func() { err = x.conns[op.C].unsubscribe(x.mgr, op.F) }) {
			return
		}
		if err != nil {
			x.r.Violation(x.prefix+"valid-filter-rejected:unsubscribe:"+c14Wild(op.F...), x.detail(map[string]interface{}{"error": err.Error()}))
		}
		x.ref.apply(op)
		x.cover["op:"+op.K+":"+op.N] = true
		x.r.Count("op_"+op.K, 1)
	case "disc":
		var err error
		if x.guard("disconnect", nil, func() { err = x.conns[op.C].disconnect(x.mgr) }) {
			return
		}
		if err != nil {
			x.r.Violation(x.prefix+"valid-filter-rejected:disconnect-unsubscribe", x.detail(map[string]interface{}{"error": err.Error()}))
		}
		x.cover[fmt.Sprintf("op:disc:held=%d", len(x.ref.subs[op.C]))] = true
		x.ref.apply(op)
		x.r.Count("op_disc", 1)
	case "bad-sub", "bad-unsub":
		before := c14Snapshot(x.mgr)
		var err error
		what := "subscribe"
		if op.K == "bad-sub" {
			if x.guard("malformed-subscribe", nil, func() { err = x.conns[op.C].subscribe(x.mgr, op.F, c14Qos(op.Q)) }) {
				return
			}
			if err == nil {
				x.r.Violation(x.prefix+"malformed-accepted:subscribe:"+op.N, x.detail(nil))
			} else {
				x.r.Count("malformed_subscribe_rejected", 1)
			}
		} else {
			what = "unsubscribe"
			if x.guard("malformed-unsubscribe", nil, func() { err = x.conns[op.C].unsubscribe(x.mgr, op.F) }) {
				return
			}
			// whether UNSUBSCRIBE of a malformed filter reports an error is not demanded; only that nothing changes
			if err != nil {
				x.r.Count("malformed_unsubscribe_rejected", 1)
			} else {
				x.r.Count("malformed_unsubscribe_silently_ignored", 1)
			}
		}
		after := c14Snapshot(x.mgr)
		if !c14SameEntries(before.entries, after.entries) || before.nodes != after.nodes {
			x.r.Violation(x.prefix+"malformed-changed-trie:"+what+":"+op.N, x.detail(map[string]interface{}{
				"trie_before": c14EntriesText(before.entries), "trie_after": c14EntriesText(after.entries), "nodes_before": before.nodes, "nodes_after": after.nodes}))
			// put the trie back as far as possible so that the remaining comparisons stay meaningful
			x.mgr.unsubscribe(op.F, x.conns[op.C].cid)
		}
		x.cover["op:"+op.K+":"+op.N+":"+c14Shape(op.F[0])] = true
	case "residue":
		// everything has been unsubscribed: nothing may be left in the trie
		s := c14Snapshot(x.mgr)
		x.r.Count("residue_checks", 1)
		if len(s.entries) > 0 {
			x.r.Violation(x.prefix+"residue:client-entries-after-all-unsubscribed", x.detail(map[string]interface{}{"trie": c14EntriesText(s.entries)}))
		} else if s.nodes > 0 {
			x.r.Violation(x.prefix+"residue:empty-nodes-after-all-unsubscribed", x.detail(map[string]interface{}{"nodes": s.nodes, "empty_leaves": s.empty}))
		}
	}
	if x.mgr.levelMgr.data.Len() >= x.cache {
		x.lruFull = true
	}
	x.compareAll(op)
}

// compareAll: findSubscribers(T) for every topic against the reference.
func (x *c14Exec) compareAll(op c14Op) {
	tb := x.tb
	for ti, T := range tb.topics {
		var got map[string]byte
		var err error
		if x.guard("findSubscribers", func() map[string]interface{} { return map[string]interface{}{"topic": T} }, func() { got, err = x.mgr.findSubscribers(T) }) {
			continue
		}
		if err != nil {
			x.r.Violation(x.prefix+"routing:error-on-valid-topic-name", x.detail(map[string]interface{}{"topic": T, "error": err.Error()}))
			continue
		}
		seen := 0
		for c := 0; c < x.nClients; c++ {
			mask := x.ref.wantMask(tb, ti, c)
			q, routed := got[c14Names[c]]
			if routed {
				seen++
			}
			st := &x.state[ti][c]
			switch {
			case mask != 0 && routed:
				if q > 7 || mask&(1<<q) == 0 {
					x.r.Violation(x.prefix+"qos:not-from-own-matching-subscription", x.detail(map[string]interface{}{
						"topic": T, "client": c14Name(c), "qos_reported": q, "own_subscriptions": x.ref.subs[c]}))
				}
				*st = c14StOK
			case mask != 0 && !routed:
				if *st != c14StMissing {
					if *st == c14StOK {
						x.cause[ti][c] = "lost-after-" + x.kind
					} else {
						x.cause[ti][c] = "after-" + x.kind
					}
					*st = c14StMissing
				}
				f := x.ref.firstMatching(tb, ti, c)
				x.r.Violation(x.prefix+"routing:missing:"+x.cause[ti][c]+":"+c14Wild(f)+":"+c14MatchKind(f, T), x.detail(map[string]interface{}{
					"topic": T, "client_not_routed": c14Name(c), "matching_filter": f, "routed_to": got}))
			case mask == 0 && routed:
				if *st != c14StExtra {
					if *st == c14StOK {
						x.cause[ti][c] = "stale-after-" + x.kind
					} else {
						x.cause[ti][c] = "no-matching-subscription:first-seen-after-" + x.kind + ":client-" + c14Wild(x.ref.filtersOf(c)...)
					}
					*st = c14StExtra
				}
				x.r.Violation(x.prefix+"routing:extra:"+x.cause[ti][c], x.detail(map[string]interface{}{
					"topic": T, "client_routed_without_matching_subscription": c14Name(c), "its_live_filters": x.ref.filtersOf(c), "routed_to": got}))
			default:
				*st = c14StNA
			}
		}
		if seen != len(got) {
			x.r.Violation(x.prefix+"routing:extra:unknown-client-id", x.detail(map[string]interface{}{"topic": T, "routed_to": got}))
		}
	}
	x.r.Count("topic_lookups_compared", int64(len(tb.topics)))
	// coverage: how the filters of this operation match the topic space
	if op.K == "sub" || op.K == "resub" || op.K == "multisub" {
		for _, f := range op.F {
			row := tb.row(f)
			for ti, T := range tb.topics {
				if row[ti] {
					x.cover["match:"+c14Shape(f)+":"+c14MatchKind(f, T)] = true
				}
			}
		}
	}
}

func (x *c14Exec) finish() {
	for k := range x.cover {
		x.r.Cover(k)
		if strings.HasPrefix(k, "match:") {
			for _, cls := range []string{"hash-parent", "hash-rest", "plus-on-empty-level", "empty-level"} {
				if strings.Contains(k, cls) {
					x.r.Count("matchclass_"+cls, 1)
				}
			}
		}
	}
	if x.lruFull {
		x.r.Count("lru_at_capacity", 1)
	}
}

// c14Drain consumes what Session.store() sends (it spawns one sending goroutine per call).
func c14Drain() (chan SessionStore, func()) {
	ch := make(chan SessionStore, 4096)
	stop := make(chan struct{})
	go func() {
		for {
			select {
			case <-ch:
			case <-stop:
				return
			}
		}
	}()
	return ch, func() { close(stop) }
}

const c14Rule = "filters over levels {a,b,\"\",+,#} to depth 4 (never the empty filter), topics = all 119 names over {a,b,\"\"} to depth 4 (never empty, never '$'); " +
	"real TopicManager + real Session driven like client.go (processSubscribe/processUnsubscribe/closeAndDelSession) in lock-step with a map reference and the textbook recursive matcher; " +
	"after every operation findSubscribers is compared for all topics (client set, QoS within the client's own matching subscriptions); malformed filters must be rejected with the trie unchanged; " +
	"after a full teardown the trie must be empty; distinct = (operation kind x filter shape / pruning class / malformation class) and (filter shape x match kind: exact-depth, hash-parent, hash-rest, plus-on-empty-level, empty-level)"

// ---------------------------------------------------------------- part 1: systematic prefix

// TestVerif_C14_Systematic: every well-formed filter alone, every ordered pair of filters to
// depth 2 (thorough: depth 3) for prefix sharing/pruning, and every single-level corruption.
func TestVerif_C14_Systematic(t *testing.T) {
	r := kit.Start(t, "C14")
	defer r.Finish()
	r.Rule("systematic prefix. " + c14Rule)
	tb := c14Tab()
	ch, stop := c14Drain()
	defer stop()
	idx := 0
	run := func(desc interface{}, cache, nClients int, script []c14Op) {
		i := idx
		idx++
		if !r.Mine(i) {
			return
		}
		r.Case(i, desc)
		x := c14NewExec(r, cache, nClients, ch)
		for _, op := range script {
			x.step(op)
		}
		x.finish()
	}
	// (a) every filter alone: two clients, re-subscription with the other QoS, unsubscribe, disconnect
	for k, f := range tb.filters {
		fs := []string{f}
		run(map[string]interface{}{"single": f}, 1+k%4, 2, []c14Op{
			{K: "sub", C: 0, F: fs, Q: []int{0}},
			{K: "sub", C: 1, F: fs, Q: []int{1}},
			{K: "resub", C: 0, F: fs, Q: []int{1}},
			{K: "resub", C: 1, F: fs, Q: []int{0}},
			{K: "unsub", C: 0, F: fs, N: "last-holder=false"},
			{K: "unsub-never", C: 0, F: fs, N: "held-by-other-client"},
			{K: "disc", C: 1},
			{K: "residue"},
			{K: "sub", C: 1, F: fs, Q: []int{1}},
			{K: "unsub", C: 1, F: fs, N: "last-holder=true"},
			{K: "residue"},
		})
	}
	// (b) ordered pairs: g must survive the removal of f and vice versa
	var small []string
	for d := 1; d <= r.N(2, 3); d++ {
		small = append(small, tb.byDepth[d]...)
	}
	for _, f := range small {
		for _, g := range small {
			if f == g {
				continue
			}
			run(map[string]interface{}{"pair": []string{f, g}}, 1+idx%4, 2, []c14Op{
				{K: "sub", C: 0, F: []string{f}, Q: []int{0}},
				{K: "sub", C: 1, F: []string{g}, Q: []int{1}},
				{K: "unsub-never", C: 0, F: []string{g}, N: "held-by-other-client"},
				{K: "sub", C: 0, F: []string{g}, Q: []int{0}},
				{K: "unsub", C: 0, F: []string{f}, N: "pair"},
				{K: "unsub", C: 1, F: []string{g}, N: "pair"},
				{K: "unsub", C: 0, F: []string{g}, N: "pair"},
				{K: "residue"},
			})
		}
	}
	// (c) malformed: every level of every filter to depth 3 replaced by every malformed level,
	// and '#' moved to every non-last position; two well-formed subscriptions stay in place.
	for _, f := range append(append(append([]string{}, tb.byDepth[1]...), tb.byDepth[2]...), tb.byDepth[3]...) {
		ls := strings.Split(f, "/")
		script := []c14Op{
			{K: "sub", C: 0, F: []string{"a/#"}, Q: []int{0}},
			{K: "sub", C: 1, F: []string{"+/b"}, Q: []int{1}},
		}
		add := func(g, class string) {
			if c14ValidFilter(g) {
				return
			}
			script = append(script, c14Op{K: "bad-sub", C: 0, F: []string{g}, Q: []int{1}, N: class}, c14Op{K: "bad-unsub", C: 1, F: []string{g}, N: class})
		}
		for i := range ls {
			for _, bad := range tb.badLevel {
				out := append([]string{}, ls...)
				out[i] = bad
				add(strings.Join(out, "/"), c14BadLevelClass(bad))
			}
			if i < len(ls)-1 {
				out := append([]string{}, ls...)
				out[i] = "#"
				add(strings.Join(out, "/"), "hash-not-last")
			}
		}
		script = append(script, c14Op{K: "disc", C: 0}, c14Op{K: "disc", C: 1}, c14Op{K: "residue"})
		run(map[string]interface{}{"malformed_variants_of": f, "n": len(script)}, 1+idx%4, 2, script)
	}
	r.Exhaustive(true)
	r.Note("systematic cases enumerated: %d (all %d well-formed filters alone; all ordered pairs to depth %d; all single-level corruptions to depth 3)", idx, len(tb.filters), r.N(2, 3))
	for _, k := range []string{"malformed_subscribe_rejected", "residue_checks", "matchclass_hash-parent", "matchclass_hash-rest", "matchclass_plus-on-empty-level", "matchclass_empty-level", "lru_at_capacity"} {
		r.Require(k, 1)
	}
}

// ---------------------------------------------------------------- part 2: seeded histories

func TestVerif_C14_Histories(t *testing.T) {
	r := kit.Start(t, "C14")
	defer r.Finish()
	r.Rule("seeded histories: 3-4 clients x 25 operations (subscribe 35%, re-subscribe with the other QoS 10%, unsubscribe 20%, unsubscribe of a filter the client never subscribed 10% (held by another client / prefix / extension / absent), disconnect 6%, malformed subscribe 6% / unsubscribe 4%, multi-filter subscribe 9%) over a pool of 5-9 structurally related filters, topicCacheSize 1-4, a full teardown + residue check at the end and in 40% of the histories also in the middle. " + c14Rule)
	r.Assume("QoS values 0 and 1 only; one well-formed or one malformed filter per packet, or several well-formed ones (packets mixing well-formed and malformed filters are explored non-decidingly in TestVerif_C14_MixedPacketsExplore); disconnect = clean-session close (closeAndDelSession)")
	ch, stop := c14Drain()
	defer stop()
	n := r.N(1500, 60000)
	for i := 0; i < n; i++ {
		if !r.Mine(i) {
			continue
		}
		rng := r.CaseRand(i)
		nClients := 3 + rng.Intn(2)
		cache := 1 + rng.Intn(4)
		script := c14GenHistory(rng, nClients, 25)
		r.Case(i, map[string]interface{}{"clients": nClients, "topicCacheSize": cache, "ops": script})
		x := c14NewExec(r, cache, nClients, ch)
		for _, op := range script {
			x.step(op)
		}
		x.finish()
		if i < 2 {
			r.Sample(map[string]interface{}{"clients": nClients, "topicCacheSize": cache, "ops": script})
		}
	}
	for _, k := range []string{"malformed_subscribe_rejected", "residue_checks", "op_unsub", "op_unsub-never", "op_disc", "op_multiunsub",
		"matchclass_hash-parent", "matchclass_hash-rest", "matchclass_plus-on-empty-level", "matchclass_empty-level", "lru_at_capacity"} {
		r.Require(k, 1)
	}
}

// ---------------------------------------------------------------- part 3: concurrent phase

type c14COp struct {
	c14Op
	Probe []int `json:"p"` // topic indexes looked up by the writer right after the op
}

// TestVerif_C14_Concurrent: writers with disjoint client ids subscribe / unsubscribe /
// disconnect while routers look topics up.  Deciding checks that are valid at every instant:
// (1) two anchor clients whose subscriptions never change are routed exactly as the reference
// says in every lookup; (2) a writer, right after its own operation returned, sees its own
// clients routed exactly as its private reference says (nobody else touches those ids);
// (3) no lookup ever returns a client that at no point of its script holds a matching filter;
// (4) after all goroutines joined, routing for all topics and the trie content equal the
// merged reference, and after teardown the trie is empty.  The race detector watches the
// TopicManager (race_scope in props/C14.json).
func TestVerif_C14_Concurrent(t *testing.T) {
	r := kit.Start(t, "C14")
	defer r.Finish()
	r.Rule("concurrent phase: 2 anchor clients with fixed subscriptions, 4 writer goroutines owning 2 client ids each (60 seeded ops each: subscribe/re-subscribe/unsubscribe/never-subscribed unsubscribe/disconnect/malformed, over a shared pool so that trie prefixes are shared between goroutines), 3 router goroutines calling findSubscribers until the writers are done; topicCacheSize 1-4; final state compared for all topics + trie content + residue after teardown")
	tb := c14Tab()
	const (
		nAnchors = 2
		nWriters = 4
		perW     = 2
		nRouters = 3
		opsPerW  = 60
	)
	nClients := nAnchors + nWriters*perW
	n := r.N(60, 2400)
	for i := 0; i < n; i++ {
		if !r.Mine(i) {
			continue
		}
		rng := r.CaseRand(i)
		cache := 1 + rng.Intn(4)
		pool := c14GenPool(rng)
		pick := func() string {
			if rng.Intn(5) == 0 {
				return c14RandFilter(rng)
			}
			return pool[rng.Intn(len(pool))]
		}
		// anchors
		var anchorOps []c14Op
		for a := 0; a < nAnchors; a++ {
			for k := 0; k < 2+rng.Intn(2); k++ {
				anchorOps = append(anchorOps, c14Op{K: "sub", C: a, F: []string{pick()}, Q: []int{rng.Intn(2)}})
			}
		}
		// writer scripts (generated against private references) and the "ever matching" sets
		scripts := make([][]c14COp, nWriters)
		var ever [c14MaxClients][]bool
		for c := range ever {
			ever[c] = make([]bool, len(tb.topics))
		}
		for w := 0; w < nWriters; w++ {
			ref := c14NewRef()
			for k := 0; k < opsPerW; k++ {
				c := nAnchors + w*perW + rng.Intn(perW)
				held := ref.filtersOf(c)
				var op c14Op
				switch x := rng.Intn(100); {
				case x < 40 || len(held) == 0 && x < 75:
					op = c14Op{K: "sub", C: c, F: []string{pick()}, Q: []int{rng.Intn(2)}}
				case x < 48:
					f := held[rng.Intn(len(held))]
					op = c14Op{K: "resub", C: c, F: []string{f}, Q: []int{1 - int(ref.subs[c][f])}}
				case x < 75:
					op = c14Op{K: "unsub", C: c, F: []string{held[rng.Intn(len(held))]}}
				case x < 83:
					f := pick()
					if _, ok := ref.subs[c][f]; ok {
						op = c14Op{K: "unsub", C: c, F: []string{f}}
					} else {
						op = c14Op{K: "unsub-never", C: c, F: []string{f}}
					}
				case x < 89:
					op = c14Op{K: "disc", C: c}
				case x < 95:
					g, class := c14Malform(rng, pick())
					op = c14Op{K: "bad-sub", C: c, F: []string{g}, Q: []int{rng.Intn(2)}, N: class}
				default:
					f, g := pick(), pick()
					if f == g {
						op = c14Op{K: "sub", C: c, F: []string{f}, Q: []int{rng.Intn(2)}}
					} else {
						op = c14Op{K: "multisub", C: c, F: []string{f, g}, Q: []int{rng.Intn(2), rng.Intn(2)}}
					}
				}
				ref.apply(op)
				if op.K == "sub" || op.K == "multisub" || op.K == "resub" {
					for _, f := range op.F {
						for ti, m := range tb.row(f) {
							if m {
								ever[c][ti] = true
							}
						}
					}
				}
				scripts[w] = append(scripts[w], c14COp{c14Op: op, Probe: []int{rng.Intn(len(tb.topics)), rng.Intn(len(tb.topics))}})
			}
		}
		r.Case(i, map[string]interface{}{"topicCacheSize": cache, "anchors": anchorOps, "writers": scripts})

		mgr := newTopicManager(cache)
		merged := c14NewRef()
		for _, op := range anchorOps {
			if err := mgr.subscribe(op.F, c14Qos(op.Q), c14Name(op.C)); err != nil {
				r.Violation("concurrent:valid-filter-rejected:subscribe:"+c14Wild(op.F...), map[string]interface{}{"op": op, "error": err.Error()})
			}
			merged.apply(op)
		}
		var anchorMask [nAnchors][]uint8
		for a := 0; a < nAnchors; a++ {
			anchorMask[a] = make([]uint8, len(tb.topics))
			for ti := range tb.topics {
				anchorMask[a][ti] = merged.wantMask(tb, ti, a)
			}
		}
		// checkShared: the checks every goroutine may apply to any lookup at any instant
		checkShared := func(who string, ti int, got map[string]byte) {
			for a := 0; a < nAnchors; a++ {
				q, ok := got[c14Name(a)]
				m := anchorMask[a][ti]
				switch {
				case m != 0 && !ok:
					r.Violation("concurrent:anchor-subscription-not-routed", map[string]interface{}{"seen_by": who, "topic": tb.topics[ti], "anchor": c14Name(a), "its_filters": merged.subs[a], "routed_to": got})
				case m == 0 && ok:
					r.Violation("concurrent:anchor-routed-without-matching-subscription", map[string]interface{}{"seen_by": who, "topic": tb.topics[ti], "anchor": c14Name(a), "its_filters": merged.subs[a], "routed_to": got})
				case m != 0 && (q > 7 || m&(1<<q) == 0):
					r.Violation("concurrent:qos:not-from-own-matching-subscription", map[string]interface{}{"seen_by": who, "topic": tb.topics[ti], "anchor": c14Name(a), "qos": q, "its_filters": merged.subs[a]})
				}
			}
			for cid := range got {
				c, known := c14NameIdx[cid]
				if !known || c >= nClients {
					r.Violation("concurrent:routing:extra:unknown-client-id", map[string]interface{}{"seen_by": who, "topic": tb.topics[ti], "routed_to": got})
					continue
				}
				if c >= nAnchors && !ever[c][ti] {
					r.Violation("concurrent:routed-to-client-that-never-holds-a-matching-filter", map[string]interface{}{"seen_by": who, "topic": tb.topics[ti], "client": cid, "routed_to": got})
				}
			}
		}

		var (
			wg            sync.WaitGroup
			start         = make(chan struct{})
			writersLeft   int32 = nWriters
			routersWarmed int32
			overlapRoutes int64
			opsDone       int64
			routesTotal   int64
			writerRefs    = make([]*c14Ref, nWriters)
		)
		for w := 0; w < nWriters; w++ {
			wg.Add(1)
			go func(w int) {
				defer wg.Done()
				defer atomic.AddInt32(&writersLeft, -1)
				ref := c14NewRef()
				writerRefs[w] = ref
				who := fmt.Sprintf("writer%d", w)
				msg, site, panicked := kit.Recover(func() {
					<-start
					for atomic.LoadInt32(&routersWarmed) < nRouters {
						runtime.Gosched()
					}
					for k, op := range scripts[w] {
						cid := c14Name(op.C)
						var err error
						switch op.K {
						case "sub", "resub", "multisub":
							if err = mgr.subscribe(op.F, c14Qos(op.Q), cid); err != nil {
								r.Violation("concurrent:valid-filter-rejected:subscribe:"+c14Wild(op.F...), map[string]interface{}{"writer": w, "step": k, "op": op, "error": err.Error()})
								continue
							}
						case "unsub", "unsub-never":
							if err = mgr.unsubscribe(op.F, cid); err != nil {
								r.Violation("concurrent:valid-filter-rejected:unsubscribe:"+c14Wild(op.F...), map[string]interface{}{"writer": w, "step": k, "op": op, "error": err.Error()})
							}
						case "disc":
							if err = mgr.unsubscribe(ref.filtersOf(op.C), cid); err != nil {
								r.Violation("concurrent:valid-filter-rejected:disconnect-unsubscribe", map[string]interface{}{"writer": w, "step": k, "op": op, "error": err.Error()})
							}
						case "bad-sub":
							if err = mgr.subscribe(op.F, c14Qos(op.Q), cid); err == nil {
								r.Violation("concurrent:malformed-accepted:subscribe:"+op.N, map[string]interface{}{"writer": w, "step": k, "op": op})
								mgr.unsubscribe(op.F, cid)
							}
						}
						ref.apply(op.c14Op)
						atomic.AddInt64(&opsDone, 1)
						r.Eval(1)
						// the writer's own clients, right after its own operation
						for _, ti := range op.Probe {
							got, err := mgr.findSubscribers(tb.topics[ti])
							if err != nil {
								r.Violation("concurrent:routing:error-on-valid-topic-name", map[string]interface{}{"topic": tb.topics[ti], "error": err.Error()})
								continue
							}
							checkShared(who, ti, got)
							for c := nAnchors + w*perW; c < nAnchors+(w+1)*perW; c++ {
								m := ref.wantMask(tb, ti, c)
								q, ok := got[c14Name(c)]
								switch {
								case m != 0 && !ok:
									r.Violation("concurrent:own-subscription-not-routed:after-"+op.K, map[string]interface{}{"writer": w, "step": k, "op": op, "topic": tb.topics[ti], "client": c14Name(c), "its_filters": ref.subs[c], "routed_to": got})
								case m == 0 && ok:
									r.Violation("concurrent:own-client-routed-without-matching-subscription:after-"+op.K, map[string]interface{}{"writer": w, "step": k, "op": op, "topic": tb.topics[ti], "client": c14Name(c), "its_filters": ref.subs[c], "routed_to": got})
								case m != 0 && (q > 7 || m&(1<<q) == 0):
									r.Violation("concurrent:qos:not-from-own-matching-subscription", map[string]interface{}{"writer": w, "step": k, "topic": tb.topics[ti], "client": c14Name(c), "qos": q, "its_filters": ref.subs[c]})
								}
							}
						}
					}
				})
				if panicked {
					r.Violation("concurrent:panic:"+site+":"+kit.MsgClass(msg), map[string]interface{}{"goroutine": who, "panic": msg})
				}
			}(w)
		}
		for g := 0; g < nRouters; g++ {
			wg.Add(1)
			go func(g int) {
				defer wg.Done()
				who := fmt.Sprintf("router%d", g)
				rr := r.Rand(fmt.Sprintf("case/%d/router/%d", i, g))
				warmed := false
				msg, site, panicked := kit.Recover(func() {
					<-start
					for calls := 0; ; calls++ {
						left := atomic.LoadInt32(&writersLeft)
						if left == 0 && calls >= 50 {
							return
						}
						ti := rr.Intn(len(tb.topics))
						before := atomic.LoadInt64(&opsDone)
						got, err := mgr.findSubscribers(tb.topics[ti])
						after := atomic.LoadInt64(&opsDone)
						if err != nil {
							r.Violation("concurrent:routing:error-on-valid-topic-name", map[string]interface{}{"topic": tb.topics[ti], "error": err.Error()})
							continue
						}
						checkShared(who, ti, got)
						atomic.AddInt64(&routesTotal, 1)
						if after != before {
							// at least one writer operation completed while this lookup was in flight
							atomic.AddInt64(&overlapRoutes, 1)
						}
						if !warmed {
							warmed = true
							atomic.AddInt32(&routersWarmed, 1)
						}
					}
				})
				if panicked {
					if !warmed {
						atomic.AddInt32(&routersWarmed, 1) // never leave the writers spinning
					}
					r.Violation("concurrent:panic:"+site+":"+kit.MsgClass(msg), map[string]interface{}{"goroutine": who, "panic": msg})
				}
			}(g)
		}
		close(start)
		wg.Wait()
		r.Count("concurrent_lookups", routesTotal)
		r.Count("lookups_overlapping_a_writer_op", overlapRoutes)
		if overlapRoutes > 0 {
			r.Count("cases_with_overlap", 1)
		}

		// quiescent: final state against the merged reference
		for _, wr := range writerRefs {
			for c, s := range wr.subs {
				for f, q := range s {
					merged.subs[c][f] = q
				}
			}
		}
		x := &c14Exec{r: r, tb: tb, mgr: mgr, cache: cache, ref: merged, nClients: nClients, prefix: "concurrent-final:", cover: map[string]bool{}, kind: "concurrent-phase"}
		x.state = make([][c14MaxClients]uint8, len(tb.topics))
		x.cause = make([][c14MaxClients]string, len(tb.topics))
		x.compareAll(c14Op{K: "concurrent-phase"})
		snap := c14Snapshot(mgr)
		if !c14SameEntries(snap.entries, merged.entries()) {
			r.Violation("concurrent-final:trie-content-differs-from-reference", map[string]interface{}{"trie": c14EntriesText(snap.entries), "reference": c14EntriesText(merged.entries())})
		}
		r.CoverHash("concurrent-final-state", c14EntriesText(merged.entries()))
		// teardown (sequential) with routing comparison after every step, then residue
		for c := 0; c < nClients; c++ {
			for _, f := range merged.filtersOf(c) {
				op := c14Op{K: "unsub", C: c, F: []string{f}}
				x.hist = append(x.hist, op)
				x.kind = "unsub"
				if err := mgr.unsubscribe(op.F, c14Name(c)); err != nil {
					r.Violation("concurrent-final:valid-filter-rejected:unsubscribe:"+c14Wild(f), map[string]interface{}{"op": op, "error": err.Error()})
				}
				merged.apply(op)
				x.compareAll(op)
			}
		}
		x.step(c14Op{K: "residue"})
	}
	r.Require("lookups_overlapping_a_writer_op", 1)
	r.Require("cases_with_overlap", int64(1))
	r.Require("residue_checks", 1)
}

// ---------------------------------------------------------------- part 4: non-deciding exploration

// TestVerif_C14_MixedPacketsExplore: SUBSCRIBE / UNSUBSCRIBE packets that mix well-formed and
// malformed filters.  What "rejected" means for such a packet (whole packet or only the
// malformed filter) is left open by the property, so nothing here can produce a violation;
// the observed behaviour is recorded in the evidence counters and notes.
func TestVerif_C14_MixedPacketsExplore(t *testing.T) {
	r := kit.Start(t, "C14")
	defer r.Finish()
	r.Rule("non-deciding: packets mixing well-formed and malformed filters, driven through the processSubscribe/processUnsubscribe/closeAndDelSession call sequences; only counters are recorded")
	ch, stop := c14Drain()
	defer stop()
	n := r.N(200, 2000)
	for i := 0; i < n; i++ {
		if !r.Mine(i) {
			continue
		}
		rng := r.CaseRand(i)
		good, good2 := c14RandFilter(rng), c14RandFilter(rng)
		bad, class := c14Malform(rng, c14RandFilter(rng))
		badFirst := rng.Intn(2) == 0
		r.Case(i, map[string]interface{}{"good": good, "bad": bad, "badFirst": badFirst})
		mgr := newTopicManager(1 + rng.Intn(4))
		conn := &c14Conn{cid: "c0", ch: ch, sess: c14NewSession("c0", ch)}
		_, _, panicked := kit.Recover(func() {
			// SUBSCRIBE [good, bad] / [bad, good]
			fs := []string{good, bad}
			if badFirst {
				fs = []string{bad, good}
			}
			err := conn.subscribe(mgr, fs, []byte{0, 1})
			s := c14Snapshot(mgr)
			switch {
			case err == nil:
				r.Count("explore_mixed_subscribe_accepted", 1)
			case len(s.entries) == 0:
				r.Count("explore_mixed_subscribe_rejected_nothing_inserted", 1)
			default:
				r.Count("explore_mixed_subscribe_rejected_but_wellformed_filter_inserted", 1)
				conn.disconnect(mgr)
				if s2 := c14Snapshot(mgr); len(s2.entries) > 0 {
					r.Count("explore_partial_insert_survives_disconnect", 1)
					r.Note("mixed SUBSCRIBE %q: error returned, %q stays in the trie and is not in the session, so closeAndDelSession does not remove it (class %s)", fs, good, class)
				}
			}
			// UNSUBSCRIBE [bad, good2] after a successful subscribe of good2
			mgr2 := newTopicManager(2)
			conn2 := &c14Conn{cid: "c1", ch: ch, sess: c14NewSession("c1", ch)}
			if conn2.subscribe(mgr2, []string{good2}, []byte{1}) == nil {
				conn2.unsubscribe(mgr2, []string{bad, good2})
				if s := c14Snapshot(mgr2); len(s.entries) > 0 {
					r.Count("explore_mixed_unsubscribe_left_wellformed_filter_subscribed", 1)
					conn2.disconnect(mgr2)
					if s2 := c14Snapshot(mgr2); len(s2.entries) > 0 {
						r.Count("explore_partial_unsubscribe_survives_disconnect", 1)
						r.Note("mixed UNSUBSCRIBE [%q %q]: trie keeps %q while the session forgot it, so closeAndDelSession does not remove it", bad, good2, good2)
					}
				} else {
					r.Count("explore_mixed_unsubscribe_removed_wellformed_filter", 1)
				}
			}
		})
		if panicked {
			r.Count("explore_panics", 1)
		}
		r.Cover("explore:" + class + fmt.Sprintf(":badFirst=%v", badFirst))
	}
}
