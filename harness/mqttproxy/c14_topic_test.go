//go:build verif

package mqttproxy

// C14: MQTT topic routing equals MQTT 3.1.1 filter matching over any subscribe history.
//
// The real TopicManager, behind the real packet handlers of client.go (processSubscribe /
// processUnsubscribe / closeAndDelSession on real Client and Session objects of a socket-less
// Broker), runs in lock-step with the reference of c14_model_test.go.  After EVERY operation
// findSubscribers(T) is called for all 119 topic names over {a,b,""} to depth 4 and compared
// with the reference (client set; QoS within the QoS set of that client's own matching
// subscriptions).  A disconnect is any of the ways a connection ends in the broker (c14Conn.end);
// the comparison after it runs before the client id connects again.

import (
	"errors"
	"fmt"
	"runtime"
	"sort"
	"strings"
	"sync"
	"sync/atomic"
	"testing"

	"github.com/eclipse/paho.mqtt.golang/packets"

	"verif.local/kit"
)

var (
	c14Names   [c14MaxClients]string
	c14NameIdx = map[string]int{}
)

func init() {
	for c := range c14Names {
		c14Names[c] = c14Name(c)
		c14NameIdx[c14Names[c]] = c
	}
}

// ---------------------------------------------------------------- real side

// c14Rig is a Broker reduced to what the SUBSCRIBE / UNSUBSCRIBE / close handlers of
// client.go touch: the real TopicManager, the real SessionManager on the package's in-memory
// storage, the client table.  No listener, no pipelines.
type c14Rig struct {
	b       *Broker
	msgID   uint16
	foreign map[int64]bool // session-store hand-over goroutines that existed before this rig (c14_sessions_test.go)
}

func c14NewRig(cache int) *c14Rig {
	b := &Broker{name: "c14", egName: "c14", clients: map[string]*Client{}, topicMgr: newTopicManager(cache)}
	b.sessMgr = newSessionManager(b, newStorage(nil))
	return &c14Rig{b: b}
}

func (rg *c14Rig) close() { rg.b.sessMgr.close() }

// c14Conn is one client connection; every operation goes through the real handlers
// processSubscribe / processUnsubscribe / closeAndDelSession of client.go.
type c14Conn struct {
	rg         *c14Rig
	cid        string
	cl         *Client
	persistent bool // connects with cleanSession=false (only in TestVerif_C14_Sessions)
}

// connect does what Broker.handleConn does after a successful CONNECT with CleanSession=1
// (client table, setSession, re-subscription of the session's topics), without a socket.
func (rg *c14Rig) connect(cid string) *c14Conn {
	cp := packets.NewControlPacket(packets.Connect).(*packets.ConnectPacket)
	cp.ClientIdentifier = cid
	cp.CleanSession = true
	cl := newClient(cp, rg.b, nil, nil)
	rg.b.Lock()
	rg.b.clients[cid] = cl
	rg.b.setSession(cl, cp)
	rg.b.Unlock()
	if topics, qoss, _ := cl.session.allSubscribes(); len(topics) > 0 {
		rg.b.topicMgr.subscribe(topics, qoss, cid)
	}
	return &c14Conn{rg: rg, cid: cid, cl: cl}
}

var errC14NoSuback = errors.New("SUBSCRIBE was not acknowledged (no SUBACK written)")

// subscribe sends one SUBSCRIBE packet through processSubscribe; the packet counts as
// accepted iff a SUBACK with its message id was written back.
func (c *c14Conn) subscribe(fs []string, qs []byte) error {
	p := packets.NewControlPacket(packets.Subscribe).(*packets.SubscribePacket)
	c.rg.msgID++
	p.MessageID = c.rg.msgID
	p.Topics = fs
	p.Qoss = qs
	processSubscribe(c.cl, p)
	select {
	case w := <-c.cl.writeCh:
		if ack, ok := w.(*packets.SubackPacket); ok && ack.MessageID == p.MessageID {
			return nil
		}
		return fmt.Errorf("unexpected packet written instead of SUBACK: %v", w)
	default:
		return errC14NoSuback
	}
}

// unsubscribe sends one UNSUBSCRIBE packet through processUnsubscribe (always acknowledged).
func (c *c14Conn) unsubscribe(fs []string) {
	p := packets.NewControlPacket(packets.Unsubscribe).(*packets.UnsubscribePacket)
	c.rg.msgID++
	p.MessageID = c.rg.msgID
	p.Topics = fs
	processUnsubscribe(c.cl, p)
	select {
	case <-c.cl.writeCh:
	default:
	}
}

// disconnect = the end of Client.readLoop (closeAndDelSession, removeClient); the same
// client id then connects again with a clean session.
func (c *c14Conn) disconnect() {
	c.end(c14EndPlain, nil)
	c.reconnect()
}

// end lets the connection end in one of the ways the real broker knows (see c14End* in
// c14_model_test.go).  Whoever closes the client object first, the connection has ended only
// when Client.readLoop has returned, i.e. after its deferred closeAndDelSession + removeClient;
// late (may be nil) is the one packet the read loop can still process between the two.  All
// calls are the ones the real code makes, in an order the real broker produces:
//   - Broker.deleteSession: watchDelete on a deleted session key (Client.close + client table);
//   - Client.close alone: runPipeline when a pipeline answered Disconnect, reconnectWatcher;
//   - Client.closeAndDelSession: Client.writeLoop after a failed write to the socket.
func (c *c14Conn) end(kind string, late func()) {
	switch kind {
	case c14EndBroker:
		c.rg.b.deleteSession(c.cid)
	case c14EndClose:
		c.cl.close()
	case c14EndWriter:
		c.cl.closeAndDelSession()
	}
	if late != nil {
		late()
	}
	c.cl.closeAndDelSession()
	c.rg.b.removeClient(c.cid)
}

// reconnect: the same client id connects again with a clean session.
func (c *c14Conn) reconnect() { c.cl = c.rg.connect(c.cid).cl }

// shutdown closes the connection for good (ends the session's goroutine).
func (c *c14Conn) shutdown() {
	c.cl.closeAndDelSession()
	c.rg.b.removeClient(c.cid)
}

type c14Snap struct {
	entries map[string]byte // "filter\x00client" -> qos
	nodes   int             // nodes below the root
	empty   int             // nodes without clients and without children
}

// c14Snapshot walks the trie under the manager's own read lock (quiescent or not).
func c14Snapshot(mgr *TopicManager) c14Snap {
	mgr.RLock()
	defer mgr.RUnlock()
	s := c14Snap{entries: map[string]byte{}}
	for c, q := range mgr.root.clients {
		s.entries["<root>\x00"+c] = q
	}
	var walk func(n *topicNode, path string, top bool)
	walk = func(n *topicNode, path string, top bool) {
		for l, ch := range n.nodes {
			p := l
			if !top {
				p = path + "/" + l
			}
			s.nodes++
			if len(ch.clients) == 0 && len(ch.nodes) == 0 {
				s.empty++
			}
			for c, q := range ch.clients {
				s.entries[p+"\x00"+c] = q
			}
			walk(ch, p, false)
		}
	}
	walk(mgr.root, "", true)
	return s
}

func c14SameEntries(a, b map[string]byte) bool {
	if len(a) != len(b) {
		return false
	}
	for k, v := range a {
		if w, ok := b[k]; !ok || w != v {
			return false
		}
	}
	return true
}

func c14EntriesText(m map[string]byte) []string {
	var out []string
	for k, v := range m {
		out = append(out, fmt.Sprintf("%s=%d", strings.Replace(k, "\x00", " @", 1), v))
	}
	sort.Strings(out)
	return out
}

// ---------------------------------------------------------------- lock-step executor

const (
	c14StNA = iota
	c14StOK
	c14StMissing
	c14StExtra
)

type c14Exec struct {
	r        *kit.Run
	tb       *c14Tables
	rig      *c14Rig // nil when the executor only compares (concurrent part)
	mgr      *TopicManager
	cache    int
	ref      *c14Ref
	conns    []*c14Conn
	nClients int
	prefix   string // signature prefix ("" for lock-step, "concurrent-final:" …)
	hist     []c14Op
	kind     string
	state    [][c14MaxClients]uint8  // per topic, per client: last verdict
	cause    [][c14MaxClients]string // per topic, per client: op kind that first showed the discrepancy
	cover    map[string]bool
	lruFull  bool
	// persistent-session histories (c14_sessions_test.go)
	offline [c14MaxClients]bool              // persistent client currently without a connection: its own row is not judged
	dropped [c14MaxClients]map[string]string // filter -> kind of the operation after which it was no longer live (never cleared)
	fresh   [c14MaxClients]map[string]string // the same, since the client's last session restore
	packets [c14MaxClients]map[string]bool   // kinds of mixed packets sent by the client since its last session restore
	aborted bool                             // watchdog of the store barrier fired: the rest of the case is not run
	viol0   int                              // violations recorded before this case
}

func c14NewExec(r *kit.Run, cache, nClients int) *c14Exec {
	tb := c14Tab()
	rig := c14NewRig(cache)
	x := &c14Exec{r: r, tb: tb, rig: rig, mgr: rig.b.topicMgr, cache: cache, ref: c14NewRef(), nClients: nClients, cover: map[string]bool{}}
	for c := 0; c < nClients; c++ {
		x.conns = append(x.conns, rig.connect(c14Name(c)))
	}
	x.state = make([][c14MaxClients]uint8, len(tb.topics))
	x.cause = make([][c14MaxClients]string, len(tb.topics))
	return x
}

func (x *c14Exec) detail(extra map[string]interface{}) map[string]interface{} {
	h := x.hist
	if len(h) > 80 {
		h = h[len(h)-80:]
	}
	d := map[string]interface{}{"topicCacheSize": x.cache, "history_up_to_here": append([]c14Op{}, h...), "reference": c14EntriesText(x.ref.entries())}
	for k, v := range extra {
		d[k] = v
	}
	return d
}

// guard runs f; a panic of the code under test is a violation "<prefix><what>:panic:<site>:<class>".
// The detail is built only when needed.
func (x *c14Exec) guard(what string, extra func() map[string]interface{}, f func()) bool {
	msg, site, panicked := kit.Recover(f)
	if panicked {
		var e map[string]interface{}
		if extra != nil {
			e = extra()
		}
		d := x.detail(e)
		d["panic"] = msg
		x.r.Violation(x.prefix+what+":panic:"+site+":"+kit.MsgClass(msg), d)
	}
	return panicked
}

func c14Qos(q []int) []byte {
	out := make([]byte, len(q))
	for i, v := range q {
		out[i] = byte(v)
	}
	return out
}

// step executes one operation on the real code and on the reference and compares routing
// for all topics.
func (x *c14Exec) step(op c14Op) {
	x.hist = append(x.hist, op)
	x.kind = op.K
	x.r.Eval(1)
	switch op.K {
	case "sub", "resub", "multisub":
		var err error
		if x.guard("subscribe", nil, func() { err = x.conns[op.C].subscribe(op.F, c14Qos(op.Q)) }) {
			return
		}
		if err != nil {
			x.r.Violation(x.prefix+"valid-filter-rejected:subscribe:"+c14Wild(op.F...), x.detail(map[string]interface{}{"error": err.Error()}))
		} else {
			x.ref.apply(op)
		}
		for _, f := range op.F {
			x.cover["op:"+op.K+":"+c14Shape(f)] = true
		}
	case "unsub", "multiunsub", "unsub-never":
		if x.guard("unsubscribe", nil, func() { x.conns[op.C].unsubscribe(op.F) }) {
			return
		}
		x.ref.apply(op)
		x.cover["op:"+op.K+":"+op.N] = true
		x.r.Count("op_"+op.K, 1)
	case "disc":
		conn := x.conns[op.C]
		label := c14EndLabel(op)
		if op.N != c14EndPlain || op.L != "" {
			x.kind = "disc:" + label // part of the signature of whatever shows after this end
		}
		var late func()
		var lateErr error
		switch op.L {
		case c14LateSub:
			late = func() { lateErr = conn.subscribe(op.F, c14Qos(op.Q)) }
		case c14LateUnsub:
			late = func() { conn.unsubscribe(op.F) }
		}
		if x.guard("disconnect:"+label, nil, func() { conn.end(op.N, late) }) {
			return
		}
		held := len(x.ref.subs[op.C])
		x.cover[fmt.Sprintf("op:disc:%s:held=%d", label, held)] = true
		x.ref.apply(op)
		x.r.Count("op_disc", 1)
		x.r.Count("conn_end:"+label, 1)
		if held > 0 {
			x.r.Count("conn_end_of_client_with_live_subscriptions:"+label, 1)
		}
		if op.L == c14LateSub {
			x.r.Count(fmt.Sprintf("conn_end_late_subscribe_acknowledged=%v(not judged)", lateErr == nil), 1)
		}
		// The connection has ended completely and nobody has connected with this id again: the
		// client holds nothing.  (The next CONNECT of the id discards whatever session it still
		// finds, together with that session's filters, and would hide a left-over.)
		v0 := x.r.ViolationCount()
		x.compareAll(op)
		if x.r.ViolationCount() > v0 {
			// put the trie back so that the rest of the history is compared meaningfully
			suffix := "\x00" + conn.cid
			var left []string
			for k := range c14Snapshot(x.mgr).entries {
				if strings.HasSuffix(k, suffix) {
					left = append(left, strings.TrimSuffix(k, suffix))
				}
			}
			if len(left) > 0 {
				x.mgr.unsubscribe(left, conn.cid)
				x.r.Count("conn_end_left_subscriptions_removed_by_hand", 1)
			}
		}
		if x.guard("connect-after-disconnect", nil, func() { conn.reconnect() }) {
			return
		}
	case "bad-sub", "bad-unsub":
		before := c14Snapshot(x.mgr)
		var err error
		what := "subscribe"
		if op.K == "bad-sub" {
			if x.guard("malformed-subscribe", nil, func() { err = x.conns[op.C].subscribe(op.F, c14Qos(op.Q)) }) {
				return
			}
			if err == nil {
				x.r.Violation(x.prefix+"malformed-accepted:subscribe:"+op.N, x.detail(nil))
			} else {
				x.r.Count("malformed_subscribe_rejected", 1)
			}
		} else {
			what = "unsubscribe"
			// UNSUBSCRIBE is always acknowledged; for a malformed filter only "nothing changes" is demanded
			if x.guard("malformed-unsubscribe", nil, func() { x.conns[op.C].unsubscribe(op.F) }) {
				return
			}
			x.r.Count("malformed_unsubscribe_checked", 1)
		}
		after := c14Snapshot(x.mgr)
		if !c14SameEntries(before.entries, after.entries) || before.nodes != after.nodes {
			x.r.Violation(x.prefix+"malformed-changed-trie:"+what+":"+op.N, x.detail(map[string]interface{}{
				"trie_before": c14EntriesText(before.entries), "trie_after": c14EntriesText(after.entries), "nodes_before": before.nodes, "nodes_after": after.nodes}))
			// put the trie back as far as possible so that the remaining comparisons stay meaningful
			x.mgr.unsubscribe(op.F, x.conns[op.C].cid)
		}
		x.cover["op:"+op.K+":"+op.N+":"+c14Shape(op.F[0])] = true
	case "residue":
		// everything has been unsubscribed: nothing may be left in the trie
		s := c14Snapshot(x.mgr)
		x.r.Count("residue_checks", 1)
		if len(s.entries) > 0 {
			x.r.Violation(x.prefix+"residue:client-entries-after-all-unsubscribed", x.detail(map[string]interface{}{"trie": c14EntriesText(s.entries)}))
		} else if s.nodes > 0 {
			// Empty left-over nodes do not change any routing result, so the property ("no
			// residue that affects later routing") is not refuted by them: recorded, not judged.
			x.r.Count("residue_empty_nodes_left_in_trie_not_judged", 1)
			x.r.Note("empty trie nodes left after everything was unsubscribed (%d nodes); routing unaffected, not a violation", s.nodes)
		}
	}
	if x.mgr.levelMgr.data.Len() >= x.cache {
		x.lruFull = true
	}
	x.compareAll(op)
}

// compareAll: findSubscribers(T) for every topic against the reference.
func (x *c14Exec) compareAll(op c14Op) {
	tb := x.tb
	for ti, T := range tb.topics {
		var got map[string]byte
		var err error
		if x.guard("findSubscribers", func() map[string]interface{} { return map[string]interface{}{"topic": T} }, func() { got, err = x.mgr.findSubscribers(T) }) {
			continue
		}
		if err != nil {
			x.r.Violation(x.prefix+"routing:error-on-valid-topic-name", x.detail(map[string]interface{}{"topic": T, "error": err.Error()}))
			continue
		}
		seen := 0
		for c := 0; c < x.nClients; c++ {
			mask := x.ref.wantMask(tb, ti, c)
			q, routed := got[c14Names[c]]
			if routed {
				seen++
			}
			st := &x.state[ti][c]
			if x.offline[c] {
				// a client with a stored (cleanSession=false) session and no connection: whether its
				// subscriptions count as live is left open by the property; recorded, not judged
				if routed {
					x.r.Count("sess_offline_persistent_client_routed(not judged)", 1)
				}
				*st = c14StNA
				continue
			}
			switch {
			case mask != 0 && routed:
				if q > 7 || mask&(1<<q) == 0 {
					x.r.Violation(x.prefix+"qos:not-from-own-matching-subscription", x.detail(map[string]interface{}{
						"topic": T, "client": c14Name(c), "qos_reported": q, "own_subscriptions": x.ref.subs[c]}))
				}
				*st = c14StOK
			case mask != 0 && !routed:
				if *st != c14StMissing {
					if *st == c14StOK {
						x.cause[ti][c] = "lost-after-" + x.kind
					} else {
						x.cause[ti][c] = "after-" + x.kind
					}
					*st = c14StMissing
				}
				f := x.ref.firstMatching(tb, ti, c)
				x.r.Violation(x.prefix+"routing:missing:"+x.cause[ti][c]+":"+c14Wild(f)+":"+c14MatchKind(f, T), x.detail(map[string]interface{}{
					"topic": T, "client_not_routed": c14Name(c), "matching_filter": f, "routed_to": got}))
			case mask == 0 && routed:
				if *st != c14StExtra {
					if *st == c14StOK {
						x.cause[ti][c] = "stale-after-" + x.kind
					} else if why := x.restoreCause(ti, c); why != "" {
						x.cause[ti][c] = why
					} else {
						x.cause[ti][c] = "no-matching-subscription:first-seen-after-" + x.kind + ":client-" + c14Wild(x.ref.filtersOf(c)...)
					}
					*st = c14StExtra
				}
				x.r.Violation(x.prefix+"routing:extra:"+x.cause[ti][c], x.detail(map[string]interface{}{
					"topic": T, "client_routed_without_matching_subscription": c14Name(c), "its_live_filters": x.ref.filtersOf(c), "routed_to": got}))
			default:
				*st = c14StNA
			}
		}
		if seen != len(got) {
			x.r.Violation(x.prefix+"routing:extra:unknown-client-id", x.detail(map[string]interface{}{"topic": T, "routed_to": got}))
		}
	}
	x.r.Count("topic_lookups_compared", int64(len(tb.topics)))
	// coverage: how the filters of this operation match the topic space
	if op.K == "sub" || op.K == "resub" || op.K == "multisub" {
		for _, f := range op.F {
			row := tb.row(f)
			for ti, T := range tb.topics {
				if row[ti] {
					x.cover["match:"+c14Shape(f)+":"+c14MatchKind(f, T)] = true
				}
			}
		}
	}
}

func (x *c14Exec) finish() {
	for k := range x.cover {
		x.r.Cover(k)
		if strings.HasPrefix(k, "match:") {
			for _, cls := range []string{"hash-parent", "hash-rest", "plus-on-empty-level", "empty-level"} {
				if strings.Contains(k, cls) {
					x.r.Count("matchclass_"+cls, 1)
				}
			}
		}
	}
	if x.lruFull {
		x.r.Count("lru_at_capacity", 1)
	}
	if x.rig != nil {
		for _, c := range x.conns {
			kit.Recover(c.shutdown)
		}
		x.rig.close()
	}
}

// c14EndClasses: every way a connection ends that the histories must have exercised.
func c14EndClasses() []string {
	var out []string
	for _, op := range []c14Op{
		{N: c14EndPlain},
		{N: c14EndBroker}, {N: c14EndBroker, L: c14LateSub}, {N: c14EndBroker, L: c14LateUnsub},
		{N: c14EndClose},
		{N: c14EndWriter}, {N: c14EndWriter, L: c14LateSub}, {N: c14EndWriter, L: c14LateUnsub},
	} {
		out = append(out, c14EndLabel(op))
	}
	return out
}

// c14RequireEnds: a run in which one of the ways a connection ends was not exercised by a client
// that held live subscriptions is inconclusive.
func c14RequireEnds(r *kit.Run) {
	for _, l := range c14EndClasses() {
		r.Require("conn_end:"+l, 1)
		r.Require("conn_end_of_client_with_live_subscriptions:"+l, 1)
	}
}

const c14EndRule = "a disconnect is one of the ways a connection ends in the broker, always finished by the end of Client.readLoop (closeAndDelSession + removeClient): the client still open (DISCONNECT, read error), or the client object closed first by Broker.deleteSession (session deleted through the store), by Client.close alone (pipeline Disconnect, watcher re-sync) or by the write loop's closeAndDelSession after a write error, in the last three cases optionally with one SUBSCRIBE / UNSUBSCRIBE that the read loop still processes after that close; the routing comparison for all topics runs after the connection has ended and BEFORE the client id connects again (the next CONNECT discards a left-over session and would hide it); the way the connection ended is part of the signature (routing:extra:stale-after-disc:<who closed first>:<late packet>)"

const c14Rule = "filters over levels {a,b,\"\",+,#} to depth 4 (never the empty filter), topics = all 119 names over {a,b,\"\"} to depth 4 (never empty, never '$'); " +
	"real TopicManager + SessionManager/Session driven through the real handlers of client.go (processSubscribe / processUnsubscribe / closeAndDelSession; accepted = SUBACK written) in lock-step with a map reference and the textbook recursive matcher; " +
	"after every operation findSubscribers is compared for all topics (client set, QoS within the client's own matching subscriptions); malformed filters must be rejected with the trie unchanged; " +
	"after a full teardown the trie must be empty; " + c14EndRule + "; distinct = (operation kind x filter shape / pruning class / malformation class) and (filter shape x match kind: exact-depth, hash-parent, hash-rest, plus-on-empty-level, empty-level)"

// ---------------------------------------------------------------- part 1: systematic prefix

// TestVerif_C14_Systematic: every well-formed filter alone, every ordered pair of filters to
// depth 2 (thorough: depth 3) for prefix sharing/pruning, and every single-level corruption.
func TestVerif_C14_Systematic(t *testing.T) {
	r := kit.Start(t, "C14")
	defer r.Finish()
	r.Rule("systematic prefix (every well-formed filter alone, the disconnect of its holder cycling through the ways a connection ends; ordered pairs; single-level corruptions). " + c14Rule)
	tb := c14Tab()
	idx := 0
	run := func(desc interface{}, cache, nClients int, script []c14Op) {
		i := idx
		idx++
		if !r.Mine(i) {
			return
		}
		r.Case(i, desc)
		x := c14NewExec(r, cache, nClients)
		for _, op := range script {
			x.step(op)
		}
		x.finish()
	}
	// (a) every filter alone: two clients, re-subscription with the other QoS, unsubscribe, disconnect
	for k, f := range tb.filters {
		fs := []string{f}
		run(map[string]interface{}{"single": f}, 1+k%4, 2, []c14Op{
			{K: "sub", C: 0, F: fs, Q: []int{0}},
			{K: "sub", C: 1, F: fs, Q: []int{1}},
			{K: "resub", C: 0, F: fs, Q: []int{1}},
			{K: "resub", C: 1, F: fs, Q: []int{0}},
			{K: "unsub", C: 0, F: fs, N: "last-holder=false"},
			{K: "unsub-never", C: 0, F: fs, N: "held-by-other-client"},
			c14EndOp(1, k, []string{tb.filters[(k*13+5)%len(tb.filters)]}, fs),
			{K: "residue"},
			{K: "sub", C: 1, F: fs, Q: []int{1}},
			{K: "unsub", C: 1, F: fs, N: "last-holder=true"},
			{K: "residue"},
		})
	}
	// (b) ordered pairs: g must survive the removal of f and vice versa
	var small []string
	for d := 1; d <= r.N(2, 3); d++ {
		small = append(small, tb.byDepth[d]...)
	}
	for _, f := range small {
		for _, g := range small {
			if f == g {
				continue
			}
			run(map[string]interface{}{"pair": []string{f, g}}, 1+idx%4, 2, []c14Op{
				{K: "sub", C: 0, F: []string{f}, Q: []int{0}},
				{K: "sub", C: 1, F: []string{g}, Q: []int{1}},
				{K: "unsub-never", C: 0, F: []string{g}, N: "held-by-other-client"},
				{K: "sub", C: 0, F: []string{g}, Q: []int{0}},
				{K: "unsub", C: 0, F: []string{f}, N: "pair"},
				{K: "unsub", C: 1, F: []string{g}, N: "pair"},
				{K: "unsub", C: 0, F: []string{g}, N: "pair"},
				{K: "residue"},
			})
		}
	}
	// (c) malformed: every level of every filter to depth 3 replaced by every malformed level,
	// and '#' moved to every non-last position; two well-formed subscriptions stay in place.
	for _, f := range append(append(append([]string{}, tb.byDepth[1]...), tb.byDepth[2]...), tb.byDepth[3]...) {
		ls := strings.Split(f, "/")
		script := []c14Op{
			{K: "sub", C: 0, F: []string{"a/#"}, Q: []int{0}},
			{K: "sub", C: 1, F: []string{"+/b"}, Q: []int{1}},
		}
		add := func(g, class string) {
			if c14ValidFilter(g) {
				return
			}
			script = append(script, c14Op{K: "bad-sub", C: 0, F: []string{g}, Q: []int{1}, N: class}, c14Op{K: "bad-unsub", C: 1, F: []string{g}, N: class})
		}
		for i := range ls {
			for _, bad := range tb.badLevel {
				out := append([]string{}, ls...)
				out[i] = bad
				add(strings.Join(out, "/"), c14BadLevelClass(bad))
			}
			if i < len(ls)-1 {
				out := append([]string{}, ls...)
				out[i] = "#"
				add(strings.Join(out, "/"), "hash-not-last")
			}
		}
		script = append(script, c14Op{K: "disc", C: 0}, c14Op{K: "disc", C: 1}, c14Op{K: "residue"})
		run(map[string]interface{}{"malformed_variants_of": f, "n": len(script)}, 1+idx%4, 2, script)
	}
	r.Exhaustive(true)
	r.Note("systematic cases enumerated: %d (all %d well-formed filters alone; all ordered pairs to depth %d; all single-level corruptions to depth 3)", idx, len(tb.filters), r.N(2, 3))
	for _, k := range []string{"malformed_subscribe_rejected", "residue_checks", "matchclass_hash-parent", "matchclass_hash-rest", "matchclass_plus-on-empty-level", "matchclass_empty-level", "lru_at_capacity"} {
		r.Require(k, 1)
	}
	c14RequireEnds(r)
}

// ---------------------------------------------------------------- part 2: seeded histories

func TestVerif_C14_Histories(t *testing.T) {
	r := kit.Start(t, "C14")
	defer r.Finish()
	r.Rule("seeded histories: 3-4 clients x 25 operations (subscribe 35%, re-subscribe with the other QoS 10%, unsubscribe 20%, unsubscribe of a filter the client never subscribed 10% (held by another client / prefix / extension / absent), disconnect 6% (cycling through the ways a connection ends, the late packet over the same pool), malformed subscribe 6% / unsubscribe 4%, multi-filter subscribe 9%) over a pool of 5-9 structurally related filters, topicCacheSize 1-4, a full teardown + residue check at the end and in 40% of the histories also in the middle. " + c14Rule)
	r.Assume("QoS values 0 and 1 only; one well-formed or one malformed filter per packet, or several well-formed ones (packets mixing well-formed and malformed filters are handled by TestVerif_C14_MixedPackets); disconnect = end of a clean-session connection in one of the ways of the rule (at most one packet is processed after the client object was closed: the read loop checks its done channel between two packets); what is subscribed by a packet processed after the close is not live once the connection has ended")
	n := r.N(1500, 60000)
	for i := 0; i < n; i++ {
		if !r.Mine(i) {
			continue
		}
		rng := r.CaseRand(i)
		nClients := 3 + rng.Intn(2)
		cache := 1 + rng.Intn(4)
		script := c14GenHistory(rng, nClients, 25)
		r.Case(i, map[string]interface{}{"clients": nClients, "topicCacheSize": cache, "ops": script})
		x := c14NewExec(r, cache, nClients)
		for _, op := range script {
			x.step(op)
		}
		x.finish()
		if i < 2 {
			r.Sample(map[string]interface{}{"clients": nClients, "topicCacheSize": cache, "ops": script})
		}
	}
	for _, k := range []string{"malformed_subscribe_rejected", "residue_checks", "op_unsub", "op_unsub-never", "op_disc", "op_multiunsub",
		"matchclass_hash-parent", "matchclass_hash-rest", "matchclass_plus-on-empty-level", "matchclass_empty-level", "lru_at_capacity"} {
		r.Require(k, 1)
	}
	c14RequireEnds(r)
}

// ---------------------------------------------------------------- part 3: concurrent phase

type c14COp struct {
	c14Op
	Probe []int `json:"p"` // topic indexes looked up by the writer right after the op
}

// TestVerif_C14_Concurrent: writers with disjoint client ids subscribe / unsubscribe /
// disconnect while routers look topics up.  Deciding checks that are valid at every instant:
// (1) two anchor clients whose subscriptions never change are routed exactly as the reference
// says in every lookup; (2) a writer, right after its own operation returned, sees its own
// clients routed exactly as its private reference says (nobody else touches those ids);
// (3) no lookup ever returns a client that at no point of its script holds a matching filter;
// (4) after all goroutines joined, routing for all topics and the trie content equal the
// merged reference, and after teardown the trie is empty.  The race detector watches the
// TopicManager (race_scope in props/C14.json).
func TestVerif_C14_Concurrent(t *testing.T) {
	r := kit.Start(t, "C14")
	defer r.Finish()
	r.Rule("concurrent phase: 2 anchor clients with fixed subscriptions, 4 writer goroutines owning 2 client ids each (60 seeded ops each: subscribe/re-subscribe/unsubscribe/never-subscribed unsubscribe/disconnect/malformed, over a shared pool so that trie prefixes are shared between goroutines), 3 router goroutines calling findSubscribers until the writers are done; topicCacheSize 1-4; final state compared for all topics + trie content + residue after teardown")
	tb := c14Tab()
	const (
		nAnchors = 2
		nWriters = 4
		perW     = 2
		nRouters = 3
		opsPerW  = 60
	)
	nClients := nAnchors + nWriters*perW
	n := r.N(60, 2400)
	for i := 0; i < n; i++ {
		if !r.Mine(i) {
			continue
		}
		rng := r.CaseRand(i)
		cache := 1 + rng.Intn(4)
		pool := c14GenPool(rng)
		pick := func() string {
			if rng.Intn(5) == 0 {
				return c14RandFilter(rng)
			}
			return pool[rng.Intn(len(pool))]
		}
		// anchors
		var anchorOps []c14Op
		for a := 0; a < nAnchors; a++ {
			for k := 0; k < 2+rng.Intn(2); k++ {
				anchorOps = append(anchorOps, c14Op{K: "sub", C: a, F: []string{pick()}, Q: []int{rng.Intn(2)}})
			}
		}
		// writer scripts (generated against private references) and the "ever matching" sets
		scripts := make([][]c14COp, nWriters)
		var ever [c14MaxClients][]bool
		for c := range ever {
			ever[c] = make([]bool, len(tb.topics))
		}
		for w := 0; w < nWriters; w++ {
			ref := c14NewRef()
			for k := 0; k < opsPerW; k++ {
				c := nAnchors + w*perW + rng.Intn(perW)
				held := ref.filtersOf(c)
				var op c14Op
				switch x := rng.Intn(100); {
				case x < 40 || len(held) == 0 && x < 75:
					op = c14Op{K: "sub", C: c, F: []string{pick()}, Q: []int{rng.Intn(2)}}
				case x < 48:
					f := held[rng.Intn(len(held))]
					op = c14Op{K: "resub", C: c, F: []string{f}, Q: []int{1 - int(ref.subs[c][f])}}
				case x < 75:
					op = c14Op{K: "unsub", C: c, F: []string{held[rng.Intn(len(held))]}}
				case x < 83:
					f := pick()
					if _, ok := ref.subs[c][f]; ok {
						op = c14Op{K: "unsub", C: c, F: []string{f}}
					} else {
						op = c14Op{K: "unsub-never", C: c, F: []string{f}}
					}
				case x < 89:
					op = c14Op{K: "disc", C: c}
				case x < 95:
					g, class := c14Malform(rng, pick())
					op = c14Op{K: "bad-sub", C: c, F: []string{g}, Q: []int{rng.Intn(2)}, N: class}
				default:
					f, g := pick(), pick()
					if f == g {
						op = c14Op{K: "sub", C: c, F: []string{f}, Q: []int{rng.Intn(2)}}
					} else {
						op = c14Op{K: "multisub", C: c, F: []string{f, g}, Q: []int{rng.Intn(2), rng.Intn(2)}}
					}
				}
				ref.apply(op)
				if op.K == "sub" || op.K == "multisub" || op.K == "resub" {
					for _, f := range op.F {
						for ti, m := range tb.row(f) {
							if m {
								ever[c][ti] = true
							}
						}
					}
				}
				scripts[w] = append(scripts[w], c14COp{c14Op: op, Probe: []int{rng.Intn(len(tb.topics)), rng.Intn(len(tb.topics))}})
			}
		}
		r.Case(i, map[string]interface{}{"topicCacheSize": cache, "anchors": anchorOps, "writers": scripts})

		mgr := newTopicManager(cache)
		merged := c14NewRef()
		for _, op := range anchorOps {
			if err := mgr.subscribe(op.F, c14Qos(op.Q), c14Name(op.C)); err != nil {
				r.Violation("concurrent:valid-filter-rejected:subscribe:"+c14Wild(op.F...), map[string]interface{}{"op": op, "error": err.Error()})
			}
			merged.apply(op)
		}
		var anchorMask [nAnchors][]uint8
		for a := 0; a < nAnchors; a++ {
			anchorMask[a] = make([]uint8, len(tb.topics))
			for ti := range tb.topics {
				anchorMask[a][ti] = merged.wantMask(tb, ti, a)
			}
		}
		// checkShared: the checks every goroutine may apply to any lookup at any instant
		checkShared := func(who string, ti int, got map[string]byte) {
			for a := 0; a < nAnchors; a++ {
				q, ok := got[c14Name(a)]
				m := anchorMask[a][ti]
				switch {
				case m != 0 && !ok:
					r.Violation("concurrent:anchor-subscription-not-routed", map[string]interface{}{"seen_by": who, "topic": tb.topics[ti], "anchor": c14Name(a), "its_filters": merged.subs[a], "routed_to": got})
				case m == 0 && ok:
					r.Violation("concurrent:anchor-routed-without-matching-subscription", map[string]interface{}{"seen_by": who, "topic": tb.topics[ti], "anchor": c14Name(a), "its_filters": merged.subs[a], "routed_to": got})
				case m != 0 && (q > 7 || m&(1<<q) == 0):
					r.Violation("concurrent:qos:not-from-own-matching-subscription", map[string]interface{}{"seen_by": who, "topic": tb.topics[ti], "anchor": c14Name(a), "qos": q, "its_filters": merged.subs[a]})
				}
			}
			for cid := range got {
				c, known := c14NameIdx[cid]
				if !known || c >= nClients {
					r.Violation("concurrent:routing:extra:unknown-client-id", map[string]interface{}{"seen_by": who, "topic": tb.topics[ti], "routed_to": got})
					continue
				}
				if c >= nAnchors && !ever[c][ti] {
					r.Violation("concurrent:routed-to-client-that-never-holds-a-matching-filter", map[string]interface{}{"seen_by": who, "topic": tb.topics[ti], "client": cid, "routed_to": got})
				}
			}
		}

		var (
			wg            sync.WaitGroup
			start               = make(chan struct{})
			writersLeft   int32 = nWriters
			routersWarmed int32
			overlapRoutes int64
			opsDone       int64
			routesTotal   int64
			writerRefs    = make([]*c14Ref, nWriters)
		)
		for w := 0; w < nWriters; w++ {
			wg.Add(1)
			go func(w int) {
				defer wg.Done()
				defer atomic.AddInt32(&writersLeft, -1)
				ref := c14NewRef()
				writerRefs[w] = ref
				who := fmt.Sprintf("writer%d", w)
				msg, site, panicked := kit.Recover(func() {
					<-start
					for atomic.LoadInt32(&routersWarmed) < nRouters {
						runtime.Gosched()
					}
					for k, op := range scripts[w] {
						cid := c14Name(op.C)
						var err error
						switch op.K {
						case "sub", "resub", "multisub":
							if err = mgr.subscribe(op.F, c14Qos(op.Q), cid); err != nil {
								r.Violation("concurrent:valid-filter-rejected:subscribe:"+c14Wild(op.F...), map[string]interface{}{"writer": w, "step": k, "op": op, "error": err.Error()})
								continue
							}
						case "unsub", "unsub-never":
							if err = mgr.unsubscribe(op.F, cid); err != nil {
								r.Violation("concurrent:valid-filter-rejected:unsubscribe:"+c14Wild(op.F...), map[string]interface{}{"writer": w, "step": k, "op": op, "error": err.Error()})
							}
						case "disc":
							if err = mgr.unsubscribe(ref.filtersOf(op.C), cid); err != nil {
								r.Violation("concurrent:valid-filter-rejected:disconnect-unsubscribe", map[string]interface{}{"writer": w, "step": k, "op": op, "error": err.Error()})
							}
						case "bad-sub":
							if err = mgr.subscribe(op.F, c14Qos(op.Q), cid); err == nil {
								r.Violation("concurrent:malformed-accepted:subscribe:"+op.N, map[string]interface{}{"writer": w, "step": k, "op": op})
								mgr.unsubscribe(op.F, cid)
							}
						}
						ref.apply(op.c14Op)
						atomic.AddInt64(&opsDone, 1)
						r.Eval(1)
						// the writer's own clients, right after its own operation
						for _, ti := range op.Probe {
							got, err := mgr.findSubscribers(tb.topics[ti])
							if err != nil {
								r.Violation("concurrent:routing:error-on-valid-topic-name", map[string]interface{}{"topic": tb.topics[ti], "error": err.Error()})
								continue
							}
							checkShared(who, ti, got)
							for c := nAnchors + w*perW; c < nAnchors+(w+1)*perW; c++ {
								m := ref.wantMask(tb, ti, c)
								q, ok := got[c14Name(c)]
								switch {
								case m != 0 && !ok:
									r.Violation("concurrent:own-subscription-not-routed:after-"+op.K, map[string]interface{}{"writer": w, "step": k, "op": op, "topic": tb.topics[ti], "client": c14Name(c), "its_filters": ref.subs[c], "routed_to": got})
								case m == 0 && ok:
									r.Violation("concurrent:own-client-routed-without-matching-subscription:after-"+op.K, map[string]interface{}{"writer": w, "step": k, "op": op, "topic": tb.topics[ti], "client": c14Name(c), "its_filters": ref.subs[c], "routed_to": got})
								case m != 0 && (q > 7 || m&(1<<q) == 0):
									r.Violation("concurrent:qos:not-from-own-matching-subscription", map[string]interface{}{"writer": w, "step": k, "topic": tb.topics[ti], "client": c14Name(c), "qos": q, "its_filters": ref.subs[c]})
								}
							}
						}
					}
				})
				if panicked {
					r.Violation("concurrent:panic:"+site+":"+kit.MsgClass(msg), map[string]interface{}{"goroutine": who, "panic": msg})
				}
			}(w)
		}
		for g := 0; g < nRouters; g++ {
			wg.Add(1)
			go func(g int) {
				defer wg.Done()
				who := fmt.Sprintf("router%d", g)
				rr := r.Rand(fmt.Sprintf("case/%d/router/%d", i, g))
				warmed := false
				msg, site, panicked := kit.Recover(func() {
					<-start
					for calls := 0; ; calls++ {
						left := atomic.LoadInt32(&writersLeft)
						if left == 0 && calls >= 50 {
							return
						}
						ti := rr.Intn(len(tb.topics))
						before := atomic.LoadInt64(&opsDone)
						got, err := mgr.findSubscribers(tb.topics[ti])
						after := atomic.LoadInt64(&opsDone)
						if err != nil {
							r.Violation("concurrent:routing:error-on-valid-topic-name", map[string]interface{}{"topic": tb.topics[ti], "error": err.Error()})
							continue
						}
						checkShared(who, ti, got)
						atomic.AddInt64(&routesTotal, 1)
						if after != before {
							// at least one writer operation completed while this lookup was in flight
							atomic.AddInt64(&overlapRoutes, 1)
						}
						if !warmed {
							warmed = true
							atomic.AddInt32(&routersWarmed, 1)
						}
					}
				})
				if panicked {
					if !warmed {
						atomic.AddInt32(&routersWarmed, 1) // never leave the writers spinning
					}
					r.Violation("concurrent:panic:"+site+":"+kit.MsgClass(msg), map[string]interface{}{"goroutine": who, "panic": msg})
				}
			}(g)
		}
		close(start)
		wg.Wait()
		r.Count("concurrent_lookups", routesTotal)
		r.Count("lookups_overlapping_a_writer_op", overlapRoutes)
		if overlapRoutes > 0 {
			r.Count("cases_with_overlap", 1)
		}

		// quiescent: final state against the merged reference
		for _, wr := range writerRefs {
			for c, s := range wr.subs {
				for f, q := range s {
					merged.subs[c][f] = q
				}
			}
		}
		x := &c14Exec{r: r, tb: tb, mgr: mgr, cache: cache, ref: merged, nClients: nClients, prefix: "concurrent-final:", cover: map[string]bool{}, kind: "concurrent-phase"}
		x.state = make([][c14MaxClients]uint8, len(tb.topics))
		x.cause = make([][c14MaxClients]string, len(tb.topics))
		x.compareAll(c14Op{K: "concurrent-phase"})
		snap := c14Snapshot(mgr)
		if !c14SameEntries(snap.entries, merged.entries()) {
			r.Violation("concurrent-final:trie-content-differs-from-reference", map[string]interface{}{"trie": c14EntriesText(snap.entries), "reference": c14EntriesText(merged.entries())})
		}
		r.CoverHash("concurrent-final-state", c14EntriesText(merged.entries()))
		// teardown (sequential) with routing comparison after every step, then residue
		for c := 0; c < nClients; c++ {
			for _, f := range merged.filtersOf(c) {
				op := c14Op{K: "unsub", C: c, F: []string{f}}
				x.hist = append(x.hist, op)
				x.kind = "unsub"
				if err := mgr.unsubscribe(op.F, c14Name(c)); err != nil {
					r.Violation("concurrent-final:valid-filter-rejected:unsubscribe:"+c14Wild(f), map[string]interface{}{"op": op, "error": err.Error()})
				}
				merged.apply(op)
				x.compareAll(op)
			}
		}
		x.step(c14Op{K: "residue"})
	}
	r.Require("lookups_overlapping_a_writer_op", 1)
	r.Require("cases_with_overlap", int64(1))
	r.Require("residue_checks", 1)
}

// ---------------------------------------------------------------- part 4: packets mixing well-formed and malformed filters

// TestVerif_C14_MixedPackets: SUBSCRIBE / UNSUBSCRIBE packets that mix well-formed and
// malformed filters.  What "rejected" means for such a packet (the whole packet or only the
// malformed filter) is left open by the property, so the state right after such a packet is
// only recorded (counters explore_*).  Decided is only what every reading agrees on: once the
// client has disconnected (clean session) it holds no subscription at all and must not be
// routed to for any topic, and a bystander client is routed exactly as the reference says.
func TestVerif_C14_MixedPackets(t *testing.T) {
	r := kit.Start(t, "C14")
	defer r.Finish()
	r.Rule("SUBSCRIBE [w,m] / [m,w] and UNSUBSCRIBE [w,m] / [m,w] (w well-formed and subscribed before in the UNSUBSCRIBE cases, m malformed) by client c0 through the real handlers, bystander c1 with two subscriptions; state right after the packet is recorded only; decided after c0 disconnected: c0 is routed for no topic, c1 exactly as the reference; distinct = (packet kind, order, malformation class, immediate outcome)")
	tb := c14Tab()
	n := r.N(240, 4800)
	for i := 0; i < n; i++ {
		if !r.Mine(i) {
			continue
		}
		rng := r.CaseRand(i)
		w := c14RandFilter(rng)
		m, class := c14Malform(rng, c14RandFilter(rng))
		kind := []string{"subscribe", "unsubscribe"}[i%2]
		order := []string{"malformed-last", "malformed-first"}[(i/2)%2]
		cache := 1 + rng.Intn(4)
		by := []string{c14RandFilter(rng), c14Derive(rng, w)}
		r.Case(i, map[string]interface{}{"packet": kind, "order": order, "wellformed": w, "malformed": m, "bystander": by, "topicCacheSize": cache})
		x := c14NewExec(r, cache, 2)
		x.prefix = "mixed-packet:"
		// bystander c1, and for UNSUBSCRIBE the acknowledged subscription of w by c0 (all compared as usual)
		x.step(c14Op{K: "multisub", C: 1, F: by[:1+c14Btoi(by[0] != by[1])], Q: []int{0, 1}[:1+c14Btoi(by[0] != by[1])]})
		if kind == "unsubscribe" {
			x.step(c14Op{K: "sub", C: 0, F: []string{w}, Q: []int{1}})
		}
		fs := []string{w, m}
		if order == "malformed-first" {
			fs = []string{m, w}
		}
		outcome := "?"
		panicked := x.guard(kind, nil, func() {
			if kind == "subscribe" {
				err := x.conns[0].subscribe(fs, []byte{0, 1})
				_, inTrie := c14Snapshot(x.mgr).entries[w+"\x00c0"]
				outcome = fmt.Sprintf("acknowledged=%v,wellformed-filter-in-trie=%v", err == nil, inTrie)
			} else {
				x.conns[0].unsubscribe(fs)
				_, inTrie := c14Snapshot(x.mgr).entries[w+"\x00c0"]
				outcome = fmt.Sprintf("wellformed-filter-still-in-trie=%v", inTrie)
			}
		})
		if panicked {
			x.finish()
			continue
		}
		r.Count("explore_"+kind+"_"+order+":"+outcome, 1)
		r.Cover("mixed:" + kind + ":" + order + ":" + class + ":" + outcome)
		// c0 disconnects: in every reading it now holds nothing
		x.hist = append(x.hist, c14Op{K: "mixed-" + kind, C: 0, F: fs, N: class}, c14Op{K: "disc", C: 0})
		if x.guard("disconnect", nil, func() { x.conns[0].disconnect() }) {
			x.finish()
			continue
		}
		x.ref.apply(c14Op{K: "disc", C: 0})
		stale := 0
		for ti, T := range tb.topics {
			got, err := x.mgr.findSubscribers(T)
			if err != nil {
				r.Violation("mixed-packet:routing:error-on-valid-topic-name", x.detail(map[string]interface{}{"topic": T, "error": err.Error()}))
				continue
			}
			if _, ok := got["c0"]; ok {
				stale++
				if stale == 1 {
					r.Violation("mixed-packet:"+kind+":"+order+":wellformed-filter-survives-disconnect", x.detail(map[string]interface{}{
						"topic": T, "routed_to": got, "packet": fs, "immediate_outcome": outcome, "trie": c14EntriesText(c14Snapshot(x.mgr).entries)}))
				}
			}
			mask := x.ref.wantMask(tb, ti, 1)
			q, ok := got["c1"]
			if (mask != 0) != ok || ok && (q > 7 || mask&(1<<q) == 0) {
				r.Violation("mixed-packet:bystander-routing-differs-from-reference", x.detail(map[string]interface{}{"topic": T, "routed_to": got}))
			}
		}
		r.Eval(1)
		if stale == 0 {
			r.Count("mixed_"+kind+"_"+order+"_clean_after_disconnect", 1)
		} else {
			r.Count("mixed_"+kind+"_"+order+"_stale_after_disconnect", 1)
			// clean the trie by hand so that nothing else is attributed to this case
			x.mgr.unsubscribe([]string{w}, "c0")
		}
		x.finish()
	}
}

func c14Btoi(b bool) int {
	if b {
		return 1
	}
	return 0
}
