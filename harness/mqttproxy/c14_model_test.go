//go:build verif

package mqttproxy

// C14 reference model and generators.  Nothing here shares code with topic.go: the
// matcher is the textbook recursion over strings.Split levels written from the sentence of
// MQTT 3.1.1 section 4.7 ('+' = exactly one level, trailing '#' = the remaining levels
// including none, i.e. the parent level), the reference state is a plain map
// client -> filter -> qos.

import (
	"fmt"
	"math/rand"
	"sort"
	"strings"
	"sync"

	"github.com/megaease/easegress/pkg/logger"
)

func init() { logger.InitNop() }

const (
	c14MaxDepth   = 4
	c14MaxClients = 12
)

func c14Name(c int) string { return fmt.Sprintf("c%d", c) }

// ---------------------------------------------------------------- specification

// c14MatchLevels is the textbook matcher.  The filter is assumed to be well-formed
// ('#' only as the last level).
func c14MatchLevels(f, t []string) bool {
	if len(f) == 0 {
		return len(t) == 0
	}
	if f[0] == "#" {
		return true // the rest of the topic, including nothing at all (parent level)
	}
	if len(t) == 0 {
		return false
	}
	if f[0] == "+" || f[0] == t[0] {
		return c14MatchLevels(f[1:], t[1:])
	}
	return false
}

func c14Matches(filter, topic string) bool {
	return c14MatchLevels(strings.Split(filter, "/"), strings.Split(topic, "/"))
}

// c14ValidFilter: MQTT 3.1.1 4.7.1 — a wildcard occupies a whole level, '#' only last.
// (The empty filter is not judged here: it is never generated.)
func c14ValidFilter(f string) bool {
	ls := strings.Split(f, "/")
	for i, l := range ls {
		if strings.ContainsAny(l, "+#") && len(l) != 1 {
			return false
		}
		if l == "#" && i != len(ls)-1 {
			return false
		}
	}
	return true
}

// c14Shape: one letter per level: L literal, E empty, P '+', H '#'.
func c14Shape(f string) string {
	var b strings.Builder
	for _, l := range strings.Split(f, "/") {
		switch l {
		case "":
			b.WriteByte('E')
		case "+":
			b.WriteByte('P')
		case "#":
			b.WriteByte('H')
		default:
			b.WriteByte('L')
		}
	}
	return b.String()
}

// c14Wild: which wildcards a filter uses, e.g. "filter[+,#]", "filter[literal]".
func c14Wild(fs ...string) string {
	p, h := false, false
	for _, f := range fs {
		p = p || strings.Contains(f, "+")
		h = h || strings.Contains(f, "#")
	}
	switch {
	case p && h:
		return "filter[+,#]"
	case p:
		return "filter[+]"
	case h:
		return "filter[#]"
	}
	return "filter[literal]"
}

// c14MatchKind says how a (matching) filter matches a topic.
func c14MatchKind(f, t string) string {
	fl, tl := strings.Split(f, "/"), strings.Split(t, "/")
	k := "exact-depth"
	if fl[len(fl)-1] == "#" {
		if len(tl) == len(fl)-1 {
			k = "hash-parent"
		} else {
			k = "hash-rest"
		}
	}
	for i, l := range fl {
		if l == "+" && i < len(tl) && tl[i] == "" {
			return k + ":plus-on-empty-level"
		}
	}
	for i, l := range fl {
		if l == "" && i < len(tl) {
			return k + ":empty-level"
		}
	}
	return k
}

// ---------------------------------------------------------------- finite alphabets

type c14Tables struct {
	topics   []string          // all topic names over {a,b,""} to depth 4, without ""
	filters  []string          // all well-formed filters over {a,b,"",+,#} to depth 4, without ""
	byDepth  [][]string        // filters by depth (index 1..4)
	match    map[string][]bool // filter -> per topic index (memo of c14Matches)
	badLevel []string
}

var (
	c14TabOnce sync.Once
	c14TabVal  *c14Tables
)

func c14Tab() *c14Tables {
	c14TabOnce.Do(func() {
		tb := &c14Tables{match: map[string][]bool{}, byDepth: make([][]string, c14MaxDepth+1)}
		var rec func(levels []string, alphabet []string, depth int, out *[]string)
		rec = func(levels []string, alphabet []string, depth int, out *[]string) {
			if len(levels) > 0 {
				s := strings.Join(levels, "/")
				if s != "" {
					*out = append(*out, s)
				}
			}
			if len(levels) == depth {
				return
			}
			for _, a := range alphabet {
				rec(append(append([]string{}, levels...), a), alphabet, depth, out)
			}
		}
		rec(nil, []string{"a", "b", ""}, c14MaxDepth, &tb.topics)
		var all []string
		rec(nil, []string{"a", "b", "", "+", "#"}, c14MaxDepth, &all)
		for _, f := range all {
			if c14ValidFilter(f) {
				tb.filters = append(tb.filters, f)
				d := strings.Count(f, "/") + 1
				tb.byDepth[d] = append(tb.byDepth[d], f)
			}
		}
		for _, f := range tb.filters {
			row := make([]bool, len(tb.topics))
			for i, t := range tb.topics {
				row[i] = c14Matches(f, t)
			}
			tb.match[f] = row
		}
		tb.badLevel = []string{"a#", "#a", "a+", "+a", "++", "+#", "#+", "##", "a+b", "b#a"}
		c14TabVal = tb
	})
	return c14TabVal
}

func (tb *c14Tables) row(f string) []bool {
	if r, ok := tb.match[f]; ok {
		return r
	}
	row := make([]bool, len(tb.topics)) // filter outside the enumerated set: computed, not memoised
	for i, t := range tb.topics {
		row[i] = c14Matches(f, t)
	}
	return row
}

// ---------------------------------------------------------------- reference state

type c14Op struct {
	K string   `json:"k"` // sub resub multisub unsub multiunsub unsub-never disc bad-sub bad-unsub residue
	C int      `json:"c"`
	F []string `json:"f,omitempty"`
	Q []int    `json:"q,omitempty"`
	N string   `json:"n,omitempty"` // class of the op, for coverage / signatures (disc: how the connection ends, see c14End*)
	L string   `json:"l,omitempty"` // disc only: the packet (F, Q) the read loop still processes after the client object was closed
}

// The ways a connection can end.  In all of them the last thing that happens is the end of
// Client.readLoop (closeAndDelSession, removeClient); they differ in who closed the client
// object before that, and in whether the read loop still processed one packet after that close
// (it looks at the done channel only between two packets, so a packet that was on its way is
// read and processed; a second one is not).
const (
	c14EndPlain  = ""                                          // DISCONNECT / read error / keep-alive: nobody closed the client before
	c14EndBroker = "client-closed-first:broker-session-delete" // Broker.deleteSession (session deleted through the store / admin API)
	c14EndClose  = "client-closed-first:close-only"            // Client.close alone (pipeline answered Disconnect, watcher re-sync)
	c14EndWriter = "client-closed-first:write-loop-teardown"   // Client.writeLoop met a write error: closeAndDelSession
	c14LateSub   = "late-subscribe"
	c14LateUnsub = "late-unsubscribe"
)

// c14EndOp builds the disconnect of client c; sel selects the way the connection ends (a pure
// function of the position in the history: the generator's random stream is not consumed).
// The late packet takes its filter from pool (SUBSCRIBE) or from the held filters (UNSUBSCRIBE).
func c14EndOp(c int, sel int, pool []string, held []string) c14Op {
	op := c14Op{K: "disc", C: c}
	if sel < 0 {
		sel = -sel
	}
	src := pool
	if len(src) == 0 {
		src = held
	}
	sub := func() {
		if len(src) > 0 {
			op.L, op.F, op.Q = c14LateSub, []string{src[(sel/9)%len(src)]}, []int{(sel / 9) % 2}
		}
	}
	unsub := func() {
		if len(held) > 0 {
			op.L, op.F = c14LateUnsub, []string{held[(sel/9)%len(held)]}
		} else if len(src) > 0 {
			op.L, op.F = c14LateUnsub, []string{src[(sel/9)%len(src)]}
		}
	}
	switch sel % 9 {
	case 0, 1:
		op.N = c14EndPlain
	case 2:
		op.N = c14EndBroker
	case 3:
		op.N = c14EndBroker
		sub()
	case 4:
		op.N = c14EndBroker
		unsub()
	case 5:
		op.N = c14EndClose
	case 6:
		op.N = c14EndWriter
	case 7:
		op.N = c14EndWriter
		sub()
	case 8:
		op.N = c14EndWriter
		unsub()
	}
	return op
}

// c14EndLabel names the way a connection ended (counters, coverage, signatures).
func c14EndLabel(op c14Op) string {
	n, l := op.N, op.L
	if n == c14EndPlain {
		n = "client-open-until-read-loop-end"
	}
	if l == "" {
		l = "no-late-packet"
	}
	return n + ":" + l
}

type c14Ref struct {
	subs [c14MaxClients]map[string]byte
}

func c14NewRef() *c14Ref {
	m := &c14Ref{}
	for i := range m.subs {
		m.subs[i] = map[string]byte{}
	}
	return m
}

func (m *c14Ref) apply(op c14Op) {
	switch op.K {
	case "sub", "resub", "multisub":
		for i, f := range op.F {
			m.subs[op.C][f] = byte(op.Q[i])
		}
	case "unsub", "multiunsub", "unsub-never":
		for _, f := range op.F {
			delete(m.subs[op.C], f)
		}
	case "disc":
		m.subs[op.C] = map[string]byte{}
	}
}

func (m *c14Ref) live() int {
	n := 0
	for _, s := range m.subs {
		n += len(s)
	}
	return n
}

// wantMask: bit q set iff client c holds a live subscription with QoS q whose filter
// matches topic ti; 0 = the client must not be routed to.
func (m *c14Ref) wantMask(tb *c14Tables, ti int, c int) uint8 {
	var mask uint8
	for f, q := range m.subs[c] {
		if tb.row(f)[ti] {
			mask |= 1 << q
		}
	}
	return mask
}

// firstMatching returns the (sorted) first live filter of c matching topic ti.
func (m *c14Ref) firstMatching(tb *c14Tables, ti int, c int) string {
	var fs []string
	for f := range m.subs[c] {
		if tb.row(f)[ti] {
			fs = append(fs, f)
		}
	}
	sort.Strings(fs)
	if len(fs) == 0 {
		return ""
	}
	return fs[0]
}

func (m *c14Ref) filtersOf(c int) []string {
	var fs []string
	for f := range m.subs[c] {
		fs = append(fs, f)
	}
	sort.Strings(fs)
	return fs
}

func (m *c14Ref) heldByOther(c int, f string) bool {
	for i, s := range m.subs {
		if i != c {
			if _, ok := s[f]; ok {
				return true
			}
		}
	}
	return false
}

func (m *c14Ref) anyLiveWithPrefix(p string) bool {
	for _, s := range m.subs {
		for f := range s {
			if strings.HasPrefix(f, p) {
				return true
			}
		}
	}
	return false
}

func (m *c14Ref) anyLiveAncestorOf(f string) bool {
	for _, s := range m.subs {
		for g := range s {
			if strings.HasPrefix(f, g+"/") {
				return true
			}
		}
	}
	return false
}

// entries: the reference as "filter\x00client" -> qos (comparable with a trie snapshot).
func (m *c14Ref) entries() map[string]byte {
	out := map[string]byte{}
	for c, s := range m.subs {
		for f, q := range s {
			out[f+"\x00"+c14Name(c)] = q
		}
	}
	return out
}

// ---------------------------------------------------------------- generators

func c14Pick(rng *rand.Rand, items []string, weights []int) string {
	tot := 0
	for _, w := range weights {
		tot += w
	}
	n := rng.Intn(tot)
	for i, w := range weights {
		if n < w {
			return items[i]
		}
		n -= w
	}
	return items[len(items)-1]
}

func c14RandFilter(rng *rand.Rand) string {
	for {
		d := 1 + []int{0, 0, 1, 1, 1, 1, 2, 2, 2, 2, 3, 3, 3}[rng.Intn(13)]
		ls := make([]string, d)
		for i := 0; i < d-1; i++ {
			ls[i] = c14Pick(rng, []string{"a", "b", "", "+"}, []int{35, 25, 15, 25})
		}
		ls[d-1] = c14Pick(rng, []string{"a", "b", "", "+", "#"}, []int{25, 20, 12, 18, 25})
		f := strings.Join(ls, "/")
		if f != "" {
			return f
		}
	}
}

// c14Derive returns a well-formed filter structurally related to f (parent, extension,
// wildcard substitution, sibling) so that histories share trie prefixes.
func c14Derive(rng *rand.Rand, f string) string {
	ls := strings.Split(f, "/")
	d := len(ls)
	out := append([]string{}, ls...)
	switch rng.Intn(7) {
	case 0: // parent
		if d > 1 {
			out = out[:d-1]
		}
	case 1: // last level -> '#'
		out[d-1] = "#"
	case 2: // extension by '#'
		if d < c14MaxDepth && ls[d-1] != "#" {
			out = append(out, "#")
		}
	case 3: // extension by a level
		if d < c14MaxDepth && ls[d-1] != "#" {
			out = append(out, c14Pick(rng, []string{"a", "b", "", "+"}, []int{3, 3, 2, 2}))
		}
	case 4: // some level -> '+'
		out[rng.Intn(d)] = "+"
	case 5: // some level -> ""
		out[rng.Intn(d)] = ""
	case 6: // sibling
		i := rng.Intn(d)
		if out[i] == "a" {
			out[i] = "b"
		} else {
			out[i] = "a"
		}
	}
	g := strings.Join(out, "/")
	if g == "" || !c14ValidFilter(g) {
		return f
	}
	return g
}

func c14GenPool(rng *rand.Rand) []string {
	n := 5 + rng.Intn(5)
	seen := map[string]bool{}
	var pool []string
	for len(pool) < n {
		var f string
		if len(pool) == 0 || rng.Intn(3) == 0 {
			f = c14RandFilter(rng)
		} else {
			f = c14Derive(rng, pool[rng.Intn(len(pool))])
		}
		if !seen[f] {
			seen[f] = true
			pool = append(pool, f)
		} else if rng.Intn(4) == 0 {
			n-- // do not spin on tiny neighbourhoods
		}
	}
	return pool
}

// c14Malform corrupts a well-formed filter; returns the malformed filter and its class.
func c14Malform(rng *rand.Rand, f string) (string, string) {
	tb := c14Tab()
	ls := strings.Split(f, "/")
	for {
		out := append([]string{}, ls...)
		class := ""
		if len(out) >= 2 && rng.Intn(3) == 0 {
			out[rng.Intn(len(out)-1)] = "#"
			class = "hash-not-last"
		} else {
			bad := tb.badLevel[rng.Intn(len(tb.badLevel))]
			out[rng.Intn(len(out))] = bad
			class = c14BadLevelClass(bad)
		}
		g := strings.Join(out, "/")
		if !c14ValidFilter(g) {
			return g, class
		}
	}
}

func c14BadLevelClass(l string) string {
	nw := strings.Count(l, "+") + strings.Count(l, "#")
	switch {
	case nw >= 2:
		return "two-wildcards-in-level"
	case strings.Contains(l, "#"):
		return "hash-inside-level"
	}
	return "plus-inside-level"
}

func c14NeverClass(ref *c14Ref, c int, f string) string {
	switch {
	case ref.heldByOther(c, f):
		return "held-by-other-client"
	case ref.anyLiveWithPrefix(f + "/"):
		return "prefix-of-live-filter"
	case ref.anyLiveAncestorOf(f):
		return "extension-of-live-filter"
	}
	return "absent"
}

func c14UnsubClass(ref *c14Ref, c int, f string) string {
	last := !ref.heldByOther(c, f)
	return fmt.Sprintf("last-holder=%v,live-descendants=%v,live-ancestors=%v", last, ref.anyLiveWithPrefix(f+"/"), ref.anyLiveAncestorOf(f))
}

// c14Teardown removes every live subscription of the reference (shuffled; single
// unsubscribes, two-filter unsubscribes and disconnects) and ends with the residue marker.
func c14Teardown(rng *rand.Rand, ref *c14Ref, nClients int) []c14Op {
	var ops []c14Op
	for ref.live() > 0 {
		c := rng.Intn(nClients)
		fs := ref.filtersOf(c)
		if len(fs) == 0 {
			continue
		}
		var op c14Op
		switch x := rng.Intn(10); {
		case x < 3:
			op = c14EndOp(c, len(ops)+2*c+3*ref.live(), nil, fs)
		case x < 5 && len(fs) >= 2:
			i := rng.Intn(len(fs))
			j := (i + 1 + rng.Intn(len(fs)-1)) % len(fs)
			op = c14Op{K: "multiunsub", C: c, F: []string{fs[i], fs[j]}}
		default:
			f := fs[rng.Intn(len(fs))]
			op = c14Op{K: "unsub", C: c, F: []string{f}, N: c14UnsubClass(ref, c, f)}
		}
		ref.apply(op)
		ops = append(ops, op)
	}
	return append(ops, c14Op{K: "residue"})
}

// c14GenHistory: seeded history of nOps operations by nClients clients, built against the
// reference only (the real code is not consulted), with a full teardown + residue check at
// the end and sometimes in the middle (routing after a residue point is "later routing").
func c14GenHistory(rng *rand.Rand, nClients, nOps int) []c14Op {
	ref := c14NewRef()
	pool := c14GenPool(rng)
	var ops []c14Op
	mid := -1
	if rng.Intn(100) < 40 {
		mid = nOps/3 + rng.Intn(nOps/3+1)
	}
	pickFilter := func() string {
		if rng.Intn(4) == 0 {
			return c14RandFilter(rng)
		}
		return pool[rng.Intn(len(pool))]
	}
	for k := 0; k < nOps; k++ {
		if k == mid {
			ops = append(ops, c14Teardown(rng, ref, nClients)...)
		}
		c := rng.Intn(nClients)
		held := ref.filtersOf(c)
		var op c14Op
		x := rng.Intn(100)
		if ref.live() < 3 && x >= 40 && x < 77 {
			x = 0 // keep the trie populated
		}
		switch {
		case x < 35:
			op = c14Op{K: "sub", C: c, F: []string{pickFilter()}, Q: []int{rng.Intn(2)}}
		case x < 45 && len(held) > 0:
			f := held[rng.Intn(len(held))]
			op = c14Op{K: "resub", C: c, F: []string{f}, Q: []int{1 - int(ref.subs[c][f])}}
		case x < 65 && len(held) > 0:
			f := held[rng.Intn(len(held))]
			op = c14Op{K: "unsub", C: c, F: []string{f}, N: c14UnsubClass(ref, c, f)}
		case x < 75:
			var f string
			for tries := 0; ; tries++ {
				switch y := rng.Intn(3); {
				case y == 0 && len(held) > 0:
					f = c14Derive(rng, held[rng.Intn(len(held))])
				case y == 1:
					f = pool[rng.Intn(len(pool))]
				default:
					f = c14RandFilter(rng)
				}
				if _, ok := ref.subs[c][f]; !ok {
					break
				}
			}
			op = c14Op{K: "unsub-never", C: c, F: []string{f}, N: c14NeverClass(ref, c, f)}
		case x < 81:
			op = c14EndOp(c, k+4*c+3*len(held)+len(pool), pool, held)
		case x < 87:
			g, class := c14Malform(rng, pickFilter())
			op = c14Op{K: "bad-sub", C: c, F: []string{g}, Q: []int{rng.Intn(2)}, N: class}
		case x < 91:
			g, class := c14Malform(rng, pickFilter())
			op = c14Op{K: "bad-unsub", C: c, F: []string{g}, N: class}
		default:
			n := 2 + rng.Intn(2)
			seen := map[string]bool{}
			op = c14Op{K: "multisub", C: c}
			for len(op.F) < n {
				f := pickFilter()
				if !seen[f] {
					seen[f] = true
					op.F = append(op.F, f)
					op.Q = append(op.Q, rng.Intn(2))
				}
			}
		}
		ref.apply(op)
		ops = append(ops, op)
	}
	return append(ops, c14Teardown(rng, ref, nClients)...)
}
